(* BrakingP.v -- the speed-limit controller over the reals (C03):
   braking points (target <= limit: proved for the fixed construction, refuted for the code as it
   is), calc_speeds, the step's speed bounds under the two adequacy hypotheses, exit of the walk. *)
From Coq Require Import Reals Lra Lia List Bool ZArith Arith.
From AltModel Require Import Num Interp Resist Braking TrainStep.
From AltProofs Require Import NumR ResistP TrainStepP.
Import ListNotations.
Open Scope R_scope.

Notation SPr := (SP (F:=R)).
Notation BrkEnvr := (BrkEnv (F:=R)).

Definition pt_ok (p : BPr) : Prop := 0 <= bp_target p <= bp_limit p.

(* ------------------------------------------------------------------ calc_speeds *)
Lemma cs_target_le (pts : list BPr) far : forall idx tgt r,
  cs_target pts far idx tgt = Ok r -> r <= tgt.
Proof.
  induction idx as [|j IH]; intros tgt r H; cbn in H.
  - inversion H; lra.
  - destruct (nth_error pts j) as [p|]; [|discriminate]. numR.
    destruct (Rleb (bp_offset p) far).
    + apply IH in H. pose proof (Rmin_l tgt (bp_target p)). lra.
    + inversion H; lra.
Qed.

Lemma cs_target_nonneg (pts : list BPr) far : Forall pt_ok pts -> forall idx tgt r,
  0 <= tgt -> cs_target pts far idx tgt = Ok r -> 0 <= r.
Proof.
  intros Hall. induction idx as [|j IH]; intros tgt r Ht H; cbn in H.
  - inversion H; subst; lra.
  - destruct (nth_error pts j) as [p|] eqn:E; [|discriminate]. numR.
    destruct (Rleb (bp_offset p) far).
    + apply IH in H; auto. apply nth_error_In in E.
      rewrite Forall_forall in Hall. destruct (Hall _ E). apply Rmin_glb; lra.
    + inversion H; subst; lra.
Qed.

(* whatever index it lands on, the pair it returns is (limit of that point, a minimum of targets
   that includes that point's own target): if every point has 0 <= target <= limit, then
   0 <= speed_target <= speed_limit *)
Theorem calc_speeds_target_le_limit (pts : list BPr) idx offset speed adj ic lim tgt :
  Forall pt_ok pts -> calc_speeds pts idx offset speed adj = Ok (ic, lim, tgt) ->
  0 <= tgt <= lim /\ speed <= lim /\ exists p, nth_error pts ic = Some p /\ lim = bp_limit p.
Proof.
  intros Hall H. unfold calc_speeds in H. destruct pts as [|p0 t] eqn:Ep; [discriminate|]. rewrite <- Ep in *.
  binv H ic0 Hic. destruct (nth_error pts ic0) as [pc|] eqn:Epc; [|discriminate].
  pas H. apply passert_ok in E. numR. apply Rleb_true in E.
  binv H tg Htg. inversion H; subst ic lim tgt; clear H.
  pose proof Hall as HallF.
  pose proof (nth_error_In _ _ Epc) as Hin. rewrite Forall_forall in Hall. destruct (Hall _ Hin) as [T0 T1].
  split; [split|].
  - eapply cs_target_nonneg; [exact HallF| |exact Htg]. exact T0.
  - apply cs_target_le in Htg. lra.
  - split; [exact E|]. exists pc. auto.
Qed.

(* ------------------------------------------------------------------ recalc, fixed construction *)
Lemma ts_at_frame (st : TStater) x v : ts_p (ts_at st x v) = ts_p st /\ k_dt (ts_k (ts_at st x v)) = k_dt (ts_k st).
Proof. split; reflexivity. Qed.

Definition st_ok (st : TStater) : Prop := 0 <= k_dt (ts_k st) /\ 0 < mass_compound (ts_p st).

Lemma brake_loop_inv : forall fuel (e : BrkEnvr) st c acc idx acc' idx' st' c',
  be_fix e = true -> st_ok st -> Forall pt_ok acc ->
  brake_loop fuel e st c acc idx = Ok (acc', idx', st', c') ->
  Forall pt_ok acc' /\ st_ok st' /\ acc' <> [].
Proof.
  induction fuel as [|f IH]; intros e st c acc idx acc' idx' st' c' Hfix Hst Hacc H; cbn [brake_loop] in H;
    [discriminate|].
  destruct acc as [|bp acc0]; [discriminate|].
  binv H idx1 Hidx. destruct (nth_error (be_sps e) idx1) as [s|]; [|discriminate].
  binv H sc Hu. destruct sc as [st2 c2]. cbv beta iota in H.
  ens H. numR. apply Rltb_true in E.
  destruct (update_res_frame _ _ _ _ _ _ _ _ Hu) as (Fp & _ & _ & _ & _ & _ & _ & _ & _ & _ & _ & _ & Fdt).
  assert (Hst2 : st_ok st2).
  { destruct Hst as [D M]. split.
    - rewrite Fdt. cbn. exact D.
    - rewrite Fp. cbn. exact M. }
  destruct Hst2 as [D2 M2].
  set (vc := k_dt (ts_k st2) * (be_force_max e + res_net (ts_r st2)) / mass_compound (ts_p st2)) in *.
  assert (Hvc : 0 <= vc).
  { unfold vc. apply Rmult_le_pos; [apply Rmult_le_pos; lra|]. apply Rlt_le, Rinv_0_lt_compat, M2. }
  pose proof (Forall_inv Hacc) as [B0 B1].
  rewrite Hfix in H.
  destruct (Rltb (Rabs (sp_limit s)) (bp_limit bp + vc)) eqn:Ecap.
  - (* capped point: limit = |profile limit|, target = min(previous target, that limit) *)
    set (nb := {| bp_offset := bp_offset bp - k_dt (ts_k st2) * Rabs (sp_limit s);
                  bp_limit := Rabs (sp_limit s);
                  bp_target := Rmin (bp_target bp) (Rabs (sp_limit s)) |}) in *.
    assert (Hnb : pt_ok nb).
    { unfold pt_ok, nb. cbn. pose proof (Rabs_pos (sp_limit s)). split; [apply Rmin_glb; lra|apply Rmin_r]. }
    destruct (Reqb (bp_limit bp) (Rabs (sp_limit s))).
    + inversion H; subst. split; [constructor; auto|]. split; [split; auto|discriminate].
    + destruct (Rltb (bp_offset nb) (be_offset_begin e)).
      * inversion H; subst. split; [constructor; auto|]. split; [split; auto|discriminate].
      * eapply IH; [exact Hfix| | |exact H]; [split; assumption|constructor; auto].
  - set (nb := {| bp_offset := bp_offset bp - k_dt (ts_k st2) * (bp_limit bp + half * vc);
                  bp_limit := bp_limit bp + vc; bp_target := bp_target bp |}) in *.
    assert (Hnb : pt_ok nb) by (unfold pt_ok, nb; cbn; lra).
    destruct (Rltb (bp_offset nb) (be_offset_begin e)).
    + inversion H; subst. split; [constructor; auto|]. split; [split; auto|discriminate].
    + eapply IH; [exact Hfix| | |exact H]; [split; assumption|constructor; auto].
Qed.

Lemma recalc_outer_inv : forall fo fi (e : BrkEnvr) st c acc idx acc',
  be_fix e = true -> st_ok st -> Forall pt_ok acc ->
  recalc_outer fo fi e st c acc idx = Ok acc' -> Forall pt_ok acc'.
Proof.
  induction fo as [|fo IH]; intros fi e st c acc idx acc' Hfix Hst Hacc H; cbn [recalc_outer] in H.
  - destruct idx; [inversion H; subst; auto|discriminate].
  - destruct idx as [|j]; [inversion H; subst; auto|].
    destruct (nth_error (be_sps e) j) as [s|]; [|destruct acc; discriminate].
    destruct acc as [|lastp acc0]; [discriminate|].
    binv H r1 Hr1. destruct r1 as [[[acc1 j1] st1] c1]. cbv beta iota in H.
    destruct (nth_error (be_sps e) j1) as [s1|]; [|discriminate].
    assert (Forall pt_ok acc1 /\ st_ok st1) as [A1 S1].
    { destruct (nltb (bp_limit lastp) (nabs (sp_limit s))).
      - eapply brake_loop_inv in Hr1; eauto. tauto.
      - inversion Hr1; subst. auto. }
    eapply IH in H; eauto. constructor; auto.
    unfold pt_ok. cbn. numR. pose proof (Rabs_pos (sp_limit s1)). lra.
Qed.

(* C03 bp_target_le_limit, for the FIXED construction and every profile, route and train: every
   braking point has 0 <= target <= limit *)
Theorem bp_target_le_limit_fixed fuel (e : BrkEnvr) offset_end st c pts idx :
  be_fix e = true -> 0 <= k_dt (ts_k st) -> 0 < mass_compound (ts_p st) ->
  recalc fuel e offset_end st c = Ok (pts, idx) -> Forall pt_ok pts.
Proof.
  intros Hfix D M H. unfold recalc in H.
  binv H sc Hu. destruct sc as [st1 c1]. cbv beta iota in H.
  binv H acc Hacc. inversion H; subst pts idx; clear H.
  destruct (update_res_frame _ _ _ _ _ _ _ _ Hu) as (Fp & _ & _ & _ & _ & _ & _ & _ & _ & _ & _ & _ & Fdt).
  apply recalc_outer_inv in Hacc; auto.
  - apply Forall_rev. exact Hacc.
  - split; [rewrite Fdt; cbn; exact D|rewrite Fp; cbn; exact M].
  - constructor; [|constructor]. unfold pt_ok. cbn. numR. lra.
Qed.

(* hence the pair the controller works with *)
Corollary target_le_limit_fixed fuel (e : BrkEnvr) offset_end st c pts idx i offset speed adj ic lim tgt :
  be_fix e = true -> 0 <= k_dt (ts_k st) -> 0 < mass_compound (ts_p st) ->
  recalc fuel e offset_end st c = Ok (pts, idx) ->
  calc_speeds pts i offset speed adj = Ok (ic, lim, tgt) -> 0 <= tgt <= lim.
Proof.
  intros Hfix D M H Hc. eapply bp_target_le_limit_fixed in H; eauto.
  eapply calc_speeds_target_le_limit in Hc; eauto. tauto.
Qed.

(* ------------------------------------------------------------------ the step's speed bounds *)
(* BrakeAdequate: the force the target asks for is not below what friction + dynamic braking can
   deliver this step; TractionAdequate: the available tractive force is not below the resistance
   by more than m v / dt *)
Definition BrakeAdequate (ax : SLAux (F:=R)) : Prop := - ax_f_brake_avail ax <= ax_f_target ax.
Definition TractionAdequate (mc v dt : R) (ax : SLAux (F:=R)) : Prop :=
  ax_res_net ax - ax_f_pos_max ax <= mc * v / dt.

Lemma sl_aux_facts (e : Envr) pts (cl : ConLimr) (s s' : SLStater) ax :
  sl_solve_step_aux e pts cl s = Ok (s', ax) ->
  let k := ts_k (sl_st s) in let p := ts_p (sl_st s) in let k' := ts_k (sl_st s') in
  let dt := k_dt k in let mc := mass_compound p in
  ax_f_target ax = ax_res_net ax + mc * (k_speed_target k' - k_speed k) / dt /\
  ax_f_applied ax = Rmin (ax_f_pos_max ax) (Rmax (ax_f_target ax) (- ax_f_brake_avail ax)) /\
  ax_speed_raw ax = k_speed k + dt / mc * (ax_f_applied ax - ax_res_net ax) /\
  (k_speed k' = ax_speed_raw ax \/ k_speed k' = k_speed_target k') /\
  (exists ic lim tgt, calc_speeds pts (sl_idx s) (k_offset k) (k_speed k)
        (fb_ramp_up_time (sl_fb s) * fb_ramp_up_coeff (sl_fb s)) = Ok (ic, lim, tgt) /\
        k_speed_limit k' = lim /\ k_speed_target k' = tgt /\ sl_idx s' = ic).
Proof.
  unfold sl_solve_step_aux. intros H.
  binv H sc1 Hu. destruct sc1 as [st1 c1]. cbv beta iota in H.
  destruct (update_res_frame _ _ _ _ _ _ _ _ Hu) as (Fp & Fw & Ft & Fi & Fo & Fb & Fd & Fl & Foil & Fs & Fsl & Fst & Fdt).
  ens H. binv H cs Hcs. destruct cs as [[ic slim] stgt]. cbv beta iota in H.
  ens H. ens H. binv H fc Hfc. destruct fc as [f_consist fbf]. cbv beta iota in H.
  ens H. ens H. binv H lo Hl. destruct lo as [lnk oil]. cbv beta iota in H.
  apply ok_pair_inj in H. destruct H as [<- <-].
  cbn [sl_st sl_idx ts_k ts_p k_speed k_speed_target k_speed_limit ax_f_target ax_f_applied ax_f_pos_max ax_f_brake_avail
       ax_res_net ax_speed_raw].
  rewrite Fp, Fo, Fs, Fdt in *. numR.
  split; [reflexivity|]. split.
  { f_equal. f_equal. ring. }
  split; [reflexivity|]. split.
  - match goal with |- context [if ?b then _ else _] => destruct b end; auto.
  - exists ic, slim, stgt. auto.
Qed.

(* since the /repo fix of the "sufficient power to move" guard, every ACCEPTED step has adequate traction: the guard refuses
   exactly the steps whose available tractive force is below the resistance by more than m v / dt *)
Lemma accepted_step_traction (e : Envr) pts (cl : ConLimr) (s s' : SLStater) ax :
  sl_solve_step_aux e pts cl s = Ok (s', ax) ->
  0 < k_dt (ts_k (sl_st s)) -> 0 < mass_compound (ts_p (sl_st s)) ->
  TractionAdequate (mass_compound (ts_p (sl_st s))) (k_speed (ts_k (sl_st s))) (k_dt (ts_k (sl_st s))) ax.
Proof.
  unfold sl_solve_step_aux. intros H Hdt Hmc.
  binv H sc1 Hu. destruct sc1 as [st1 c1]. cbv beta iota in H.
  destruct (update_res_frame _ _ _ _ _ _ _ _ Hu) as (Fp & Fw & Ft & Fi & Fo & Fb & Fd & Fl & Foil & Fs & Fsl & Fst & Fdt).
  ens H. binv H cs Hcs. destruct cs as [[ic slim] stgt]. cbv beta iota in H.
  ens H. ens H.
  match goal with E : negb (_ || ?b) = true |- _ => assert (Hg : b = false) by
    (apply negb_true_iff in E; apply orb_false_iff in E; exact (proj2 E)) end.
  binv H fc Hfc. destruct fc as [f_consist fbf]. cbv beta iota in H.
  ens H. ens H. binv H lo Hl. destruct lo as [lnk oil]. cbv beta iota in H.
  apply ok_pair_inj in H. destruct H as [<- <-].
  unfold TractionAdequate. cbn [ax_res_net ax_f_pos_max].
  rewrite Fp, Fs, Fdt in *. numR. apply Rltb_false in Hg.
  set (dt := k_dt (ts_k (sl_st s))) in *. set (mc := mass_compound (ts_p (sl_st s))) in *.
  set (v := k_speed (ts_k (sl_st s))) in *.
  match type of Hg with 0 <= v + dt / mc * (?f - ?r) =>
    assert (Hq : 0 < dt / mc) by (apply Rdiv_lt_0_compat; assumption);
    assert (Hm : mc / dt * (dt / mc * (f - r)) = f - r) by (field; split; lra);
    assert (Hp : 0 < mc / dt) by (apply Rdiv_lt_0_compat; assumption);
    assert (Hx : 0 <= mc / dt * (v + dt / mc * (f - r))) by (apply Rmult_le_pos; lra);
    assert (Hy : mc / dt * (v + dt / mc * (f - r)) = mc * v / dt + (f - r)) by (field; split; lra)
  end.
  lra.
Qed.

(* C03 step_speed_le_target: with adequate braking the speed after the step is not above the target *)
Theorem step_speed_le_target (e : Envr) pts cl (s s' : SLStater) ax :
  sl_solve_step_aux e pts cl s = Ok (s', ax) ->
  0 < k_dt (ts_k (sl_st s)) -> 0 < mass_compound (ts_p (sl_st s)) ->
  BrakeAdequate ax ->
  k_speed (ts_k (sl_st s')) <= k_speed_target (ts_k (sl_st s')).
Proof.
  intros H Hdt Hmc Hb. apply sl_aux_facts in H. cbv zeta in H.
  destruct H as (Ft & Fa & Fr & Fs & _). unfold BrakeAdequate in Hb.
  set (dt := k_dt (ts_k (sl_st s))) in *. set (mc := mass_compound (ts_p (sl_st s))) in *.
  set (v := k_speed (ts_k (sl_st s))) in *. set (tgt := k_speed_target (ts_k (sl_st s'))) in *.
  assert (Hle : ax_f_applied ax <= ax_f_target ax).
  { rewrite Fa. rewrite (Rmax_left (ax_f_target ax)) by lra. apply Rmin_r. }
  assert (Hraw : ax_speed_raw ax <= tgt).
  { rewrite Fr.
    assert (dt / mc * (ax_f_applied ax - ax_res_net ax) <= dt / mc * (ax_f_target ax - ax_res_net ax)).
    { apply Rmult_le_compat_l; [|lra]. apply Rlt_le. apply Rdiv_lt_0_compat; assumption. }
    assert (dt / mc * (ax_f_target ax - ax_res_net ax) = tgt - v).
    { rewrite Ft. field. split; lra. }
    lra. }
  destruct Fs as [-> | ->]; lra.
Qed.

(* C03 step_speed_nonneg: with adequate traction (and a non-negative target) the train does not reverse *)
Theorem step_speed_nonneg (e : Envr) pts cl (s s' : SLStater) ax :
  sl_solve_step_aux e pts cl s = Ok (s', ax) ->
  0 < k_dt (ts_k (sl_st s)) -> 0 < mass_compound (ts_p (sl_st s)) ->
  0 <= k_speed (ts_k (sl_st s)) -> 0 <= k_speed_target (ts_k (sl_st s')) ->
  TractionAdequate (mass_compound (ts_p (sl_st s))) (k_speed (ts_k (sl_st s))) (k_dt (ts_k (sl_st s))) ax ->
  0 <= k_speed (ts_k (sl_st s')) /\ 0 <= ax_speed_raw ax.
Proof.
  intros H Hdt Hmc Hv Htg Ht. apply sl_aux_facts in H. cbv zeta in H.
  destruct H as (Ft & Fa & Fr & Fs & _). unfold TractionAdequate in Ht.
  set (dt := k_dt (ts_k (sl_st s))) in *. set (mc := mass_compound (ts_p (sl_st s))) in *.
  set (v := k_speed (ts_k (sl_st s))) in *. set (tgt := k_speed_target (ts_k (sl_st s'))) in *.
  assert (Hq : 0 < dt / mc) by (apply Rdiv_lt_0_compat; assumption).
  (* the applied force is at least min(f_pos_max, f_target); both are >= res_net - m v / dt *)
  assert (H1 : ax_res_net ax - mc * v / dt <= ax_f_target ax).
  { rewrite Ft. assert (mc * (tgt - v) / dt = mc * tgt / dt - mc * v / dt) by (field; lra).
    assert (0 <= mc * tgt / dt).
    { apply Rmult_le_pos; [apply Rmult_le_pos; lra|]. apply Rlt_le, Rinv_0_lt_compat, Hdt. }
    lra. }
  assert (H2 : ax_res_net ax - mc * v / dt <= ax_f_applied ax).
  { rewrite Fa. apply Rmin_glb; [lra|]. pose proof (Rmax_l (ax_f_target ax) (- ax_f_brake_avail ax)). lra. }
  assert (Hraw : 0 <= ax_speed_raw ax).
  { rewrite Fr.
    assert (dt / mc * (ax_res_net ax - mc * v / dt - ax_res_net ax) <= dt / mc * (ax_f_applied ax - ax_res_net ax)).
    { apply Rmult_le_compat_l; lra. }
    assert (dt / mc * (ax_res_net ax - mc * v / dt - ax_res_net ax) = - v) by (field; split; lra).
    lra. }
  split; [|exact Hraw]. destruct Fs as [-> | ->]; lra.
Qed.

(* THE statement since the fix: an accepted step never ends with a negative speed (non-negative speed before, non-negative
   target): no hypothesis on the available traction is left *)
Theorem step_never_reverses (e : Envr) pts cl (s s' : SLStater) ax :
  sl_solve_step_aux e pts cl s = Ok (s', ax) ->
  0 < k_dt (ts_k (sl_st s)) -> 0 < mass_compound (ts_p (sl_st s)) ->
  0 <= k_speed (ts_k (sl_st s)) -> 0 <= k_speed_target (ts_k (sl_st s')) ->
  0 <= k_speed (ts_k (sl_st s')) /\ 0 <= ax_speed_raw ax.
Proof.
  intros H Hdt Hmc Hv Htg. eapply step_speed_nonneg; eauto. eapply accepted_step_traction; eauto.
Qed.

(* the limit the step reports is the limit of the braking point in force, the speed before the
   step was not above it (otherwise the step is the assert!'s panic), and -- with the fixed
   construction -- the target is in [0, limit] *)
Theorem step_limit_target (e : Envr) pts cl (s s' : SLStater) ax :
  Forall pt_ok pts -> sl_solve_step_aux e pts cl s = Ok (s', ax) ->
  let k' := ts_k (sl_st s') in
  0 <= k_speed_target k' <= k_speed_limit k' /\ k_speed (ts_k (sl_st s)) <= k_speed_limit k'.
Proof.
  intros Hall H. apply sl_aux_facts in H. cbv zeta in *.
  destruct H as (_ & _ & _ & _ & ic & lim & tgt & Hc & -> & -> & _).
  eapply calc_speeds_target_le_limit in Hc; eauto. tauto.
Qed.

(* ------------------------------------------------------------------ the walk *)
Lemma ft1000_val : ft1000 (F:=R) = 3048 / 10.
Proof. unfold ft1000. cbn [nofZ nlit nmul R_ops]. unfold Rpow10. change (Pos.to_nat 4) with 4%nat.
  simpl pow. field_simplify_eq; lra. Qed.

(* C03 walk_stops_inside (partial): when the loop exits with Ok the front is inside the stopping
   window or beyond the end, and it is at rest unless it is at or beyond the end.  That it is not
   BEYOND the end is not implied by the loop: it needs the closed-loop argument (adequate braking
   along the end-of-path curve), which is monitored, not proved. *)
Theorem walk_exit : forall fuel (e : Envr) pts offset_end cls n s s',
  sl_walk fuel e pts offset_end cls n s = Ok s' ->
  let k := ts_k (sl_st s') in
  offset_end - 3048 / 10 <= k_offset k /\ (k_speed k = 0 \/ offset_end <= k_offset k).
Proof.
  induction fuel as [|f IH]; intros e pts offset_end cls n s s' H; cbn [sl_walk] in H.
  - destruct (walk_cond offset_end s) eqn:C; [discriminate|]. inversion H; subst s'.
    unfold walk_cond in C. rewrite ft1000_val in C. numR.
    apply orb_false_iff in C. destruct C as [C1 C2]. apply Rltb_false in C1.
    split; [exact C1|]. apply andb_false_iff in C2. destruct C2 as [C2|C2].
    + right. apply Rltb_false in C2. exact C2.
    + left. apply negb_false_iff in C2. apply Reqb_true in C2. exact C2.
  - destruct (walk_cond offset_end s) eqn:C.
    + ens H. binv H s1 Hs1. eapply IH; eauto.
    + inversion H; subst s'.
      unfold walk_cond in C. rewrite ft1000_val in C. numR.
      apply orb_false_iff in C. destruct C as [C1 C2]. apply Rltb_false in C1.
      split; [exact C1|]. apply andb_false_iff in C2. destruct C2 as [C2|C2].
      * right. apply Rltb_false in C2. exact C2.
      * left. apply negb_false_iff in C2. apply Reqb_true in C2. exact C2.
Qed.

(* the fixed loop never keeps stepping a train that is at rest with a zero target outside the window *)
Theorem walk_reports_stuck : forall fuel (e : Envr) pts offset_end cls n s,
  walk_cond offset_end s = true -> walk_stuck offset_end s = true ->
  sl_walk (S fuel) e pts offset_end cls n s = Err 1306.
Proof. intros. cbn [sl_walk]. rewrite H, H0. reflexivity. Qed.

(* ------------------------------------------------------------------ the code as it is: refutation *)
(* A flat world: one segment of level, straight track, no resistance coefficients, a train of
   length 1 and mass 1, friction-brake force 1, dt = 1: every braking-curve step adds speed 1. *)
Definition G0 : list PRCr :=
  [ {| prc_offset := 0; prc_coeff := 0; prc_net := 0 |}; {| prc_offset := 100; prc_coeff := 0; prc_net := 0 |} ].
Definition RP0 : ResParams (F:=R) := {| rp_bearing := 0; rp_rolling := 0; rp_davis_b := 0; rp_cd_area := 0 |}.
Definition C0 : ResCache :=
  {| rc_grade := {| si_front := O; si_back := O |}; rc_curve := {| si_front := O; si_back := O |} |}.
Definition P0 : Par (F:=R) := {| p_length := 1; p_mass_static := 1; p_mass_rot := 0; p_mass_freight := 0 |}.
(* slow section (1/2), a faster window of length 1 (limit 5), then a medium section (limit 1) *)
Definition W_sps : list SPr :=
  [ {| sp_offset := 0; sp_limit := 1 / 2 |}; {| sp_offset := 11; sp_limit := 5 |}; {| sp_offset := 12; sp_limit := 1 |} ].
Definition WE (fx : bool) : BrkEnvr :=
  {| be_grades := G0; be_curves := G0; be_rp := RP0; be_sps := W_sps; be_force_max := 1;
     be_offset_begin := 0; be_fix := fx |}.
Definition W_st : TStater :=
  {| ts_k := {| k_time := 0; k_i := 1; k_offset := 1; k_offset_back := 0; k_total_dist := 0;
                k_link_idx_front := 0%Z; k_offset_in_link := 0; k_speed := 0; k_speed_limit := 0;
                k_speed_target := 0; k_dt := 1 |};
     ts_p := P0;
     ts_r := {| r_weight_static := 0; r_rolling := 0; r_bearing := 0; r_davis_b := 0; r_aero := 0;
                r_grade := 0; r_curve := 0; r_grade_front := 0; r_grade_back := 0; r_elev_front := 0 |};
     ts_w := {| w_pwr_res := 0; w_pwr_accel := 0; w_pwr_whl_out := 0; w_energy_whl_out := 0;
                w_energy_whl_out_pos := 0; w_energy_whl_out_neg := 0 |} |}.

Ltac rdec :=
  repeat match goal with
  | |- context [Rltb ?a ?b] =>
      first [ replace (Rltb a b) with true by (symmetry; apply Rltb_true; lra)
            | replace (Rltb a b) with false by (symmetry; apply Rltb_false; lra) ]
  | |- context [Rleb ?a ?b] =>
      first [ replace (Rleb a b) with true by (symmetry; apply Rleb_true; lra)
            | replace (Rleb a b) with false by (symmetry; apply Rleb_false; lra) ]
  end.

Lemma flat_strap dir (x w : R) : 1 <= x <= 100 ->
  strap_calc_res G0 {| si_front := O; si_back := O |} x (x - 1) 1 w dir =
  Ok ({| si_front := O; si_back := O |}, 0 * w).
Proof.
  intros Hx. unfold strap_calc_res, calc_idx, G0.
  destruct dir; cbn; numR; rdec; cbn; rdec; cbn; reflexivity.
Qed.

Lemma flat_upd (st : TStater) dir : ts_p st = P0 -> 1 <= k_offset (ts_k st) <= 100 ->
  exists st', strap_update_res G0 G0 RP0 st C0 dir = Ok (st', C0) /\
    res_net (ts_r st') = 0 /\ ts_p st' = P0 /\ k_dt (ts_k st') = k_dt (ts_k st).
Proof.
  intros Hp Hx. unfold strap_update_res. rewrite Hp. cbn [P0 p_length p_mass_static C0 rc_grade rc_curve]. numR.
  rewrite !flat_strap by exact Hx. cbn [bind]. cbn [G0 tbl_get nth_error si_front si_back bind].
  eexists. split; [reflexivity|]. cbn. unfold res_net. cbn. numR. split; [ring|]. auto.
Qed.

(* one iteration of the inner loop in the flat world *)
Lemma flat_iter fx f (st : TStater) bp acc idx idx1 s :
  ts_p st = P0 -> k_dt (ts_k st) = 1 -> 1 <= bp_offset bp <= 100 ->
  sp_back W_sps (bp_offset bp) idx = Ok idx1 -> nth_error W_sps idx1 = Some s ->
  exists st2, ts_p st2 = P0 /\ k_dt (ts_k st2) = 1 /\
   brake_loop (S f) (WE fx) st C0 (bp :: acc) idx =
   (let L := Rabs (sp_limit s) in
    if Rltb L (bp_limit bp + 1) then
      let nb := {| bp_offset := bp_offset bp - 1 * L; bp_limit := L;
                   bp_target := if fx then Rmin (bp_target bp) L else bp_target bp |} in
      if Reqb (bp_limit bp) L then Ok (nb :: bp :: acc, idx1, st2, C0)
      else if Rltb (bp_offset nb) 0 then Ok (nb :: bp :: acc, idx1, st2, C0)
      else brake_loop f (WE fx) st2 C0 (nb :: bp :: acc) idx1
    else
      let nb := {| bp_offset := bp_offset bp - 1 * (bp_limit bp + / 2 * 1); bp_limit := bp_limit bp + 1;
                   bp_target := bp_target bp |} in
      if Rltb (bp_offset nb) 0 then Ok (nb :: bp :: acc, idx1, st2, C0)
      else brake_loop f (WE fx) st2 C0 (nb :: bp :: acc) idx1).
Proof.
  intros Hp Hdt Hx Hsb Hs.
  destruct (flat_upd (ts_at st (bp_offset bp) (bp_limit bp)) DBwd) as (st2 & Hu & Hrn & Hp2 & Hdt2).
  { cbn. exact Hp. } { cbn. exact Hx. }
  cbn [ts_at ts_k k_dt] in Hdt2. rewrite Hdt in Hdt2.
  exists st2. split; [exact Hp2|]. split; [exact Hdt2|].
  cbn [brake_loop WE be_sps be_grades be_curves be_rp be_force_max be_offset_begin be_fix].
  rewrite Hsb. cbn [bind]. rewrite Hs. rewrite Hu. cbn [bind]. rewrite Hrn, Hp2, Hdt2.
  unfold mass_compound. cbn [P0 p_mass_static p_mass_rot]. rewrite half_val. numR.
  replace (Rltb 0 (1 + 0)) with true by (symmetry; apply Rltb_true; lra). cbn [ensure bind].
  replace (1 * (1 + 0) / (1 + 0)) with 1 by (field; lra).
  reflexivity.
Qed.

(* C03 bp_target_le_limit is FALSE of the code as it is: the profile slow (1/2) / short faster
   window (5) / medium (1) yields a braking point whose target (1, the medium section's limit the
   curve leads down to) is above its limit (1/2, adopted from the slow section the curve ran into) *)
Theorem bp_target_le_limit_refuted :
  exists pts idx, recalc 3 (WE false) 14 W_st C0 = Ok (pts, idx) /\
    exists p, In p pts /\ bp_limit p < bp_target p.
Proof.
  unfold recalc. cbn [WE be_grades be_curves be_rp be_sps].
  destruct (flat_upd (ts_at W_st 14 0) DUnk) as (st1 & Hu & _ & Hp1 & Hdt1).
  { reflexivity. } { cbn. lra. }
  cbn [ts_at ts_k k_dt W_st] in Hdt1.
  cbn [n0 R_ops]. rewrite Hu. cbn [bind W_sps length].
  (* outer iteration 1: speed point 2 (limit 1) against the end point (limit 0): inner loop *)
  cbn [recalc_outer WE be_sps W_sps nth_error bp_limit sp_limit]. numR.
  replace (Rltb 0 (Rabs 1)) with true by (symmetry; apply Rltb_true; rewrite Rabs_right; lra).
  (* inner 1.1: from {14,0,0} *)
  destruct (flat_iter false 2 st1 {| bp_offset := 14; bp_limit := 0; bp_target := 0 |} [] 2 2
              {| sp_offset := 12; sp_limit := 1 |}) as (st2 & Hp2 & Hdt2 & E1); auto.
  { cbn. lra. } { cbn. numR. rdec. reflexivity. }
  fold (WE false). rewrite E1. cbn [bp_limit bp_offset bp_target sp_limit]. rewrite (Rabs_right 1) by lra.
  cbv zeta. rdec.
  (* inner 1.2: from {13.5,1,0}: capped at 1, previous limit already 1 -> break *)
  destruct (flat_iter false 1 st2 {| bp_offset := 14 - 1 * (0 + / 2 * 1); bp_limit := 0 + 1; bp_target := 0 |}
              [{| bp_offset := 14; bp_limit := 0; bp_target := 0 |}] 2 2
              {| sp_offset := 12; sp_limit := 1 |}) as (st3 & Hp3 & Hdt3 & E2); auto.
  { cbn. lra. } { cbn. numR. rdec. reflexivity. }
  rewrite E2. cbn [bp_limit bp_offset bp_target sp_limit]. rewrite (Rabs_right 1) by lra.
  cbv zeta. rdec.
  replace (Reqb (0 + 1) 1) with true by (symmetry; apply Reqb_true; lra).
  cbn [bind nth_error W_sps].
  (* outer iteration 2: speed point 1 (limit 5) against the foot {12,1,1}: inner loop *)
  cbn [recalc_outer WE be_sps W_sps nth_error bp_limit sp_limit sp_offset]. numR.
  rewrite (Rabs_right 1) by lra. rewrite (Rabs_right 5) by lra. rdec.
  (* inner 2.1: from the foot {12,1,1}: normal point {10.5,2,1} *)
  match goal with |- context [brake_loop 3 _ st3 C0 (?bp :: ?acc) 1%nat] =>
    destruct (flat_iter false 2 st3 bp acc 1 1 {| sp_offset := 11; sp_limit := 5 |}) as (st4 & Hp4 & Hdt4 & E3); auto end.
  { cbn. lra. } { cbn. numR. rdec. reflexivity. }
  fold (WE false). rewrite E3. cbn [bp_limit bp_offset bp_target sp_limit]. rewrite (Rabs_right 5) by lra.
  cbv zeta. rdec.
  (* inner 2.2: from {10.5,2,1}: the curve has passed the window's start (11): the profile limit in
     force is the slow section's 1/2 < 2 + 1: capped point {10, 1/2, TARGET 1} *)
  match goal with |- context [brake_loop 2 _ st4 C0 (?bp :: ?acc) 1%nat] =>
    destruct (flat_iter false 1 st4 bp acc 1 0 {| sp_offset := 0; sp_limit := 1 / 2 |}) as (st5 & Hp5 & Hdt5 & E4); auto end.
  { cbn. lra. } { cbn. numR. rdec. cbn. numR. rdec. reflexivity. }
  rewrite E4. cbn [bp_limit bp_offset bp_target sp_limit]. rewrite (Rabs_right (1 / 2)) by lra.
  cbv zeta. rdec.
  replace (Reqb (1 + 1) (1 / 2)) with false by (symmetry; destruct (Reqb_spec (1 + 1) (1 / 2)); [exfalso; lra|reflexivity]).
  (* inner 2.3: from {10,1/2,1}: capped again, previous limit equals 1/2 -> break *)
  match goal with |- context [brake_loop 1 _ st5 C0 (?bp :: ?acc) 0%nat] =>
    destruct (flat_iter false 0 st5 bp acc 0 0 {| sp_offset := 0; sp_limit := 1 / 2 |}) as (st6 & Hp6 & Hdt6 & E5); auto end.
  { cbn. lra. } { cbn. numR. rdec. reflexivity. }
  rewrite E5. cbn [bp_limit bp_offset bp_target sp_limit]. rewrite (Rabs_right (1 / 2)) by lra.
  cbv zeta. rdec.
  replace (Reqb (1 / 2) (1 / 2)) with true by (symmetry; apply Reqb_true; lra).
  cbn [bind nth_error W_sps recalc_outer].
  eexists. eexists. split; [reflexivity|].
  exists {| bp_offset := 12 - 1 * (1 + / 2 * 1) - 1 * (1 / 2); bp_limit := 1 / 2; bp_target := 1 |}.
  split; [|cbn; lra].
  rewrite <- in_rev. cbn. auto 10.
Qed.

(* ------------------------------------------------------------------ the step's outcome is total *)
(* An accepted or rejected step ends in Ok, in one of the enumerated error values, or in a panic
   that is either the assert! of calc_speeds (1301) or the usize underflow of set_link_and_offset
   when the new front is at or before the first link point (1210) -- nothing else, provided the
   cached indices are in range, the train has positive length and the braking index is in range. *)
Definition ERRS : list Z := [1101; 1301; 1205; 1302; 1303; 1304; 1305]%Z.
Definition PANS : list Z := [1301; 1210]%Z.
Definition allowed {A} (r : res A) : Prop :=
  match r with Ok _ => True | Err c => In c ERRS | Panic c => In c PANS end.

Lemma allowed_bind {A B} (r : res A) (f : A -> res B) :
  allowed r -> (forall a, r = Ok a -> allowed (f a)) -> allowed (bind r f).
Proof. destruct r; cbn; auto. Qed.
Lemma allowed_ensure b c : In c ERRS -> allowed (ensure b c).
Proof. destruct b; cbn; auto. Qed.
Lemma allowed_passert b c : In c PANS -> allowed (passert b c).
Proof. destruct b; cbn; auto. Qed.

Definition idx_in (tbl : list PRCr) (c : SIdx) : Prop :=
  (S (si_front c) < length tbl)%nat /\ (S (si_back c) < length tbl)%nat.

Lemma calc_idx_fwd_outcome (tbl : list PRCr) x h : (S h < length tbl)%nat ->
  (exists r, calc_idx tbl x h DFwd = Ok r /\ (S r < length tbl)%nat) \/ calc_idx tbl x h DFwd = Err 1101.
Proof.
  intros Hh. destruct (Rle_dec x (off tbl (length tbl - 1))) as [L|L].
  - left. destruct (calc_idx_fwd_total tbl x h DFwd fwd_ne Hh L) as (r & Hr). exists r. split; [exact Hr|].
    unfold calc_idx in Hr. destruct tbl as [|p0 t] eqn:Et; [discriminate|]. rewrite <- Et in *.
    ens Hr. apply fwd_scan_spec in Hr. tauto.
  - right. unfold calc_idx. destruct tbl as [|p0 t] eqn:Et; [cbn in Hh; lia|]. rewrite <- Et in *.
    rewrite last_off by (rewrite Et; discriminate). numR.
    destruct (Rleb_spec x (off tbl (length tbl - 1))); [lra|reflexivity].
Qed.

Lemma strap_fwd_outcome (tbl : list PRCr) c x len w : idx_in tbl c -> 0 < len ->
  (exists c' v, strap_calc_res tbl c x (x - len) len w DFwd = Ok (c', v) /\ idx_in tbl c') \/
  strap_calc_res tbl c x (x - len) len w DFwd = Err 1101.
Proof.
  intros [Hf Hb] Hlen. unfold strap_calc_res.
  destruct (calc_idx_fwd_outcome tbl x (si_front c) Hf) as [(fi & Hfi & Lf)|E]; [|right; rewrite E; reflexivity].
  rewrite Hfi. cbn [bind si_front si_back].
  destruct (Nat.eqb fi (si_back c)) eqn:Eq.
  - left. unfold tbl_get. destruct (nth_error tbl fi) as [p|] eqn:Ep. 2:{ apply nth_error_None in Ep. lia. }
    cbn [bind]. eexists. eexists. split; [reflexivity|]. split; cbn; auto.
  - destruct (calc_idx_fwd_outcome tbl (x - len) (si_back c) Hb) as [(bi & Hbi & Lb)|E]; [|right; rewrite E; reflexivity].
    rewrite Hbi. cbn [bind si_front si_back]. left.
    unfold calc_res_strap, tbl_get. numR. destruct (Rltb_spec 0 len); [|lra]. cbn [passert bind].
    destruct (nth_error tbl fi) as [pf|] eqn:Epf. 2:{ apply nth_error_None in Epf. lia. }
    destruct (nth_error tbl bi) as [pb|] eqn:Epb. 2:{ apply nth_error_None in Epb. lia. }
    cbn [bind]. eexists. eexists. split; [reflexivity|]. split; cbn; auto.
Qed.

Lemma update_res_fwd_outcome grades curves rp (st : TStater) c :
  idx_in grades (rc_grade c) -> idx_in curves (rc_curve c) -> 0 < p_length (ts_p st) ->
  allowed (strap_update_res grades curves rp st c DFwd).
Proof.
  intros Hg Hc Hlen. unfold strap_update_res.
  destruct (strap_fwd_outcome grades (rc_grade c) (k_offset (ts_k st)) (p_length (ts_p st))
              (nmul (p_mass_static (ts_p st)) acc_grav) Hg Hlen) as [(gc & rg & E1 & I1)|E1];
    numR; rewrite E1; [|cbn; auto].
  cbn [bind].
  destruct (strap_fwd_outcome curves (rc_curve c) (k_offset (ts_k st)) (p_length (ts_p st))
              (p_mass_static (ts_p st) * acc_grav) Hc Hlen) as [(cc & rc & E2 & I2)|E2];
    rewrite E2; [|cbn; auto].
  cbn [bind]. destruct I1 as [I1f I1b]. unfold tbl_get.
  destruct (nth_error grades (si_front gc)) eqn:Ef. 2:{ apply nth_error_None in Ef. lia. }
  destruct (nth_error grades (si_back gc)) eqn:Eb. 2:{ apply nth_error_None in Eb. lia. }
  cbn. exact I.
Qed.

Lemma cs_idx_outcome (pts : list BPr) offset p0 t : pts = p0 :: t -> ~ bp_offset p0 <= offset ->
  forall idx, (1 <= idx)%nat -> (idx < length pts)%nat ->
  exists r, cs_idx pts offset idx = Ok r /\ (1 <= r <= idx)%nat.
Proof.
  intros Ep Hn. induction idx as [|j IH]; intros H1 Hl; [lia|]. cbn [cs_idx].
  destruct (nth_error pts j) as [p|] eqn:E. 2:{ apply nth_error_None in E. lia. }
  numR. destruct (Rleb_spec (bp_offset p) offset) as [L|L].
  - destruct j as [|j']. { exfalso. rewrite Ep in E. cbn in E. inversion E; subst. auto. }
    destruct IH as (r & Hr & Hb); try lia. exists r. split; [exact Hr|lia].
  - exists (S j). split; [reflexivity|lia].
Qed.

Lemma cs_target_outcome (pts : list BPr) far : forall idx tgt, (idx <= length pts)%nat ->
  exists r, cs_target pts far idx tgt = Ok r.
Proof.
  induction idx as [|j IH]; intros tgt Hl; cbn [cs_target]; [eauto|].
  destruct (nth_error pts j) as [p|] eqn:E. 2:{ apply nth_error_None in E. lia. }
  destruct (nleb (bp_offset p) far); [apply IH; lia|eauto].
Qed.

Definition bidx_in (pts : list BPr) (idx : nat) (offset : R) : Prop :=
  match pts with
  | [] => False
  | p0 :: _ => (idx < length pts)%nat /\ ((1 <= idx)%nat \/ bp_offset p0 <= offset)
  end.

Lemma calc_speeds_outcome (pts : list BPr) idx offset speed adj :
  bidx_in pts idx offset -> allowed (calc_speeds pts idx offset speed adj).
Proof.
  unfold bidx_in, calc_speeds. destruct pts as [|p0 t] eqn:Ep; [tauto|]. rewrite <- Ep. intros (Hl & Hi).
  numR. destruct (Rleb_spec (bp_offset p0) offset) as [L|L].
  - cbn [bind]. rewrite Ep at 1. cbn [nth_error]. apply allowed_bind; [apply allowed_passert; cbn; auto|]. intros _ _.
    destruct (cs_target_outcome pts (offset + speed * adj) 0 (bp_target p0)) as (r & Hr); [lia|].
    rewrite Hr. cbn. exact I.
  - destruct Hi as [Hi|Hi]; [|lra].
    destruct (cs_idx_outcome pts offset p0 t Ep ltac:(lra) idx Hi Hl) as (r & Hr & Hb). rewrite Hr. cbn [bind].
    destruct (nth_error pts r) as [pc|] eqn:E. 2:{ apply nth_error_None in E. lia. }
    apply allowed_bind; [apply allowed_passert; cbn; auto|]. intros _ _.
    destruct (cs_target_outcome pts (offset + speed * adj) r (bp_target pc)) as (q & Hq); [lia|].
    rewrite Hq. cbn. exact I.
Qed.

Lemma set_link_outcome (lps : list LinkPtr) (x : R) : allowed (set_link_and_offset lps x).
Proof.
  unfold set_link_and_offset. destruct (lp_position lps x 0) as [j|] eqn:E.
  - apply lp_position_some in E. rewrite Nat.sub_0_r in E. destruct E as (_ & Hj & _).
    destruct j as [|idx]; [cbn; auto|].
    destruct (nth_error lps idx) eqn:En. 2:{ apply nth_error_None in En. lia. } cbn. exact I.
  - destruct (length lps) as [|n] eqn:El; [cbn; auto|].
    destruct (nth_error lps n) eqn:En. 2:{ apply nth_error_None in En. lia. } cbn. exact I.
Qed.

Definition step_pre (e : Envr) (pts : list BPr) (s : SLStater) : Prop :=
  idx_in (e_grades e) (rc_grade (sl_cache s)) /\ idx_in (e_curves e) (rc_curve (sl_cache s)) /\
  0 < p_length (ts_p (sl_st s)) /\ bidx_in pts (sl_idx s) (k_offset (ts_k (sl_st s))).

Theorem step_outcome_total (e : Envr) pts cl (s : SLStater) :
  step_pre e pts s -> allowed (sl_solve_step e pts cl s).
Proof.
  intros (Hg & Hc & Hlen & Hb). unfold sl_solve_step. apply allowed_bind; [|intros [s' ax] _; cbn; exact I].
  unfold sl_solve_step_aux. cbv zeta.
  apply allowed_bind; [apply update_res_fwd_outcome; assumption|]. intros [st1 c1] Hu. cbv beta iota.
  destruct (update_res_frame _ _ _ _ _ _ _ _ Hu) as (_ & _ & _ & _ & Fo & _).
  apply allowed_bind; [apply allowed_ensure; cbn; auto|]. intros _ _.
  apply allowed_bind; [apply calc_speeds_outcome; rewrite Fo; exact Hb|]. intros [[ic lim] tgt] _. cbv beta iota.
  apply allowed_bind; [apply allowed_ensure; cbn; auto|]. intros _ _.
  apply allowed_bind; [apply allowed_ensure; cbn; auto 10|]. intros _ _.
  apply allowed_bind.
  { repeat match goal with |- allowed (if ?b then _ else _) => destruct b end; try (cbn; exact I).
    apply allowed_bind; [apply allowed_ensure; cbn; auto 10|]. intros _ _. cbn. exact I. }
  intros [fc ff] _. cbv beta iota.
  apply allowed_bind; [apply allowed_ensure; cbn; auto 10|]. intros _ _.
  apply allowed_bind; [apply allowed_ensure; cbn; auto 10|]. intros _ _.
  apply allowed_bind; [apply set_link_outcome|]. intros [lnk oil] _. cbn. exact I.
Qed.
