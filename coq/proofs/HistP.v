(* HistP.v -- proofs about coq/model/Hist.v (C19). *)
From Coq Require Import List Bool Arith ZArith Lia.
From AltModel Require Import Num Hist.
Import ListNotations.

(* ------------------------------------------------------------------ all nodes of a tree *)
Definition loco_nodes (l : loco) : list node := lc_nd l :: lc_comps l.
Definition consist_nodes (c : consist) : list node := cn_nd c :: flat_map loco_nodes (cn_locos c).
Definition lsim_nodes (s : lsim) : list node := loco_nodes (ls_loco s).
Definition csim_nodes (s : csim) : list node := consist_nodes (cs_con s).
Definition ssim_nodes (s : ssim) : list node := ss_nd s :: consist_nodes (ss_con s).
Definition tsim_nodes (s : tsim) : list node := ts_nd s :: ts_fric s :: consist_nodes (ts_con s).

Definition mk (i : nat) (si : option nat) (h : list nat) : node :=
  {| nd_i := i; nd_si := si; nd_hist := h |}.

(* "aligned": every node of the tree has counter i, interval si and history h *)
Definition all_are (x : node) (l : list node) : Prop := Forall (fun y => y = x) l.

(* canonical aligned objects: determined by (i, si, h) and the shape *)
Definition al_loco i si h (k : nat) : loco := {| lc_comps := repeat (mk i si h) k; lc_nd := mk i si h |}.
Definition al_consist i si h (shape : list nat) : consist :=
  {| cn_locos := map (al_loco i si h) shape; cn_nd := mk i si h |}.
Definition al_lsim i si h k : lsim := {| ls_loco := al_loco i si h k; ls_i := i |}.
Definition al_csim i si h shape : csim := {| cs_con := al_consist i si h shape; cs_i := i |}.
Definition al_ssim i si h shape : ssim := {| ss_con := al_consist i si h shape; ss_nd := mk i si h |}.
Definition al_tsim i si h shape : tsim :=
  {| ts_con := al_consist i si h shape; ts_fric := mk i si h; ts_nd := mk i si h |}.

Lemma all_are_repeat x l : all_are x l -> l = repeat x (length l).
Proof. induction 1 as [|y l Hy _ IH]; cbn; auto. subst y. f_equal. exact IH. Qed.
Lemma repeat_all_are x k : all_are x (repeat x k).
Proof. induction k; cbn; constructor; auto. Qed.

Lemma loco_aligned_canon i si h l :
  all_are (mk i si h) (loco_nodes l) -> l = al_loco i si h (length (lc_comps l)).
Proof. destruct l as [cs x]; unfold loco_nodes, al_loco; cbn. intros H. inversion H; subst.
  f_equal. apply all_are_repeat. assumption. Qed.
Lemma al_loco_aligned i si h k : all_are (mk i si h) (loco_nodes (al_loco i si h k)).
Proof. unfold loco_nodes; cbn. constructor; auto. apply repeat_all_are. Qed.

Lemma locos_aligned_canon i si h ls :
  all_are (mk i si h) (flat_map loco_nodes ls) ->
  ls = map (al_loco i si h) (map (fun l => length (lc_comps l)) ls).
Proof. induction ls as [|l ls IH]; cbn [flat_map map]; auto. intros H. unfold all_are in H.
  apply Forall_app in H. destruct H as [H1 H2]. f_equal.
  - apply loco_aligned_canon. exact H1.
  - apply IH. exact H2. Qed.
Lemma al_locos_aligned i si h shape :
  all_are (mk i si h) (flat_map loco_nodes (map (al_loco i si h) shape)).
Proof. induction shape as [|k t IH]; cbn [map flat_map]. constructor.
  apply Forall_app. split; [apply al_loco_aligned|exact IH]. Qed.

Definition shape_of (c : consist) : list nat := map (fun l => length (lc_comps l)) (cn_locos c).

Lemma consist_aligned_canon i si h c :
  all_are (mk i si h) (consist_nodes c) -> c = al_consist i si h (shape_of c).
Proof. destruct c as [ls x]; unfold consist_nodes, al_consist, shape_of; cbn. intros H.
  inversion H; subst. f_equal. apply locos_aligned_canon. assumption. Qed.
Lemma al_consist_aligned i si h shape : all_are (mk i si h) (consist_nodes (al_consist i si h shape)).
Proof. unfold consist_nodes; cbn. constructor; auto. apply al_locos_aligned. Qed.

Lemma shape_of_al i si h shape : shape_of (al_consist i si h shape) = shape.
Proof. unfold shape_of; cbn. rewrite map_map. cbn. induction shape; cbn; auto.
  rewrite repeat_length. f_equal. auto. Qed.

(* ------------------------------------------------------------------ one node *)
Definition okint (si : option nat) : Prop := si <> Some 0.
(* does a node with interval si record a state when its counter is i? *)
Definition fires (si : option nat) (i : nat) : bool :=
  match si with None => false | Some n => Nat.eqb (Nat.modulo i n) 0 end.
Definition nxt (si : option nat) (i : nat) (h : list nat) : list nat :=
  if fires si i then h ++ [i] else h.

Lemma gate_mk i si h : okint si -> gate (mk i si h) = Ok (fires si i).
Proof. unfold gate, fires, okint; cbn. destruct si as [[|n]|]; auto. congruence. Qed.
Lemma gate_zero i h : gate (mk i (Some 0) h) = Panic 1900.
Proof. reflexivity. Qed.

Lemma node_save_mk i si h : okint si -> node_save (mk i si h) = Ok (mk i si (nxt si i h)).
Proof. intros H. unfold node_save. rewrite gate_mk by auto. cbn. unfold nxt.
  destruct (fires si i); reflexivity. Qed.

Lemma mapM_repeat {A} (f : A -> res A) a b k : f a = Ok b -> mapM f (repeat a k) = Ok (repeat b k).
Proof. intros H. induction k; cbn; auto. rewrite H; cbn. rewrite IHk; cbn. reflexivity. Qed.
Lemma mapM_map {A} (f : A -> res A) (g h : nat -> A) l :
  (forall k, f (g k) = Ok (h k)) -> mapM f (map g l) = Ok (map h l).
Proof. intros H. induction l; cbn; auto. rewrite H; cbn. rewrite IHl; cbn. reflexivity. Qed.

Lemma map_repeat {A B} (f : A -> B) a k : map f (repeat a k) = repeat (f a) k.
Proof. induction k; cbn; congruence. Qed.

(* ------------------------------------------------------------------ locomotive, consist *)
Lemma loco_save_al i si h k : okint si ->
  loco_save (al_loco i si h k) = Ok (al_loco i si (nxt si i h) k).
Proof. intros H. unfold loco_save, al_loco; cbn [lc_comps lc_nd].
  rewrite (mapM_repeat _ _ _ _ (node_save_mk i si h H)); cbn [bind].
  rewrite gate_mk by auto; cbn [bind]. unfold nxt. destruct (fires si i); reflexivity. Qed.
Lemma loco_step_al i si h k : loco_step (al_loco i si h k) = al_loco (S i) si h k.
Proof. unfold loco_step, al_loco; cbn. rewrite map_repeat. reflexivity. Qed.
Lemma loco_set_si_al i si si' h k : loco_set_si si' (al_loco i si h k) = al_loco i si' h k.
Proof. unfold loco_set_si, al_loco; cbn. rewrite map_repeat. reflexivity. Qed.

Lemma consist_save_al i si h shape : okint si ->
  consist_save (al_consist i si h shape) = Ok (al_consist i si (nxt si i h) shape).
Proof. intros H. unfold consist_save, al_consist; cbn [cn_locos cn_nd].
  rewrite gate_mk by auto; cbn [bind]. unfold nxt. destruct (fires si i) eqn:E; auto.
  rewrite (mapM_map loco_save (al_loco i si h) (al_loco i si (h ++ [i]))); cbn [bind]; auto.
  intros k. rewrite loco_save_al by auto. unfold nxt; rewrite E; reflexivity. Qed.
Lemma consist_step_al i si h shape : consist_step (al_consist i si h shape) = al_consist (S i) si h shape.
Proof. unfold consist_step, al_consist; cbn. rewrite map_map. f_equal.
  apply map_ext; intros; apply loco_step_al. Qed.
Lemma consist_set_si_al i si si' h shape :
  consist_set_si si' (al_consist i si h shape) = al_consist i si' h shape.
Proof. unfold consist_set_si, al_consist; cbn. rewrite map_map. f_equal.
  apply map_ext; intros; apply loco_set_si_al. Qed.

(* ------------------------------------------------------------------ the abstract single node *)
(* The whole tree behaves like ONE (counter, interval, history) triple. *)
Definition abs := (nat * option nat * list nat)%type.
Definition abs_cmd (a : abs) (c : cmd) : call abs :=
  let '(i, si, h) := a in
  match c with
  | CSave => ((i, si, nxt si i h), None)
  | CStep true => ((S i, si, nxt si i h), None)
  | CStep false => (a, Some (Err 1901))
  | CSetSI si' => ((i, si', h), None)
  end.

(* no call installs the interval 0 *)
Definition cmd_ok (c : cmd) : Prop := match c with CSetSI si => okint si | _ => True end.

Definition abs_si (a : abs) : option nat := snd (fst a).

Lemma abs_cmd_okint a c : okint (abs_si a) -> cmd_ok c -> okint (abs_si (fst (abs_cmd a c))).
Proof. destruct a as [[i si] h]; destruct c as [|[]|]; cbn; auto. Qed.

Section Refine.
  (* a simulation kind: its canonical aligned object for an abstract triple, and its calls *)
  Context {A : Type} (al : abs -> A) (f : A -> cmd -> call A).
  Hypothesis Hf : forall a c, okint (abs_si a) -> cmd_ok c ->
    f (al a) c = (al (fst (abs_cmd a c)), snd (abs_cmd a c)).

  Lemma calls_refine : forall cs a, okint (abs_si a) -> Forall cmd_ok cs ->
    calls f (al a) cs = (al (fst (calls abs_cmd a cs)), snd (calls abs_cmd a cs)).
  Proof. induction cs as [|c t IH]; intros a Ha Hc; cbn; auto.
    inversion Hc; subst. rewrite Hf by auto.
    pose proof (abs_cmd_okint a c Ha H1) as Ha'.
    destruct (abs_cmd a c) as [a' [e|]]; cbn in *; auto. Qed.
End Refine.

Definition alL k (a : abs) := let '(i, si, h) := a in al_lsim i si h k.
Definition alC shape (a : abs) := let '(i, si, h) := a in al_csim i si h shape.
Definition alS shape (a : abs) := let '(i, si, h) := a in al_ssim i si h shape.
Definition alT shape (a : abs) := let '(i, si, h) := a in al_tsim i si h shape.

Lemma lsim_cmd_al k a c : okint (abs_si a) -> cmd_ok c ->
  lsim_cmd (alL k a) c = (alL k (fst (abs_cmd a c)), snd (abs_cmd a c)).
Proof. destruct a as [[i si] h]; unfold abs_si; cbn [fst snd]. intros Ha Hc.
  destruct c as [|[]|si']; cbn [abs_cmd lsim_cmd alL fst snd]; auto;
  unfold lsim_save, ret, al_lsim; cbn [ls_loco ls_i].
  - rewrite loco_save_al by auto. reflexivity.
  - rewrite loco_save_al by auto. cbn [bind of_res ls_loco ls_i].
    rewrite loco_step_al. reflexivity.
  - rewrite loco_set_si_al. reflexivity. Qed.

Lemma csim_cmd_al shape a c : okint (abs_si a) -> cmd_ok c ->
  csim_cmd (alC shape a) c = (alC shape (fst (abs_cmd a c)), snd (abs_cmd a c)).
Proof. destruct a as [[i si] h]; unfold abs_si; cbn [fst snd]. intros Ha Hc.
  destruct c as [|[]|si']; cbn [abs_cmd csim_cmd alC fst snd]; auto;
  unfold csim_save, ret, al_csim; cbn [cs_con cs_i].
  - rewrite consist_save_al by auto. reflexivity.
  - rewrite consist_save_al by auto. cbn [bind of_res cs_con cs_i].
    rewrite consist_step_al. reflexivity.
  - rewrite consist_set_si_al. reflexivity. Qed.

Lemma ssim_save_al i si h shape : okint si ->
  ssim_save (al_ssim i si h shape) = Ok (al_ssim i si (nxt si i h) shape).
Proof. intros H. unfold ssim_save, al_ssim; cbn [ss_con ss_nd].
  rewrite gate_mk by auto; cbn [bind]. unfold nxt. destruct (fires si i) eqn:E; auto.
  rewrite consist_save_al by auto; cbn [bind]. unfold nxt; rewrite E. reflexivity. Qed.

Lemma ssim_cmd_al shape a c : okint (abs_si a) -> cmd_ok c ->
  ssim_cmd (alS shape a) c = (alS shape (fst (abs_cmd a c)), snd (abs_cmd a c)).
Proof. destruct a as [[i si] h]; unfold abs_si; cbn [fst snd]. intros Ha Hc.
  destruct c as [|[]|si']; cbn [abs_cmd ssim_cmd alS fst snd]; auto.
  - rewrite ssim_save_al by auto. reflexivity.
  - rewrite ssim_save_al by auto. cbn [bind of_res]. unfold al_ssim; cbn [ss_con ss_nd].
    rewrite consist_step_al. reflexivity.
  - unfold ret, al_ssim; cbn [ss_con ss_nd]. rewrite consist_set_si_al. reflexivity. Qed.

Lemma tsim_save_al i si h shape : okint si ->
  tsim_save (al_tsim i si h shape) = Ok (al_tsim i si (nxt si i h) shape).
Proof. intros H. unfold tsim_save, al_tsim; cbn [ts_con ts_fric ts_nd].
  rewrite gate_mk by auto; cbn [bind]. unfold nxt. destruct (fires si i) eqn:E; auto.
  rewrite consist_save_al by auto; cbn [bind]. rewrite node_save_mk by auto; cbn [bind].
  unfold nxt; rewrite E. reflexivity. Qed.

Lemma tsim_cmd_al shape a c : okint (abs_si a) -> cmd_ok c ->
  tsim_cmd (alT shape a) c = (alT shape (fst (abs_cmd a c)), snd (abs_cmd a c)).
Proof. destruct a as [[i si] h]; unfold abs_si; cbn [fst snd]. intros Ha Hc.
  destruct c as [|[]|si']; cbn [abs_cmd tsim_cmd alT fst snd]; auto.
  - rewrite tsim_save_al by auto. reflexivity.
  - rewrite tsim_save_al by auto. cbn [bind of_res]. unfold al_tsim; cbn [ts_con ts_fric ts_nd].
    rewrite consist_step_al. reflexivity.
  - unfold ret, al_tsim; cbn [ts_con ts_fric ts_nd]. rewrite consist_set_si_al. reflexivity. Qed.

(* ------------------------------------------------------------------ declarative alignment *)
Definition lsim_aligned (a : abs) (s : lsim) : Prop :=
  let '(i, si, h) := a in ls_i s = i /\ all_are (mk i si h) (lsim_nodes s).
Definition csim_aligned (a : abs) (s : csim) : Prop :=
  let '(i, si, h) := a in cs_i s = i /\ all_are (mk i si h) (csim_nodes s).
Definition ssim_aligned (a : abs) (s : ssim) : Prop :=
  let '(i, si, h) := a in all_are (mk i si h) (ssim_nodes s).
Definition tsim_aligned (a : abs) (s : tsim) : Prop :=
  let '(i, si, h) := a in all_are (mk i si h) (tsim_nodes s).

Definition lsim_shape (s : lsim) := length (lc_comps (ls_loco s)).
Definition csim_shape (s : csim) := shape_of (cs_con s).
Definition ssim_shape (s : ssim) := shape_of (ss_con s).
Definition tsim_shape (s : tsim) := shape_of (ts_con s).

Lemma lsim_canon a s : lsim_aligned a s -> s = alL (lsim_shape s) a.
Proof. destruct a as [[i si] h]; destruct s as [l j]; unfold lsim_aligned, lsim_nodes, lsim_shape; cbn.
  intros [-> H]. unfold al_lsim. f_equal. apply loco_aligned_canon; auto. Qed.
Lemma lsim_al_aligned a k : lsim_aligned a (alL k a) /\ lsim_shape (alL k a) = k.
Proof. destruct a as [[i si] h]; unfold lsim_aligned, lsim_nodes, lsim_shape; cbn. split.
  split; auto. apply (al_loco_aligned i si h k). apply repeat_length. Qed.

Lemma csim_canon a s : csim_aligned a s -> s = alC (csim_shape s) a.
Proof. destruct a as [[i si] h]; destruct s as [c j]; unfold csim_aligned, csim_nodes, csim_shape; cbn.
  intros [-> H]. unfold al_csim. f_equal. apply consist_aligned_canon; auto. Qed.
Lemma csim_al_aligned a shape : csim_aligned a (alC shape a) /\ csim_shape (alC shape a) = shape.
Proof. destruct a as [[i si] h]; unfold csim_aligned, csim_nodes, csim_shape; cbn. split.
  split; auto. apply al_consist_aligned. apply shape_of_al. Qed.

Lemma ssim_canon a s : ssim_aligned a s -> s = alS (ssim_shape s) a.
Proof. destruct a as [[i si] h]; destruct s as [c x]; unfold ssim_aligned, ssim_nodes, ssim_shape; cbn.
  intros H. inversion H; subst. unfold al_ssim. f_equal. apply consist_aligned_canon; auto. Qed.
Lemma ssim_al_aligned a shape : ssim_aligned a (alS shape a) /\ ssim_shape (alS shape a) = shape.
Proof. destruct a as [[i si] h]; unfold ssim_aligned, ssim_nodes, ssim_shape; cbn. split.
  constructor; auto. apply al_consist_aligned. apply shape_of_al. Qed.

Lemma tsim_canon a s : tsim_aligned a s -> s = alT (tsim_shape s) a.
Proof. destruct a as [[i si] h]; destruct s as [c fr x]; unfold tsim_aligned, tsim_nodes, tsim_shape; cbn.
  intros H. inversion H as [|? ? ? H2]; subst. inversion H2; subst.
  unfold al_tsim. f_equal. apply consist_aligned_canon; auto. Qed.
Lemma tsim_al_aligned a shape : tsim_aligned a (alT shape a) /\ tsim_shape (alT shape a) = shape.
Proof. destruct a as [[i si] h]; unfold tsim_aligned, tsim_nodes, tsim_shape; cbn. split.
  constructor; auto. constructor; auto. apply al_consist_aligned. apply shape_of_al. Qed.

(* ------------------------------------------------------------------ main invariant *)
(* Any sequence of public calls (initial save, accepted/rejected steps, interval changes) on an
   aligned simulation object of any shape leaves it aligned, with exactly the counter, interval
   and history of the one-node abstraction, the same shape, and the same return value. *)
Theorem lsim_calls_aligned a s cs : okint (abs_si a) -> Forall cmd_ok cs -> lsim_aligned a s ->
  let r := calls abs_cmd a cs in let r' := calls lsim_cmd s cs in
  lsim_aligned (fst r) (fst r') /\ lsim_shape (fst r') = lsim_shape s /\ snd r' = snd r.
Proof. intros Ha Hc Hs. cbv zeta. pose proof (lsim_canon a s Hs) as E.
  set (k := lsim_shape s) in *. clearbody k. rewrite E.
  rewrite (calls_refine (alL k) lsim_cmd (lsim_cmd_al _)) by auto. cbn [fst snd].
  destruct (lsim_al_aligned (fst (calls abs_cmd a cs)) k). auto. Qed.

Theorem csim_calls_aligned a s cs : okint (abs_si a) -> Forall cmd_ok cs -> csim_aligned a s ->
  let r := calls abs_cmd a cs in let r' := calls csim_cmd s cs in
  csim_aligned (fst r) (fst r') /\ csim_shape (fst r') = csim_shape s /\ snd r' = snd r.
Proof. intros Ha Hc Hs. cbv zeta. pose proof (csim_canon a s Hs) as E.
  set (k := csim_shape s) in *. clearbody k. rewrite E.
  rewrite (calls_refine (alC k) csim_cmd (csim_cmd_al _)) by auto. cbn [fst snd].
  destruct (csim_al_aligned (fst (calls abs_cmd a cs)) k). auto. Qed.

Theorem ssim_calls_aligned a s cs : okint (abs_si a) -> Forall cmd_ok cs -> ssim_aligned a s ->
  let r := calls abs_cmd a cs in let r' := calls ssim_cmd s cs in
  ssim_aligned (fst r) (fst r') /\ ssim_shape (fst r') = ssim_shape s /\ snd r' = snd r.
Proof. intros Ha Hc Hs. cbv zeta. pose proof (ssim_canon a s Hs) as E.
  set (k := ssim_shape s) in *. clearbody k. rewrite E.
  rewrite (calls_refine (alS k) ssim_cmd (ssim_cmd_al _)) by auto. cbn [fst snd].
  destruct (ssim_al_aligned (fst (calls abs_cmd a cs)) k). auto. Qed.

Theorem tsim_calls_aligned a s cs : okint (abs_si a) -> Forall cmd_ok cs -> tsim_aligned a s ->
  let r := calls abs_cmd a cs in let r' := calls tsim_cmd s cs in
  tsim_aligned (fst r) (fst r') /\ tsim_shape (fst r') = tsim_shape s /\ snd r' = snd r.
Proof. intros Ha Hc Hs. cbv zeta. pose proof (tsim_canon a s Hs) as E.
  set (k := tsim_shape s) in *. clearbody k. rewrite E.
  rewrite (calls_refine (alT k) tsim_cmd (tsim_cmd_al _)) by auto. cbn [fst snd].
  destruct (tsim_al_aligned (fst (calls abs_cmd a cs)) k). auto. Qed.

(* ------------------------------------------------------------------ what the one node does *)
(* number of steps executed before the first rejected one *)
Fixpoint nlead (oks : list bool) : nat :=
  match oks with true :: t => S (nlead t) | _ => 0 end.
Definition all_ok (oks : list bool) : bool := forallb (fun b => b) oks.

Lemma abs_steps i si h oks :
  calls abs_cmd (i, si, h) (map CStep oks) =
  ((i + nlead oks, si, h ++ filter (fires si) (seq i (nlead oks))),
   if all_ok oks then None else Some (Err 1901)).
Proof. revert i h. induction oks as [|[|] t IH]; intros i h; cbn [map calls abs_cmd nlead all_ok forallb seq filter].
  - rewrite Nat.add_0_r, app_nil_r. reflexivity.
  - rewrite IH. unfold nxt. cbn [andb]. f_equal. f_equal; [f_equal; lia|].
    destruct (fires si i); cbn; rewrite <- ?app_assoc; reflexivity.
  - rewrite Nat.add_0_r, app_nil_r. reflexivity. Qed.

(* walk(): the initial save, then the steps.  The saved indices are exactly the members of
   [i; i; i+1; ...; i+k-1] (the first entry is the initial save, the others the k executed steps)
   that the interval divides. *)
Lemma abs_walk i si oks h :
  calls abs_cmd (i, si, h) (walk_cmds oks) =
  ((i + nlead oks, si, h ++ filter (fires si) (i :: seq i (nlead oks))),
   if all_ok oks then None else Some (Err 1901)).
Proof. unfold walk_cmds. cbn [calls abs_cmd]. rewrite abs_steps. f_equal. f_equal.
  unfold nxt. cbn [filter]. destruct (fires si i); cbn; rewrite <- ?app_assoc; reflexivity. Qed.

(* counting *)
Lemma div_succ k n : n <> 0 ->
  S k / n = k / n + (if Nat.eqb (S k mod n) 0 then 1 else 0).
Proof. intros Hn.
  pose proof (Nat.div_mod k n Hn) as E. pose proof (Nat.mod_upper_bound k n Hn) as B.
  destruct (Nat.eq_dec (S (k mod n)) n) as [Hc|Hc].
  - assert (S k = n * (k / n + 1) + 0) as E2 by lia.
    rewrite <- (Nat.mod_unique (S k) n (k / n + 1) 0) by lia.
    rewrite <- (Nat.div_unique (S k) n (k / n + 1) 0) by lia. cbn. lia.
  - assert (S k = n * (k / n) + S (k mod n)) as E2 by lia.
    rewrite <- (Nat.mod_unique (S k) n (k / n) (S (k mod n))) by lia.
    rewrite <- (Nat.div_unique (S k) n (k / n) (S (k mod n))) by lia. cbn. lia. Qed.

Lemma count_multiples n k : n <> 0 ->
  length (filter (fun j => Nat.eqb (j mod n) 0) (seq 1 k)) = k / n.
Proof. intros Hn. induction k as [|k IH].
  - cbn. symmetry. apply Nat.div_0_l; auto.
  - rewrite seq_S, filter_app, app_length, IH. cbn [filter plus].
    rewrite (div_succ k n Hn). destruct (Nat.eqb (S k mod n) 0); cbn; lia. Qed.

(* number of entries after a walk from a fresh object (counter 1) that executed k steps *)
Definition expected_len (si : option nat) (k : nat) : nat :=
  match si with
  | None => 0
  | Some n => (if Nat.eqb n 1 then 1 else 0) + k / n
  end.

Lemma one_mod n : n <> 0 -> Nat.eqb (1 mod n) 0 = Nat.eqb n 1.
Proof. intros Hn. destruct n as [|[|n]]; try congruence. reflexivity.
  rewrite Nat.mod_small by lia. reflexivity. Qed.

Lemma walk_len si k : okint si ->
  length (filter (fires si) (1 :: seq 1 k)) = expected_len si k.
Proof. unfold okint, expected_len. destruct si as [n|]; intros H.
  - assert (n <> 0) as Hn by congruence.
    change (fires (Some n)) with (fun j => Nat.eqb (j mod n) 0). cbn [filter].
    rewrite one_mod by auto. pose proof (count_multiples n k Hn) as C.
    destruct (Nat.eqb n 1); cbn [length]; rewrite C; reflexivity.
  - cbn [fires]. induction (1 :: seq 1 k); cbn; auto. Qed.

Lemma filter_none l : filter (fires None) l = [].
Proof. induction l; cbn; auto. Qed.

(* ------------------------------------------------------------------ interval 0 *)
Lemma mapM_panic0 i h k : k <> 0 -> mapM node_save (repeat (mk i (Some 0) h) k) = Panic 1900.
Proof. destruct k; [congruence|]. reflexivity. Qed.

Lemma loco_save_zero i h k : loco_save (al_loco i (Some 0) h k) = Panic 1900.
Proof. destruct k; reflexivity. Qed.
Lemma consist_save_zero i h shape : consist_save (al_consist i (Some 0) h shape) = Panic 1900.
Proof. reflexivity. Qed.

Lemma lsim_zero_panics i h k b : b = CSave \/ b = CStep true ->
  snd (lsim_cmd (al_lsim i (Some 0) h k) b) = Some (Panic 1900).
Proof. intros [->| ->]; cbn [lsim_cmd]; unfold lsim_save; cbn [al_lsim ls_loco ls_i];
  rewrite loco_save_zero; reflexivity. Qed.
Lemma csim_zero_panics i h shape b : b = CSave \/ b = CStep true ->
  snd (csim_cmd (al_csim i (Some 0) h shape) b) = Some (Panic 1900).
Proof. intros [->| ->]; reflexivity. Qed.
Lemma ssim_zero_panics i h shape b : b = CSave \/ b = CStep true ->
  snd (ssim_cmd (al_ssim i (Some 0) h shape) b) = Some (Panic 1900).
Proof. intros [->| ->]; reflexivity. Qed.
Lemma tsim_zero_panics i h shape b : b = CSave \/ b = CStep true ->
  snd (tsim_cmd (al_tsim i (Some 0) h shape) b) = Some (Panic 1900).
Proof. intros [->| ->]; reflexivity. Qed.

(* ------------------------------------------------------------------ set_save_interval *)
(* reaches every node of ANY tree (aligned or not) and touches nothing else *)
Definition si_all (si : option nat) (l : list node) := Forall (fun x => nd_si x = si) l.
Definition same_counts (l l' : list node) :=
  map nd_i l' = map nd_i l /\ map nd_hist l' = map nd_hist l.

Lemma nodes_set_si si l :
  si_all si (map (node_set_si si) l) /\ same_counts l (map (node_set_si si) l).
Proof. unfold si_all, same_counts. induction l as [|x l [IH1 [IH2 IH3]]]; cbn.
  - repeat split; constructor.
  - repeat split; try (constructor; auto); congruence. Qed.

Lemma loco_nodes_set_si si l : loco_nodes (loco_set_si si l) = map (node_set_si si) (loco_nodes l).
Proof. reflexivity. Qed.
Lemma consist_nodes_set_si si c :
  consist_nodes (consist_set_si si c) = map (node_set_si si) (consist_nodes c).
Proof. unfold consist_nodes; cbn. f_equal. induction (cn_locos c) as [|l t IH]; cbn; auto.
  rewrite map_app, IH. reflexivity. Qed.

Lemma lsim_interval_propagates si s :
  let s' := fst (lsim_cmd s (CSetSI si)) in
  si_all si (lsim_nodes s') /\ same_counts (lsim_nodes s) (lsim_nodes s') /\ ls_i s' = ls_i s.
Proof. cbn. unfold lsim_nodes; cbn. rewrite loco_nodes_set_si.
  destruct (nodes_set_si si (loco_nodes (ls_loco s))). auto. Qed.
Lemma csim_interval_propagates si s :
  let s' := fst (csim_cmd s (CSetSI si)) in
  si_all si (csim_nodes s') /\ same_counts (csim_nodes s) (csim_nodes s') /\ cs_i s' = cs_i s.
Proof. cbn. unfold csim_nodes; cbn. rewrite consist_nodes_set_si.
  destruct (nodes_set_si si (consist_nodes (cs_con s))). auto. Qed.
Lemma ssim_interval_propagates si s :
  let s' := fst (ssim_cmd s (CSetSI si)) in
  si_all si (ssim_nodes s') /\ same_counts (ssim_nodes s) (ssim_nodes s').
Proof. cbn. unfold ssim_nodes; cbn [ss_nd ss_con]. rewrite consist_nodes_set_si.
  change (node_set_si si (ss_nd s) :: map (node_set_si si) (consist_nodes (ss_con s)))
    with (map (node_set_si si) (ss_nd s :: consist_nodes (ss_con s))).
  apply nodes_set_si. Qed.
Lemma tsim_interval_propagates si s :
  let s' := fst (tsim_cmd s (CSetSI si)) in
  si_all si (tsim_nodes s') /\ same_counts (tsim_nodes s) (tsim_nodes s').
Proof. cbn. unfold tsim_nodes; cbn [ts_nd ts_fric ts_con]. rewrite consist_nodes_set_si.
  change (node_set_si si (ts_nd s) :: node_set_si si (ts_fric s) :: map (node_set_si si) (consist_nodes (ts_con s)))
    with (map (node_set_si si) (ts_nd s :: ts_fric s :: consist_nodes (ts_con s))).
  apply nodes_set_si. Qed.

(* a rejected step leaves the object exactly as it was (model level: counters, intervals,
   histories), for ANY object *)
Lemma rejected_step_untouched :
  (forall s, lsim_cmd s (CStep false) = (s, Some (Err 1901))) /\
  (forall s, csim_cmd s (CStep false) = (s, Some (Err 1901))) /\
  (forall s, ssim_cmd s (CStep false) = (s, Some (Err 1901))) /\
  (forall s, tsim_cmd s (CStep false) = (s, Some (Err 1901))).
Proof. repeat split. Qed.

(* ------------------------------------------------------------------ walks of fresh objects *)
Definition fresh_lsim si k : lsim := {| ls_loco := fresh_loco si k; ls_i := 1 |}.
Definition fresh_csim si shape : csim := {| cs_con := fresh_consist si shape; cs_i := 1 |}.
Definition fresh_ssim si shape : ssim := {| ss_con := fresh_consist si shape; ss_nd := fresh_node si |}.
Definition fresh_tsim si shape : tsim :=
  {| ts_con := fresh_consist si shape; ts_fric := fresh_node si; ts_nd := fresh_node si |}.

(* the state every node is in after a walk that executed k steps *)
Definition walked (si : option nat) (k : nat) : node :=
  mk (1 + k) si (filter (fires si) (1 :: seq 1 k)).
Definition walk_ret (oks : list bool) : option (res unit) :=
  if all_ok oks then None else Some (Err 1901).

Lemma all_are_len x l n : length (nd_hist x) = n -> all_are x l -> Forall (fun y => length (nd_hist y) = n) l.
Proof. intros H A. induction A; constructor; subst; auto. Qed.

Theorem lsim_walk_fresh si k oks : okint si ->
  let r := calls lsim_cmd (fresh_lsim si k) (walk_cmds oks) in
  ls_i (fst r) = 1 + nlead oks /\ all_are (walked si (nlead oks)) (lsim_nodes (fst r)) /\
  Forall (fun x => length (nd_hist x) = expected_len si (nlead oks)) (lsim_nodes (fst r)) /\
  snd r = walk_ret oks.
Proof. intros H. cbv zeta.
  assert (Forall cmd_ok (walk_cmds oks)) as Hc.
  { unfold walk_cmds. constructor; cbn; auto. apply Forall_forall. intros c Hin.
    apply in_map_iff in Hin. destruct Hin as (b & <- & _). exact I. }
  assert (lsim_aligned (1, si, []) (fresh_lsim si k)) as Ha by apply (lsim_al_aligned (1, si, []) k).
  destruct (lsim_calls_aligned (1, si, []) _ _ H Hc Ha) as (A & _ & R).
  rewrite abs_walk in A, R. cbn [fst snd app] in A, R. destruct A as [A1 A2].
  repeat split; auto. eapply all_are_len; [|exact A2]. apply walk_len; auto. Qed.

Theorem csim_walk_fresh si shape oks : okint si ->
  let r := calls csim_cmd (fresh_csim si shape) (walk_cmds oks) in
  cs_i (fst r) = 1 + nlead oks /\ all_are (walked si (nlead oks)) (csim_nodes (fst r)) /\
  Forall (fun x => length (nd_hist x) = expected_len si (nlead oks)) (csim_nodes (fst r)) /\
  snd r = walk_ret oks /\ csim_shape (fst r) = shape.
Proof. intros H. cbv zeta.
  assert (Forall cmd_ok (walk_cmds oks)) as Hc.
  { unfold walk_cmds. constructor; cbn; auto. apply Forall_forall. intros c Hin.
    apply in_map_iff in Hin. destruct Hin as (b & <- & _). exact I. }
  destruct (csim_al_aligned (1, si, []) shape) as [Ha Hs].
  change (alC shape (1, si, [])) with (fresh_csim si shape) in Ha, Hs.
  destruct (csim_calls_aligned (1, si, []) _ _ H Hc Ha) as (A & S & R).
  rewrite abs_walk in A, R. cbn [fst snd app] in A, R. destruct A as [A1 A2].
  repeat split; auto. eapply all_are_len; [|exact A2]. apply walk_len; auto. congruence. Qed.

Theorem ssim_walk_fresh si shape oks : okint si ->
  let r := calls ssim_cmd (fresh_ssim si shape) (walk_cmds oks) in
  all_are (walked si (nlead oks)) (ssim_nodes (fst r)) /\
  Forall (fun x => length (nd_hist x) = expected_len si (nlead oks)) (ssim_nodes (fst r)) /\
  snd r = walk_ret oks /\ ssim_shape (fst r) = shape.
Proof. intros H. cbv zeta.
  assert (Forall cmd_ok (walk_cmds oks)) as Hc.
  { unfold walk_cmds. constructor; cbn; auto. apply Forall_forall. intros c Hin.
    apply in_map_iff in Hin. destruct Hin as (b & <- & _). exact I. }
  destruct (ssim_al_aligned (1, si, []) shape) as [Ha Hs].
  change (alS shape (1, si, [])) with (fresh_ssim si shape) in Ha, Hs.
  destruct (ssim_calls_aligned (1, si, []) _ _ H Hc Ha) as (A & S & R).
  rewrite abs_walk in A, R. cbn [fst snd app] in A, R.
  repeat split; auto. eapply all_are_len; [|exact A]. apply walk_len; auto. congruence. Qed.

Theorem tsim_walk_fresh si shape oks : okint si ->
  let r := calls tsim_cmd (fresh_tsim si shape) (walk_cmds oks) in
  all_are (walked si (nlead oks)) (tsim_nodes (fst r)) /\
  Forall (fun x => length (nd_hist x) = expected_len si (nlead oks)) (tsim_nodes (fst r)) /\
  snd r = walk_ret oks /\ tsim_shape (fst r) = shape.
Proof. intros H. cbv zeta.
  assert (Forall cmd_ok (walk_cmds oks)) as Hc.
  { unfold walk_cmds. constructor; cbn; auto. apply Forall_forall. intros c Hin.
    apply in_map_iff in Hin. destruct Hin as (b & <- & _). exact I. }
  destruct (tsim_al_aligned (1, si, []) shape) as [Ha Hs].
  change (alT shape (1, si, [])) with (fresh_tsim si shape) in Ha, Hs.
  destruct (tsim_calls_aligned (1, si, []) _ _ H Hc Ha) as (A & S & R).
  rewrite abs_walk in A, R. cbn [fst snd app] in A, R.
  repeat split; auto. eapply all_are_len; [|exact A]. apply walk_len; auto. congruence. Qed.

(* saving disabled: nothing is ever recorded, whatever is called *)
Lemma none_walk_empty k : nd_hist (walked None k) = [].
Proof. unfold walked, mk; cbn [nd_hist]. apply filter_none. Qed.

(* The hypothesis "aligned at the start" is necessary: `Consist::new` / `*Simulation::new` do not
   reset the counters of the parts they are given.  A consist with one unit that has already been
   stepped once (counter 2) and interval 2: after a walk of three steps the consist and the
   fresh unit have recorded step 2, the pre-stepped unit and its components nothing (whenever the
   consist's gate opens, the unit's counter is odd). *)
Definition misaligned_csim : csim :=
  {| cs_con := {| cn_locos := [al_loco 1 (Some 2) [] 3; al_loco 2 (Some 2) [] 2]; cn_nd := mk 1 (Some 2) [] |};
     cs_i := 1 |}.
Lemma unaligned_start_diverges :
  let s := fst (calls csim_cmd misaligned_csim (walk_cmds [true; true; true])) in
  map nd_hist (csim_nodes s) = [[2]; [2]; [2]; [2]; [2]; []; []; []].
Proof. vm_compute. reflexivity. Qed.
