(* TrainFullP.v -- the whole train-simulation step decomposes into an accepted train-level step
   under the limits the consist published and an accepted consist step with the wheel power the
   train model chose; hence every component theorem (C01, C08, C09, C10, C11, C12, C14, C03's step
   lemmas) applies to every step of every whole-simulation run. *)
From Coq Require Import Reals Lra Lia List Bool ZArith Arith.
From AltModel Require Import Num Interp Powertrain Loco Consist Resist Braking TrainStep TrainEnergy TrainFull.
From AltProofs Require Import NumR PowertrainP ConsistP C10P C01P C11P ResistP.
Import ListNotations.
Open Scope R_scope.

Notation TStateR := (TState (F:=R)).
Notation SLStateR := (SLState (F:=R)).

(* the train-level wheel energies of a TrainState, as the C11 bookkeeping record *)
Definition te_of (st : TStateR) : TrainEnergy (F:=R) :=
  let w := ts_w st in
  {| te_pwr_whl_out := w_pwr_whl_out w; te_energy_whl_out := w_energy_whl_out w;
     te_energy_whl_out_pos := w_energy_whl_out_pos w; te_energy_whl_out_neg := w_energy_whl_out_neg w |}.

Lemma mk_pw_is_train_acc pres pacc whl dt (w : Pw (F:=R)) st st' :
  ts_w st = w -> ts_w st' = mk_pw pres pacc whl dt w -> te_of st' = train_acc (te_of st) whl dt.
Proof. intros Hw Hw'. unfold te_of. rewrite Hw, Hw'. reflexivity. Qed.

Theorem ss_full_step_decomposes (e : Env (F:=R)) times speeds fmax st cache (c c' : ConsistR) st'' cache' :
  ss_full_step e times speeds fmax ((st, cache), c) = Ok ((st'', cache'), c') ->
  exists st' c2 t_i t_p,
    nth_error times (k_i (ts_k st)) = Some t_i /\ nth_error times (pred (k_i (ts_k st))) = Some t_p /\
    consist_set_cur_pwr_max_out (consist_set_pwr_aux c true) (t_i - t_p) = Ok c2 /\
    ss_solve_step e times speeds (cl_of c2 fmax) st cache = Ok (st', cache') /\
    st'' = bump_i st' /\
    consist_solve c2 (w_pwr_whl_out (ts_w st')) (t_i - t_p) true = Ok c' /\
    consist_sim_solve_step c (w_pwr_whl_out (ts_w st')) (t_i - t_p) = Ok c'.
Proof.
  unfold ss_full_step. destruct (k_i (ts_k st)) as [|im1] eqn:Ei; [discriminate|].
  destruct (nth_error times (S im1)) as [t_i|] eqn:E1; [|discriminate].
  destruct (nth_error times im1) as [t_p|] eqn:E2; [|discriminate].
  numR. intros H. apply bind_ok in H. destruct H as (c2 & Hc2 & H).
  apply bind_ok in H. destruct H as ([st' ch'] & Hs & H).
  apply bind_ok in H. destruct H as (c3 & Hc3 & H). inversion H; subst; clear H.
  exists st', c2, t_i, t_p. cbn [pred]. repeat split; auto.
  unfold consist_sim_solve_step. rewrite Hc2. cbn [bind]. exact Hc3.
Qed.

Theorem sl_full_step_decomposes (e : Env (F:=R)) pts fmax (s s'' : SLStateR) (c c' : ConsistR) :
  sl_full_step e pts fmax (s, c) = Ok (s'', c') ->
  let dt := k_dt (ts_k (sl_st s)) in
  exists s' c2,
    consist_set_cur_pwr_max_out (consist_set_pwr_aux c true) dt = Ok c2 /\
    sl_solve_step e pts (cl_of c2 fmax) s = Ok s' /\ s'' = sl_bump s' /\
    consist_solve c2 (w_pwr_whl_out (ts_w (sl_st s'))) dt true = Ok c' /\
    consist_sim_solve_step c (w_pwr_whl_out (ts_w (sl_st s'))) dt = Ok c'.
Proof.
  unfold sl_full_step. cbv zeta. intros H. apply bind_ok in H. destruct H as (c2 & Hc2 & H).
  apply bind_ok in H. destruct H as (s' & Hs & H).
  apply bind_ok in H. destruct H as (c3 & Hc3 & H). inversion H; subst; clear H.
  exists s', c2. repeat split; auto.
  unfold consist_sim_solve_step. rewrite Hc2. cbn [bind]. exact Hc3.
Qed.

(* the train-level energy bookkeeping of both simulations is C11's [train_acc] *)
Lemma ss_solve_step_acc (e : Env (F:=R)) times speeds cl st cache st' cache' t_i t_p :
  nth_error times (k_i (ts_k st)) = Some t_i -> nth_error times (pred (k_i (ts_k st))) = Some t_p ->
  ss_solve_step e times speeds cl st cache = Ok (st', cache') ->
  te_of st' = train_acc (te_of st) (w_pwr_whl_out (ts_w st')) (t_i - t_p).
Proof.
  unfold ss_solve_step. intros Hti Htp H.
  destruct (nth_error speeds (k_i (ts_k st))) as [v_i|]; [|discriminate].
  ens H. destruct (k_i (ts_k st)) as [|im1]; [discriminate|]. cbn [pred] in Htp.
  destruct (nth_error speeds im1) as [v_p|]; [|discriminate]. ens H.
  rewrite Hti, Htp in H.
  apply bind_ok in H. destruct H as ([st1 c1] & Hu & H). ens H.
  apply bind_ok in H. destruct H as ([lnk oil] & Hl & H). inversion H; subst; clear H.
  cbn [ts_k ts_w k_dt]. numR.
  destruct (update_res_frame _ _ _ _ _ _ _ _ Hu) as (_ & Hw & _).
  unfold te_of. cbn [ts_w]. rewrite Hw. unfold mk_pw, train_acc. cbn. reflexivity.
Qed.

(* C11 on the whole set-speed simulation: one whole step is one step of the C11 bookkeeping *)
Theorem ss_full_step_is_tstep (e : Env (F:=R)) times speeds fmax st cache (c c' : ConsistR) st'' cache' :
  ss_full_step e times speeds fmax ((st, cache), c) = Ok ((st'', cache'), c') ->
  exists p dt, tstep (te_of st, c) (p, dt) = Ok (te_of st'', c') /\ p = w_pwr_whl_out (ts_w st'').
Proof.
  intros H. destruct (ss_full_step_decomposes _ _ _ _ _ _ _ _ _ _ H)
    as (st' & c2 & t_i & t_p & Hti & Htp & Hc2 & Hs & Hb & Hc3 & _).
  pose proof (ss_solve_step_acc _ _ _ _ _ _ _ _ _ _ Hti Htp Hs) as Hacc.
  exists (w_pwr_whl_out (ts_w st')), (t_i - t_p). subst st''. split; [|reflexivity].
  unfold tstep, train_consist_step. cbn [fst snd]. rewrite Hc2. cbn [bind]. rewrite Hc3. cbn [bind].
  change (te_of (bump_i st')) with (te_of st'). rewrite Hacc. reflexivity.
Qed.

(* C11 for the whole set-speed simulation, every run: train-level, consist-level and
   locomotive-sum energies stay equal (hypothesis on published limits as in C10/C11) *)
Theorem ss_full_run_levels (e : Env (F:=R)) times speeds fmax : forall n x x',
  cinv (snd x) -> levels_agree (te_of (fst (fst x)), snd x) ->
  (forall k y, (1 <= k <= n)%nat -> ss_full_run k e times speeds fmax x = Ok y -> limits_nonneg (snd y)) ->
  ss_full_run n e times speeds fmax x = Ok x' ->
  cinv (snd x') /\ levels_agree (te_of (fst (fst x')), snd x').
Proof.
  induction n as [|n IH]; intros x x' Hinv Hag Hlim Hrun; cbn [ss_full_run] in Hrun.
  - inversion Hrun; subst. auto.
  - apply bind_ok in Hrun. destruct Hrun as (x1 & Hstep & Hrun).
    destruct x as [[st cache] c]. destruct x1 as [[st1 cache1] c1]. cbn [fst snd] in *.
    destruct (ss_full_step_is_tstep _ _ _ _ _ _ _ _ _ _ Hstep) as (p & dt & Ht & _).
    assert (Hl1 : limits_nonneg c1).
    { apply (Hlim 1%nat ((st1, cache1), c1)); [lia|]. cbn [ss_full_run]. rewrite Hstep. reflexivity. }
    destruct (train_step_levels (te_of st, c) (te_of st1, c1) p dt Hinv Ht Hl1) as (_ & _ & _ & _ & Hinv1 & Hag1).
    apply (IH ((st1, cache1), c1) x' Hinv1 (Hag1 Hag)); [|exact Hrun].
    intros k y Hk Hr. apply (Hlim (S k) y); [lia|]. cbn [ss_full_run]. rewrite Hstep. cbn [bind]. exact Hr.
Qed.

(* ---- the same for SpeedLimitTrainSim ---- *)
Lemma sl_solve_step_acc (e : Env (F:=R)) pts cl (s s' : SLStateR) :
  sl_solve_step e pts cl s = Ok s' ->
  te_of (sl_st s') = train_acc (te_of (sl_st s)) (w_pwr_whl_out (ts_w (sl_st s'))) (k_dt (ts_k (sl_st s))).
Proof.
  unfold sl_solve_step. intros H. apply bind_ok in H. destruct H as ([s1 ax] & Hs & H).
  inversion H; subst s1; clear H. unfold sl_solve_step_aux in Hs.
  apply bind_ok in Hs. destruct Hs as ([st1 c1] & Hu & H).
  destruct (update_res_frame _ _ _ _ _ _ _ _ Hu) as (_ & Fw & _ & _ & _ & _ & _ & _ & _ & _ & _ & _ & Fdt).
  ens H. apply bind_ok in H. destruct H as ([[ic slim] stgt] & Hcs & H).
  ens H. ens H. apply bind_ok in H. destruct H as ([f_consist fbf] & Hfc & H).
  ens H. ens H. apply bind_ok in H. destruct H as ([lnk oil] & Hl & H).
  inversion H; subst; clear H. cbn [sl_st ts_w ts_k k_dt]. 
  unfold te_of. cbn [ts_w]. rewrite Fw, Fdt. unfold mk_pw, train_acc. cbn. reflexivity.
Qed.

Theorem sl_full_step_is_tstep (e : Env (F:=R)) pts fmax (s s'' : SLStateR) (c c' : ConsistR) :
  sl_full_step e pts fmax (s, c) = Ok (s'', c') ->
  exists p dt, tstep (te_of (sl_st s), c) (p, dt) = Ok (te_of (sl_st s''), c') /\
               p = w_pwr_whl_out (ts_w (sl_st s'')) /\ dt = k_dt (ts_k (sl_st s)).
Proof.
  intros H. destruct (sl_full_step_decomposes _ _ _ _ _ _ _ H) as (s' & c2 & Hc2 & Hs & Hb & Hc3 & _).
  pose proof (sl_solve_step_acc _ _ _ _ _ Hs) as Hacc.
  exists (w_pwr_whl_out (ts_w (sl_st s'))), (k_dt (ts_k (sl_st s))). subst s''.
  split; [|split; reflexivity].
  unfold tstep, train_consist_step. cbn [fst snd]. rewrite Hc2. cbn [bind]. rewrite Hc3. cbn [bind].
  change (te_of (sl_st (sl_bump s'))) with (te_of (sl_st s')). rewrite Hacc. reflexivity.
Qed.

Theorem sl_full_run_levels (e : Env (F:=R)) pts fmax : forall n x x',
  cinv (snd x) -> levels_agree (te_of (sl_st (fst x)), snd x) ->
  (forall k y, (1 <= k <= n)%nat -> sl_full_run k e pts fmax x = Ok y -> limits_nonneg (snd y)) ->
  sl_full_run n e pts fmax x = Ok x' ->
  cinv (snd x') /\ levels_agree (te_of (sl_st (fst x')), snd x').
Proof.
  induction n as [|n IH]; intros x x' Hinv Hag Hlim Hrun; cbn [sl_full_run] in Hrun.
  - inversion Hrun; subst. auto.
  - apply bind_ok in Hrun. destruct Hrun as (x1 & Hstep & Hrun).
    destruct x as [s c]. destruct x1 as [s1 c1]. cbn [fst snd] in *.
    destruct (sl_full_step_is_tstep _ _ _ _ _ _ _ Hstep) as (p & dt & Ht & _).
    assert (Hl1 : limits_nonneg c1).
    { apply (Hlim 1%nat (s1, c1)); [lia|]. cbn [sl_full_run]. rewrite Hstep. reflexivity. }
    destruct (train_step_levels (te_of (sl_st s), c) (te_of (sl_st s1), c1) p dt Hinv Ht Hl1) as (_ & _ & _ & _ & Hinv1 & Hag1).
    apply (IH (s1, c1) x' Hinv1 (Hag1 Hag)); [|exact Hrun].
    intros k y Hk Hr. apply (Hlim (S k) y); [lia|]. cbn [sl_full_run]. rewrite Hstep. cbn [bind]. exact Hr.
Qed.

(* ---- the whole walk is a whole run that ends exactly when the loop condition fails ---- *)
Theorem sl_full_walk_is_run (e : Env (F:=R)) pts offset_end fmax : forall fuel x x',
  sl_full_walk fuel e pts offset_end fmax x = Ok x' ->
  exists n, (n <= fuel)%nat /\ sl_full_run n e pts fmax x = Ok x' /\
    walk_cond offset_end (fst x') = false /\
    (forall k y, (k < n)%nat -> sl_full_run k e pts fmax x = Ok y ->
       walk_cond offset_end (fst y) = true /\ walk_stuck offset_end (fst y) = false).
Proof.
  induction fuel as [|f IH]; intros x x' H; cbn [sl_full_walk] in H.
  - destruct (walk_cond offset_end (fst x)) eqn:Ec; [discriminate|]. inversion H; subst.
    exists 0%nat. split; [lia|]. split; [reflexivity|]. split; [exact Ec|]. intros k y Hk; lia.
  - destruct (walk_cond offset_end (fst x)) eqn:Ec.
    + ens H. apply bind_ok in H. destruct H as (x1 & Hs & Hw).
      destruct (IH _ _ Hw) as (n & Hn & Hrun & Hend & Hall).
      exists (S n). split; [lia|]. split; [cbn [sl_full_run]; rewrite Hs; exact Hrun|]. split; [exact Hend|].
      intros k y Hk Hy. destruct k as [|k].
      * cbn [sl_full_run] in Hy. inversion Hy; subst. split; [exact Ec|].
        match goal with E : negb _ = true |- _ => apply negb_true_iff in E; exact E end.
      * cbn [sl_full_run] in Hy. rewrite Hs in Hy. cbn [bind] in Hy. apply (Hall k y); [lia|exact Hy].
    + inversion H; subst. exists 0%nat. split; [lia|]. split; [reflexivity|]. split; [exact Ec|]. intros k y Hk; lia.
Qed.

(* where an accepted walk ends: inside the stopping window (the last 1000 ft) and at rest, or at / past
   the end of the path *)
Theorem sl_full_walk_end (e : Env (F:=R)) pts offset_end fmax fuel x x' :
  sl_full_walk fuel e pts offset_end fmax x = Ok x' ->
  let k := ts_k (sl_st (fst x')) in
  offset_end - ft1000 <= k_offset k /\ (offset_end <= k_offset k \/ k_speed k = 0).
Proof.
  intros H. destruct (sl_full_walk_is_run _ _ _ _ _ _ _ H) as (n & _ & _ & Hend & _).
  unfold walk_cond in Hend. cbv zeta. numR.
  apply orb_false_iff in Hend. destruct Hend as [H1 H2].
  apply Rltb_false in H1. split; [lra|].
  apply andb_false_iff in H2. destruct H2 as [H2|H2].
  - apply Rltb_false in H2. left; lra.
  - apply negb_false_iff in H2. right. destruct (Reqb_spec (k_speed (ts_k (sl_st (fst x')))) 0); [auto|discriminate].
Qed.

(* hence C11 along every accepted walk *)
Corollary sl_full_walk_levels (e : Env (F:=R)) pts offset_end fmax fuel x x' :
  cinv (snd x) -> levels_agree (te_of (sl_st (fst x)), snd x) ->
  (forall k y, sl_full_run k e pts fmax x = Ok y -> (1 <= k)%nat -> limits_nonneg (snd y)) ->
  sl_full_walk fuel e pts offset_end fmax x = Ok x' ->
  cinv (snd x') /\ levels_agree (te_of (sl_st (fst x')), snd x').
Proof.
  intros Hinv Hag Hlim H. destruct (sl_full_walk_is_run _ _ _ _ _ _ _ H) as (n & _ & Hrun & _).
  apply (sl_full_run_levels e pts fmax n x x' Hinv Hag); [|exact Hrun].
  intros k y Hk Hy. apply (Hlim k y Hy). lia.
Qed.

(* ---- C03's row facts on every step of the whole simulation (the limits are the consist's own) ---- *)
From AltProofs Require Import TrainStepP BrakingP.

Theorem sl_full_step_limit_target (e : Env (F:=R)) pts fmax (s s'' : SLStateR) (c c' : ConsistR) :
  Forall pt_ok pts -> sl_full_step e pts fmax (s, c) = Ok (s'', c') ->
  let k' := ts_k (sl_st s'') in
  0 <= k_speed_target k' <= k_speed_limit k' /\ k_speed (ts_k (sl_st s)) <= k_speed_limit k'.
Proof.
  intros Hpts H. destruct (sl_full_step_decomposes _ _ _ _ _ _ _ H) as (s' & c2 & _ & Hs & Hb & _ & _).
  unfold sl_solve_step in Hs. apply bind_ok in Hs. destruct Hs as ([s1 ax] & Hs & Hq). inversion Hq; subst s1.
  pose proof (step_limit_target _ _ _ _ _ _ Hpts Hs) as Hl. subst s''. exact Hl.
Qed.

(* one whole step never ends above its target when the brakes available in that step suffice *)
Theorem sl_full_step_speed_le_target (e : Env (F:=R)) pts fmax (s s'' : SLStateR) (c c' : ConsistR) :
  sl_full_step e pts fmax (s, c) = Ok (s'', c') ->
  0 < k_dt (ts_k (sl_st s)) -> 0 < mass_compound (ts_p (sl_st s)) ->
  exists c2 ax, consist_set_cur_pwr_max_out (consist_set_pwr_aux c true) (k_dt (ts_k (sl_st s))) = Ok c2 /\
    (exists s', sl_solve_step_aux e pts (cl_of c2 fmax) s = Ok (s', ax) /\ s'' = sl_bump s') /\
    (BrakeAdequate ax -> k_speed (ts_k (sl_st s'')) <= k_speed_target (ts_k (sl_st s''))).
Proof.
  intros H Hdt Hm. destruct (sl_full_step_decomposes _ _ _ _ _ _ _ H) as (s' & c2 & Hc2 & Hs & Hb & _ & _).
  unfold sl_solve_step in Hs. apply bind_ok in Hs. destruct Hs as ([s1 ax] & Hs & Hq). inversion Hq; subst s1.
  exists c2, ax. split; [exact Hc2|]. split; [exists s'; auto|].
  intros Hb'. subst s''. exact (step_speed_le_target _ _ _ _ _ _ Hs Hdt Hm Hb').
Qed.

(* ---- SetSpeedTrainSim::walk: a run of exactly (len - i0) whole steps when the counter starts at i0 <= len ---- *)
Lemma ss_full_step_counter (e : Env (F:=R)) times speeds fmax st cache (c c' : ConsistR) st'' cache' :
  ss_full_step e times speeds fmax ((st, cache), c) = Ok ((st'', cache'), c') ->
  k_i (ts_k st'') = S (k_i (ts_k st)).
Proof.
  intros H. destruct (ss_full_step_decomposes _ _ _ _ _ _ _ _ _ _ H) as (st' & c2 & t_i & t_p & _ & _ & _ & Hs & Hb & _).
  subst st''. apply ss_solve_step_facts in Hs.
  destruct Hs as (_ & _ & _ & _ & _ & _ & _ & _ & _ & _ & _ & _ & _ & Fi & _).
  unfold bump_i. cbn [ts_k k_i]. rewrite Fi. reflexivity.
Qed.

Theorem ss_full_walk_is_run (e : Env (F:=R)) times speeds fmax : forall fuel x x',
  ss_full_walk fuel e times speeds fmax x = Ok x' ->
  exists n, (n <= fuel)%nat /\ ss_full_run n e times speeds fmax x = Ok x' /\
    (length times <= k_i (ts_k (fst (fst x'))))%nat /\
    k_i (ts_k (fst (fst x'))) = (k_i (ts_k (fst (fst x))) + n)%nat /\
    (1 <= n -> k_i (ts_k (fst (fst x'))) = length times)%nat.
Proof.
  induction fuel as [|f IH]; intros x x' H; cbn [ss_full_walk] in H.
  - destruct (Nat.ltb_spec (k_i (ts_k (fst (fst x)))) (length times)) as [Hl|Hl]; [discriminate|].
    inversion H; subst. exists 0%nat. repeat split; auto; lia.
  - destruct (Nat.ltb_spec (k_i (ts_k (fst (fst x)))) (length times)) as [Hl|Hl].
    + apply bind_ok in H. destruct H as (x1 & Hs & Hw).
      destruct (IH _ _ Hw) as (n & Hn & Hrun & Hend & Hcnt & Hex).
      destruct x as [[st cache] c]. destruct x1 as [[st1 cache1] c1].
      pose proof (ss_full_step_counter _ _ _ _ _ _ _ _ _ _ Hs) as Hc. cbn [fst] in *.
      exists (S n). split; [lia|]. split; [cbn [ss_full_run]; rewrite Hs; exact Hrun|]. split; [exact Hend|].
      split; [lia|]. intros _. destruct n as [|n'].
      * cbn [ss_full_run] in Hrun. inversion Hrun; subst. cbn [fst] in *. lia.
      * apply Hex. lia.
    + inversion H; subst. exists 0%nat. repeat split; auto; lia.
Qed.

(* ---- a whole set-speed run follows its trace: after n >= 1 whole steps from counter i0 the state shows sample
   i0 + n - 1 of the trace (time and speed), whatever the consist did ---- *)
Lemma ss_full_step_sample (e : Env (F:=R)) times speeds fmax st cache (c c' : ConsistR) st'' cache' :
  ss_full_step e times speeds fmax ((st, cache), c) = Ok ((st'', cache'), c') ->
  k_time (ts_k st'') = nthR times (k_i (ts_k st)) /\ k_speed (ts_k st'') = nthR speeds (k_i (ts_k st)) /\
  k_i (ts_k st'') = S (k_i (ts_k st)).
Proof.
  intros H. pose proof (ss_full_step_counter _ _ _ _ _ _ _ _ _ _ H) as Hc.
  destruct (ss_full_step_decomposes _ _ _ _ _ _ _ _ _ _ H) as (st' & c2 & t_i & t_p & _ & _ & _ & Hs & Hb & _).
  subst st''. apply ss_solve_step_facts in Hs.
  destruct Hs as (_ & _ & _ & _ & _ & _ & _ & _ & _ & _ & Ft & Fs & _).
  unfold bump_i in *. cbn [ts_k k_time k_speed k_i] in *. auto.
Qed.

Theorem ss_full_run_follows_trace (e : Env (F:=R)) times speeds fmax : forall n x x',
  ss_full_run (S n) e times speeds fmax x = Ok x' ->
  let i := (k_i (ts_k (fst (fst x))) + n)%nat in
  k_time (ts_k (fst (fst x'))) = nthR times i /\ k_speed (ts_k (fst (fst x'))) = nthR speeds i /\
  k_i (ts_k (fst (fst x'))) = S i.
Proof.
  induction n as [|n IH]; intros x x' H.
  - cbn [ss_full_run] in H. apply bind_ok in H. destruct H as (x1 & Hs & H). inversion H; subst x1; clear H.
    destruct x as [[st cache] c]. destruct x' as [[st1 cache1] c1]. cbn [fst]. rewrite Nat.add_0_r.
    exact (ss_full_step_sample _ _ _ _ _ _ _ _ _ _ Hs).
  - change (ss_full_run (S (S n)) e times speeds fmax x) with
      (let? x1 := ss_full_step e times speeds fmax x in ss_full_run (S n) e times speeds fmax x1) in H.
    apply bind_ok in H. destruct H as (x1 & Hs & H). specialize (IH _ _ H).
    destruct x as [[st cache] c]. destruct x1 as [[st1 cache1] c1].
    destruct (ss_full_step_sample _ _ _ _ _ _ _ _ _ _ Hs) as (_ & _ & Hi). cbn [fst] in *.
    rewrite Hi in IH. replace (k_i (ts_k st) + S n)%nat with (S (k_i (ts_k st)) + n)%nat by lia. exact IH.
Qed.

(* ---- C12's bookkeeping law on every whole step of the speed-limit simulation (the consist inside) ---- *)
Theorem sl_full_step_kin (e : Env (F:=R)) pts fmax (s s'' : SLStateR) (c c' : ConsistR) :
  sl_full_step e pts fmax (s, c) = Ok (s'', c') ->
  exists raw, kin_law (e_lps e) (sl_st s) (sl_st s'') raw /\
    (k_speed (ts_k (sl_st s'')) = raw \/
     (k_speed (ts_k (sl_st s'')) = k_speed_target (ts_k (sl_st s'')) /\
      almost_eq raw (k_speed_target (ts_k (sl_st s''))) eps8 = true)) /\
    k_i (ts_k (sl_st s'')) = S (k_i (ts_k (sl_st s))).
Proof.
  intros H. destruct (sl_full_step_decomposes _ _ _ _ _ _ _ H) as (s' & c2 & _ & Hs & Hb & _ & _).
  unfold sl_solve_step in Hs. apply bind_ok in Hs. destruct Hs as ([s1 ax] & Hs & Hq). inversion Hq; subst s1.
  destruct (sl_solve_step_kin _ _ _ _ _ _ Hs) as (K & _ & Ki & S').
  exists (ax_speed_raw ax). subst s''. split; [apply kin_law_bump; exact K|]. split; [exact S'|].
  unfold sl_bump, bump_i. cbn [sl_st ts_k k_i]. rewrite Ki. reflexivity.
Qed.

(* along a whole run: time advances by the sum of the step sizes, i.e. n * dt (dt is constant), the step
   counter by n, and the rear stays one train length behind the front *)
Theorem sl_full_run_clock (e : Env (F:=R)) pts fmax : forall n x x',
  sl_full_run n e pts fmax x = Ok x' ->
  let k := ts_k (sl_st (fst x)) in let k' := ts_k (sl_st (fst x')) in
  k_dt k' = k_dt k /\ k_time k' = k_time k + INR n * k_dt k /\ k_i k' = (k_i k + n)%nat /\
  ((1 <= n)%nat -> k_offset_back k' = k_offset k' - p_length (ts_p (sl_st (fst x')))) /\
  ts_p (sl_st (fst x')) = ts_p (sl_st (fst x)).
Proof.
  induction n as [|n IH]; intros x x' H; cbn [sl_full_run] in H.
  - inversion H; subst. cbv zeta. cbn [INR]. repeat split; auto; try lra; try lia.
  - apply bind_ok in H. destruct H as (x1 & Hs & Hr). specialize (IH _ _ Hr). cbv zeta in IH |- *.
    destruct x as [s c]. destruct x1 as [s1 c1]. cbn [fst] in *.
    destruct (sl_full_step_kin _ _ _ _ _ _ _ Hs) as (raw & K & _ & Ki).
    destruct (sl_full_step_decomposes _ _ _ _ _ _ _ Hs) as (s' & c2 & _ & Hss & Hb & _ & _).
    unfold sl_solve_step in Hss. apply bind_ok in Hss. destruct Hss as ([sx ax] & Hss & Hq). inversion Hq; subst sx.
    destruct (sl_solve_step_kin _ _ _ _ _ _ Hss) as (_ & Kdt & _ & _).
    assert (Hdt1 : k_dt (ts_k (sl_st s1)) = k_dt (ts_k (sl_st s))) by (subst s1; exact Kdt).
    destruct K as (Kt & _ & _ & Kb & Kp & _).
    destruct IH as (I1 & I2 & I3 & I4 & I5).
    split; [rewrite I1; exact Hdt1|]. split.
    + rewrite I2, Kt, Hdt1. rewrite S_INR. lra.
    + split; [rewrite I3, Ki; lia|]. split.
      * intros _. destruct n as [|n']; [|apply I4; lia].
        cbn [sl_full_run] in Hr. inversion Hr; subst x'. cbn [fst]. exact Kb.
      * rewrite I5. exact Kp.
Qed.
