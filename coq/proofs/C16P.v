(* C16P.v -- concrete witnesses: what the validation code in /repo does today versus the repaired
   behaviour.  The validation model is generic over the number carrier and only compares numbers,
   so the witnesses are stated at the simplest instance, the integers (offsets in metres): they
   are evaluated by the kernel without any axiom or primitive.  The same four networks are among
   the cases every run of the check replays against the real code (binary64). *)
From Coq Require Import List Bool ZArith NArith.
From AltModel Require Import Num Validate.
From AltProofs Require Import ValidateP.
Import ListNotations.
Open Scope Z_scope.

#[export] Instance Z_ops : NumOps Z := {|
  n0 := 0; n1 := 1; nadd := Z.add; nsub := Z.sub; nmul := Z.mul; ndiv := Z.div;
  nneg := Z.opp; nabs := Z.abs; nsqrt := Z.sqrt;
  nleb := Z.leb; nltb := Z.ltb; neqb := Z.eqb; nmax := Z.max; nmin := Z.min;
  nofZ := fun z => z; nlit := fun m e => m * 10 ^ e; ninf := 0
|}.
(* every integer is finite and integral; one revolution taken as 7 (headings are 0 here) *)
Definition zNP : NumPred Z := {| np_fin := fun _ => true; np_int := fun _ => true; np_rev := 7 |}.
Notation Linkf := (Link (F:=Z)).

Definition w_speed : SpeedSet (F:=Z) :=
  {| ss_limits := [{| sl_start := 0; sl_end := 100; sl_speed := 20 |}]; ss_params := []; ss_head := false |}.
Definition w_dummy : Linkf :=
  {| lk_curr := 0; lk_flip := 0; lk_next := 0; lk_next_alt := 0; lk_prev := 0; lk_prev_alt := 0;
     lk_length := 0; lk_elevs := []; lk_headings := []; lk_speed_sets := []; lk_speed_set := None;
     lk_cat := []; lk_lockout := [] |}.
Definition w_link (curr flip next prev : N) (cat : list (CatLimit (F:=Z))) (lock : list N) : Linkf :=
  {| lk_curr := curr; lk_flip := flip; lk_next := next; lk_next_alt := 0; lk_prev := prev; lk_prev_alt := 0;
     lk_length := 100;
     lk_elevs := [{| el_off := 0; el_elev := 5 |}; {| el_off := 100; el_elev := 6 |}];
     lk_headings := []; lk_speed_sets := [(1%Z, w_speed)]; lk_speed_set := None;
     lk_cat := cat; lk_lockout := lock |}.
Definition w_cat (a b : Z) : CatLimit (F:=Z) := {| cp_start := a; cp_end := b; cp_power := 1000000 |}.

(* a consistent network: two track segments in a row, each with its reverse-direction twin *)
Definition w_valid : list Linkf :=
  [w_dummy; w_link 1 3 2 0 [w_cat 0 40; w_cat 40 100] [3%N]; w_link 2 4 0 1 [] [];
            w_link 3 1 0 4 [] []; w_link 4 2 3 0 [] []].

(* (the code in /repo rejects it: its two abutting catenary sections trip the inverted test) *)
Lemma valid_accepted : validate_network zNP true w_valid = Ok tt /\ validate_network zNP false w_valid = Err ERR_VALIDATION.
Proof. split; vm_compute; reflexivity. Qed.
Lemma NetworkOK_satisfiable : NetworkOK zNP w_valid.
Proof. apply validate_iff. apply valid_accepted. Qed.

(* (ii) a reference outside the network: today an index panic, repaired an error value *)
Definition w_out_of_range : list Linkf := [w_dummy; w_link 1 0 7 0 [] []].
Lemma current_code_panics_on_out_of_range :
  validate_network zNP false w_out_of_range = Panic 1601 /\
  validate_network zNP true w_out_of_range = Err ERR_VALIDATION.
Proof. split; vm_compute; reflexivity. Qed.

(* (i) the catenary overlap test is inverted *)
Definition w_cat_disjoint : list Linkf := [w_dummy; w_link 1 0 0 0 [w_cat 0 10; w_cat 20 30] []].
Definition w_cat_overlap : list Linkf := [w_dummy; w_link 1 0 0 0 [w_cat 0 20; w_cat 10 30] []].
Lemma current_code_rejects_disjoint_catenary :
  validate_network zNP false w_cat_disjoint = Err ERR_VALIDATION /\
  validate_network zNP true w_cat_disjoint = Ok tt.
Proof. split; vm_compute; reflexivity. Qed.
Lemma current_code_accepts_overlapping_catenary :
  validate_network zNP false w_cat_overlap = Ok tt /\
  validate_network zNP true w_cat_overlap = Err ERR_VALIDATION.
Proof. split; vm_compute; reflexivity. Qed.

(* (iii) lockout entries are not looked at *)
Definition w_bad_lockout : list Linkf := [w_dummy; w_link 1 0 0 0 [] [9%N]].
Lemma current_code_accepts_lockout_outside_network :
  validate_network zNP false w_bad_lockout = Ok tt /\
  validate_network zNP true w_bad_lockout = Err ERR_VALIDATION.
Proof. split; vm_compute; reflexivity. Qed.
