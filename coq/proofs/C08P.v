(* C08P.v -- second law and engine-off, at locomotive-simulation level, for every run. *)
From Coq Require Import Reals Lra Lia List Bool ZArith Arith.
From AltModel Require Import Num Interp Powertrain Loco.
From AltProofs Require Import NumR InterpP PowertrainP LocoP.
Import ListNotations.
Open Scope R_scope.

Definition lstep (l : Loco (F:=R)) (i : R * R * bool) : res (Loco (F:=R)) :=
  let '(pwr, dt, on) := i in loco_sim_solve_step l pwr dt on.
Definition dt_pos (i : R * R * bool) : Prop := let '(_, dt, _) := i in 0 < dt.

(* the per-step statement of C08 *)
Definition second_law_step (l l' : Loco (F:=R)) (pwr : R) (on : bool) : Prop :=
  let e := edrv_state (loco_edrv l') in
  eta_ok (es_eta e) /\ 0 <= es_pwr_loss e /\
  (0 < pwr -> 0 <= es_pwr_mech_prop_out e <= es_pwr_elec_prop_in e) /\
  (pwr <= 0 -> es_pwr_mech_prop_out e <= es_pwr_elec_prop_in e <= 0) /\
  (0 <= pwr -> es_pwr_mech_dyn_brake e = 0) /\ 0 <= es_pwr_mech_dyn_brake e /\
  0 <= es_pwr_elec_dyn_brake e <= es_pwr_mech_dyn_brake e /\
  match lc_type l' with
  | PConv c =>
      let f := fc_state (cv_fc c) in let g := gen_state (cv_gen c) in
      eta_ok (fcs_eta f) /\ eta_ok (gs_eta g) /\
      0 <= fcs_pwr_loss f /\ 0 <= gs_pwr_loss g /\
      fcs_pwr_brake f <= fcs_pwr_fuel f /\
      gs_pwr_elec_prop_out g + gs_pwr_elec_aux g <= gs_pwr_mech_in g /\
      0 <= fcs_pwr_fuel f /\
      (on = false -> fcs_pwr_fuel f = 0 /\ fcs_pwr_idle_fuel f = 0 /\
                     ls_pwr_aux (lc_state l') = 0 /\ gs_pwr_elec_aux g = 0)
  | PBel b =>
      let r := res_state (bl_res b) in
      eta_ok (rs_eta r) /\ 0 <= rs_pwr_loss r /\
      (0 < rs_pwr_out_electrical r -> rs_pwr_out_electrical r <= rs_pwr_out_chemical r) /\
      (rs_pwr_out_electrical r <= 0 -> rs_pwr_out_electrical r <= rs_pwr_out_chemical r <= 0)
  end.

(* cumulative fuel, loss and dynamic-braking energies never decrease *)
Definition cum_le (l l' : Loco (F:=R)) : Prop :=
  let e := edrv_state (loco_edrv l) in let e' := edrv_state (loco_edrv l') in
  es_energy_loss e <= es_energy_loss e' /\
  es_energy_mech_dyn_brake e <= es_energy_mech_dyn_brake e' /\
  es_energy_elec_dyn_brake e <= es_energy_elec_dyn_brake e' /\
  match lc_type l, lc_type l' with
  | PConv c, PConv c' =>
      fcs_energy_fuel (fc_state (cv_fc c)) <= fcs_energy_fuel (fc_state (cv_fc c')) /\
      fcs_energy_loss (fc_state (cv_fc c)) <= fcs_energy_loss (fc_state (cv_fc c')) /\
      fcs_energy_idle_fuel (fc_state (cv_fc c)) <= fcs_energy_idle_fuel (fc_state (cv_fc c')) /\
      gs_energy_loss (gen_state (cv_gen c)) <= gs_energy_loss (gen_state (cv_gen c'))
  | PBel b, PBel b' =>
      rs_energy_loss (res_state (bl_res b)) <= rs_energy_loss (res_state (bl_res b'))
  | _, _ => False
  end.

Lemma one_mul_eta x : eta_ok x -> eta_ok (1 * x).
Proof. unfold eta_ok. intros; lra. Qed.

Lemma map_ok_par_edrv e e0 : edrv_par e = edrv_par e0 -> edrv_ok e0 -> edrv_ok e.
Proof. unfold edrv_par, edrv_ok. intros H; inversion H as [[H1 H2 H3]]. rewrite H2, H3. auto. Qed.
Lemma map_ok_par_gen g g0 : gen_par g = gen_par g0 -> gen_ok g0 -> gen_ok g.
Proof. unfold gen_par, gen_ok. intros H; inversion H as [[H1 H2 H3]]. rewrite H2, H3. auto. Qed.
Lemma map_ok_par_fc c c0 : fc_par c = fc_par c0 -> fc_ok c0 -> fc_ok c.
Proof. unfold fc_par, fc_ok. intros H; inversion H as [[H1 H2 H3 H4 H5]]. rewrite H3, H4, H5. auto. Qed.
Lemma res_ok_par r r0 : res_par r = res_par r0 -> res_ok r0 -> res_ok r.
Proof. unfold res_par, res_ok. intros H; inversion H. congruence. Qed.

Lemma mul_dt_mono a dt : 0 <= a -> 0 < dt -> 0 <= a * dt.
Proof. intros; nra. Qed.

Theorem loco_rel_second_law (l l' : Loco (F:=R)) pwr dt on :
  loco_ok l -> 0 < dt -> loco_step_rel l l' pwr dt on ->
  loco_ok l' /\ second_law_step l l' pwr on /\ cum_le l l'.
Proof.
  intros (Hty & Hoff & Hco) Hdt H.
  destruct H as (Eo & Ec & _ & Haux & _ & _ & _ & Hspec).
  pose proof (aux_of_nonneg l on Hoff Hco) as Haux0.
  unfold loco_ok, second_law_step, cum_le, loco_edrv. rewrite Eo, Ec.
  destruct (lc_type l) as [c0|b0] eqn:Et0; destruct (lc_type l') as [c'|b'] eqn:Et'; try contradiction.
  - destruct Hspec. destruct Hty as (Hfc & Hgen & Hedrv).
    destruct Hpar as (Pf & Pg & Pe). destruct Hcum as (Cf & Cg & Ce).
    pose proof (map_ok_par_edrv _ _ Pe Hedrv) as Oe.
    pose proof (map_ok_par_gen _ _ Pg Hgen) as Og.
    pose proof (map_ok_par_fc _ _ Pf Hfc) as [Of Oidle].
    pose proof (one_mul_eta _ (interp1d_eta _ _ _ _ Oe Hee)) as Eee.
    pose proof (one_mul_eta _ (interp1d_eta _ _ _ _ Og Heg)) as Eeg.
    pose proof (one_mul_eta _ (interp1d_eta _ _ _ _ Of Hef)) as Eef.
    assert (Hrm : 0 <= es_pwr_mech_regen_max (edrv_state (cv_edrv c))) by (rewrite Hregen; lra).
    pose proof (edrv_step_facts _ _ _ _ _ He) as (Fe1 & _ & _ & _ & Fd0 & _ & _ & _ & _ & _ & Fe_dyn & Fe_edyn & Fe_loss & _ & _ & FePm & FePf & FePe & _).
    pose proof (edrv_second_law _ _ _ _ _ He Eee Hrm) as (Se1 & Se2 & Se3 & _ & _ & Se6 & Se7).
    assert (Hga : 0 <= (if on then aux_of l on else 0)) by (destruct on; lra).
    pose proof (gen_step_facts _ _ _ _ _ _ Hg) as (Fg1 & _ & Fg_aux & Fg_m & _ & _ & _ & _ & Fg_loss & _ & _ & FgPm & FgPf & FgPe & _).
    pose proof (gen_second_law _ _ _ _ _ _ Hg Eeg ltac:(lra)) as (Sg1 & Sg2).
    pose proof (fc_step_facts _ _ _ _ _ _ _ Hf) as (_ & _ & Ff1 & _ & _ & _ & _ & _ & Ff_fuel & Ff_loss & Ff_idle & _ & _ & _ & FfPm & FfPi & FfPf & FfPe & _).
    pose proof (fc_second_law _ _ _ _ _ _ _ Hf Eef Oidle) as (Sf1 & Sf2 & Sf3 & Sf4 & Sf5).
    subst c'. cbn [ptype_ok cv_fc cv_gen cv_edrv].
    split; [|split].
    + (* loco_ok l' *)
      split; [|split; assumption]. split; [|split].
      * unfold fc_ok. rewrite FfPf, FfPe, FfPi. split; assumption.
      * unfold gen_ok. rewrite FgPf, FgPe. exact Og.
      * unfold edrv_ok. rewrite FePf, FePe. exact Oe.
    + rewrite Fe1, Ff1, Fg1. unfold eta_ok in *. destruct Eee, Eeg, Eef, Se7.
      repeat split; try assumption; try (apply Se2; assumption); try (apply Se3; assumption);
        try (apply Se7); try (apply Se6; assumption).
      all: try (match goal with Ho : _ = false |- _ => destruct (Sf5 Ho) as (Z1 & Z2 & Z3) end).
      all: try assumption.
      * rewrite Haux. unfold aux_of. match goal with Ho : _ = false |- _ => rewrite Ho end. reflexivity.
      * rewrite Fg_aux. match goal with Ho : _ = false |- _ => rewrite Ho end. reflexivity.
    + inversion Ce as [[C1 C2 C3 C4 C5 C6]]. inversion Cf as [[D1 D2 D3 D4 D5]]. inversion Cg as [[G1 G2 G3 G4]].
      rewrite Fe_loss, Fe_dyn, Fe_edyn, Ff_fuel, Ff_loss, Ff_idle, Fg_loss.
      pose proof (mul_dt_mono _ _ Se1 Hdt). pose proof (mul_dt_mono _ _ Fd0 Hdt).
      pose proof (mul_dt_mono _ _ (proj1 Se7) Hdt) as Hm7. pose proof (mul_dt_mono _ _ Sf3 Hdt).
      pose proof (mul_dt_mono _ _ Sf1 Hdt). pose proof (mul_dt_mono _ _ Sf4 Hdt).
      pose proof (mul_dt_mono _ _ Sg1 Hdt).
      repeat split; lra.
  - destruct Hspec. destruct Hty as (Hres & Hedrv).
    destruct Hpar as (Pr & Pe). destruct Hcum as (Cr & Ce).
    pose proof (map_ok_par_edrv _ _ Pe Hedrv) as Oe.
    pose proof (res_ok_par _ _ Pr Hres) as (lo & Hlo & Hlb & Hub).
    pose proof (one_mul_eta _ (interp1d_eta _ _ _ _ Oe Hee)) as Eee.
    assert (Eer : eta_ok er).
    { pose proof (interp3d_range _ _ _ _ _ _ _ _ _ _ Hlb Hub Her). unfold eta_ok; lra. }
    pose proof (edrv_step_facts _ _ _ _ _ He) as (Fe1 & _ & _ & _ & Fd0 & _ & _ & _ & _ & _ & Fe_dyn & Fe_edyn & Fe_loss & _ & _ & FePm & FePf & FePe & _).
    pose proof (edrv_second_law _ _ _ _ _ He Eee Hregen) as (Se1 & Se2 & Se3 & _ & _ & Se6 & Se7).
    pose proof (res_step_facts _ _ _ _ _ _ Hr) as (Fr1 & _ & _ & _ & _ & _ & _ & _ & _ & Fr_loss & _).
    pose proof (res_second_law _ _ _ _ _ _ Hr Eer) as (Sr1 & Sr2 & Sr3 & _).
    subst b'. cbn [ptype_ok bl_res bl_edrv].
    split; [|split].
    + split; [|split; assumption]. split.
      * unfold res_ok. unfold res_solve_eta in Hr. apply bind_ok in Hr. destruct Hr as (? & _ & Hr). ens Hr.
        inversion Hr; subst r; cbn. exists lo. auto.
      * unfold edrv_ok. rewrite FePf, FePe. exact Oe.
    + rewrite Fe1, Fr1. unfold eta_ok in *. destruct Eee, Eer, Se7.
      repeat split; try lra; try assumption; try (apply Se2; assumption); try (apply Se3; assumption);
        try (apply Se7); try (apply Se6; assumption); try (apply one_mul_eta; assumption);
        try (apply Sr2; assumption); try (apply Sr3; assumption).
    + inversion Ce as [[C1 C2 C3 C4 C5 C6]]. inversion Cr as [[D1 D2 D3 D4 D5 D6 D7]].
      rewrite Fe_loss, Fe_dyn, Fe_edyn, Fr_loss.
      pose proof (mul_dt_mono _ _ Se1 Hdt). pose proof (mul_dt_mono _ _ Fd0 Hdt).
      pose proof (mul_dt_mono _ _ (proj1 Se7) Hdt) as Hm7. pose proof (mul_dt_mono _ _ Sr1 Hdt).
      repeat split; lra.
Qed.

Theorem loco_step_second_law (l l' : Loco (F:=R)) pwr dt on :
  loco_ok l -> 0 < dt -> loco_sim_solve_step l pwr dt on = Ok l' ->
  loco_ok l' /\ second_law_step l l' pwr on /\ cum_le l l'.
Proof. intros Hok Hdt H. eapply loco_rel_second_law; eauto. apply loco_step_spec; exact H. Qed.

Lemma cum_le_refl l : cum_le l l.
Proof. unfold cum_le. destruct (lc_type l); repeat split; lra. Qed.
Lemma cum_le_trans a b c : cum_le a b -> cum_le b c -> cum_le a c.
Proof. unfold cum_le. destruct (lc_type a), (lc_type b), (lc_type c); intros; try tauto;
  repeat match goal with H : _ /\ _ |- _ => destruct H end; repeat split; lra. Qed.

Lemma lstep_law l i l' : dt_pos i -> loco_ok l -> lstep l i = Ok l' ->
  loco_ok l' /\ second_law_step l l' (fst (fst i)) (snd i) /\ cum_le l l'.
Proof. destruct i as [[pwr dt] on]. cbn. intros. eapply loco_step_second_law; eauto. Qed.

(* along every accepted run: well-formedness is kept and cumulative energies never decrease *)
Theorem run_cum_monotone l trace l' :
  loco_ok l -> Forall dt_pos trace -> run lstep l trace = Ok l' -> loco_ok l' /\ cum_le l l'.
Proof.
  intros Hok HP Hrun.
  eapply (run_rel_P lstep dt_pos loco_ok cum_le cum_le_refl cum_le_trans); eauto.
  intros s i s' Pi Hi Hs. destruct (lstep_law _ _ _ Pi Hi Hs) as (A & _ & C). auto.
Qed.

(* every single step of every accepted run obeys the per-step statement *)
Theorem run_every_step l pre i post l' :
  loco_ok l -> Forall dt_pos (pre ++ i :: post) -> run lstep l (pre ++ i :: post) = Ok l' ->
  exists m m', run lstep l pre = Ok m /\ lstep m i = Ok m' /\
               second_law_step m m' (fst (fst i)) (snd i) /\ cum_le m m' /\ cum_le l m.
Proof.
  intros Hok HP Hrun.
  apply run_prefix in Hrun. destruct Hrun as (m & Hpre & Hrest).
  apply Forall_app in HP. destruct HP as [HPpre HPrest]. inversion HPrest as [|? ? Pi Ppost]; subst.
  destruct (run_cum_monotone _ _ _ Hok HPpre Hpre) as [Hokm Hcm].
  cbn in Hrest. destruct (lstep m i) as [m'| |] eqn:Es; try discriminate.
  destruct (lstep_law _ _ _ Pi Hokm Es) as (_ & S & C).
  exists m, m'. auto.
Qed.

(* the in-code efficiency range checks can never fail: `eta >= 0 || eta <= 1` holds for every real *)
Lemma eta_check_always_true (eta : R) : (Rleb 0 eta || Rleb eta 1)%bool = true.
Proof. destruct (Rleb_spec 0 eta); cbn; auto. apply Rleb_true. lra. Qed.
