(* ConsistP.v -- sums, the split policies (C10), roll-ups (C01, C11) at consist level. *)
From Coq Require Import Reals Lra Lia List Bool ZArith Arith.
From AltModel Require Import Num Interp Powertrain Loco Consist.
From AltProofs Require Import NumR InterpP PowertrainP LocoP.
Import ListNotations.
Open Scope R_scope.

(* ---------------------------------------------------------------- sums *)
Fixpoint sumR {A} (f : A -> R) (l : list A) : R :=
  match l with [] => 0 | x :: t => f x + sumR f t end.

Lemma sumf_acc {A} (f : A -> R) l acc : fold_left (fun a x => a + f x) l acc = acc + sumR f l.
Proof. revert acc; induction l as [|x t IH]; intros acc; cbn; [lra|]. rewrite IH. lra. Qed.
Lemma sumf_sumR {A} (f : A -> R) l : sumf (F:=R) f l = sumR f l.
Proof. unfold sumf. numR. rewrite sumf_acc. lra. Qed.
Lemma sumR_map {A B} (g : A -> B) (f : B -> R) l : sumR f (map g l) = sumR (fun x => f (g x)) l.
Proof. induction l; cbn; auto. rewrite IHl. reflexivity. Qed.
Lemma sumR_ext {A} (f g : A -> R) l : (forall x, In x l -> f x = g x) -> sumR f l = sumR g l.
Proof. induction l as [|x t IH]; intros H; cbn; auto. rewrite (H x (or_introl eq_refl)), IH; auto.
  intros y Hy; apply H; right; exact Hy. Qed.
Lemma sumR_scale {A} (f : A -> R) k l : sumR (fun x => f x * k) l = sumR f l * k.
Proof. induction l; cbn; [lra|]. rewrite IHl. lra. Qed.
Lemma sumR_add {A} (f g : A -> R) l : sumR (fun x => f x + g x) l = sumR f l + sumR g l.
Proof. induction l; cbn; [lra|]. rewrite IHl. lra. Qed.
Lemma sumR_opp {A} (f : A -> R) l : sumR (fun x => - f x) l = - sumR f l.
Proof. induction l; cbn; [lra|]. rewrite IHl. lra. Qed.
Lemma sumR_nonneg {A} (f : A -> R) l : (forall x, In x l -> 0 <= f x) -> 0 <= sumR f l.
Proof. induction l as [|x t IH]; intros H; cbn; [lra|].
  pose proof (H x (or_introl eq_refl)). assert (0 <= sumR f t) by (apply IH; intros; apply H; right; auto). lra. Qed.
Lemma sumR_le {A} (f g : A -> R) l : (forall x, In x l -> f x <= g x) -> sumR f l <= sumR g l.
Proof. induction l as [|x t IH]; intros H; cbn; [lra|].
  pose proof (H x (or_introl eq_refl)). assert (sumR f t <= sumR g t) by (apply IH; intros; apply H; right; auto). lra. Qed.
Lemma sumR_zero {A} (l : list A) : sumR (fun _ => 0) l = 0.
Proof. induction l; cbn; lra. Qed.
Lemma sumR_split {A} (p : A -> bool) (f : A -> R) l :
  sumR f l = sumR (fun x => if p x then f x else 0) l + sumR (fun x => if p x then 0 else f x) l.
Proof. induction l as [|x t IH]; cbn; [lra|]. rewrite IH. destruct (p x); lra. Qed.
Lemma sumR_id_map {A} (f : A -> R) l : sumR (fun x => x) (map f l) = sumR f l.
Proof. apply (sumR_map f (fun x => x)). Qed.

(* ---------------------------------------------------------------- projections *)
Notation LocoR := (Loco (F:=R)).
Definition lim (l : LocoR) : R := ls_pwr_out_max (lc_state l).
Definition rg (l : LocoR) : R := ls_pwr_regen_max (lc_state l).
Definition em (l : LocoR) : R := loco_edrv_max l.
Definition pout (l : LocoR) : R := ls_pwr_out (lc_state l).

(* ---------------------------------------------------------------- positive traction *)
Section Positive.
Variables (ls : list LocoR) (s : ConsistState (F:=R)).
Let req := cs_pwr_out_req s.
Hypothesis Hmax : cs_pwr_out_max s = sumR lim ls.
Hypothesis Hrev : cs_pwr_out_max_reves s = sumR (fun l => if is_bel l then lim l else 0) ls.
Hypothesis Hnon : cs_pwr_out_max_non_reves s = cs_pwr_out_max s - cs_pwr_out_max_reves s.
Hypothesis Hdef : cs_pwr_out_deficit s = Rmax (req - cs_pwr_out_max_reves s) 0.
Hypothesis Hlim0 : forall l, In l ls -> 0 <= lim l.
Hypothesis Hreq : 0 < req <= cs_pwr_out_max s.

Lemma prop_share_bounds M x : 0 < req <= M -> 0 <= x -> 0 <= x / M * req <= x.
Proof. intros [H1 H2] Hx. assert (HM : 0 < M) by lra.
  assert (Hq : 0 <= req / M <= 1).
  { split; [apply Rmult_le_pos; [lra|left; apply Rinv_0_lt_compat; lra]|].
    apply (Rmult_le_reg_r M); [lra|]. unfold Rdiv. rewrite Rmult_assoc, Rinv_l by lra. lra. }
  replace (x / M * req) with (x * (req / M)) by (unfold Rdiv; field; lra). split; nra. Qed.

Theorem split_positive_proportional shares :
  split_positive Proportional ls s = Ok shares ->
  sumR (fun x => x) shares = req /\
  Forall2 (fun l p => 0 <= p <= lim l) ls shares.
Proof.
  cbn [split_positive]. numR. intros H; inversion H; subst shares; clear H.
  fold req. fold (lim). split.
  - rewrite sumR_id_map.
    change (sumR (fun l : LocoR => ls_pwr_out_max (lc_state l) / cs_pwr_out_max s * req) ls)
      with (sumR (fun l : LocoR => lim l * (/ cs_pwr_out_max s * req)) ls) || idtac.
    rewrite (sumR_ext _ (fun l => lim l * (/ cs_pwr_out_max s * req))) by (intros; unfold lim, Rdiv; ring).
    rewrite sumR_scale, <- Hmax. field. lra.
  - clear Hmax Hrev. induction ls as [|l t IH]; cbn; constructor.
    + apply prop_share_bounds; [exact Hreq|apply Hlim0; left; reflexivity].
    + apply IH. intros; apply Hlim0; right; assumption.
Qed.

(* battery-first policy *)
Theorem split_positive_greedy shares :
  split_positive RESGreedy ls s = Ok shares ->
  sumR (fun x => x) shares = req /\
  Forall2 (fun l p => 0 <= p <= lim l) ls shares /\
  (* fuel-burning units contribute exactly the part the battery units cannot cover *)
  sumR (fun lp => if is_bel (fst lp) then 0 else snd lp) (combine ls shares)
    = cs_pwr_out_deficit s /\
  (cs_pwr_out_deficit s = 0 ->
     Forall2 (fun l p => is_bel l = false -> p = 0) ls shares) /\
  (cs_pwr_out_deficit s <> 0 ->
     Forall2 (fun l p => is_bel l = true -> p = lim l) ls shares).
Proof.
  cbn [split_positive]. numR. fold req.
  set (R_ := cs_pwr_out_max_reves s) in *. set (M := cs_pwr_out_max s) in *.
  assert (HRle : R_ <= M).
  { rewrite Hrev, Hmax. apply sumR_le. intros l Hl. destruct (is_bel l); [lra|apply Hlim0; exact Hl]. }
  assert (HR0 : 0 <= R_) by (rewrite Hrev; apply sumR_nonneg; intros l Hl; destruct (is_bel l); [apply Hlim0; exact Hl|lra]).
  destruct (Reqb_spec (cs_pwr_out_deficit s) 0) as [Hd0|Hd0].
  - (* everything from the battery units *)
    assert (HreqR : req <= R_) by (rewrite Hdef in Hd0; unfold Rmax in Hd0; destruct (Rle_dec (req - R_) 0); lra).
    intros H. apply bind_ok in H. destruct H as (? & _ & H). inversion H; subst shares; clear H.
    split; [|split; [|split; [|split]]].
    + rewrite sumR_id_map.
      rewrite (sumR_ext _ (fun l => (if is_bel l then lim l else 0) * (/ R_ * req)))
        by (intros l _; unfold lim, Rdiv; destruct (is_bel l); ring).
      rewrite sumR_scale, <- Hrev. field. lra.
    + clear Hmax Hrev. induction ls as [|l t IH]; cbn; constructor.
      * destruct (is_bel l).
        -- apply prop_share_bounds; [lra|apply Hlim0; left; reflexivity].
        -- split; [lra|apply Hlim0; left; reflexivity].
      * apply IH. intros; apply Hlim0; right; assumption.
    + rewrite Hd0. clear. induction ls as [|l t IH]; cbn; [reflexivity|].
      destruct (is_bel l) eqn:E; cbn; rewrite IH; lra.
    + intros _. clear. induction ls as [|l t IH]; cbn; constructor; [|exact IH].
      intros ->. reflexivity.
    + intros Hc; contradiction.
  - (* battery units at their limit, the others share the deficit *)
    assert (Hdpos : cs_pwr_out_deficit s = req - R_ /\ 0 < req - R_).
    { rewrite Hdef in Hd0 |- *. unfold Rmax in *. destruct (Rle_dec (req - R_) 0); [lra|split; lra]. }
    destruct Hdpos as [Hdv Hdp].
    set (N := cs_pwr_out_max_non_reves s) in *.
    assert (HN : N = M - R_) by exact Hnon.
    assert (HNpos : 0 < N) by lra.
    assert (HNsum : N = sumR (fun l => if is_bel l then 0 else lim l) ls).
    { rewrite HN, Hmax, Hrev. rewrite (sumR_split is_bel lim ls). lra. }
    intros H. apply bind_ok in H. destruct H as (? & _ & H). inversion H; subst shares; clear H.
    split; [|split; [|split; [|split]]].
    + rewrite sumR_id_map.
      rewrite (sumR_ext _ (fun l => (if is_bel l then lim l else 0) + (if is_bel l then 0 else lim l) * (/ N * cs_pwr_out_deficit s)))
        by (intros l _; unfold lim, Rdiv; destruct (is_bel l); ring).
      rewrite sumR_add, sumR_scale, <- Hrev, <- HNsum, Hdv. fold R_. field. lra.
    + assert (Hdle : 0 < cs_pwr_out_deficit s <= N) by (rewrite Hdv; lra).
      clear Hmax Hrev HNsum. induction ls as [|l t IH]; cbn; constructor.
      * destruct (is_bel l).
        -- split; [apply Hlim0; left; reflexivity|unfold lim; lra].
        -- pose proof (Hlim0 l (or_introl eq_refl)) as Hl0.
           assert (Hq : 0 <= cs_pwr_out_deficit s / N <= 1).
           { split; [apply Rmult_le_pos; [lra|left; apply Rinv_0_lt_compat; lra]|].
             apply (Rmult_le_reg_r N); [lra|]. unfold Rdiv. rewrite Rmult_assoc, Rinv_l by lra. lra. }
           unfold lim in *.
           replace (ls_pwr_out_max (lc_state l) / N * cs_pwr_out_deficit s)
             with (ls_pwr_out_max (lc_state l) * (cs_pwr_out_deficit s / N)) by (unfold Rdiv; field; lra).
           split; nra.
      * apply IH. intros; apply Hlim0; right; assumption.
    + transitivity (sumR (fun l => if is_bel l then 0 else lim l) ls * (/ N * cs_pwr_out_deficit s)).
      * clear. induction ls as [|l t IH]; cbn; [lra|].
        destruct (is_bel l) eqn:E; cbn; rewrite IH; unfold lim, Rdiv; lra.
      * rewrite <- HNsum. field. lra.
    + intros Hc; contradiction.
    + intros _. clear. induction ls as [|l t IH]; cbn; constructor; [|exact IH].
      intros ->. reflexivity.
Qed.
End Positive.

(* ---------------------------------------------------------------- negative traction *)
Lemma combine_map_r {A B} (g : A -> B) (l : list A) : combine l (map g l) = map (fun x => (x, g x)) l.
Proof. induction l; cbn; auto. rewrite IHl. reflexivity. Qed.
Lemma combine_map_map {A B C} (f : A -> B) (g : A -> C) (l : list A) :
  combine (map f l) (map g l) = map (fun x => (f x, g x)) l.
Proof. induction l; cbn; auto. rewrite IHl. reflexivity. Qed.
Lemma Forall2_map_r {A B} (P : A -> B -> Prop) (g : A -> B) l :
  (forall x, In x l -> P x (g x)) -> Forall2 P l (map g l).
Proof. induction l as [|x t IH]; intros H; cbn; constructor; [apply H; left; auto|].
  apply IH. intros; apply H; right; auto. Qed.

Section Negative.
Variables (ls : list LocoR) (s : ConsistState (F:=R)).
Let req := cs_pwr_out_req s.
Let brake := - req.
Let RM := cs_pwr_regen_max s.
Let DB := sumR em ls.
Hypothesis Hrm : RM = sumR rg ls.
Hypothesis Hdef : cs_pwr_regen_deficit s = Rmax (brake - RM) 0.
Hypothesis Hrg : forall l, In l ls -> 0 <= rg l <= em l.
Hypothesis Hconv : forall l, In l ls -> is_bel l = false -> rg l = 0.
Hypothesis Hreq : 0 < brake <= DB.

Lemma rg_bel_sum : sumR (fun l => if is_bel l then rg l else 0) ls = RM.
Proof. rewrite Hrm. apply sumR_ext. intros l Hl. destruct (is_bel l) eqn:E; [reflexivity|].
  symmetry; apply Hconv; assumption. Qed.

Theorem split_negative_spec shares :
  split_negative ls s = Ok shares ->
  sumR (fun x => x) shares = req /\
  Forall2 (fun l p => - em l <= p <= 0) ls shares /\
  (* with enough regeneration capability only battery units are asked, within their limit *)
  (cs_pwr_regen_deficit s = 0 ->
     Forall2 (fun l p => (is_bel l = false -> p = 0) /\ - rg l <= p) ls shares).
Proof.
  unfold split_negative. numR. fold req brake RM.
  assert (HRM0 : 0 <= RM) by (rewrite Hrm; apply sumR_nonneg; intros l Hl; apply Hrg; exact Hl).
  assert (HRMle : RM <= DB) by (rewrite Hrm; apply sumR_le; intros l Hl; apply Hrg; exact Hl).
  destruct (Reqb_spec (cs_pwr_regen_deficit s) 0) as [Hd0|Hd0].
  - (* regeneration covers the whole request *)
    assert (Hb : brake <= RM) by (rewrite Hdef in Hd0; unfold Rmax in Hd0; destruct (Rle_dec (brake - RM) 0); lra).
    assert (HRMpos : 0 < RM) by lra.
    destruct (Reqb_spec RM 0) as [Hz|Hz]; [lra|].
    assert (Hfr : Rmin (brake / RM) (1 * 1) = brake / RM).
    { apply Rmin_left. apply (Rmult_le_reg_r RM); [lra|]. unfold Rdiv. rewrite Rmult_assoc, Rinv_l by lra. lra. }
    rewrite Hfr. set (fr := brake / RM).
    assert (Hfr01 : 0 <= fr <= 1).
    { unfold fr. split; [apply Rmult_le_pos; [lra|left; apply Rinv_0_lt_compat; lra]|].
      apply (Rmult_le_reg_r RM); [lra|]. unfold Rdiv. rewrite Rmult_assoc, Rinv_l by lra. lra. }
    cbn [bind]. intros H; inversion H; subst shares; clear H.
    unfold regen_vec. rewrite map_map. numR.
    split; [|split].
    + rewrite sumR_id_map.
      rewrite (sumR_ext _ (fun l => (if is_bel l then rg l else 0) * (- fr)))
        by (intros l _; unfold rg; destruct (is_bel l); ring).
      rewrite sumR_scale, rg_bel_sum. unfold fr, brake. field. lra.
    + apply Forall2_map_r. intros l Hl. pose proof (Hrg l Hl) as [H0 H1]. unfold rg in *.
      destruct (is_bel l); split; nra.
    + intros _. apply Forall2_map_r. intros l Hl. pose proof (Hrg l Hl) as [H0 H1]. unfold rg in *.
      destruct (is_bel l); split; try discriminate; try (intros; lra); nra.
  - (* all regeneration is used and dynamic braking shares the rest *)
    assert (Hdv : cs_pwr_regen_deficit s = brake - RM /\ 0 < brake - RM).
    { rewrite Hdef in Hd0 |- *. unfold Rmax in *. destruct (Rle_dec (brake - RM) 0); [lra|split; lra]. }
    destruct Hdv as [Hdv Hdp].
    (* the regeneration vector is each unit's full limit *)
    assert (Hrv : regen_vec ls (if Reqb RM 0 then 0 else Rmin (brake / RM) (1 * 1)) = map rg ls).
    { unfold regen_vec. apply map_ext_in. intros l Hl. numR. fold (rg l).
      destruct (Reqb_spec RM 0) as [Hz|Hz].
      - assert (rg l = 0).
        { assert (Hs : sumR rg ls = 0) by lra. clear - Hs Hl Hrg.
          assert (Hall : forall x, In x ls -> 0 <= rg x) by (intros; apply Hrg; auto).
          clear Hrg. induction ls as [|y t IH]; [contradiction|]. cbn in Hs.
          assert (0 <= rg y) by (apply Hall; left; auto).
          assert (0 <= sumR rg t) by (apply sumR_nonneg; intros; apply Hall; right; auto).
          destruct Hl as [->|Hl]; [lra|]. apply IH; auto; [lra|intros; apply Hall; right; auto]. }
        destruct (is_bel l); lra.
      - assert (Hm : Rmin (brake / RM) (1 * 1) = 1).
        { rewrite Rmult_1_l. apply Rmin_right. apply (Rmult_le_reg_r RM); [lra|].
          unfold Rdiv. rewrite Rmult_assoc, Rinv_l by lra. lra. }
        rewrite Hm. destruct (is_bel l) eqn:E; [lra|]. rewrite (Hconv l Hl E). lra. }
    rewrite Hrv.
    rewrite combine_map_r, map_map.
    set (sur := map (fun x : LocoR => loco_edrv_max x - rg x) ls).
    assert (Hss : sumf (fun x => x) sur = DB - RM).
    { rewrite sumf_sumR. unfold sur. rewrite sumR_id_map.
      rewrite (sumR_ext _ (fun l => em l + - rg l)) by (intros; unfold em; ring).
      rewrite sumR_add, sumR_opp, <- Hrm. unfold DB. lra. }
    rewrite Hss, Hdv.
    set (sf := (brake - RM) / (DB - RM)).
    assert (Hsf : 0 <= sf <= 1).
    { unfold sf. assert (0 < DB - RM) by lra. split.
      - apply Rmult_le_pos; [lra|left; apply Rinv_0_lt_compat; lra].
      - apply (Rmult_le_reg_r (DB - RM)); [lra|]. unfold Rdiv. rewrite Rmult_assoc, Rinv_l by lra. lra. }
    intros H. apply bind_ok in H. destruct H as (out & Hout & H). inversion H; subst shares; clear H.
    apply bind_ok in Hout. destruct Hout as (? & _ & Hout). inversion Hout; subst out; clear Hout.
    unfold sur. rewrite combine_map_map, !map_map.
    split; [|split].
    + rewrite sumR_id_map.
      rewrite (sumR_ext _ (fun l => (em l + - rg l) * (- sf) + - rg l)) by (intros; unfold em; ring).
      rewrite sumR_add, sumR_scale, sumR_add, !sumR_opp, <- Hrm. fold DB.
      unfold sf, brake. field. lra.
    + apply Forall2_map_r. intros l Hl. pose proof (Hrg l Hl) as [H0 H1]. unfold em in *. split; nra.
    + intros Hc; exfalso; lra.
Qed.
End Negative.

(* ---------------------------------------------------------------- structure of a consist step *)
Lemma map_res_spec {A B} (f : A -> res B) l l' :
  map_res f l = Ok l' -> Forall2 (fun x y => f x = Ok y) l l'.
Proof. revert l'; induction l as [|x t IH]; intros l' H; cbn in H.
  - inversion H; constructor.
  - apply bind_ok in H. destruct H as (y & Hy & H). apply bind_ok in H. destruct H as (ys & Hys & H).
    inversion H; subst. constructor; auto. Qed.

Inductive solved (dt : R) (on : bool) : list LocoR -> list R -> list LocoR -> Prop :=
| solved_nil : solved dt on [] [] []
| solved_cons l p l' ls ps ls' : loco_solve l p dt on = Ok l' -> solved dt on ls ps ls' ->
    solved dt on (l :: ls) (p :: ps) (l' :: ls').

Lemma solve_locos_spec ls ps dt on ls' :
  length ps = length ls -> solve_locos ls ps dt on = Ok ls' -> solved dt on ls ps ls'.
Proof. revert ps ls'; induction ls as [|l t IH]; intros [|p pt] ls' Hlen H; cbn in *; try discriminate.
  - inversion H; constructor.
  - apply bind_ok in H. destruct H as (l' & Hl & H). apply bind_ok in H. destruct H as (lt' & Ht & H).
    inversion H; subst. constructor; auto. Qed.

(* what loco_solve leaves alone, and what it delivers *)
Lemma loco_solve_frame (l l' : LocoR) p dt on : loco_solve l p dt on = Ok l' ->
  lim l' = lim l /\ rg l' = rg l /\ is_bel l' = is_bel l /\ em l' = em l /\ pout l' = p.
Proof.
  unfold loco_solve. intros H. cbv zeta in H. apply bind_ok in H; destruct H as ([] & _ & H). apply bind_ok in H. destruct H as (t & Ht & H). inversion H; subst l'; clear H.
  unfold lim, rg, is_bel, em, pout, loco_edrv_max, loco_edrv.
  cbn [lc_state lc_type loco_with ls_pwr_out_max ls_pwr_regen_max ls_pwr_out]. numR.
  destruct (lc_type l) as [c|b].
  - apply bind_ok in Ht. destruct Ht as (c' & Hc & Ht). inversion Ht; subst t; clear Ht.
    apply conv_solve_spec in Hc. destruct Hc as (e & g & f & ee & eg & ef & He & _ & _ & _ & _ & _ & _ & Hc').
    subst c'. cbn [cv_edrv].
    pose proof (edrv_step_facts _ _ _ _ _ He) as F. cbv zeta in F.
    pose proof (edrv_wheel_balance _ _ _ _ _ He) as W.
    repeat split; auto; try (destruct F as (_&_&_&_&_&_&_&_&_&_&_&_&_&_&_&Fm&_); exact Fm).
  - apply bind_ok in Ht. destruct Ht as (b' & Hb & Ht). inversion Ht; subst t; clear Ht.
    apply bel_solve_spec in Hb. destruct Hb as (e & r & ee & er & He & _ & _ & _ & Hb').
    subst b'. cbn [bl_edrv].
    pose proof (edrv_step_facts _ _ _ _ _ He) as F. cbv zeta in F.
    pose proof (edrv_wheel_balance _ _ _ _ _ He) as W.
    repeat split; auto; try (destruct F as (_&_&_&_&_&_&_&_&_&_&_&_&_&_&_&Fm&_); exact Fm).
Qed.

Lemma solved_frame dt on ls ps ls' : solved dt on ls ps ls' ->
  Forall2 (fun l l' => lim l' = lim l /\ rg l' = rg l /\ is_bel l' = is_bel l /\ em l' = em l) ls ls' /\
  map pout ls' = ps.
Proof. induction 1 as [|l p l' ls ps ls' Hs _ [IH1 IH2]]; [split; [constructor|reflexivity]|].
  destruct (loco_solve_frame _ _ _ _ _ Hs) as (A & B & C & D & E).
  split; [constructor; auto|cbn; congruence]. Qed.

Lemma Forall2_sumR_eq {A} (f : A -> R) l l' : Forall2 (fun x y => f y = f x) l l' -> sumR f l' = sumR f l.
Proof. induction 1; cbn; congruence. Qed.
Lemma sumR_map_id_list (ps : list R) (ls : list LocoR) : map pout ls = ps -> sumR pout ls = sumR (fun x => x) ps.
Proof. intros <-. symmetry. apply sumR_id_map. Qed.

(* ---------------------------------------------------------------- published limits *)
Lemma edrv_regen_le_max (e e' : Edrv (F:=R)) pin : edrv_set_cur_pwr_regen_max e pin = Ok e' ->
  0 <= es_pwr_mech_regen_max (edrv_state e') <= edrv_pwr_out_max e' /\ edrv_pwr_out_max e' = edrv_pwr_out_max e.
Proof. unfold edrv_set_cur_pwr_regen_max. intros H. bind_inv H. bind_inv H. ens H.
  inversion H; subst; clear H. cbn. numR. apply Rleb_true in E. split; [split; [exact E|apply Rmin_r]|reflexivity]. Qed.

Lemma loco_limits_spec (l l2 : LocoR) dt : loco_set_cur_pwr_max_out l dt = Ok l2 ->
  is_bel l2 = is_bel l /\ em l2 = em l /\ (is_bel l2 = false -> rg l2 = 0) /\
  (is_bel l2 = true -> 0 <= rg l2 <= em l2) /\ pout l2 = pout l.
Proof.
  unfold loco_set_cur_pwr_max_out. intros H.
  apply bind_ok in H. destruct H as (t1 & Ht1 & H).
  apply bind_ok in H. destruct H as (u & Hassert & H). inversion H; subst l2; clear H.
  unfold is_bel, em, rg, pout, loco_edrv_max, loco_edrv.
  cbn [lc_state lc_type loco_with ls_pwr_regen_max ls_pwr_out].
  destruct (lc_type l) as [c|b].
  - apply bind_ok in Ht1. destruct Ht1 as (c1 & Hc1 & Ht1). inversion Ht1; subst t1; clear Ht1.
    assert (Hr0 : es_pwr_mech_regen_max (edrv_state (cv_edrv c1)) = 0).
    { unfold passert in Hassert. numR.
      destruct (Reqb_spec (es_pwr_mech_regen_max (edrv_state (cv_edrv c1))) 0); [auto|discriminate]. }
    apply conv_limits_spec in Hc1. destruct Hc1 as ((_ & _ & Pe) & _).
    inversion Pe as [[P1 P2 P3]].
    repeat split; auto; try discriminate.
  - apply bind_ok in Ht1. destruct Ht1 as (b1 & Hb1 & Ht1). inversion Ht1; subst t1; clear Ht1.
    unfold bel_set_cur_pwr_max_out in Hb1.
    apply bind_ok in Hb1. destruct Hb1 as (r & Hr & Hb1).
    apply bind_ok in Hb1. destruct Hb1 as (e1 & He1 & Hb1).
    apply bind_ok in Hb1. destruct Hb1 as (e2 & He2 & Hb1). inversion Hb1; subst b1; clear Hb1.
    cbn [bl_edrv].
    apply edrv_limits_frame in He1. destruct He1 as (P1 & _).
    apply edrv_regen_le_max in He2. destruct He2 as (B & P2).
    inversion P1 as [[Q1 Q2 Q3]].
    repeat split; try discriminate; try (intros _); cbn; try lra; try congruence.
Qed.

(* ---------------------------------------------------------------- Consist::solve_energy_consumption *)
Notation ConsistR := (Consist (F:=R)).

Definition limits_consistent (c : ConsistR) : Prop :=
  let s := cn_state c in let ls := cn_locos c in
  cs_pwr_out_max s = sumR lim ls /\ cs_pwr_regen_max s = sumR rg ls /\
  cs_pwr_out_max_reves s = sumR (fun l => if is_bel l then lim l else 0) ls /\
  cs_pwr_out_max_non_reves s = cs_pwr_out_max s - cs_pwr_out_max_reves s /\
  (forall l, In l ls -> (is_bel l = false -> rg l = 0) /\ 0 <= rg l <= em l).

Lemma transfer (Q : R -> R -> R -> bool -> R -> Prop) dt on ls ps ls' :
  solved dt on ls ps ls' ->
  Forall2 (fun l p => Q (lim l) (rg l) (em l) (is_bel l) p) ls ps ->
  Forall (fun l' => Q (lim l') (rg l') (em l') (is_bel l') (pout l')) ls'.
Proof. induction 1 as [|l p l' ls ps ls' Hs _ IH]; intros HF; [constructor|].
  inversion HF; subst. destruct (loco_solve_frame _ _ _ _ _ Hs) as (A & B & C & D & E).
  constructor; [rewrite A, B, C, D, E; assumption|apply IH; assumption]. Qed.

Lemma transfer_sum (g : bool -> R -> R) dt on ls ps ls' :
  solved dt on ls ps ls' ->
  sumR (fun l' => g (is_bel l') (pout l')) ls' = sumR (fun lp => g (is_bel (fst lp)) (snd lp)) (combine ls ps).
Proof. induction 1 as [|l p l' ls ps ls' Hs _ IH]; cbn; [reflexivity|].
  destruct (loco_solve_frame _ _ _ _ _ Hs) as (A & B & C & D & E). rewrite C, E, IH. reflexivity. Qed.

Lemma Forall2_impl {A B} (P Q : A -> B -> Prop) l l' :
  (forall x y, In x l -> P x y -> Q x y) -> Forall2 P l l' -> Forall2 Q l l'.
Proof. intros H F. induction F; constructor; auto. apply H; [left; auto|auto].
  apply IHF. intros; apply H; auto. right; auto. Qed.

Lemma Forall2_length {A B} (P : A -> B -> Prop) l l' : Forall2 P l l' -> length l' = length l.
Proof. induction 1; cbn; congruence. Qed.

(* The per-step statement of C10 (and the consist part of C11).
   [Hlim0] -- every unit's published traction limit is non-negative -- is NOT guaranteed by the
   code (a battery at its minimum SOC that cannot cover its auxiliary load publishes a negative
   limit); see [sign_agreement_refuted] below and known_findings.json. *)
Theorem consist_solve_split (c c' : ConsistR) req dt on :
  limits_consistent c -> cn_assert_limits c = true ->
  cs_pwr_dyn_brake_max (cn_state c) = sumR em (cn_locos c) ->
  (forall l, In l (cn_locos c) -> 0 <= lim l) ->
  consist_solve c req dt on = Ok c' ->
  let ls' := cn_locos c' in let s' := cn_state c' in
  solved dt on (cn_locos c) (map pout ls') ls' /\
  sumR pout ls' = req /\ cs_pwr_out s' = req /\ cs_pwr_out_req s' = req /\
  (0 < req -> Forall (fun l' => 0 <= pout l' <= lim l') ls') /\
  (req < 0 -> Forall (fun l' => - em l' <= pout l' <= 0) ls') /\
  (req = 0 -> Forall (fun l' => pout l' = 0) ls') /\
  (req < 0 -> cs_pwr_regen_deficit s' = 0 ->
     Forall (fun l' => (is_bel l' = false -> pout l' = 0) /\ - rg l' <= pout l') ls') /\
  cs_pwr_out_deficit s' = Rmax (req - cs_pwr_out_max_reves (cn_state c)) 0 /\
  (cn_pdct c = RESGreedy -> 0 < req ->
     sumR (fun l' => if is_bel l' then 0 else pout l') ls' = cs_pwr_out_deficit s' /\
     (cs_pwr_out_deficit s' = 0 -> Forall (fun l' => is_bel l' = false -> pout l' = 0) ls') /\
     (cs_pwr_out_deficit s' <> 0 -> Forall (fun l' => is_bel l' = true -> pout l' = lim l') ls')).
Proof.
  intros (Hmax & Hrm & Hrev & Hnon & Hrgs) Hal Hdb Hlim0 H.
  unfold consist_solve in H. rewrite Hal in H. cbn [negb orb] in H.
  ens H. ens H. numR. apply Rleb_true in E, E0.
  apply bind_ok in H. destruct H as (shares & Hsh & H). ens H.
  apply bind_ok in H. destruct H as (ls' & Hsol & H). inversion H; subst c'; clear H.
  cbn [cn_locos cn_state cs_pwr_out cs_pwr_out_req cs_pwr_regen_deficit cs_pwr_out_deficit].
  set (s1 := {| cs_i := cs_i (cn_state c); cs_pwr_out_max := cs_pwr_out_max (cn_state c) |}) in Hsh.
  (* the shares *)
  assert (Hshares : length shares = length (cn_locos c) /\
     sumR (fun x => x) shares = req /\
     (0 < req -> Forall2 (fun l p => 0 <= p <= lim l) (cn_locos c) shares) /\
     (req < 0 -> Forall2 (fun l p => - em l <= p <= 0) (cn_locos c) shares) /\
     (req = 0 -> Forall2 (fun l p => p = 0) (cn_locos c) shares) /\
     (req < 0 -> Rmax (- req - cs_pwr_regen_max (cn_state c)) 0 = 0 ->
        Forall2 (fun l p => (is_bel l = false -> p = 0) /\ - rg l <= p) (cn_locos c) shares) /\
     (cn_pdct c = RESGreedy -> 0 < req ->
        sumR (fun lp => if is_bel (fst lp) then 0 else snd lp) (combine (cn_locos c) shares)
          = Rmax (req - cs_pwr_out_max_reves (cn_state c)) 0 /\
        (Rmax (req - cs_pwr_out_max_reves (cn_state c)) 0 = 0 ->
           Forall2 (fun l p => is_bel l = false -> p = 0) (cn_locos c) shares) /\
        (Rmax (req - cs_pwr_out_max_reves (cn_state c)) 0 <> 0 ->
           Forall2 (fun l p => is_bel l = true -> p = lim l) (cn_locos c) shares))).
  { destruct (Rltb_spec 0 req) as [Hpos|Hnpos].
    - (* positive traction *)
      assert (Hreq : 0 < cs_pwr_out_req s1 <= cs_pwr_out_max s1) by (cbn; lra).
      destruct (cn_pdct c) eqn:Epd.
      + destruct (split_positive_proportional (cn_locos c) s1 Hmax Hlim0 Hreq shares Hsh) as (S1 & S2).
        repeat split; try (intros; lra); try discriminate.
        * eapply Forall2_length; exact S2.
        * exact S1.
        * intros _; exact S2.
      + destruct (split_positive_greedy (cn_locos c) s1 Hmax Hrev Hnon eq_refl Hlim0 Hreq shares Hsh)
          as (S1 & S2 & S3 & S4 & S5).
        repeat split; try (intros; lra).
        * eapply Forall2_length; exact S2.
        * exact S1.
        * intros _; exact S2.
        * exact S3.
        * exact S4.
        * exact S5.
    - destruct (Rltb_spec req 0) as [Hneg|Hnneg].
      + (* negative traction *)
        assert (Hreq : 0 < - cs_pwr_out_req s1 <= sumR em (cn_locos c)) by (cbn; lra).
        assert (Hrg' : forall l, In l (cn_locos c) -> 0 <= rg l <= em l) by (intros l Hl; apply Hrgs; exact Hl).
        assert (Hcv : forall l, In l (cn_locos c) -> is_bel l = false -> rg l = 0) by (intros l Hl; apply Hrgs; exact Hl).
        destruct (split_negative_spec (cn_locos c) s1 Hrm eq_refl Hrg' Hcv Hreq shares Hsh) as (S1 & S2 & S3).
        repeat split; try (intros; lra).
        * eapply Forall2_length; exact S2.
        * exact S1.
        * intros _; exact S2.
        * intros _ Hz. apply S3. exact Hz.
      + (* zero request *)
        assert (req = 0) by lra. subst req. inversion Hsh; subst shares; clear Hsh.
        repeat split; try (intros; lra).
        * apply map_length.
        * rewrite sumR_id_map. apply sumR_zero.
        * intros _. apply Forall2_map_r. reflexivity. }
  destruct Hshares as (Hlen & Hsum & Hp & Hn & Hz & Hregen & Hgreedy).
  apply solve_locos_spec in Hsol; [|exact Hlen].
  destruct (solved_frame _ _ _ _ _ Hsol) as (Hfr & Hpo).
  assert (Hsumf : sumf (F:=R) (fun x => x) shares = req) by (rewrite sumf_sumR; exact Hsum).
  split; [rewrite Hpo; exact Hsol|].
  split; [rewrite (sumR_map_id_list _ _ Hpo); exact Hsum|].
  split; [exact Hsumf|]. split; [reflexivity|].
  split; [intros Hr; exact (transfer (fun lm _ _ _ p => 0 <= p <= lm) _ _ _ _ _ Hsol (Hp Hr))|].
  split; [intros Hr; exact (transfer (fun _ _ e _ p => - e <= p <= 0) _ _ _ _ _ Hsol (Hn Hr))|].
  split; [intros Hr; exact (transfer (fun _ _ _ _ p => p = 0) _ _ _ _ _ Hsol (Hz Hr))|].
  split; [intros Hr Hd; exact (transfer (fun _ r _ b p => (b = false -> p = 0) /\ - r <= p) _ _ _ _ _ Hsol (Hregen Hr Hd))|].
  split; [reflexivity|].
  intros Hg Hr. destruct (Hgreedy Hg Hr) as (G1 & G2 & G3).
  split; [rewrite (transfer_sum (fun b p => if b then 0 else p) _ _ _ _ _ Hsol); exact G1|].
  split; [intros Hd; exact (transfer (fun _ _ _ b p => b = false -> p = 0) _ _ _ _ _ Hsol (G2 Hd))|].
  intros Hd; exact (transfer (fun lm _ _ b p => b = true -> p = lm) _ _ _ _ _ Hsol (G3 Hd)).
Qed.

(* ---------------------------------------------------------------- ConsistSimulation::solve_step *)
Lemma Forall2_in_r {A B} (P : A -> B -> Prop) l l' y : Forall2 P l l' -> In y l' -> exists x, In x l /\ P x y.
Proof. induction 1; intros Hin; [contradiction|]. destruct Hin as [->|Hin]; [eexists; split; [left; eauto|auto]|].
  destruct (IHForall2 Hin) as (x0 & H1 & H2). exists x0; split; [right; auto|auto]. Qed.

Lemma consist_limits_consistent (c c2 : ConsistR) dt :
  (forall l, In l (cn_locos c) -> 0 <= em l) ->
  consist_set_cur_pwr_max_out c dt = Ok c2 ->
  limits_consistent c2 /\ cn_pdct c2 = cn_pdct c /\ cn_assert_limits c2 = cn_assert_limits c /\
  cs_pwr_dyn_brake_max (cn_state c2) = cs_pwr_dyn_brake_max (cn_state c) /\
  Forall2 (fun l l2 => loco_set_cur_pwr_max_out l dt = Ok l2) (cn_locos c) (cn_locos c2) /\
  sumR em (cn_locos c2) = sumR em (cn_locos c).
Proof.
  intros Hem H. unfold consist_set_cur_pwr_max_out in H.
  apply bind_ok in H. destruct H as (ls2 & Hls & H). inversion H; subst c2; clear H.
  apply map_res_spec in Hls.
  unfold limits_consistent. cbn [cn_state cn_locos cn_pdct cn_assert_limits cs_pwr_out_max cs_pwr_regen_max
    cs_pwr_out_max_reves cs_pwr_out_max_non_reves cs_pwr_dyn_brake_max].
  rewrite !sumf_sumR. numR.
  split; [|split; [reflexivity|split; [reflexivity|split; [reflexivity|split; [exact Hls|]]]]].
  - split; [reflexivity|]. split; [reflexivity|]. split.
    { apply sumR_ext. intros l _. unfold lim. destruct (is_bel l); reflexivity. }
    split; [reflexivity|].
    intros l Hl. destruct (Forall2_in_r _ _ _ _ Hls Hl) as (l0 & Hl0 & Hs).
    apply loco_limits_spec in Hs. destruct Hs as (_ & He & Hc & Hb & _).
    split; [exact Hc|].
    destruct (is_bel l) eqn:E; [apply Hb; reflexivity|]. rewrite (Hc eq_refl), He.
    split; [lra|apply Hem; exact Hl0].
  - clear - Hls. induction Hls; cbn; [reflexivity|].
    apply loco_limits_spec in H. destruct H as (_ & He & _). rewrite He, IHHls. reflexivity.
Qed.

Lemma set_aux_frames (l : LocoR) on : em (loco_set_pwr_aux l on) = em l /\ is_bel (loco_set_pwr_aux l on) = is_bel l.
Proof. split; reflexivity. Qed.

(* well-formed consist: ratings non-negative and the dynamic-braking total initialised
   (Consist::init or any earlier step establishes it; both keep it) *)
Definition consist_wf (c : ConsistR) : Prop :=
  (forall l, In l (cn_locos c) -> 0 <= em l) /\
  cs_pwr_dyn_brake_max (cn_state c) = sumR em (cn_locos c).

(* C10, stated on ConsistSimulation::solve_step *)
Theorem consist_step_split (c c' : ConsistR) req dt :
  consist_wf c -> cn_assert_limits c = true ->
  consist_sim_solve_step c req dt = Ok c' ->
  (* hypothesis on the limits PUBLISHED for this step; they are readable in the post-state *)
  (forall l', In l' (cn_locos c') -> 0 <= lim l') ->
  let ls' := cn_locos c' in let s' := cn_state c' in
  consist_wf c' /\
  sumR pout ls' = req /\ cs_pwr_out s' = req /\ cs_pwr_out_req s' = req /\
  (0 < req -> Forall (fun l' => 0 <= pout l' <= lim l') ls') /\
  (req < 0 -> Forall (fun l' => - em l' <= pout l' <= 0) ls') /\
  (req = 0 -> Forall (fun l' => pout l' = 0) ls') /\
  (req < 0 -> cs_pwr_regen_deficit s' = 0 ->
     Forall (fun l' => (is_bel l' = false -> pout l' = 0) /\ - rg l' <= pout l') ls') /\
  (cn_pdct c = RESGreedy -> 0 < req ->
     sumR (fun l' => if is_bel l' then 0 else pout l') ls' = cs_pwr_out_deficit s' /\
     cs_pwr_out_deficit s' = Rmax (req - cs_pwr_out_max_reves s') 0 /\
     (cs_pwr_out_deficit s' = 0 -> Forall (fun l' => is_bel l' = false -> pout l' = 0) ls') /\
     (cs_pwr_out_deficit s' <> 0 -> Forall (fun l' => is_bel l' = true -> pout l' = lim l') ls')).
Proof.
  intros (Hem & Hdb) Hal H Hlim'.
  unfold consist_sim_solve_step in H.
  apply bind_ok in H. destruct H as (c2 & Hc2 & Hsol).
  assert (Hem1 : forall l, In l (cn_locos (consist_set_pwr_aux c true)) -> 0 <= em l).
  { cbn [consist_set_pwr_aux cn_locos]. intros l Hl. apply in_map_iff in Hl. destruct Hl as (l0 & <- & Hl0).
    change (em (loco_set_pwr_aux l0 true)) with (em l0). apply Hem; exact Hl0. }
  destruct (consist_limits_consistent _ _ _ Hem1 Hc2) as (Hlc & Hpd & Hal2 & Hdb2 & Hf2 & Hsum2).
  assert (Hsumem : sumR em (cn_locos (consist_set_pwr_aux c true)) = sumR em (cn_locos c)).
  { cbn [consist_set_pwr_aux cn_locos]. rewrite sumR_map. reflexivity. }
  assert (Hal2' : cn_assert_limits c2 = true) by (rewrite Hal2; exact Hal).
  assert (Hdb2' : cs_pwr_dyn_brake_max (cn_state c2) = sumR em (cn_locos c2)).
  { rewrite Hdb2, Hsum2, Hsumem. cbn [consist_set_pwr_aux cn_state]. exact Hdb. }
  (* the published limits of c2 are those readable in c' *)
  assert (Hsolved := Hsol). unfold consist_solve in Hsolved. rewrite Hal2' in Hsolved. cbn [negb orb] in Hsolved.
  ens Hsolved. ens Hsolved. apply bind_ok in Hsolved. destruct Hsolved as (shares & Hsh & Hsolved). ens Hsolved.
  apply bind_ok in Hsolved. destruct Hsolved as (ls' & Hsl & Hsolved). injection Hsolved as Hc'.
  assert (Hlen : length shares = length (cn_locos c2)).
  { clear - Hsh. numR. destruct (Rltb 0 req).
    - destruct (cn_pdct c2); cbn in Hsh.
      + inversion Hsh. apply map_length.
      + apply bind_ok in Hsh. destruct Hsh as (? & _ & Hsh). inversion Hsh.
        destruct (Reqb _ _); apply map_length.
    - destruct (Rltb req 0).
      + unfold split_negative in Hsh. apply bind_ok in Hsh. destruct Hsh as (out & Hout & Hsh). inversion Hsh.
        rewrite map_length. numR. destruct (Reqb (cs_pwr_regen_deficit _) 0).
        * inversion Hout. unfold regen_vec. apply map_length.
        * apply bind_ok in Hout. destruct Hout as (? & _ & Hout). inversion Hout.
          rewrite map_length, combine_length, map_length, combine_length. unfold regen_vec. rewrite !map_length.
          rewrite !Nat.min_id. reflexivity.
      + inversion Hsh. apply map_length. }
  pose proof (solve_locos_spec _ _ _ _ _ Hlen Hsl) as Hsd.
  destruct (solved_frame _ _ _ _ _ Hsd) as (Hfr & _).
  assert (Hlim2 : forall l, In l (cn_locos c2) -> 0 <= lim l).
  { intros l Hl. assert (Hls' : cn_locos c' = ls') by (rewrite <- Hc'; reflexivity).
    clear - Hfr Hlim' Hl Hls'. rewrite Hls' in Hlim'. clear Hls'.
    induction Hfr as [|x y lx ly Hxy _ IH]; [contradiction|].
    destruct Hl as [->|Hl].
    - destruct Hxy as (A & _). rewrite <- A. apply Hlim'. left; reflexivity.
    - apply IH; [intros; apply Hlim'; right; assumption|exact Hl]. }
  destruct (consist_solve_split _ _ _ _ _ Hlc Hal2' Hdb2' Hlim2 Hsol)
    as (Hs0 & Hs1 & Hs2 & Hs3 & Hs4 & Hs5 & Hs6 & Hs7 & Hs8 & Hs9).
  split.
  - (* consist_wf c' *)
    assert (Hls' : cn_locos c' = ls') by (rewrite <- Hc'; reflexivity).
    split.
    + intros l' Hl'. rewrite Hls' in Hl'.
      destruct (Forall2_in_r _ _ _ _ Hfr Hl') as (l2 & Hl2 & (_ & _ & _ & He)). rewrite He.
      destruct (Forall2_in_r _ _ _ _ Hf2 Hl2) as (l1 & Hl1 & Hs). apply loco_limits_spec in Hs.
      destruct Hs as (_ & He2 & _). rewrite He2. apply Hem1; exact Hl1.
    + rewrite <- Hc'. cbn [cn_state cn_locos cs_pwr_dyn_brake_max]. rewrite sumf_sumR.
      fold em. change (sumR loco_edrv_max (cn_locos c2)) with (sumR em (cn_locos c2)).
      symmetry. clear - Hfr. induction Hfr as [|x y lx ly (_ & _ & _ & He) _ IH]; cbn; [reflexivity|]. rewrite He, IH. reflexivity.
  - rewrite Hpd in Hs9. cbn [consist_set_pwr_aux cn_pdct] in Hs9.
    split; [exact Hs1|]. split; [exact Hs2|]. split; [exact Hs3|]. split; [exact Hs4|].
    split; [exact Hs5|]. split; [exact Hs6|]. split; [exact Hs7|].
    intros Hg Hr. destruct (Hs9 Hg Hr) as (G1 & G2 & G3).
    split; [exact G1|]. split; [|split; [exact G2|exact G3]].
    rewrite Hs8. rewrite <- Hc'. reflexivity.
Qed.

(* achieved regeneration of every unit: never above the drivetrain's published regeneration limit,
   and none at all where that limit is zero (units without a battery) *)
Theorem regen_within_limit (l l' : LocoR) p dt on : loco_solve l p dt on = Ok l' ->
  - es_pwr_mech_prop_out (edrv_state (loco_edrv l')) <= es_pwr_mech_regen_max (edrv_state (loco_edrv l)) /\
  (es_pwr_mech_regen_max (edrv_state (loco_edrv l)) = 0 -> 0 <= p -> es_pwr_mech_prop_out (edrv_state (loco_edrv l')) = p).
Proof.
  unfold loco_solve. intros H. cbv zeta in H. apply bind_ok in H; destruct H as ([] & _ & H). apply bind_ok in H. destruct H as (t & Ht & H). inversion H; subst l'; clear H.
  unfold loco_edrv. cbn [lc_type loco_with].
  destruct (lc_type l) as [c|b].
  - apply bind_ok in Ht. destruct Ht as (c' & Hc & Ht). inversion Ht; subst t; clear Ht.
    apply conv_solve_spec in Hc. destruct Hc as (e & g & f & ee & eg & ef & He & _ & _ & _ & _ & _ & _ & Hc').
    subst c'. cbn [cv_edrv]. destruct (edrv_step_facts _ _ _ _ _ He) as (_ & _ & Hp & _). rewrite Hp.
    split; [pose proof (Rmax_r p (- es_pwr_mech_regen_max (edrv_state (cv_edrv c)))); lra|].
    intros -> Hp0. apply Rmax_left. lra.
  - apply bind_ok in Ht. destruct Ht as (b' & Hb & Ht). inversion Ht; subst t; clear Ht.
    apply bel_solve_spec in Hb. destruct Hb as (e & r & ee & er & He & _ & _ & _ & Hb').
    subst b'. cbn [bl_edrv]. destruct (edrv_step_facts _ _ _ _ _ He) as (_ & _ & Hp & _). rewrite Hp.
    split; [pose proof (Rmax_r p (- es_pwr_mech_regen_max (edrv_state (bl_edrv b)))); lra|].
    intros -> Hp0. apply Rmax_left. lra.
Qed.

(* Without the hypothesis "published limits are non-negative" the sign agreement fails:
   the proportional split gives a unit with a negative limit a negative share while the consist
   pushes.  (Shown on the split function for ANY two locomotives carrying limits -1 and 3.) *)
Definition with_lim (l : LocoR) (x : R) : LocoR :=
  let s := lc_state l in
  {| lc_type := lc_type l;
     lc_state := {| ls_i := ls_i s; ls_pwr_out_max := x; ls_pwr_rate_out_max := ls_pwr_rate_out_max s;
                    ls_pwr_regen_max := ls_pwr_regen_max s; ls_pwr_out := ls_pwr_out s;
                    ls_pwr_aux := ls_pwr_aux s; ls_energy_out := ls_energy_out s;
                    ls_energy_aux := ls_energy_aux s |};
     lc_assert_limits := lc_assert_limits l; lc_pwr_aux_offset := lc_pwr_aux_offset l;
     lc_pwr_aux_traction_coeff := lc_pwr_aux_traction_coeff l |}.

Theorem sign_agreement_refuted (l0 : LocoR) (s : ConsistState (F:=R)) :
  cs_pwr_out_max s = 2 -> cs_pwr_out_req s = 1 ->
  let ls := [with_lim l0 (-1); with_lim l0 3] in
  cs_pwr_out_max s = sumR lim ls /\ 0 < cs_pwr_out_req s <= cs_pwr_out_max s /\
  exists shares p, split_positive Proportional ls s = Ok shares /\ In p shares /\ p < 0.
Proof.
  intros Hm Hr. cbn. unfold lim. cbn. split; [lra|]. split; [lra|].
  eexists. exists (-1 / 2 * 1). split; [reflexivity|]. split; [left; numR; rewrite Hm, Hr; reflexivity|lra].
Qed.

(* well-formedness is kept by every accepted step, whatever the limits are *)
Lemma consist_solve_locos (c c' : ConsistR) req dt on : consist_solve c req dt on = Ok c' ->
  exists shares, length shares = length (cn_locos c) /\ solved dt on (cn_locos c) shares (cn_locos c') /\
    cs_pwr_dyn_brake_max (cn_state c') = sumR em (cn_locos c) /\ cn_pdct c' = cn_pdct c /\
    cn_assert_limits c' = cn_assert_limits c /\
    cs_pwr_out (cn_state c') = sumR (fun x => x) shares /\
    cs_pwr_fuel (cn_state c') = sumR loco_fuel (cn_locos c') /\
    cs_pwr_reves (cn_state c') = sumR loco_reves (cn_locos c') /\
    cs_energy_out (cn_state c') = cs_energy_out (cn_state c) + cs_pwr_out (cn_state c') * dt /\
    cs_energy_fuel (cn_state c') = cs_energy_fuel (cn_state c) + cs_pwr_fuel (cn_state c') * dt /\
    cs_energy_res (cn_state c') = cs_energy_res (cn_state c) + cs_pwr_reves (cn_state c') * dt /\
    cs_energy_out_pos (cn_state c') - cs_energy_out_neg (cn_state c') =
      cs_energy_out_pos (cn_state c) - cs_energy_out_neg (cn_state c) + cs_pwr_out (cn_state c') * dt.
Proof.
  intros H. unfold consist_solve in H. ens H. ens H.
  apply bind_ok in H. destruct H as (shares & Hsh & H). ens H.
  apply bind_ok in H. destruct H as (ls' & Hsl & H). injection H as Hc'.
  assert (Hlen : length shares = length (cn_locos c)).
  { clear - Hsh. numR. destruct (Rltb 0 req).
    - destruct (cn_pdct c); cbn in Hsh.
      + inversion Hsh. apply map_length.
      + apply bind_ok in Hsh. destruct Hsh as (? & _ & Hsh). inversion Hsh.
        destruct (Reqb _ _); apply map_length.
    - destruct (Rltb req 0).
      + unfold split_negative in Hsh. apply bind_ok in Hsh. destruct Hsh as (out & Hout & Hsh). inversion Hsh.
        rewrite map_length. numR. destruct (Reqb (cs_pwr_regen_deficit _) 0).
        * inversion Hout. unfold regen_vec. apply map_length.
        * apply bind_ok in Hout. destruct Hout as (? & _ & Hout). inversion Hout.
          rewrite map_length, combine_length, map_length, combine_length. unfold regen_vec. rewrite !map_length.
          rewrite !Nat.min_id. reflexivity.
      + inversion Hsh. apply map_length. }
  exists shares. rewrite <- Hc'. cbn [cn_locos cn_state cn_pdct cn_assert_limits cs_pwr_dyn_brake_max cs_pwr_out
    cs_pwr_fuel cs_pwr_reves cs_energy_out cs_energy_fuel cs_energy_res cs_energy_out_pos cs_energy_out_neg].
  rewrite !sumf_sumR. numR.
  repeat split; auto.
  - apply solve_locos_spec; assumption.
  - destruct (Rleb 0 (sumR (fun x => x) shares)); lra.
Qed.

Theorem consist_step_wf (c c' : ConsistR) req dt :
  consist_wf c -> consist_sim_solve_step c req dt = Ok c' -> consist_wf c'.
Proof.
  intros (Hem & Hdb) H. unfold consist_sim_solve_step in H.
  apply bind_ok in H. destruct H as (c2 & Hc2 & Hsol).
  assert (Hem1 : forall l, In l (cn_locos (consist_set_pwr_aux c true)) -> 0 <= em l).
  { cbn [consist_set_pwr_aux cn_locos]. intros l Hl. apply in_map_iff in Hl. destruct Hl as (l0 & <- & Hl0).
    change (em (loco_set_pwr_aux l0 true)) with (em l0). apply Hem; exact Hl0. }
  destruct (consist_limits_consistent _ _ _ Hem1 Hc2) as (_ & _ & _ & _ & Hf2 & _).
  destruct (consist_solve_locos _ _ _ _ _ Hsol) as (shares & _ & Hsd & Hdb' & _).
  destruct (solved_frame _ _ _ _ _ Hsd) as (Hfr & _).
  split.
  - intros l' Hl'.
    destruct (Forall2_in_r _ _ _ _ Hfr Hl') as (l2 & Hl2 & (_ & _ & _ & He)). rewrite He.
    destruct (Forall2_in_r _ _ _ _ Hf2 Hl2) as (l1 & Hl1 & Hs). apply loco_limits_spec in Hs.
    destruct Hs as (_ & He2 & _). rewrite He2. apply Hem1; exact Hl1.
  - rewrite Hdb'. symmetry. clear - Hfr.
    induction Hfr as [|x y lx ly (_ & _ & _ & He) _ IH]; cbn; [reflexivity|]. rewrite He, IH. reflexivity.
Qed.

(* an accepted consist step with limit checking on is within the published consist limits *)
Theorem consist_accepted_within (c c' : ConsistR) req dt on :
  cn_assert_limits c = true -> consist_solve c req dt on = Ok c' ->
  req <= cs_pwr_out_max (cn_state c) /\ - req <= cs_pwr_dyn_brake_max (cn_state c) /\
  cs_pwr_out_max (cn_state c') = cs_pwr_out_max (cn_state c) /\
  cs_pwr_regen_max (cn_state c') = cs_pwr_regen_max (cn_state c).
Proof.
  intros Hal H. unfold consist_solve in H. rewrite Hal in H. cbn [negb orb] in H.
  ens H. ens H. numR. apply Rleb_true in E, E0.
  apply bind_ok in H. destruct H as (shares & Hsh & H). ens H.
  apply bind_ok in H. destruct H as (ls' & Hsol & H). inversion H; subst c'; clear H. cbn. auto.
Qed.
