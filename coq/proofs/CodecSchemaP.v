(* CodecSchemaP.v -- the concrete schemas are well-formed; typed round trip of a locomotive;
   cache insensitivity; resume equivalence; refutation witnesses (C17). *)
From Coq Require Import Reals Lra List Bool ZArith String Lia.
From AltModel Require Import Num Interp Powertrain Loco Codec CodecSchema.
From AltProofs Require Import NumR InterpP PowertrainP LocoP C08P CodecP.
Import ListNotations.
Open Scope R_scope.

(* ---------------------------------------------------------------- well-formedness of the tables *)
Fixpoint nodupb (l : list string) : bool :=
  match l with
  | [] => true
  | x :: t => negb (existsb (String.eqb x) t) && nodupb t
  end.
Lemma nodupb_sound l : nodupb l = true -> NoDup l.
Proof. induction l as [|x t IH]; intros H; constructor; cbn in H; apply andb_prop in H; destruct H as [H1 H2]; auto.
  intros Hin. apply negb_true_iff in H1. assert (E : existsb (String.eqb x) t = true).
  { apply existsb_exists. exists x. split; [exact Hin|apply String.eqb_refl]. } congruence. Qed.

Ltac wf_attr :=
  unfold wf_fattr; cbn [f_skip_if f_serde_skip f_has_default f_dflt fld fld_default fld_opt fld_skip_default
                        fld_skip_none fld_serde_skip fnum fint fnums fst snd];
  repeat split; try discriminate; try reflexivity;
  try (intros [HH|HH]; try discriminate HH; split; reflexivity);
  try (intros HH; discriminate HH).

Ltac wf_rec_tac :=
  apply wf_rec; split;
  [apply nodupb_sound; vm_compute; reflexivity
  |cbn [wf_fields]; repeat (split; [try exact I|])].

Lemma wf_seq_num : wf_ty (TSeq (@TNum R)). Proof. exact I. Qed.

Lemma wf_state_fields (names : list string) :
  forall fs : list (fattrR * tyR),
  Forall (fun ft => (snd ft = TNum \/ snd ft = TInt \/ snd ft = TBool) /\
                    f_skip_if (fst ft) = NoSkip /\ f_serde_skip (fst ft) = false) fs -> wf_fields fs.
Proof. induction fs as [|[a t] fs IH]; intros H; [exact I|]. inversion H as [|x xs Hx Hxs]; subst.
  cbn in Hx. destruct Hx as (Ht & Hs & Hk). cbn [wf_fields]. split; [|split].
  - destruct Ht as [->|[->| ->]]; exact I.
  - unfold wf_fattr. rewrite Hs, Hk. repeat split; try congruence; try (intros [HH|HH]; discriminate);
      match goal with H0 : _ \/ _ |- _ => destruct H0; discriminate end.
  - apply IH; assumption. Qed.

Ltac plain_fields :=
  apply (wf_state_fields []);
  repeat (apply Forall_cons;
          [cbn; split; [first [left; reflexivity | right; left; reflexivity | right; right; reflexivity]
                       |split; reflexivity]|]);
  apply Forall_nil.

Lemma wf_fcstate : wf_ty (sch_fcstate (F:=R)).
Proof. apply wf_rec; split; [apply nodupb_sound; vm_compute; reflexivity|plain_fields]. Qed.
Lemma wf_genstate : wf_ty (sch_genstate (F:=R)).
Proof. apply wf_rec; split; [apply nodupb_sound; vm_compute; reflexivity|plain_fields]. Qed.
Lemma wf_edrvstate : wf_ty (sch_edrvstate (F:=R)).
Proof. apply wf_rec; split; [apply nodupb_sound; vm_compute; reflexivity|plain_fields]. Qed.
Lemma wf_resstate : wf_ty (sch_resstate (F:=R)).
Proof. apply wf_rec; split; [apply nodupb_sound; vm_compute; reflexivity|plain_fields]. Qed.
Lemma wf_locostate : wf_ty (sch_locostate (F:=R)).
Proof. apply wf_rec; split; [apply nodupb_sound; vm_compute; reflexivity|plain_fields]. Qed.
Lemma wf_consiststate : wf_ty (sch_consiststate (F:=R)).
Proof. apply wf_rec; split; [apply nodupb_sound; vm_compute; reflexivity|plain_fields]. Qed.

(* history structs: every field a plain sequence *)
Lemma wf_hist (fs : list (fattrR * tyR)) :
  NoDup (map (fun ft => f_name (fst ft)) fs) -> Forall (fun ft => wf_ty (snd ft)) fs -> wf_ty (hist_ty (TRec fs)).
Proof. intros Hnd Hw. cbn [hist_ty]. apply wf_rec. split.
  - rewrite map_map. cbn. exact Hnd.
  - clear Hnd. induction Hw as [|[a t] fs Hx Hfs IH]; [exact I|]. cbn [map wf_fields]. split; [exact Hx|]. split; [|exact IH].
    unfold wf_fattr, fld; cbn. repeat split; try congruence; try (intros [HH|HH]; discriminate);
      match goal with H0 : _ \/ _ |- _ => destruct H0; discriminate end. Qed.

Ltac hist_tac := apply wf_hist; [apply nodupb_sound; vm_compute; reflexivity|repeat constructor].

Ltac attr :=
  unfold wf_fattr;
  cbn [f_skip_if f_serde_skip f_has_default f_dflt fld fld_default fld_opt fld_skip_default
       fld_skip_none fld_serde_skip fnum fint fnums fst snd];
  split; [first [intros _; reflexivity | intros HH; exfalso; apply HH; reflexivity]
         |split; [first [intros HH; discriminate HH | intros _; reflexivity]
                 |intros [HH|HH]; try discriminate HH; split; reflexivity]].
Ltac nodup := apply nodupb_sound; vm_compute; reflexivity.

Create HintDb wfdb.
#[export] Hint Resolve wf_fcstate wf_genstate wf_edrvstate wf_resstate wf_locostate wf_consiststate : wfdb.
Ltac wty := first [exact I | solve [auto with wfdb] | hist_tac].
Ltac wf_struct := apply wf_rec; split; [nodup|]; cbn [wf_fields]; repeat (split; [wty|split; [attr|]]); exact I.

Lemma wf_fc : wf_ty (sch_fc (F:=R)). Proof. wf_struct. Qed.
Lemma wf_gen : wf_ty (sch_gen (F:=R)). Proof. wf_struct. Qed.
Lemma wf_edrv : wf_ty (sch_edrv (F:=R)). Proof. wf_struct. Qed.
Lemma wf_res : wf_ty (sch_res (F:=R)). Proof. wf_struct. Qed.
#[export] Hint Resolve wf_fc wf_gen wf_edrv wf_res : wfdb.
Lemma wf_conv : wf_ty (sch_conv (F:=R)). Proof. wf_struct. Qed.
Lemma wf_bel : wf_ty (sch_bel (F:=R)). Proof. wf_struct. Qed.
Lemma wf_ptype : wf_ty (sch_ptype (F:=R)).
Proof. apply wf_enum. cbn [wf_variants]. split; [apply wf_conv|]. split; [exact I|]. split; [apply wf_bel|]. split; exact I. Qed.
#[export] Hint Resolve wf_conv wf_bel wf_ptype : wfdb.
Lemma wf_loco : wf_ty (sch_loco (F:=R)). Proof. wf_struct. Qed.
#[export] Hint Resolve wf_loco : wfdb.
Lemma wf_pdct : wf_ty (sch_pdct (F:=R)). Proof. apply wf_enum. cbn. tauto. Qed.
#[export] Hint Resolve wf_pdct : wfdb.
Lemma wf_consist : wf_ty (sch_consist (F:=R)).
Proof. apply wf_rec; split; [nodup|]; cbn [wf_fields].
  repeat (split; [first [exact I | solve [auto with wfdb] | hist_tac | (cbn [wf_ty]; auto with wfdb)]|split; [attr|]]); exact I. Qed.
#[export] Hint Resolve wf_consist : wfdb.
Lemma wf_powertrace : wf_ty (sch_powertrace (F:=R)). Proof. wf_struct. Qed.
#[export] Hint Resolve wf_powertrace : wfdb.
Lemma wf_locosim : wf_ty (sch_locosim (F:=R)). Proof. wf_struct. Qed.
Lemma wf_consistsim : wf_ty (sch_consistsim (F:=R)). Proof. wf_struct. Qed.
Lemma wf_linkpoint : wf_ty (sch_linkpoint (F:=R)). Proof. wf_struct. Qed.
Lemma wf_pathrescoeff : wf_ty (sch_pathrescoeff (F:=R)). Proof. wf_struct. Qed.
Lemma wf_speedlimitpoint : wf_ty (sch_speedlimitpoint (F:=R)). Proof. wf_struct. Qed.
Lemma wf_catpowerlimit : wf_ty (sch_catpowerlimit (F:=R)). Proof. wf_struct. Qed.
Lemma wf_traintype : wf_ty (sch_traintype (F:=R)). Proof. apply wf_enum. cbn. tauto. Qed.
#[export] Hint Resolve wf_linkpoint wf_pathrescoeff wf_speedlimitpoint wf_catpowerlimit wf_traintype : wfdb.
Lemma wf_trainparams : wf_ty (sch_trainparams (F:=R)). Proof. wf_struct. Qed.
#[export] Hint Resolve wf_trainparams : wfdb.
Lemma wf_pathtpc : wf_ty (sch_pathtpc (F:=R)).
Proof. apply wf_rec; split; [nodup|]; cbn [wf_fields].
  repeat (split; [first [exact I | solve [auto with wfdb] | (cbn [wf_ty]; auto with wfdb)]|split; [attr|]]); exact I. Qed.

(* ---------------------------------------------------------------- typed embedding: facts *)
Lemma ty_vseqF (l : list R) : has_tyb (TSeq TNum) (vseqF l) = true.
Proof. unfold vseqF. cbn. induction l; cbn; auto. Qed.
Lemma clear_vseqF (l : list R) : clear (TSeq TNum) (vseqF l) = vseqF l.
Proof. unfold vseqF. cbn. f_equal. induction l; cbn; congruence. Qed.
Lemma gseqF_vseqF (l : list R) : gseqF (vseqF l) = l.
Proof. unfold vseqF, gseqF. induction l; cbn; congruence. Qed.
Lemma ty_vseqF2 (l : list (list R)) : has_tyb (TSeq (TSeq TNum)) (VSeq (map vseqF l)) = true.
Proof. cbn. induction l as [|x l IH]; [reflexivity|]. cbn [map forallb]. rewrite IH.
  change (has_tyb (TSeq TNum) (vseqF x) && true = true). rewrite ty_vseqF. reflexivity. Qed.
Lemma clear_vseqF2 (l : list (list R)) : clear (TSeq (TSeq TNum)) (VSeq (map vseqF l)) = VSeq (map vseqF l).
Proof. cbn. f_equal. induction l as [|x l IH]; [reflexivity|]. cbn [map]. rewrite IH. f_equal. apply clear_vseqF. Qed.

Arguments vseqF : simpl never.

Ltac flds := cbn [fld fld_default fld_opt fld_skip_default fld_skip_none fld_serde_skip fnum fint fnums fst snd].
Ltac unfld := unfold fnums, fnum, fint, fld, fld_default, fld_opt, fld_skip_default, fld_serde_skip, fld_skip_none.
Ltac ty_tac := rewrite has_ty_rec; cbn [typed_fields]; unfld; cbn [fst snd]; rewrite ?ty_vseqF, ?ty_vseqF2; reflexivity.

Lemma fc_ty (c : FC (F:=R)) : has_tyb sch_fc (fc_to_val c) = true.
Proof. unfold fc_to_val, sch_fc. ty_tac. Qed.
Lemma gen_ty (g : Gen (F:=R)) : has_tyb sch_gen (gen_to_val g) = true.
Proof. unfold gen_to_val, sch_gen. ty_tac. Qed.
Lemma edrv_ty (e : Edrv (F:=R)) : has_tyb sch_edrv (edrv_to_val e) = true.
Proof. unfold edrv_to_val, sch_edrv. ty_tac. Qed.

Definition vvals (l : list (list (list R))) : valR := VSeq (map (fun p => VSeq (map vseqF p)) l).
Lemma ty_vvals l : has_tyb (TSeq (TSeq (TSeq TNum))) (vvals l) = true.
Proof. unfold vvals. cbn [has_tyb]. induction l as [|x l IH]; [reflexivity|]. cbn [map forallb]. rewrite IH.
  change (has_tyb (TSeq (TSeq TNum)) (VSeq (map vseqF x)) && true = true). rewrite ty_vseqF2. reflexivity. Qed.
Lemma clear_vvals l : clear (TSeq (TSeq (TSeq TNum))) (vvals l) = vvals l.
Proof. unfold vvals. cbn [clear]. f_equal. induction l as [|x l IH]; [reflexivity|]. cbn [map]. rewrite IH. f_equal.
  apply clear_vseqF2. Qed.
Lemma ty_grid (a b c : list R) : has_tyb (TSeq (TSeq TNum)) (VSeq [vseqF a; vseqF b; vseqF c]) = true.
Proof. exact (ty_vseqF2 [a; b; c]). Qed.
Lemma clear_grid (a b c : list R) :
  clear (TSeq (TSeq TNum)) (VSeq [vseqF a; vseqF b; vseqF c]) = VSeq [vseqF a; vseqF b; vseqF c].
Proof. exact (clear_vseqF2 [a; b; c]). Qed.
Lemma ty_voptF (o : option R) : has_tyb (TOpt TNum) (voptF o) = true.
Proof. destruct o; reflexivity. Qed.
Lemma clear_voptF (o : option R) : clear (TOpt TNum) (voptF o) = voptF o.
Proof. destruct o; reflexivity. Qed.

Lemma res_ty (r : Res (F:=R)) : has_tyb sch_res (res_to_val r) = true.
Proof. unfold res_to_val, sch_res. fold (vvals (res_eta_vals r)).
  rewrite has_ty_rec; cbn [typed_fields]; unfld; cbn [fst snd].
  rewrite ty_grid, ty_vvals, !ty_voptF. reflexivity. Qed.
Lemma conv_ty (c : Conv (F:=R)) : has_tyb sch_conv (conv_to_val c) = true.
Proof. unfold conv_to_val, sch_conv. rewrite has_ty_rec; cbn [typed_fields]; unfld; cbn [fst snd].
  rewrite fc_ty, gen_ty, edrv_ty. reflexivity. Qed.
Lemma bel_ty (b : Bel (F:=R)) : has_tyb sch_bel (bel_to_val b) = true.
Proof. unfold bel_to_val, sch_bel. rewrite has_ty_rec; cbn [typed_fields]; unfld; cbn [fst snd].
  rewrite res_ty, edrv_ty. reflexivity. Qed.
Lemma ptype_ty (t : Ptype (F:=R)) : has_tyb sch_ptype (ptype_to_val t) = true.
Proof. destruct t; unfold ptype_to_val, sch_ptype; rewrite has_ty_enum; cbn [ty_pick String.eqb Ascii.eqb Bool.eqb].
  - apply conv_ty.
  - apply bel_ty. Qed.
Lemma loco_ty (l : Loco (F:=R)) : has_tyb sch_loco (loco_to_val l) = true.
Proof. unfold loco_to_val, sch_loco. rewrite has_ty_rec; cbn [typed_fields]; unfld; cbn [fst snd].
  rewrite ptype_ty. reflexivity. Qed.

Ltac clear_tac := rewrite clear_rec; cbn [clear_fields]; unfld; cbn [fst snd f_serde_skip f_dflt];
  rewrite ?clear_vseqF, ?clear_grid, ?clear_vvals, ?clear_voptF.

Lemma fc_clear_val (c : FC (F:=R)) : clear sch_fc (fc_to_val c) = fc_to_val c.
Proof. unfold fc_to_val, sch_fc. clear_tac. reflexivity. Qed.
Lemma gen_clear_val (g : Gen (F:=R)) : clear sch_gen (gen_to_val g) = gen_to_val (gen_clear g).
Proof. unfold gen_to_val, sch_gen. clear_tac. reflexivity. Qed.
Lemma edrv_clear_val (e : Edrv (F:=R)) : clear sch_edrv (edrv_to_val e) = edrv_to_val (edrv_clear e).
Proof. unfold edrv_to_val, sch_edrv. clear_tac. reflexivity. Qed.
Lemma res_clear_val (r : Res (F:=R)) : clear sch_res (res_to_val r) = res_to_val r.
Proof. unfold res_to_val, sch_res. fold (vvals (res_eta_vals r)). clear_tac. reflexivity. Qed.
Lemma ptype_clear_val (t : Ptype (F:=R)) : clear sch_ptype (ptype_to_val t) = ptype_to_val (ptype_normalize t).
Proof. destruct t as [c|b]; unfold ptype_to_val, sch_ptype; rewrite clear_enum; cbn [clear_pick String.eqb Ascii.eqb Bool.eqb ptype_normalize].
  - f_equal. unfold conv_to_val, sch_conv. clear_tac. rewrite fc_clear_val, gen_clear_val, edrv_clear_val. reflexivity.
  - f_equal. unfold bel_to_val, sch_bel. clear_tac. rewrite res_clear_val, edrv_clear_val. reflexivity. Qed.
Lemma loco_clear_val (l : Loco (F:=R)) : clear sch_loco (loco_to_val l) = loco_to_val (loco_normalize l).
Proof. unfold loco_to_val, sch_loco. clear_tac. rewrite ptype_clear_val. reflexivity. Qed.

(* [of_val] inverts [to_val] *)
Lemma fc_of_to (c : FC (F:=R)) : fc_of_val (fc_to_val c) = c.
Proof. destruct c as [s]; destruct s. unfold fc_of_val, fc_to_val. cbn. rewrite !gseqF_vseqF. reflexivity. Qed.
Lemma gen_of_to (g : Gen (F:=R)) : gen_of_val (gen_to_val g) = g.
Proof. destruct g as [s]; destruct s. unfold gen_of_val, gen_to_val. cbn. rewrite !gseqF_vseqF. reflexivity. Qed.
Lemma edrv_of_to (e : Edrv (F:=R)) : edrv_of_val (edrv_to_val e) = e.
Proof. destruct e as [s]; destruct s. unfold edrv_of_val, edrv_to_val. cbn. rewrite !gseqF_vseqF. reflexivity. Qed.
Lemma gvals_vvals (l : list (list (list R))) :
  map (fun p => map gseqF (gseq p)) (map (fun p => VSeq (map vseqF p)) l) = l.
Proof. induction l as [|x l IH]; [reflexivity|]. cbn [map gseq]. rewrite IH. f_equal.
  induction x as [|y x IHx]; [reflexivity|]. cbn [map]. rewrite IHx, gseqF_vseqF. reflexivity. Qed.
Lemma res_of_to (r : Res (F:=R)) : res_of_val (res_to_val r) = r.
Proof. destruct r as [s]; destruct s. unfold res_of_val, res_to_val. cbn -[map]. rewrite !gseqF_vseqF, gvals_vvals.
  destruct res_soc_hi_ramp_start, res_soc_lo_ramp_start; reflexivity. Qed.
Lemma ptype_of_to (t : Ptype (F:=R)) : ptype_of_val (ptype_to_val t) = t.
Proof. destruct t as [c|b]; cbn [ptype_to_val ptype_of_val String.eqb Ascii.eqb Bool.eqb].
  - destruct c. unfold conv_of_val, conv_to_val. cbn [gfld nth]. rewrite fc_of_to, gen_of_to, edrv_of_to. reflexivity.
  - destruct b. unfold bel_of_val, bel_to_val. cbn [gfld nth]. rewrite res_of_to, edrv_of_to. reflexivity. Qed.
Lemma loco_of_to (l : Loco (F:=R)) : loco_of_val (loco_to_val l) = l.
Proof. destruct l as [t s]; destruct s. unfold loco_of_val, loco_to_val. cbn [gfld nth]. rewrite ptype_of_to. reflexivity. Qed.

(* ---------------------------------------------------------------- typed round trip *)
Theorem loco_roundtrip (l : Loco (F:=R)) : loco_decode (loco_encode l) = Ok (loco_normalize l).
Proof. unfold loco_decode, loco_encode. rewrite (dec_enc sch_loco (loco_to_val l) wf_loco (loco_ty l)).
  cbn [bind]. rewrite loco_clear_val, loco_of_to. reflexivity. Qed.

Lemma loco_normalize_idem (l : Loco (F:=R)) : loco_normalize (loco_normalize l) = loco_normalize l.
Proof. destruct l as [t]; destruct t as [c|b]; reflexivity. Qed.

(* the second round trip returns the first reload *)
Corollary loco_roundtrip_twice (l l1 : Loco (F:=R)) :
  loco_decode (loco_encode l) = Ok l1 -> loco_decode (loco_encode l1) = Ok l1.
Proof. rewrite loco_roundtrip. intros H; inversion H; subst. rewrite loco_roundtrip, loco_normalize_idem. reflexivity. Qed.

(* ---------------------------------------------------------------- cache insensitivity *)
(* the stored input-fraction map is either absent or exactly what the code would rebuild *)
Definition gen_cache_ok (g : Gen (F:=R)) : Prop :=
  gen_in_frac g = [] \/ mk_in_frac (gen_frac g) (gen_eta_interp g) = Ok (gen_in_frac g).
Definition edrv_cache_ok (e : Edrv (F:=R)) : Prop :=
  edrv_in_frac e = [] \/ mk_in_frac (edrv_frac e) (edrv_eta_interp e) = Ok (edrv_in_frac e).
Definition CacheInv (l : Loco (F:=R)) : Prop :=
  match lc_type l with
  | PConv c => gen_cache_ok (cv_gen c) /\ edrv_cache_ok (cv_edrv c)
  | PBel b => edrv_cache_ok (bl_edrv b)
  end.

(* a freshly loaded object satisfies it *)
Lemma CacheInv_normalize l : CacheInv (loco_normalize l).
Proof. destruct l as [t]; destruct t as [c|b]; cbn; [split|]; left; reflexivity. Qed.

Definition gen_cache (g : Gen (F:=R)) := (gen_frac g, gen_eta_interp g, gen_in_frac g).
Definition edrv_cache (e : Edrv (F:=R)) := (edrv_frac e, edrv_eta_interp e, edrv_in_frac e).
Lemma gen_cache_ok_eq g g' : gen_cache g' = gen_cache g -> gen_cache_ok g -> gen_cache_ok g'.
Proof. unfold gen_cache, gen_cache_ok. intros E. inversion E as [[E1 E2 E3]]. rewrite E1, E2, E3. auto. Qed.
Lemma edrv_cache_ok_eq e e' : edrv_cache e' = edrv_cache e -> edrv_cache_ok e -> edrv_cache_ok e'.
Proof. unfold edrv_cache, edrv_cache_ok. intros E. inversion E as [[E1 E2 E3]]. rewrite E1, E2, E3. auto. Qed.

(* limit setting: the cleared object gives the SAME result, and the result's cache is consistent *)
Lemma gen_limits_clear g p a : gen_cache_ok g ->
  gen_set_cur_pwr_max_out (gen_clear g) p a = gen_set_cur_pwr_max_out g p a.
Proof. unfold gen_cache_ok, gen_set_cur_pwr_max_out, gen_clear. cbn [gen_in_frac gen_frac gen_eta_interp gen_pwr_out_max gen_state].
  destruct (gen_in_frac g) as [|x xs] eqn:E; [reflexivity|]. intros [H|H]; [discriminate|]. rewrite H. reflexivity. Qed.
Lemma gen_limits_cache g p a g' : gen_set_cur_pwr_max_out g p a = Ok g' -> gen_cache_ok g -> gen_cache_ok g'.
Proof. unfold gen_set_cur_pwr_max_out, gen_cache_ok. intros H Hc. bind_inv H. bind_inv H. inversion H; subst; clear H.
  cbn [gen_in_frac gen_frac gen_eta_interp]. destruct (gen_in_frac g) as [|x xs] eqn:E.
  - right. exact Ha.
  - inversion Ha; subst. destruct Hc as [Hc|Hc]; [discriminate|]. right. exact Hc. Qed.

Lemma edrv_build_clear e : edrv_cache_ok e -> edrv_in_frac_or_build (edrv_clear e) = edrv_in_frac_or_build e.
Proof. unfold edrv_cache_ok, edrv_in_frac_or_build, edrv_clear. cbn [edrv_in_frac edrv_frac edrv_eta_interp].
  destruct (edrv_in_frac e) as [|x xs] eqn:E; [reflexivity|]. intros [H|H]; [discriminate|]. rewrite H. reflexivity. Qed.
Lemma edrv_build_cache e l : edrv_in_frac_or_build e = Ok l -> edrv_cache_ok e ->
  l = [] \/ mk_in_frac (edrv_frac e) (edrv_eta_interp e) = Ok l.
Proof. unfold edrv_in_frac_or_build, edrv_cache_ok. destruct (edrv_in_frac e) as [|x xs] eqn:E; intros H Hc.
  - right. exact H.
  - inversion H; subst. destruct Hc as [Hc|Hc]; [discriminate|]. right. exact Hc. Qed.
Lemma edrv_limits_clear e p : edrv_cache_ok e ->
  edrv_set_cur_pwr_max_out (edrv_clear e) p = edrv_set_cur_pwr_max_out e p.
Proof. intros Hc. unfold edrv_set_cur_pwr_max_out. rewrite (edrv_build_clear e Hc). reflexivity. Qed.
Lemma edrv_limits_cache e p e' : edrv_set_cur_pwr_max_out e p = Ok e' -> edrv_cache_ok e -> edrv_cache_ok e'.
Proof. unfold edrv_set_cur_pwr_max_out. intros H Hc. bind_inv H. bind_inv H. inversion H; subst; clear H.
  exact (edrv_build_cache e a Ha Hc). Qed.
Lemma edrv_regen_cache e p e' : edrv_set_cur_pwr_regen_max e p = Ok e' -> edrv_cache_ok e -> edrv_cache_ok e'.
Proof. unfold edrv_set_cur_pwr_regen_max. intros H Hc. bind_inv H. bind_inv H. ens H. inversion H; subst; clear H.
  exact (edrv_build_cache e a Ha Hc). Qed.

(* the other component functions do not touch the maps *)
Lemma gen_rate_cache g r : gen_cache (gen_set_pwr_rate_out_max g r) = gen_cache g. Proof. reflexivity. Qed.
Lemma edrv_rate_cache e r : edrv_cache (edrv_set_pwr_rate_out_max e r) = edrv_cache e. Proof. reflexivity. Qed.
Lemma gen_req_cache g p a dt g' : gen_set_pwr_in_req g p a dt = Ok g' -> gen_cache g' = gen_cache g.
Proof. unfold gen_set_pwr_in_req, gen_set_pwr_in_req_eta. intros H. ens H. ens H. bind_inv H. ens H.
  inversion H; subst. reflexivity. Qed.
Lemma edrv_req_cache e p dt e' : edrv_set_pwr_in_req e p dt = Ok e' -> edrv_cache e' = edrv_cache e.
Proof. unfold edrv_set_pwr_in_req, edrv_set_pwr_in_req_eta. intros H. ens H. bind_inv H. ens H. ens H.
  inversion H; subst. reflexivity. Qed.

Lemma loco_aux_normalize (l : Loco (F:=R)) on : loco_set_pwr_aux (loco_normalize l) on = loco_normalize (loco_set_pwr_aux l on).
Proof. destruct l as [t s]; reflexivity. Qed.
Lemma CacheInv_aux l on : CacheInv (loco_set_pwr_aux l on) <-> CacheInv l.
Proof. destruct l as [t s]; reflexivity. Qed.

Lemma loco_limits_clear l dt : CacheInv l ->
  loco_set_cur_pwr_max_out (loco_normalize l) dt = loco_set_cur_pwr_max_out l dt.
Proof.
  destruct l as [t s al off co]. destruct t as [c|b]; unfold CacheInv; cbn [lc_type]; intros Hc.
  - destruct Hc as [Hg He]. destruct c as [f g e]. cbn [cv_gen cv_edrv] in *.
    unfold loco_set_cur_pwr_max_out. cbn [lc_type lc_state loco_normalize ptype_normalize cv_fc cv_gen cv_edrv].
    unfold conv_set_cur_pwr_max_out. cbn [cv_fc cv_gen cv_edrv].
    destruct (fc_set_cur_pwr_out_max f dt) as [f'| |]; cbn [bind]; try reflexivity.
    rewrite (gen_limits_clear g _ _ Hg). destruct (gen_set_cur_pwr_max_out g _ _) as [g'| |]; cbn [bind]; try reflexivity.
    rewrite (edrv_limits_clear e _ He). reflexivity.
  - destruct b as [r e]. cbn [bl_edrv] in *.
    unfold loco_set_cur_pwr_max_out. cbn [lc_type lc_state loco_normalize ptype_normalize bl_res bl_edrv].
    unfold bel_set_cur_pwr_max_out. cbn [bl_res bl_edrv].
    destruct (res_set_cur_pwr_out_max r _ None None) as [r'| |]; cbn [bind]; try reflexivity.
    rewrite (edrv_limits_clear e _ Hc). reflexivity.
Qed.

(* the real content of "the reloaded object behaves identically": one simulation step *)
Theorem step_cache_insensitive l pwr dt on : CacheInv l ->
  loco_sim_solve_step (loco_normalize l) pwr dt on = loco_sim_solve_step l pwr dt on.
Proof. intros Hc. unfold loco_sim_solve_step. cbv zeta. rewrite loco_aux_normalize.
  rewrite (loco_limits_clear _ dt (proj2 (CacheInv_aux l on) Hc)). reflexivity. Qed.

(* ... and the invariant is kept by every accepted step *)
Lemma conv_limits_cache c aux dt c' : conv_set_cur_pwr_max_out c aux dt = Ok c' ->
  gen_cache_ok (cv_gen c) -> edrv_cache_ok (cv_edrv c) -> gen_cache_ok (cv_gen c') /\ edrv_cache_ok (cv_edrv c').
Proof. unfold conv_set_cur_pwr_max_out. intros H Hg He. bind_inv H. bind_inv H. bind_inv H. inversion H; subst; clear H.
  cbn [cv_gen cv_edrv]. split.
  - apply (gen_cache_ok_eq a0); [apply gen_rate_cache|]. exact (gen_limits_cache _ _ _ _ Ha0 Hg).
  - apply (edrv_cache_ok_eq a1); [apply edrv_rate_cache|]. exact (edrv_limits_cache _ _ _ Ha1 He). Qed.
Lemma bel_limits_cache b aux dt b' : bel_set_cur_pwr_max_out b aux dt = Ok b' ->
  edrv_cache_ok (bl_edrv b) -> edrv_cache_ok (bl_edrv b').
Proof. unfold bel_set_cur_pwr_max_out. intros H He. bind_inv H. bind_inv H. bind_inv H. inversion H; subst; clear H.
  cbn [bl_edrv]. apply (edrv_cache_ok_eq a1); [apply edrv_rate_cache|].
  exact (edrv_regen_cache _ _ _ Ha1 (edrv_limits_cache _ _ _ Ha0 He)). Qed.
Lemma conv_solve_cache c req dt on aux lim c' : conv_solve c req dt on aux lim = Ok c' ->
  gen_cache (cv_gen c') = gen_cache (cv_gen c) /\ edrv_cache (cv_edrv c') = edrv_cache (cv_edrv c).
Proof. unfold conv_solve. intros H. bind_inv H. bind_inv H. ens H. bind_inv H. inversion H; subst; clear H.
  cbn [cv_gen cv_edrv]. split; [exact (gen_req_cache _ _ _ _ _ Ha0)|exact (edrv_req_cache _ _ _ _ Ha)]. Qed.
Lemma bel_solve_cache b req dt aux b' : bel_solve b req dt aux = Ok b' -> edrv_cache (bl_edrv b') = edrv_cache (bl_edrv b).
Proof. unfold bel_solve. intros H. bind_inv H. bind_inv H. inversion H; subst; clear H.
  cbn [bl_edrv]. exact (edrv_req_cache _ _ _ _ Ha). Qed.

Lemma loco_limits_cache l dt l' : loco_set_cur_pwr_max_out l dt = Ok l' -> CacheInv l -> CacheInv l'.
Proof.
  intros H Hc. unfold loco_set_cur_pwr_max_out in H. cbv zeta in H. unfold CacheInv in Hc.
  destruct (lc_type l) as [c|b].
  - destruct (conv_set_cur_pwr_max_out c (ls_pwr_aux (lc_state l)) dt) as [c'| |] eqn:Ec; cbn [bind] in H; try discriminate.
    match type of H with context [passert ?b ?k] => destruct (passert b k) as [[]| |] end; cbn [bind] in H; try discriminate.
    inversion H; subst. unfold CacheInv; cbn [lc_type loco_with]. destruct Hc as [Hg He].
    exact (conv_limits_cache _ _ _ _ Ec Hg He).
  - destruct (bel_set_cur_pwr_max_out b (ls_pwr_aux (lc_state l)) dt) as [b'| |] eqn:Eb; cbn [bind] in H; try discriminate.
    inversion H; subst. unfold CacheInv; cbn [lc_type loco_with]. exact (bel_limits_cache _ _ _ _ Eb Hc).
Qed.
Lemma loco_solve_cache l req dt on l' : loco_solve l req dt on = Ok l' -> CacheInv l -> CacheInv l'.
Proof.
  intros H Hc. unfold loco_solve in H. cbv zeta in H. unfold CacheInv in Hc.
  destruct (ensure _ 803) as [[]| |]; cbn [bind] in H; try discriminate.
  destruct (lc_type l) as [c|b].
  - destruct (conv_solve c req dt on (ls_pwr_aux (lc_state l)) (lc_assert_limits l)) as [c'| |] eqn:Ec; cbn [bind] in H; try discriminate.
    inversion H; subst. unfold CacheInv; cbn [lc_type loco_with]. destruct Hc as [Hg He].
    destruct (conv_solve_cache _ _ _ _ _ _ _ Ec) as [E1 E2].
    split; [exact (gen_cache_ok_eq _ _ E1 Hg)|exact (edrv_cache_ok_eq _ _ E2 He)].
  - destruct (bel_solve b req dt (ls_pwr_aux (lc_state l))) as [b'| |] eqn:Eb; cbn [bind] in H; try discriminate.
    inversion H; subst. unfold CacheInv; cbn [lc_type loco_with].
    exact (edrv_cache_ok_eq _ _ (bel_solve_cache _ _ _ _ _ Eb) Hc).
Qed.

Lemma step_keeps_CacheInv l pwr dt on l' : loco_sim_solve_step l pwr dt on = Ok l' -> CacheInv l -> CacheInv l'.
Proof.
  unfold loco_sim_solve_step. cbv zeta. intros H Hc. apply (proj2 (CacheInv_aux l on)) in Hc.
  destruct (loco_set_cur_pwr_max_out (loco_set_pwr_aux l on) dt) as [l1| |] eqn:E1; cbn [bind] in H; try discriminate.
  destruct (loco_solve l1 pwr dt on) as [l2| |] eqn:E2; cbn [bind] in H; try discriminate.
  match type of H with context [ensure ?b ?k] => destruct (ensure b k) as [[]| |] end; cbn [bind] in H; try discriminate.
  inversion H; subst. exact (loco_solve_cache _ _ _ _ _ E2 (loco_limits_cache _ _ _ E1 Hc)).
Qed.

(* ---------------------------------------------------------------- resume equivalence *)
(* [lstep] (C08P.v) is one step of LocomotiveSimulation; [run lstep] a walk over a trace *)
Lemma lstep_cache_insensitive l i : CacheInv l -> lstep (loco_normalize l) i = lstep l i.
Proof. destruct i as [[pwr dt] on]. apply step_cache_insensitive. Qed.
Lemma lstep_keeps_CacheInv l i l' : lstep l i = Ok l' -> CacheInv l -> CacheInv l'.
Proof. destruct i as [[pwr dt] on]. apply step_keeps_CacheInv. Qed.
Lemma run_keeps_CacheInv ins : forall l l', run lstep l ins = Ok l' -> CacheInv l -> CacheInv l'.
Proof. intros l l' H Hc. revert H. apply (run_inv lstep CacheInv); [|exact Hc].
  intros s i s' Hs Hst. exact (lstep_keeps_CacheInv _ _ _ Hst Hs). Qed.

Definition res_map {A B} (f : A -> B) (r : res A) : res B :=
  match r with Ok a => Ok (f a) | Err c => Err c | Panic c => Panic c end.

(* continuing from a reloaded checkpoint: identical when at least one step follows ... *)
Lemma run_normalize_cons l i t : CacheInv l -> run lstep (loco_normalize l) (i :: t) = run lstep l (i :: t).
Proof. intros Hc. cbn [run]. rewrite (lstep_cache_insensitive l i Hc). reflexivity. Qed.
(* ... and in general identical up to the caches (with no further step the reloaded copy simply IS
   the normalised object) *)
Lemma run_normalize l t : CacheInv l ->
  res_map loco_normalize (run lstep (loco_normalize l) t) = res_map loco_normalize (run lstep l t).
Proof. intros Hc. destruct t as [|i t]; [cbn; rewrite loco_normalize_idem; reflexivity|].
  rewrite (run_normalize_cons l i t Hc). reflexivity. Qed.

(* save after the first [pre] trace elements, load, continue with [post] *)
Definition resume (l : Loco (F:=R)) (pre post : list (R * R * bool)) : res (Loco (F:=R)) :=
  let? m := run lstep l pre in
  let? m' := loco_decode (loco_encode m) in
  run lstep m' post.

Theorem resume_equiv l pre post : CacheInv l ->
  res_map loco_normalize (resume l pre post) = res_map loco_normalize (run lstep l (pre ++ post)).
Proof. intros Hc. unfold resume. rewrite run_app.
  destruct (run lstep l pre) as [m| |] eqn:E; cbn [bind]; try reflexivity.
  rewrite loco_roundtrip. cbn [bind]. apply run_normalize. exact (run_keeps_CacheInv pre l m E Hc). Qed.

Theorem resume_equiv_exact l pre i post : CacheInv l ->
  resume l pre (i :: post) = run lstep l (pre ++ i :: post).
Proof. intros Hc. unfold resume. rewrite run_app.
  destruct (run lstep l pre) as [m| |] eqn:E; cbn [bind]; try reflexivity.
  rewrite loco_roundtrip. cbn [bind]. apply run_normalize_cons. exact (run_keeps_CacheInv pre l m E Hc). Qed.

(* the hypothesis cannot be dropped: with a stored map that is NOT what the code would rebuild, the
   reloaded object takes a different step *)

(* ---------------------------------------------------------------- positional format *)
(* under the hypothesis that no field was skipped the positional round trip of a locomotive works *)
Theorem loco_positional_roundtrip (l : Loco (F:=R)) :
  no_skip sch_loco (loco_to_val l) = true -> loco_decode_pos (loco_encode_pos l) = Ok (loco_normalize l).
Proof. intros Hn. unfold loco_decode_pos, loco_encode_pos.
  rewrite <- (app_nil_r (encp sch_loco (loco_to_val l))).
  rewrite (decp_encp sch_loco (loco_to_val l) [] wf_loco (loco_ty l) Hn). cbn [bind fst].
  rewrite loco_clear_val, loco_of_to. reflexivity. Qed.

Lemma Reqb_refl (x : R) : Reqb x x = true. Proof. apply Reqb_true. reflexivity. Qed.

(* ... and it FAILS for a component in its default state: `state` is skipped by the writer, the
   reader still expects it and meets the Option tag of `mass` where the integer `i` should be.
   (any rating [p], lag [lag], idle fuel [idle] and efficiency map) *)
Definition fc_default_state (p lag idle : R) (frac eta : list R) : FC (F:=R) :=
  {| fc_state := {| fcs_i := 1; fcs_pwr_out_max := 0; fcs_eta := 0; fcs_pwr_brake := 0; fcs_pwr_fuel := 0;
                    fcs_pwr_loss := 0; fcs_pwr_idle_fuel := 0; fcs_energy_brake := 0; fcs_energy_fuel := 0;
                    fcs_energy_loss := 0; fcs_energy_idle_fuel := 0; fcs_engine_on := true |};
     fc_pwr_out_max := p; fc_pwr_out_max_init := 0; fc_pwr_ramp_lag := lag;
     fc_frac := frac; fc_eta_interp := eta; fc_pwr_idle_fuel := idle |}.

Lemma fc_default_state_skipped p lag idle frac eta :
  val_eqb (fcstate_to_val (fc_state (fc_default_state p lag idle frac eta))) fcstate_default = true.
Proof. cbn. numR. rewrite !Reqb_refl. reflexivity. Qed.

Theorem positional_refuted_fc p lag idle frac eta :
  decp sch_fc (encp sch_fc (fc_to_val (fc_default_state p lag idle frac eta))) = Err 1711.
Proof.
  unfold fc_to_val, sch_fc. rewrite encp_rec, decp_rec. cbn [encp_fields]. unfld. cbn [fst snd].
  unfold absent at 1. cbn [f_serde_skip orb]. unfold skipped at 1. cbn [f_skip_if f_dflt].
  rewrite fc_default_state_skipped.
  cbn [absent skipped f_serde_skip f_skip_if orb encp app].
  cbn [decp_fields f_serde_skip]. reflexivity.
Qed.

Corollary positional_refuted :
  exists c : FC (F:=R), has_tyb sch_fc (fc_to_val c) = true /\
    dec sch_fc (enc sch_fc (fc_to_val c)) = Ok (fc_to_val c) /\
    decp sch_fc (encp sch_fc (fc_to_val c)) <> Ok (fc_to_val c, []).
Proof. exists (fc_default_state 1 1 0 [0; 1] [1; 1]). split; [apply fc_ty|]. split.
  - rewrite (dec_enc sch_fc _ wf_fc (fc_ty _)). rewrite fc_clear_val. reflexivity.
  - rewrite positional_refuted_fc. discriminate. Qed.

(* ---------------------------------------------------------------- JSON *)
(* a finished path profile: PathTpc::finish appends a point at offset +infinity to grades and curves *)
Definition pathtpc_finished (z one len : R) : valR :=
  VRec [VSeq [VRec [vnum z; vz 1; vz 1; vz 0; vz 1]; VRec [vnum len; vz 0; vz 0; vz 0; vz 0]];
        VSeq [VRec [vnum z; vnum z; vnum z]; VRec [VNum NPosInf; vnum z; vnum z]];
        VSeq [VRec [vnum z; vnum z; vnum z]; VRec [VNum NPosInf; vnum z; vnum z]];
        VSeq [VRec [vnum z; vnum one]];
        VSeq [];
        VRec [vnum len; vnum one; vnum one; vnum one; vz 4; VVar "Freight" VNull; vnum z; vnum z; vnum z];
        VBool true].

Theorem json_refuted_pathtpc z one len :
  has_tyb sch_pathtpc (pathtpc_finished z one len) = true /\
  dec sch_pathtpc (enc sch_pathtpc (pathtpc_finished z one len)) = Ok (pathtpc_finished z one len) /\
  dec sch_pathtpc (jsonify (enc sch_pathtpc (pathtpc_finished z one len))) = Err 1701.
Proof. repeat split; reflexivity. Qed.

Corollary json_refuted :
  exists v : valR, has_tyb sch_pathtpc v = true /\ dec sch_pathtpc (enc sch_pathtpc v) = Ok v /\
                   dec sch_pathtpc (jsonify (enc sch_pathtpc v)) <> Ok v.
Proof. exists (pathtpc_finished 0 1 1000). destruct (json_refuted_pathtpc 0 1 1000) as (H1 & H2 & H3).
  repeat split; auto. rewrite H3. discriminate. Qed.

(* JSON can also alter an object silently: Some(+inf) in an Option<f64> comes back as None *)
Lemma json_option_silently_none :
  dec (TOpt TNum) (jsonify (enc (TOpt TNum) (VNum (@NPosInf R)))) = Ok VNull.
Proof. reflexivity. Qed.

Lemma schemas_well_formed :
  wf_ty (sch_fc (F:=R)) /\ wf_ty (sch_gen (F:=R)) /\ wf_ty (sch_edrv (F:=R)) /\ wf_ty (sch_res (F:=R)) /\
  wf_ty (sch_loco (F:=R)) /\ wf_ty (sch_consist (F:=R)) /\ wf_ty (sch_locosim (F:=R)) /\
  wf_ty (sch_consistsim (F:=R)) /\ wf_ty (sch_pathtpc (F:=R)).
Proof. exact (conj wf_fc (conj wf_gen (conj wf_edrv (conj wf_res (conj wf_loco (conj wf_consist
         (conj wf_locosim (conj wf_consistsim wf_pathtpc)))))))). Qed.

(* ---------------------------------------------------------------- the cache hypothesis is needed *)
(* interp1d fails only with code 101 *)
Lemma interp1d_err_code (x : R) xs ys ex c : interp1d x xs ys ex = Err c -> c = 101%Z.
Proof. unfold interp1d. cbv zeta.
  repeat match goal with |- context [if ?b then _ else _] => destruct b end; intros H; inversion H; reflexivity. Qed.

(* a generator whose stored input-fraction map is NOT what the code would rebuild (here the rebuild
   is even rejected: the map is not strictly increasing): the cleared = reloaded copy fails with the
   monotonicity error 301 where the original goes on with its stored map *)
Definition gen_bad_cache : Gen (F:=R) :=
  {| gen_state := {| gs_i := 1; gs_eta := 0; gs_pwr_elec_prop_out_max := 0; gs_pwr_elec_out_max := 0;
                     gs_pwr_rate_out_max := 0; gs_pwr_mech_in := 0; gs_pwr_elec_prop_out := 0;
                     gs_pwr_elec_aux := 0; gs_pwr_loss := 0; gs_energy_mech_in := 0;
                     gs_energy_elec_prop_out := 0; gs_energy_elec_aux := 0; gs_energy_loss := 0 |};
     gen_frac := [1; 1]; gen_eta_interp := [1; 1]; gen_in_frac := [0; 1]; gen_pwr_out_max := 1 |}.

Theorem cache_hypothesis_needed :
  ~ gen_cache_ok gen_bad_cache /\
  forall p a, gen_set_cur_pwr_max_out (gen_clear gen_bad_cache) p a = Err 301 /\
              gen_set_cur_pwr_max_out gen_bad_cache p a <> Err 301.
Proof.
  assert (Hmk : mk_in_frac (F:=R) [1; 1] [1; 1] = Err 301).
  { unfold mk_in_frac. cbn [zip_div strictly_increasing]. numR.
    assert (E : Rltb (1 / 1) (1 / 1) = false) by (apply Rltb_false; lra). rewrite E. reflexivity. }
  split.
  - unfold gen_cache_ok, gen_bad_cache. cbn [gen_in_frac gen_frac gen_eta_interp]. intros [H|H]; [discriminate|].
    rewrite Hmk in H. discriminate.
  - intros p a. split.
    + unfold gen_set_cur_pwr_max_out, gen_clear, gen_bad_cache. cbn [gen_in_frac gen_frac gen_eta_interp].
      rewrite Hmk. reflexivity.
    + unfold gen_set_cur_pwr_max_out, gen_bad_cache. cbn [gen_in_frac gen_frac gen_eta_interp gen_pwr_out_max bind].
      destruct (interp1d _ _ _ _) as [v|c|c] eqn:E; cbn [bind]; try discriminate.
      apply interp1d_err_code in E. subst c. discriminate.
Qed.
