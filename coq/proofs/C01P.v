(* C01P.v -- the energy ledger closes: per step (powers), cumulatively (energies, as an
   invariant of every run), the SOC law, and all hand-offs; locomotive level. *)
From Coq Require Import Reals Lra Lia List Bool ZArith Arith.
From AltModel Require Import Num Interp Powertrain Loco.
From AltProofs Require Import NumR InterpP PowertrainP LocoP C08P C10P.
Import ListNotations.
Open Scope R_scope.

(* ------------------------------------------------------------ per-step power ledger *)
Definition power_ledger (l' : Loco (F:=R)) : Prop :=
  let e := edrv_state (loco_edrv l') in
  (* wheel = propulsion - dynamic braking *)
  ls_pwr_out (lc_state l') = es_pwr_mech_prop_out e - es_pwr_mech_dyn_brake e /\
  (* drivetrain: electrical in = mechanical out + loss *)
  es_pwr_elec_prop_in e = es_pwr_mech_prop_out e + es_pwr_loss e /\
  match lc_type l' with
  | PConv c =>
      let f := fc_state (cv_fc c) in let g := gen_state (cv_gen c) in
      (* hand-offs *)
      fcs_pwr_brake f = gs_pwr_mech_in g /\
      gs_pwr_elec_prop_out g = es_pwr_elec_prop_in e /\
      (* component balances *)
      fcs_pwr_fuel f = fcs_pwr_brake f + fcs_pwr_loss f /\
      gs_pwr_mech_in g = gs_pwr_elec_prop_out g + gs_pwr_elec_aux g + gs_pwr_loss g /\
      (* whole-locomotive ledger *)
      fcs_pwr_fuel f = ls_pwr_out (lc_state l') + es_pwr_mech_dyn_brake e + gs_pwr_elec_aux g
                       + fcs_pwr_loss f + gs_pwr_loss g + es_pwr_loss e
  | PBel b =>
      let r := res_state (bl_res b) in
      rs_pwr_out_propulsion r = es_pwr_elec_prop_in e /\
      rs_pwr_out_electrical r = rs_pwr_out_propulsion r + rs_pwr_aux r /\
      rs_pwr_out_chemical r = rs_pwr_out_electrical r + rs_pwr_loss r /\
      rs_pwr_out_chemical r = ls_pwr_out (lc_state l') + es_pwr_mech_dyn_brake e + rs_pwr_aux r
                              + rs_pwr_loss r + es_pwr_loss e
  end.

(* ------------------------------------------------------------ cumulative ledger (invariant) *)
Definition energy_ledger (l : Loco (F:=R)) : Prop :=
  let e := edrv_state (loco_edrv l) in
  ls_energy_out (lc_state l) = es_energy_mech_prop_out e - es_energy_mech_dyn_brake e /\
  es_energy_elec_prop_in e = es_energy_mech_prop_out e + es_energy_loss e /\
  match lc_type l with
  | PConv c =>
      let f := fc_state (cv_fc c) in let g := gen_state (cv_gen c) in
      fcs_energy_brake f = gs_energy_mech_in g /\
      gs_energy_elec_prop_out g = es_energy_elec_prop_in e /\
      fcs_energy_fuel f = fcs_energy_brake f + fcs_energy_loss f /\
      gs_energy_mech_in g = gs_energy_elec_prop_out g + gs_energy_elec_aux g + gs_energy_loss g /\
      fcs_energy_fuel f = ls_energy_out (lc_state l) + es_energy_mech_dyn_brake e + gs_energy_elec_aux g
                          + fcs_energy_loss f + gs_energy_loss g + es_energy_loss e
  | PBel b =>
      let r := res_state (bl_res b) in
      rs_energy_out_propulsion r = es_energy_elec_prop_in e /\
      rs_energy_out_electrical r = rs_energy_out_propulsion r + rs_energy_aux r /\
      rs_energy_out_chemical r = rs_energy_out_electrical r + rs_energy_loss r /\
      rs_energy_out_chemical r = ls_energy_out (lc_state l) + es_energy_mech_dyn_brake e + rs_energy_aux r
                                 + rs_energy_loss r + es_energy_loss e
  end.

(* SOC moves by exactly the reported chemical energy divided by capacity *)
Definition soc_rel (l l' : Loco (F:=R)) : Prop :=
  match lc_type l, lc_type l' with
  | PBel b, PBel b' =>
      res_energy_capacity (bl_res b') = res_energy_capacity (bl_res b) /\
      rs_soc (res_state (bl_res b')) =
        rs_soc (res_state (bl_res b))
        - (rs_energy_out_chemical (res_state (bl_res b')) - rs_energy_out_chemical (res_state (bl_res b)))
          / res_energy_capacity (bl_res b)
  | PConv _, PConv _ => True
  | _, _ => False
  end.

Lemma soc_rel_refl l : soc_rel l l.
Proof. unfold soc_rel. destruct (lc_type l); auto. split; auto. unfold Rdiv. lra. Qed.
Lemma soc_rel_trans a b c : soc_rel a b -> soc_rel b c -> soc_rel a c.
Proof. unfold soc_rel. destruct (lc_type a), (lc_type b), (lc_type c); try tauto.
  intros [C1 S1] [C2 S2]. split; [congruence|]. rewrite S2, S1, C1. unfold Rdiv. lra. Qed.

(* the components' cumulative energies after a step, in terms of the published powers *)
Theorem loco_rel_ledger (l l' : Loco (F:=R)) pwr dt on :
  loco_ok l -> loco_step_rel l l' pwr dt on ->
  power_ledger l' /\ (energy_ledger l -> energy_ledger l') /\ soc_rel l l' /\
  ls_pwr_out (lc_state l') = pwr.
Proof.
  intros (Hty & Hoff & Hco) H.
  destruct H as (_ & _ & _ & Haux & HEaux & HEout & Hout & Hspec).
  pose proof (aux_of_nonneg l on Hoff Hco) as Haux0.
  unfold power_ledger, energy_ledger, soc_rel, loco_edrv in *.
  destruct (lc_type l) as [c0|b0] eqn:Et0; destruct (lc_type l') as [c'|b'] eqn:Et'; try contradiction.
  - destruct Hspec. destruct Hty as (Hfc & Hgen & Hedrv).
    destruct Hpar as (Pf & Pg & Pe). destruct Hcum as (Cf & Cg & Ce).
    pose proof (map_ok_par_edrv _ _ Pe Hedrv) as Oe.
    pose proof (one_mul_eta _ (interp1d_eta _ _ _ _ Oe Hee)) as Eee.
    assert (Hrm : 0 <= es_pwr_mech_regen_max (edrv_state (cv_edrv c))) by (rewrite Hregen; lra).
    pose proof (edrv_step_facts _ _ _ _ _ He) as (_ & _ & _ & Fd & _ & _ & _ & _ & Ee1 & Ee2 & Ee3 & _ & Ee5 & _).
    pose proof (edrv_second_law _ _ _ _ _ He Eee Hrm) as (_ & _ & _ & Sb1 & Sb2 & _).
    assert (Sb : es_pwr_elec_prop_in (edrv_state e) = es_pwr_mech_prop_out (edrv_state e) + es_pwr_loss (edrv_state e))
      by (destruct (Rlt_le_dec 0 pwr); [apply Sb1|apply Sb2]; assumption).
    pose proof (gen_step_facts _ _ _ _ _ _ Hg) as (_ & Gp & Ga & _ & Gl & Eg1 & Eg2 & Eg3 & Eg4 & _).
    pose proof (fc_step_facts _ _ _ _ _ _ _ Hf) as (_ & Fb & _ & _ & _ & _ & Fl & Ef1 & Ef2 & Ef3 & _).
    subst c'. cbn [cv_fc cv_gen cv_edrv] in *.
    inversion Ce as [[C1 C2 C3 C4 C5 C6]]. inversion Cf as [[D1 D2 D3 D4 D5]]. inversion Cg as [[G1 G2 G3 G4]].
    pose proof (edrv_wheel_balance _ _ _ _ _ He) as Hw.
    split; [|split; [|split]].
    + rewrite Hout. repeat split; try lra.
    + intros (I1 & I2 & I3 & I4 & I5 & I6 & I7).
      rewrite HEout, Hout, Ee1, Ee2, Ee3, Ee5, Eg1, Eg2, Eg3, Eg4, Ef1, Ef2, Ef3.
      repeat split; nra.
    + exact I.
    + rewrite Hout. exact Hw.
  - destruct Hspec. destruct Hty as (Hres & Hedrv).
    destruct Hpar as (Pr & Pe). destruct Hcum as (Cr & Ce).
    pose proof (map_ok_par_edrv _ _ Pe Hedrv) as Oe.
    pose proof (res_ok_par _ _ Pr Hres) as (lo & Hlo & Hlb & Hub).
    pose proof (one_mul_eta _ (interp1d_eta _ _ _ _ Oe Hee)) as Eee.
    assert (Eer : eta_ok er).
    { pose proof (interp3d_range _ _ _ _ _ _ _ _ _ _ Hlb Hub Her). unfold eta_ok; lra. }
    pose proof (edrv_step_facts _ _ _ _ _ He) as (_ & _ & _ & Fd & _ & _ & _ & _ & Ee1 & Ee2 & Ee3 & _ & Ee5 & _).
    pose proof (edrv_second_law _ _ _ _ _ He Eee Hregen) as (_ & _ & _ & Sb1 & Sb2 & _).
    assert (Sb : es_pwr_elec_prop_in (edrv_state e) = es_pwr_mech_prop_out (edrv_state e) + es_pwr_loss (edrv_state e))
      by (destruct (Rlt_le_dec 0 pwr); [apply Sb1|apply Sb2]; assumption).
    pose proof (res_step_facts _ _ _ _ _ _ Hr) as (_ & Rp & Ra & Rel & _ & _ & Er1 & Er2 & Er3 & Er4 & Er5 & Rsoc & Rcap & _).
    pose proof (res_second_law _ _ _ _ _ _ Hr Eer) as (_ & _ & _ & Rc).
    subst b'. cbn [bl_res bl_edrv] in *.
    inversion Ce as [[C1 C2 C3 C4 C5 C6]]. inversion Cr as [[D1 D2 D3 D4 D5 D6 D7]].
    inversion Pr as [[Q1 Q2 Q3 Q4 Q5 Q6 Q7 Q8]].
    pose proof (edrv_wheel_balance _ _ _ _ _ He) as Hw.
    split; [|split; [|split]].
    + rewrite Hout. repeat split; try lra.
    + intros (I1 & I2 & I3 & I4 & I5 & I6).
      rewrite HEout, Hout, Ee1, Ee2, Ee3, Ee5, Er1, Er2, Er3, Er4, Er5.
      repeat split; nra.
    + split; [congruence|]. rewrite Rsoc, Er5. unfold Rdiv. nra.
    + rewrite Hout. exact Hw.
Qed.

Theorem loco_step_ledger (l l' : Loco (F:=R)) pwr dt on :
  loco_ok l -> loco_sim_solve_step l pwr dt on = Ok l' ->
  power_ledger l' /\ (energy_ledger l -> energy_ledger l') /\ soc_rel l l' /\
  ls_pwr_out (lc_state l') = pwr.
Proof. intros Hok H. eapply loco_rel_ledger; eauto. apply loco_step_spec; exact H. Qed.

(* ------------------------------------------------------------ every run, every prefix *)
Definition ledger_state (l : Loco (F:=R)) : Prop := loco_ok l /\ energy_ledger l.

Theorem run_ledger l trace l' :
  ledger_state l -> Forall dt_pos trace -> run lstep l trace = Ok l' ->
  ledger_state l' /\ soc_rel l l'.
Proof.
  intros Hl HP Hrun.
  eapply (run_rel_P lstep dt_pos ledger_state soc_rel soc_rel_refl soc_rel_trans); eauto.
  intros s [[pwr dt] on] s' Pi [Hok Hled] Hs. cbn in Hs, Pi.
  destruct (loco_step_ledger _ _ _ _ _ Hok Hs) as (_ & Hpres & Hsoc & _).
  destruct (loco_step_second_law _ _ _ _ _ Hok Pi Hs) as (Hok' & _).
  split; [split; auto|auto].
Qed.

(* ... and each single step of each run closes the power ledger *)
Theorem run_every_step_ledger l pre i post l' :
  ledger_state l -> Forall dt_pos (pre ++ i :: post) -> run lstep l (pre ++ i :: post) = Ok l' ->
  exists m m', run lstep l pre = Ok m /\ lstep m i = Ok m' /\
               ledger_state m /\ power_ledger m' /\ ledger_state m' /\ soc_rel l m' /\
               ls_pwr_out (lc_state m') = fst (fst i).
Proof.
  intros Hl HP Hrun.
  apply run_prefix in Hrun. destruct Hrun as (m & Hpre & Hrest).
  apply Forall_app in HP. destruct HP as [HPpre HPrest]. inversion HPrest as [|? ? Pi Ppost]; subst.
  destruct (run_ledger _ _ _ Hl HPpre Hpre) as [[Hokm Hledm] Hsm].
  cbn in Hrest. destruct (lstep m i) as [m'| |] eqn:Es; try discriminate.
  destruct i as [[pwr dt] on]. cbn in Es, Pi |- *.
  destruct (loco_step_ledger _ _ _ _ _ Hokm Es) as (Hp & Hpres & Hsoc & Hout).
  destruct (loco_step_second_law _ _ _ _ _ Hokm Pi Es) as (Hok' & _).
  exists m, m'. split; [exact Hpre|]. split; [exact Es|]. split; [split; assumption|].
  split; [exact Hp|]. split; [split; auto|]. split; [eapply soc_rel_trans; eauto|exact Hout].
Qed.

(* ------------------------------------------------------------ consist roll-ups *)
From AltModel Require Import Consist.
From AltProofs Require Import ConsistP.

Definition loco_Efuel (l : Loco (F:=R)) : R :=
  match lc_type l with PConv c => fcs_energy_fuel (fc_state (cv_fc c)) | PBel _ => 0 end.
Definition loco_Echem (l : Loco (F:=R)) : R :=
  match lc_type l with PConv _ => 0 | PBel b => rs_energy_out_chemical (res_state (bl_res b)) end.
Definition loco_Eout (l : Loco (F:=R)) : R := ls_energy_out (lc_state l).

Lemma loco_rel_increments (l l' : Loco (F:=R)) p dt on : loco_step_rel l l' p dt on ->
  loco_Efuel l' = loco_Efuel l + loco_fuel l' * dt /\
  loco_Echem l' = loco_Echem l + loco_reves l' * dt /\
  loco_Eout l' = loco_Eout l + pout l' * dt /\ pout l' = p.
Proof.
  intros (_ & _ & _ & _ & _ & HEout & Hout & Hspec).
  unfold loco_Efuel, loco_Echem, loco_Eout, loco_fuel, loco_reves, pout, loco_edrv in *.
  destruct (lc_type l) as [c0|b0]; destruct (lc_type l') as [c'|b']; try contradiction.
  - destruct Hspec. destruct Hcum as (Cf & _ & _). inversion Cf as [[D1 D2 D3 D4 D5]].
    pose proof (fc_step_facts _ _ _ _ _ _ _ Hf) as (_ & _ & _ & _ & _ & _ & _ & _ & Ef2 & _).
    pose proof (edrv_wheel_balance _ _ _ _ _ He) as Hw.
    subst c'. cbn [cv_fc cv_edrv] in *. numR.
    split; [first [exact Ef2|rewrite Ef2; lra]|]. split; [lra|]. split; [exact HEout|]. rewrite Hout; exact Hw.
  - destruct Hspec. destruct Hcum as (Cr & _). inversion Cr as [[D1 D2 D3 D4 D5 D6 D7]].
    pose proof (res_step_facts _ _ _ _ _ _ Hr) as (_ & _ & _ & _ & _ & _ & _ & _ & _ & _ & Er5 & _).
    pose proof (edrv_wheel_balance _ _ _ _ _ He) as Hw.
    subst b'. cbn [bl_res bl_edrv] in *. numR.
    split; [lra|]. split; [first [exact Er5|rewrite Er5; lra]|]. split; [exact HEout|]. rewrite Hout; exact Hw.
Qed.

Inductive stepped (dt : R) : list (Loco (F:=R)) -> list R -> list (Loco (F:=R)) -> Prop :=
| stepped_nil : stepped dt [] [] []
| stepped_cons l p l' ls ps ls' : loco_step_rel l l' p dt true -> stepped dt ls ps ls' ->
    stepped dt (l :: ls) (p :: ps) (l' :: ls').

(* a ConsistSimulation step steps every locomotive (publish limits, then solve its share) *)
Lemma consist_step_stepped (c c' : ConsistR) req dt : consist_sim_solve_step c req dt = Ok c' ->
  exists shares, stepped dt (cn_locos c) shares (cn_locos c') /\
    cs_pwr_out (cn_state c') = sumR (fun x => x) shares /\
    cs_pwr_fuel (cn_state c') = sumR loco_fuel (cn_locos c') /\
    cs_pwr_reves (cn_state c') = sumR loco_reves (cn_locos c') /\
    cs_energy_out (cn_state c') = cs_energy_out (cn_state c) + cs_pwr_out (cn_state c') * dt /\
    cs_energy_fuel (cn_state c') = cs_energy_fuel (cn_state c) + cs_pwr_fuel (cn_state c') * dt /\
    cs_energy_res (cn_state c') = cs_energy_res (cn_state c) + cs_pwr_reves (cn_state c') * dt /\
    cs_energy_out_pos (cn_state c') - cs_energy_out_neg (cn_state c') =
      cs_energy_out_pos (cn_state c) - cs_energy_out_neg (cn_state c) + cs_pwr_out (cn_state c') * dt.
Proof.
  unfold consist_sim_solve_step. intros H. apply bind_ok in H. destruct H as (c2 & Hc2 & Hsol).
  destruct (consist_solve_locos _ _ _ _ _ Hsol) as (shares & Hlen & Hsd & _ & _ & _ & H1 & H2 & H3 & H4 & H5 & H6 & H7).
  unfold consist_set_cur_pwr_max_out in Hc2. apply bind_ok in Hc2. destruct Hc2 as (ls2 & Hls & Hc2).
  apply map_res_spec in Hls. inversion Hc2; subst c2; clear Hc2.
  cbn [cn_locos cn_state consist_set_pwr_aux cs_energy_out cs_energy_fuel cs_energy_res cs_energy_out_pos
       cs_energy_out_neg] in *.
  exists shares. repeat split; auto.
  clear - Hls Hsd. revert shares Hsd. remember (cn_locos c') as ls'. clear Heqls'. revert ls'.
  remember (cn_locos c) as ls. clear Heqls. revert ls2 Hls.
  induction ls as [|l t IH]; intros ls2 Hls ls' shares Hsd; cbn in Hls; inversion Hls; subst; inversion Hsd; subst.
  - constructor.
  - constructor; [|eapply IH; eauto]. eapply loco_two_stage_spec; eauto.
Qed.

Definition rollup (c : ConsistR) : Prop :=
  cs_energy_fuel (cn_state c) = sumR loco_Efuel (cn_locos c) /\
  cs_energy_res (cn_state c) = sumR loco_Echem (cn_locos c) /\
  cs_energy_out (cn_state c) = sumR loco_Eout (cn_locos c).

Lemma stepped_sums dt ls ps ls' : stepped dt ls ps ls' ->
  sumR loco_Efuel ls' = sumR loco_Efuel ls + sumR loco_fuel ls' * dt /\
  sumR loco_Echem ls' = sumR loco_Echem ls + sumR loco_reves ls' * dt /\
  sumR loco_Eout ls' = sumR loco_Eout ls + sumR pout ls' * dt /\
  sumR pout ls' = sumR (fun x => x) ps.
Proof. induction 1 as [|l p l' ls ps ls' Hr _ (I1 & I2 & I3 & I4)]; cbn; [repeat split; lra|].
  destruct (loco_rel_increments _ _ _ _ _ Hr) as (A & B & C & D). rewrite A, B, C, I1, I2, I3, I4, D.
  repeat split; lra. Qed.

(* per step: consist powers are the sums over its locomotives; the cumulative roll-up is invariant *)
Theorem consist_step_rollup (c c' : ConsistR) req dt : consist_sim_solve_step c req dt = Ok c' ->
  cs_pwr_fuel (cn_state c') = sumR loco_fuel (cn_locos c') /\
  cs_pwr_reves (cn_state c') = sumR loco_reves (cn_locos c') /\
  cs_pwr_out (cn_state c') = sumR pout (cn_locos c') /\
  (rollup c -> rollup c').
Proof.
  intros H. destruct (consist_step_stepped _ _ _ _ H) as (shares & Hst & H1 & H2 & H3 & H4 & H5 & H6 & _).
  destruct (stepped_sums _ _ _ _ Hst) as (S1 & S2 & S3 & S4).
  split; [exact H2|]. split; [exact H3|]. split; [rewrite H1, S4; reflexivity|].
  intros (R1 & R2 & R3). unfold rollup. rewrite H5, H6, H4, H2, H3, H1, S1, S2, S3, S4, R1, R2, R3. repeat split; lra.
Qed.

Theorem consist_run_rollup c trace c' : rollup c -> run C10P.cstep c trace = Ok c' -> rollup c'.
Proof. intros Hr Hrun. eapply (run_inv C10P.cstep rollup); eauto.
  intros s i s' Hs Hst. unfold C10P.cstep in Hst. destruct (consist_step_rollup _ _ _ _ Hst) as (_ & _ & _ & Hp). auto. Qed.
