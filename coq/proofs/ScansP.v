(* ScansP.v -- memory safety of the three `unsafe` sentinel scans (free_path.rs), for ALL buffers and
   indices: the out-of-bounds outcome [Panic OOB] of the checked model is unreachable, the scans stop
   at or before the sentinel, and find_train_intersect leaves the path buffer as it found it. *)
From Coq Require Import List ZArith Bool Arith Lia.
From AltModel Require Import Num Scans.
Import ListNotations.

(* ---- generic facts ---- *)
Lemma nth_error_skipn' {A} (l : list A) n k : nth_error (skipn n l) k = nth_error l (n + k).
Proof. revert l; induction n as [|n IH]; intros l; cbn; auto. destruct l; cbn; auto. destruct k; reflexivity. Qed.

Lemma set_nth_length {A} (v : list A) i x : length (set_nth v i x) = length v.
Proof. revert i; induction v as [|a t IH]; intros i; cbn; auto. destruct i; cbn; auto. Qed.

Lemma set_nth_same {A} (v : list A) i x : i < length v -> nth_error (set_nth v i x) i = Some x.
Proof. revert i; induction v as [|a t IH]; intros i H; cbn in *; [lia|]. destruct i; cbn; auto. apply IH. lia. Qed.

Lemma set_nth_other {A} (v : list A) i j x : i <> j -> nth_error (set_nth v i x) j = nth_error v j.
Proof. revert i j; induction v as [|a t IH]; intros i j H; cbn; auto. destruct i, j; cbn; auto; try congruence. Qed.

Lemma set_nth_restore {A} (v : list A) i c save :
  nth_error v i = Some save -> set_nth (set_nth v i c) i save = v.
Proof. revert i; induction v as [|a t IH]; intros i H; cbn in *; [destruct i; discriminate|].
  destruct i; cbn in *. - inversion H; reflexivity. - f_equal. apply IH; auto. Qed.

Lemma find_from_stops {A} (p : A -> bool) l i m x :
  nth_error l m = Some x -> p x = true ->
  exists k, find_from p l i = Ok (i + k) /\ k <= m /\ exists y, nth_error l k = Some y /\ p y = true.
Proof.
  revert i m; induction l as [|a t IH]; intros i m Hn Hp; [destruct m; discriminate|].
  cbn [find_from]. destruct (p a) eqn:Ea.
  - exists 0. rewrite Nat.add_0_r. split; auto. split; [lia|]. exists a; auto.
  - destruct m as [|m]; cbn in Hn; [inversion Hn; subst; congruence|].
    destruct (IH (S i) m Hn Hp) as (k & E & Hk & y & Hy & Hpy).
    exists (S k). replace (i + S k) with (S i + k) by lia. split; auto. split; [lia|]. exists y; auto.
Qed.

(* the scan started at [start] stops at or before a sentinel position s >= start *)
Lemma scan_until_stops {A} (p : A -> bool) v start s x :
  start <= s -> nth_error v s = Some x -> p x = true ->
  exists i, scan_until p v start = Ok i /\ start <= i <= s /\ exists y, nth_error v i = Some y /\ p y = true.
Proof.
  intros Hs Hn Hp. unfold scan_until.
  assert (Hn' : nth_error (skipn start v) (s - start) = Some x) by (rewrite nth_error_skipn'; replace (start + (s - start)) with s by lia; auto).
  destruct (find_from_stops p _ start _ _ Hn' Hp) as (k & E & Hk & y & Hy & Hpy).
  exists (start + k). split; auto. split; [lia|]. exists y. rewrite nth_error_skipn' in Hy. auto.
Qed.

Lemma skip_while_checked_res p l i r : skip_while_checked p l i = r ->
  r = Panic INDEXF \/ exists j, r = Ok j /\ i <= j < i + length l.
Proof.
  revert i r; induction l as [|a t IH]; intros i r H; cbn in H; [left; auto|].
  destruct (p a).
  - destruct (IH _ _ H) as [E|(j & E & Hj)]; [left; auto|right]. exists j. cbn. split; auto. lia.
  - right. exists i. cbn. split; auto. lia.
Qed.

Lemma last_nth_error {A} (l : list A) d : l <> [] -> nth_error l (length l - 1) = Some (last l d).
Proof.
  induction l as [|a t IH]; intros H; [congruence|]. destruct t as [|b t'].
  - reflexivity.
  - specialize (IH ltac:(discriminate)). cbn [length]. replace (S (S (length t')) - 1) with (S (length (b :: t') - 1)) by (cbn; lia).
    cbn [nth_error]. rewrite IH. reflexivity.
Qed.

(* ---------------------------------------------------------------- calc_idx_sentinels *)
(* the two assert!s that precede the unsafe block *)
Definition calc_pre (div_idx tsent : nat) (dn : list (nat * nat)) : Prop :=
  div_idx < length dn /\ fst (last dn (0, 0)) = tsent.

Theorem calc_idx_sentinels_safe div_idx tsent dn :
  (* never reads outside the buffer, whatever the arguments *)
  calc_idx_sentinels div_idx tsent dn <> Panic OOB /\
  (* if the asserted preconditions fail the assert! fires (before the unsafe block) *)
  (~ calc_pre div_idx tsent dn -> calc_idx_sentinels div_idx tsent dn = Panic ASSERTF) /\
  (* under them: stops at the first matching node, at or before the ending sentinel *)
  (calc_pre div_idx tsent dn ->
     exists i d, div_idx <= i < length dn /\ nth_error dn i = Some (tsent, d) /\
       (forall k y, div_idx <= k < i -> nth_error dn k = Some y -> fst y <> tsent) /\
       (calc_idx_sentinels div_idx tsent dn = Panic INDEXF \/
        exists j, calc_idx_sentinels div_idx tsent dn = Ok (d, j) /\ i < j <= length dn)).
Proof.
  unfold calc_idx_sentinels, calc_pre.
  destruct (Nat.ltb_spec div_idx (length dn)) as [Hlt|Hge]; cbn [passert bind].
  2:{ split; [discriminate|]. split; [reflexivity|]. intros [H _]; lia. }
  assert (Hne : dn <> []) by (destruct dn; cbn in Hlt; [lia|discriminate]).
  replace (match dn with [] => false | _ :: _ => fst (last dn (0, 0)) =? tsent end) with (fst (last dn (0, 0)) =? tsent)
    by (destruct dn; [congruence|reflexivity]).
  destruct (Nat.eqb_spec (fst (last dn (0, 0))) tsent) as [El|Hne']; cbn [passert bind].
  2:{ split; [discriminate|]. split; [reflexivity|]. intros [_ H]; contradiction. }
  pose proof (last_nth_error dn (0, 0) Hne) as Hlast.
  destruct (scan_until_stops (fun x => fst x =? tsent) dn div_idx (length dn - 1) _ ltac:(lia) Hlast ltac:(apply Nat.eqb_eq; exact El))
    as (i & Es & Hi & y & Hy & Hpy).
  rewrite Es. cbn [bind]. unfold get_unchecked. rewrite Hy. cbn [bind].
  apply Nat.eqb_eq in Hpy.
  assert (Hmin : forall k z, div_idx <= k < i -> nth_error dn k = Some z -> fst z <> tsent).
  { intros k z Hk Hz Ez. unfold scan_until in Es.
    assert (Hz' : nth_error (skipn div_idx dn) (k - div_idx) = Some z) by (rewrite nth_error_skipn'; replace (div_idx + (k - div_idx)) with k by lia; auto).
    destruct (find_from_stops (fun x => fst x =? tsent) _ div_idx _ _ Hz' ltac:(apply Nat.eqb_eq; exact Ez)) as (k' & E' & Hk' & _).
    rewrite Es in E'. inversion E'. lia. }
  destruct (S i <? length dn) eqn:Ej.
  - destruct (skip_while_checked_res (fun x : nat * nat => snd x =? snd y) (skipn (S i) dn) (S i) _ eq_refl) as [E|(j & E & Hj)];
      rewrite ?skipn_length in *.
    + rewrite E. cbn. split; [discriminate|]. split; [intros H; exfalso; apply H; split; auto|].
      intros _. exists i, (snd y). split; [lia|]. split; [destruct y; cbn in *; subst; auto|]. split; auto.
    + rewrite E. cbn. split; [discriminate|]. split; [intros H; exfalso; apply H; split; auto|].
      intros _. exists i, (snd y). split; [lia|]. split; [destruct y; cbn in *; subst; auto|]. split; auto.
      right. exists j. split; auto. apply Nat.ltb_lt in Ej. lia.
  - cbn. split; [discriminate|]. split; [intros H; exfalso; apply H; split; auto|].
    intros _. exists i, (snd y). split; [lia|]. split; [destruct y; cbn in *; subst; auto|]. split; auto.
    right. exists (S i). split; auto. lia.
Qed.

(* ---------------------------------------------------------------- find_train_intersect *)
Lemma blocked_at_res blocked x : blocked_at blocked x = Panic INDEXF \/ exists b, blocked_at blocked x = Ok b.
Proof. unfold blocked_at. destruct (nth_error blocked (Z.to_nat x)); eauto. Qed.

Lemma range_scan_stops mn df s blocked sv : (wrapping_sub sv mn <= df)%Z ->
  forall l i, i <= s -> nth_error l (s - i) = Some sv ->
  range_scan mn df s blocked l i = Panic INDEXF \/ exists r, range_scan mn df s blocked l i = Ok r /\ i <= r <= s.
Proof.
  intros Hsv. induction l as [|x t IH]; intros i Hi Hn; [destruct (s - i); discriminate|].
  cbn [range_scan]. destruct (Z.gtb_spec (wrapping_sub x mn) df) as [Hgt|Hle].
  - assert (i <> s). { intros E. subst i. rewrite Nat.sub_diag in Hn. cbn in Hn. inversion Hn; subst. lia. }
    assert (Hn' : nth_error t (s - S i) = Some sv) by (replace (s - i) with (S (s - S i)) in Hn by lia; exact Hn).
    destruct (IH (S i) ltac:(lia) Hn') as [E|(r & E & Hr)]; [left; auto|right].
    exists r. split; [assumption|lia].
  - destruct (Nat.eqb_spec i s) as [E|Hne].
    + right. exists i. split; [reflexivity|lia].
    + destruct (blocked_at_res blocked x) as [E|(b & E)]; rewrite E; cbn [bind]; [left; auto|].
      destruct b.
      * right. exists i. split; [reflexivity|lia].
      * assert (Hn' : nth_error t (s - S i) = Some sv) by (replace (s - i) with (S (s - S i)) in Hn by lia; exact Hn).
        destruct (IH (S i) ltac:(lia) Hn') as [E'|(r & E' & Hr)]; [left; auto|right].
        exists r. split; [assumption|lia].
Qed.

Lemma check_scan_stops path blocked : forall k i, i + k <= length path ->
  check_scan path blocked k i = Panic INDEXF \/ exists r, check_scan path blocked k i = Ok r /\ i <= r <= i + k.
Proof.
  induction k as [|k IH]; intros i Hk; cbn [check_scan].
  - right. exists i. split; [reflexivity|lia].
  - unfold get_unchecked. destruct (nth_error path i) as [x|] eqn:E.
    2:{ apply nth_error_None in E. lia. }
    cbn [bind]. destruct (blocked_at_res blocked x) as [Eb|(b & Eb)]; rewrite Eb; cbn [bind]; [left; auto|].
    destruct b.
    + right. exists i. split; [reflexivity|lia].
    + destruct (IH (S i) ltac:(lia)) as [E'|(r & E' & Hr)]; [left; auto|right]. exists r. split; [assumption|lia].
Qed.

(* Range bounds are built by LinkOptType::new from u32 link indices (a type-level fact of the
   caller, not an assert): 0 <= min < 2^32, 0 <= diff *)
Definition opt_wf (opt : link_opt) : Prop :=
  match opt with LRange mn df => (0 <= mn < two32)%Z /\ (0 <= df)%Z | _ => True end.

Lemma wrapping_sub_sentinel mn : (0 <= mn < two32)%Z -> wrapping_sub (mn mod two32) mn = 0%Z.
Proof. intros H. unfold wrapping_sub. rewrite (Z.mod_small mn two32) by exact H. rewrite Z.sub_diag. reflexivity. Qed.

Theorem find_train_intersect_safe idx_split idx_sentinel opt path blocked :
  opt_wf opt ->
  (* never reads or writes outside the buffer *)
  find_train_intersect idx_split idx_sentinel opt path blocked <> Panic OOB /\
  (* the only assert!: fires iff a search is needed and the sentinel is outside the buffer *)
  (idx_split < idx_sentinel -> ~ idx_sentinel < length path ->
     find_train_intersect idx_split idx_sentinel opt path blocked = Panic ASSERTF) /\
  (* a normal return stops at or before the sentinel and leaves the buffer exactly as it was *)
  (forall r p', find_train_intersect idx_split idx_sentinel opt path blocked = Ok (r, p') ->
     p' = path /\ idx_split <= r /\ (idx_split < idx_sentinel -> r <= idx_sentinel)) /\
  (* no other outcome than Ok / the assert / a checked links_blocked index *)
  ((exists r, find_train_intersect idx_split idx_sentinel opt path blocked = Ok (r, path)) \/
   find_train_intersect idx_split idx_sentinel opt path blocked = Panic ASSERTF \/
   find_train_intersect idx_split idx_sentinel opt path blocked = Panic INDEXF).
Proof.
  intros Hwf. unfold find_train_intersect.
  destruct (Nat.leb_spec idx_sentinel idx_split) as [Hle|Hlt].
  { split; [discriminate|]. split; [lia|]. split; [|left; eauto].
    intros r p' H. inversion H; subst. split; auto. split; [lia|lia]. }
  destruct (Nat.ltb_spec idx_sentinel (length path)) as [Hin|Hout]; cbn [passert bind].
  2:{ split; [discriminate|]. split; [reflexivity|]. split; [discriminate|]. right; left; reflexivity. }
  destruct (nth_error path idx_sentinel) as [save|] eqn:Esave.
  2:{ apply nth_error_None in Esave. lia. }
  destruct opt as [c|mn df|].
  - (* Single *)
    unfold get_unchecked, set_unchecked. rewrite Esave. cbn [bind].
    destruct (Nat.ltb_spec idx_sentinel (length path)); [|lia]. cbn [bind].
    destruct (scan_until_stops (fun x => (x =? c)%Z) (set_nth path idx_sentinel c) idx_split idx_sentinel c
                ltac:(lia) (set_nth_same _ _ _ Hin) (Z.eqb_refl c)) as (i & E & Hi & _).
    rewrite E. cbn [bind]. rewrite set_nth_length.
    destruct (Nat.ltb_spec idx_sentinel (length path)); [|lia]. cbn [bind].
    rewrite (set_nth_restore _ _ _ _ Esave).
    split; [discriminate|]. split; [lia|]. split; [|left; eauto].
    intros r p' H'. inversion H'; subst. split; auto. lia.
  - (* Range *)
    destruct Hwf as [Hmn Hdf].
    unfold get_unchecked, set_unchecked. rewrite Esave. cbn [bind].
    destruct (Nat.ltb_spec idx_sentinel (length path)); [|lia]. cbn [bind].
    assert (Hsv : (wrapping_sub (mn mod two32) mn <= df)%Z) by (rewrite wrapping_sub_sentinel; auto).
    assert (Hn : nth_error (skipn idx_split (set_nth path idx_sentinel (mn mod two32)%Z)) (idx_sentinel - idx_split) = Some (mn mod two32)%Z).
    { rewrite nth_error_skipn'. replace (idx_split + (idx_sentinel - idx_split)) with idx_sentinel by lia. apply set_nth_same; auto. }
    destruct (range_scan_stops mn df idx_sentinel blocked _ Hsv _ idx_split ltac:(lia) Hn) as [E|(r0 & E & Hr)]; rewrite E; cbn [bind].
    + split; [discriminate|]. split; [lia|]. split; [discriminate|]. right; right; reflexivity.
    + rewrite set_nth_length. destruct (Nat.ltb_spec idx_sentinel (length path)); [|lia]. cbn [bind].
      rewrite (set_nth_restore _ _ _ _ Esave).
      split; [discriminate|]. split; [lia|]. split; [|left; eauto].
      intros r p' H'. inversion H'; subst. split; auto. lia.
  - (* Check *)
    destruct (check_scan_stops path blocked (idx_sentinel - idx_split) idx_split ltac:(lia)) as [E|(r0 & E & Hr)]; rewrite E; cbn [bind].
    + split; [discriminate|]. split; [lia|]. split; [discriminate|]. right; right; reflexivity.
    + split; [discriminate|]. split; [lia|]. split; [|left; eauto].
      intros r p' H'. inversion H'; subst. split; auto. lia.
Qed.

(* ---------------------------------------------------------------- add_blocking_trains *)
Lemma add_loop_safe e b : b <= e -> forall idxs tb, e < length tb ->
  add_loop e b idxs tb = Panic INDEXF \/ exists tb', add_loop e b idxs tb = Ok tb' /\ length tb <= length tb'.
Proof.
  intros Hbe. induction idxs as [|ia rest IH]; intros tb He; cbn [add_loop].
  - right. exists tb. auto.
  - unfold get_checked. destruct (nth_error tb ia) as [ta|]; cbn [bind]; [|left; auto].
    unfold set_unchecked. destruct (Nat.ltb_spec e (length tb)); [|lia]. cbn [bind].
    destruct (scan_until_stops (fun x => x =? ta) (set_nth tb e ta) b e ta Hbe (set_nth_same _ _ _ He) (Nat.eqb_refl ta))
      as (i & E & Hi & _).
    rewrite E. cbn [bind].
    destruct (i =? e).
    + destruct (IH (set_nth tb e ta ++ [ta]) ltac:(rewrite app_length, set_nth_length; cbn; lia)) as [E'|(tb' & E' & Hl)].
      * left; auto.
      * right. exists tb'. split; auto. rewrite app_length, set_nth_length in Hl. cbn in Hl. lia.
    + destruct (IH (set_nth tb e ta) ltac:(rewrite set_nth_length; lia)) as [E'|(tb' & E' & Hl)].
      * left; auto.
      * right. exists tb'. split; auto. rewrite set_nth_length in Hl. lia.
Qed.

Lemma removelast_len {A} (l : list A) : length (removelast l) = length l - 1.
Proof.
  induction l as [|a t IH]; auto. destruct t as [|b t']; auto.
  change (removelast (a :: b :: t')) with (a :: removelast (b :: t')). cbn [length] in *. rewrite IH. lia.
Qed.

(* the two assert!s *)
Definition add_pre (tb : list nat) (base : nat * nat) : Prop := fst base <= snd base /\ length tb = snd base.

Theorem add_blocking_trains_safe tb base add :
  add_blocking_trains tb base add <> Panic OOB /\
  (~ add_pre tb base -> add_blocking_trains tb base add = Panic ASSERTF) /\
  (add_pre tb base ->
     add_blocking_trains tb base add = Panic INDEXF \/
     exists tb', add_blocking_trains tb base add = Ok (tb', (fst base, length tb')) /\ snd base <= length tb').
Proof.
  destruct base as [b e], add as [ab ae]. unfold add_blocking_trains, add_pre. cbn [fst snd].
  destruct (Nat.leb_spec b e) as [Hbe|Hbe]; cbn [passert bind].
  2:{ split; [discriminate|]. split; [reflexivity|]. intros [H _]; lia. }
  destruct (Nat.eqb_spec (length tb) e) as [Hl|Hl]; cbn [passert bind].
  2:{ split; [discriminate|]. split; [reflexivity|]. intros [_ H]; lia. }
  destruct (add_loop_safe e b Hbe (seq ab (ae - ab)) (tb ++ [0]) ltac:(rewrite app_length; cbn; lia)) as [E|(tb1 & E & Hlen)].
  - rewrite E. cbn [bind]. split; [discriminate|]. split; [intros H; exfalso; apply H; auto|]. intros _. left; reflexivity.
  - rewrite E. cbn [bind]. split; [discriminate|]. split; [intros H; exfalso; apply H; auto|]. intros _. right.
    rewrite app_length in Hlen. cbn in Hlen.
    eexists. split; [reflexivity|].
    pose proof (removelast_len tb1) as Hrl.
    destruct (e <? length (removelast tb1)); rewrite ?set_nth_length; lia.
Qed.
