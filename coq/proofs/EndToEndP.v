(* EndToEndP.v -- the end-to-end simulation (WholeSim.v) decomposes into the stages the per-property
   theorems are about; the composite statement collects what they give for EVERY network, route,
   train and consist whose simulation is accepted. *)
From Coq Require Import Reals Lra Lia List Bool ZArith Arith.
From AltModel Require Import Num Interp Powertrain Loco Consist SpeedPoints PathGeom Resist Braking TrainStep TrainEnergy TrainFull WholeSim.
From AltProofs Require Import NumR PowertrainP LocoP ConsistP C08P C10P C01P C11P ResistP TrainStepP BrakingP
  SpeedPointsP PathGeomP TrainFullP WholeSimP.
Import ListNotations.
Open Scope R_scope.

Lemma extend_many_single (net : list LinkR) (p q : PathR) route :
  extend net p route = Ok q <-> extend_many net p [route] = Ok q.
Proof. cbn [extend_many]. split; intros H.
  - rewrite H. reflexivity.
  - destruct (extend net p route) as [q'| |]; cbn in H; try discriminate. exact H. Qed.

(* the stages *)
Theorem sl_whole_sim_stages fuel_bp fuel_walk (net : list LinkR) (tp : TPR) route rp fmax fb st cache (con : ConsistR) x' :
  sl_whole_sim fuel_bp fuel_walk net tp route rp fmax fb st cache con = Ok x' ->
  exists p pts idx,
    extend_many net (new_path tp) [route] = Ok p /\
    recalc fuel_bp (brkenv_of_path p rp (fb_force_max fb)) (path_offset_end p) st cache = Ok (pts, idx) /\
    sl_full_walk fuel_walk (env_of_path p rp) pts (path_offset_end p) fmax
      ({| sl_st := st; sl_cache := cache; sl_fb := fb; sl_idx := idx |}, con) = Ok x'.
Proof.
  unfold sl_whole_sim, sl_prepare. intros H.
  apply bind_ok in H. destruct H as ([[p pts] idx] & Hp & Hw).
  apply bind_ok in Hp. destruct Hp as (p0 & He & Hp).
  apply bind_ok in Hp. destruct Hp as ([pts0 idx0] & Hr & Hp). inversion Hp; subst p0 pts0 idx0; clear Hp.
  exists p, pts, idx. split; [apply extend_many_single; exact He|]. split; [exact Hr|exact Hw].
Qed.

(* THE composite statement *)
Theorem sl_whole_sim_sound fuel_bp fuel_walk (net : list LinkR) (tp : TPR) route rp fmax fb st cache (con : ConsistR) x' :
  sl_whole_sim fuel_bp fuel_walk net tp route rp fmax fb st cache con = Ok x' ->
  0 <= k_dt (ts_k st) -> 0 < mass_compound (ts_p st) ->
  exists p pts idx n,
    let s0 := {| sl_st := st; sl_cache := cache; sl_fb := fb; sl_idx := idx |} in
    let e := env_of_path p rp in
    (* the path: built from the network along the route *)
    extend_many net (new_path tp) [route] = Ok p /\
    (* C02 / C13: the enforced profile is exactly the tightest of speed_max and the posted restrictions *)
    (route_ok net tp route -> forall x, 0 <= x ->
       let P := eval_speed (p_speed_points p) x in
       P <= tp_speed_max tp /\ (forall v, posted tp 0 (route_sets net tp route) x v -> P <= v) /\
       (P = tp_speed_max tp \/ posted tp 0 (route_sets net tp route) x P)) /\
    (* C03: every braking point aims at or below the limit in force *)
    recalc fuel_bp (brkenv_of_path p rp (fb_force_max fb)) (path_offset_end p) st cache = Ok (pts, idx) /\
    Forall pt_ok pts /\
    (* the walk is a run of n whole steps that ends exactly when the loop test fails ... *)
    sl_full_run n e pts fmax (s0, con) = Ok x' /\
    (* ... inside the stopping window at rest, or at / beyond the end of the path *)
    (path_offset_end p - ft1000 <= k_offset (ts_k (sl_st (fst x'))) /\
     (path_offset_end p <= k_offset (ts_k (sl_st (fst x'))) \/ k_speed (ts_k (sl_st (fst x'))) = 0)) /\
    (* every step on the way: the saved row has 0 <= target <= limit and started at or below that limit *)
    (forall k y y', (k < n)%nat -> sl_full_run k e pts fmax (s0, con) = Ok y -> sl_full_step e pts fmax y = Ok y' ->
       0 <= k_speed_target (ts_k (sl_st (fst y'))) <= k_speed_limit (ts_k (sl_st (fst y'))) /\
       k_speed (ts_k (sl_st (fst y))) <= k_speed_limit (ts_k (sl_st (fst y')))) /\
    (* C01 / C08: well-formed units stay well-formed and no unit's cumulative loss, fuel or braking energy decreased *)
    (0 < k_dt (ts_k st) -> Forall loco_ok (cn_locos con) ->
       Forall loco_ok (cn_locos (snd x')) /\ Forall2 cum_le (cn_locos con) (cn_locos (snd x'))) /\
    (* C11: train-level, consist-level and locomotive-sum energies agree at the end if they did at the start *)
    (cinv con -> levels_agree (te_of st, con) ->
       (forall k y, sl_full_run k e pts fmax (s0, con) = Ok y -> (1 <= k)%nat -> limits_nonneg (snd y)) ->
       cinv (snd x') /\ levels_agree (te_of (sl_st (fst x')), snd x')).
Proof.
  intros H Hdt Hm.
  destruct (sl_whole_sim_stages _ _ _ _ _ _ _ _ _ _ _ _ H) as (p & pts & idx & Hp & Hr & Hw).
  destruct (sl_full_walk_is_run _ _ _ _ _ _ _ Hw) as (n & _ & Hrun & Hend & Hall).
  exists p, pts, idx, n. cbv zeta.
  assert (Hpts : Forall pt_ok pts).
  { eapply bp_target_le_limit_fixed; [| exact Hdt | exact Hm | exact Hr]. reflexivity. }
  split; [exact Hp|].
  split.
  { intros Hrok x Hx. pose proof (path_profile_is_min net tp [route] p x Hp) as Hmin.
    cbn [concat] in Hmin. rewrite app_nil_r in Hmin. apply Hmin; auto. }
  split; [exact Hr|]. split; [exact Hpts|]. split; [exact Hrun|].
  split; [exact (sl_full_walk_end _ _ _ _ _ _ _ Hw)|].
  split.
  { intros k y y' Hk Hy Hs. destruct y as [s c]. destruct y' as [s'' c'].
    exact (sl_full_step_limit_target _ _ _ _ _ _ _ Hpts Hs). }
  split.
  { intros Hdt' Hok. apply (sl_full_run_units (env_of_path p rp) pts fmax n ({| sl_st := st; sl_cache := cache; sl_fb := fb; sl_idx := idx |}, con) x'); auto. }
  intros Hinv Hag Hlim.
  apply (sl_full_run_levels (env_of_path p rp) pts fmax n ({| sl_st := st; sl_cache := cache; sl_fb := fb; sl_idx := idx |}, con) x'); auto.
  intros k y Hk Hy. apply (Hlim k y Hy). lia.
Qed.

(* ---------------------------------------------------------------- walk_timed_path (the simulation of a dispatched train) *)
Definition UInv (con0 : ConsistR) (dt0 : R) (x : SLStateR * ConsistR) : Prop :=
  k_dt (ts_k (sl_st (fst x))) = dt0 /\ Forall loco_ok (cn_locos (snd x)) /\ Forall2 cum_le (cn_locos con0) (cn_locos (snd x)).

Lemma tw_steps_inv con0 dt0 (e : Env (F:=R)) pts fmax te : 0 < dt0 -> forall fuel x x',
  UInv con0 dt0 x -> tw_steps fuel e pts fmax te x = Ok x' -> UInv con0 dt0 x'.
Proof.
  intros Hdt. induction fuel as [|f IH]; intros x x' Hi H; cbn [tw_steps] in H.
  - destruct (nltb _ te); [discriminate|]. inversion H; subst; exact Hi.
  - destruct (nltb _ te); [|inversion H; subst; exact Hi].
    apply bind_ok in H. destruct H as (x1 & Hs & Hr). apply (IH x1 x'); [|exact Hr].
    destruct x as [s c]. destruct x1 as [s1 c1]. destruct Hi as (D & O & L). cbn [fst snd] in *.
    assert (Hd : 0 < k_dt (ts_k (sl_st s))) by (rewrite D; exact Hdt).
    destruct (sl_full_step_units _ _ _ _ _ _ _ Hs Hd O) as (sh & _ & O1 & L1 & _ & K1).
    split; [cbn [fst]; rewrite K1; exact D|]. split; [exact O1|]. eapply Forall2_cum_le_trans; eauto.
Qed.

Lemma tw_extend_inv con0 dt0 fuel_bp (net : list LinkR) rp links (w w1 : TimedSim (F:=R)) :
  UInv con0 dt0 (tw_x w) -> tw_extend fuel_bp net rp links w = Ok w1 -> UInv con0 dt0 (tw_x w1).
Proof.
  unfold tw_extend. intros Hi H. apply bind_ok in H. destruct H as (p & _ & H).
  apply bind_ok in H. destruct H as ([pts idx] & _ & H). inversion H; subst w1; clear H.
  destruct Hi as (D & O & L). cbn [tw_x fst snd sl_st]. repeat split; auto.
Qed.

Lemma tw_outer_inv con0 dt0 fuel_bp fuel_steps (net : list LinkR) rp fmax tl : 0 < dt0 -> forall fuel idx (w w' : TimedSim (F:=R)),
  UInv con0 dt0 (tw_x w) -> tw_outer fuel fuel_bp fuel_steps net rp fmax tl idx w = Ok w' -> UInv con0 dt0 (tw_x w').
Proof.
  intros Hdt. induction fuel as [|f IH]; intros idx w w' Hi H; cbn [tw_outer] in H.
  - destruct (Nat.eqb idx (length tl - 1)); [|discriminate]. inversion H; subst; exact Hi.
  - destruct (Nat.eqb idx (length tl - 1)); [inversion H; subst; exact Hi|]. cbv zeta in H.
    apply bind_ok in H. destruct H as (w1 & He & H). apply bind_ok in H. destruct H as (x1 & Hs & H).
    apply IH in H; [exact H|]. cbn [tw_x].
    eapply tw_steps_inv; [exact Hdt| |exact Hs]. eapply tw_extend_inv; eauto.
Qed.

(* THE statement for a dispatched train: an accepted walk_timed_path ends inside the stopping window of the path
   supplied to it (at rest, or at / beyond its end); on the way no unit's well-formedness is lost and no unit's
   cumulative loss / fuel / braking energy ever decreased *)
Theorem sl_timed_walk_sound fuel_bp fuel_steps (net : list LinkR) (tp : TPR) tl rp fmax fb st cache (con : ConsistR) x' :
  sl_timed_walk fuel_bp fuel_steps net tp tl rp fmax fb st cache con = Ok x' ->
  exists w : TimedSim (F:=R),
    sl_full_walk fuel_steps (env_of_path (tw_path w) rp) (tw_pts w) (path_offset_end (tw_path w)) fmax (tw_x w) = Ok x' /\
    (path_offset_end (tw_path w) - ft1000 <= k_offset (ts_k (sl_st (fst x'))) /\
     (path_offset_end (tw_path w) <= k_offset (ts_k (sl_st (fst x'))) \/ k_speed (ts_k (sl_st (fst x'))) = 0)) /\
    (0 < k_dt (ts_k st) -> Forall loco_ok (cn_locos con) ->
       Forall loco_ok (cn_locos (snd x')) /\ Forall2 cum_le (cn_locos con) (cn_locos (snd x'))).
Proof.
  unfold sl_timed_walk. destruct tl as [|t0 tr]; [discriminate|]. intros H.
  apply bind_ok in H. destruct H as (w & Ho & Hw). exists w. split; [exact Hw|].
  split; [exact (sl_full_walk_end _ _ _ _ _ _ _ Hw)|].
  intros Hdt Hok.
  assert (Hi : UInv con (k_dt (ts_k st)) (tw_x w)).
  { eapply (tw_outer_inv con (k_dt (ts_k st))); [exact Hdt| |exact Ho].
    cbn [tw_x]. split; [reflexivity|]. split; [exact Hok|apply Forall2_cum_le_refl]. }
  destruct Hi as (D & O & L).
  destruct (sl_full_walk_is_run _ _ _ _ _ _ _ Hw) as (n & _ & Hrun & _).
  assert (Hd : 0 < k_dt (ts_k (sl_st (fst (tw_x w))))) by (rewrite D; exact Hdt).
  destruct (sl_full_run_units _ _ _ n (tw_x w) x' Hd O Hrun) as (A & B).
  split; [exact A|]. eapply Forall2_cum_le_trans; eauto.
Qed.
