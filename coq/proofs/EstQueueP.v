(* EstQueueP.v -- the list-based priority queues of the model of the scheduling passes (EstUpdate.pop_max) behave
   like the BinaryHeaps of the code: under a total order nothing is lost and the element removed is a maximum.
   Over R both Ord instances (EstTimeNext, EstTimePrev) are total orders (OrdP.v), so the statement applies. *)
From Coq Require Import Reals List Bool ZArith Lia Arith Permutation.
From AltModel Require Import Num TrackNet EstNet EstUpdate.
From AltProofs Require Import NumR OrdP.
Import ListNotations.

Section Queue.
Context {A : Type} (cmp : A -> A -> res comparison) (T : TotalCmp cmp).

(* y <= x in the order *)
Definition le_c (y x : A) : Prop := cmp y x = Ok Lt \/ cmp y x = Ok Eq.

Lemma le_c_refl x : le_c x x. Proof. right. apply (tc_refl _ T). Qed.
Lemma le_c_trans x y z : le_c x y -> le_c y z -> le_c x z.
Proof.
  intros [H1|H1] [H2|H2].
  - left. eapply (tc_trans _ T); eauto.
  - apply (tc_eq _ T) in H2. subst. left; auto.
  - apply (tc_eq _ T) in H1. subst. left; auto.
  - apply (tc_eq _ T) in H1. subst. right; auto.
Qed.
Lemma not_gt_le x y c : cmp x y = Ok c -> c <> Gt -> le_c x y.
Proof. destruct c; intros H Hc; [right|left|congruence]; auto. Qed.
Lemma gt_le x y : cmp x y = Ok Gt -> le_c y x.
Proof. intros H. apply (tc_anti _ T) in H. cbn in H. left; exact H. Qed.

Lemma pop_max_spec : forall rest best acc x q,
  pop_max cmp best rest acc = Ok (x, q) ->
  Permutation (x :: q) (best :: rest ++ acc) /\ le_c best x /\
  (forall y, In y rest -> le_c y x) /\ ((forall y, In y acc -> le_c y best) -> forall y, In y q -> le_c y x).
Proof.
  induction rest as [|a t IH]; intros best acc x q H; cbn [pop_max] in H.
  - inversion H; subst. split; [cbn; apply Permutation_refl|]. split; [apply le_c_refl|]. split; [intros y []|]. auto.
  - destruct (cmp a best) as [c| |] eqn:Ec; cbn [bind] in H; try discriminate.
    destruct c.
    + destruct (IH _ _ _ _ H) as (P & L & R & Q).
      split; [rewrite P; cbn; apply perm_skip; apply Permutation_sym; apply Permutation_middle|].
      split; [exact L|]. split.
      * intros y [<-|Hy]; [eapply le_c_trans; [eapply not_gt_le; [exact Ec|discriminate]|exact L]|auto].
      * intros Ha y Hy. apply Q; auto. intros z [<-|Hz]; [eapply not_gt_le; [exact Ec|discriminate]|auto].
    + destruct (IH _ _ _ _ H) as (P & L & R & Q).
      split; [rewrite P; cbn; apply perm_skip; apply Permutation_sym; apply Permutation_middle|].
      split; [exact L|]. split.
      * intros y [<-|Hy]; [eapply le_c_trans; [eapply not_gt_le; [exact Ec|discriminate]|exact L]|auto].
      * intros Ha y Hy. apply Q; auto. intros z [<-|Hz]; [eapply not_gt_le; [exact Ec|discriminate]|auto].
    + destruct (IH _ _ _ _ H) as (P & L & R & Q).
      pose proof (gt_le _ _ Ec) as Lba.
      split.
      { rewrite P. cbn. eapply perm_trans; [apply perm_skip; apply Permutation_sym; apply Permutation_middle|]. apply perm_swap. }
      split; [eapply le_c_trans; eauto|]. split.
      * intros y [<-|Hy]; [exact L|auto].
      * intros Ha y Hy. apply Q; auto. intros z [<-|Hz]; [exact Lba|]. eapply le_c_trans; [apply Ha; exact Hz|exact Lba].
Qed.

(* what a max-heap pop does: from a non-empty queue one element is removed, it is a maximum, the rest is kept *)
Theorem pop_max_is_heap_pop x0 rest x q :
  pop_max cmp x0 rest [] = Ok (x, q) ->
  Permutation (x :: q) (x0 :: rest) /\ forall y, In y (x0 :: rest) -> le_c y x.
Proof.
  intros H. destruct (pop_max_spec _ _ _ _ _ H) as (P & L & R & _).
  rewrite app_nil_r in P. split; [exact P|]. intros y [<-|Hy]; auto.
Qed.
End Queue.

(* both queues of the scheduling passes, over R *)
Corollary est_next_queue_pop (x0 : R * nat) rest x q :
  pop_max cmp_est_next x0 rest [] = Ok (x, q) ->
  Permutation (x :: q) (x0 :: rest) /\ forall y, In y (x0 :: rest) -> le_c cmp_est_next y x.
Proof. apply pop_max_is_heap_pop. exact cmp_est_next_total. Qed.

Corollary est_prev_queue_pop (x0 : R * R * nat) rest x q :
  pop_max cmp_est_prev x0 rest [] = Ok (x, q) ->
  Permutation (x :: q) (x0 :: rest) /\ forall y, In y (x0 :: rest) -> le_c cmp_est_prev y x.
Proof. apply pop_max_is_heap_pop. exact cmp_est_prev_total. Qed.
