(* WholeSimP.v -- the component theorems lifted to EVERY locomotive in EVERY step of EVERY whole
   train simulation (TrainFull.v): energy ledger (C01), second law (C08), and the level agreement
   (C11, in TrainFullP.v).  The whole step contains a ConsistSimulation step (TrainFullP
   decomposition); that step takes each unit through publish-limits + solve (C01P.stepped). *)
From Coq Require Import Reals Lra Lia List Bool ZArith Arith.
From AltModel Require Import Num Interp Powertrain Loco Consist Resist Braking TrainStep TrainEnergy TrainFull.
From AltProofs Require Import NumR PowertrainP LocoP ConsistP C08P C10P C01P C11P ResistP TrainStepP TrainFullP.
Import ListNotations.
Open Scope R_scope.

Inductive Forall3 {A B C : Type} (P : A -> B -> C -> Prop) : list A -> list B -> list C -> Prop :=
| F3_nil : Forall3 P [] [] []
| F3_cons a b c la lb lc : P a b c -> Forall3 P la lb lc -> Forall3 P (a :: la) (b :: lb) (c :: lc).

(* what C01 and C08 say about one unit's step *)
Definition unit_laws (l : LocoR) (p : R) (l' : LocoR) : Prop :=
  loco_ok l' /\ second_law_step l l' p true /\ cum_le l l' /\
  power_ledger l' /\ (energy_ledger l -> energy_ledger l') /\ soc_rel l l' /\ ls_pwr_out (lc_state l') = p.

Lemma stepped_laws dt ls ps ls' : 0 < dt -> stepped dt ls ps ls' -> Forall loco_ok ls ->
  Forall3 unit_laws ls ps ls' /\ Forall loco_ok ls' /\ Forall2 cum_le ls ls'.
Proof.
  intros Hdt H. induction H as [|l p l' ls ps ls' Hr Hs IH]; intros Hok.
  - repeat split; constructor.
  - inversion Hok as [|? ? Hl Ht]; subst. destruct (IH Ht) as (I1 & I2 & I3).
    destruct (loco_rel_second_law _ _ _ _ _ Hl Hdt Hr) as (A1 & A2 & A3).
    destruct (loco_rel_ledger _ _ _ _ _ Hl Hr) as (B1 & B2 & B3 & B4).
    repeat split; try (constructor; auto). unfold unit_laws. tauto.
Qed.

(* ---- one whole step ---- *)
Theorem ss_full_step_units (e : Env (F:=R)) times speeds fmax st cache (c c' : ConsistR) st'' cache' :
  ss_full_step e times speeds fmax ((st, cache), c) = Ok ((st'', cache'), c') ->
  (forall i t_i t_p, nth_error times (S i) = Some t_i -> nth_error times i = Some t_p -> t_p < t_i) ->
  Forall loco_ok (cn_locos c) ->
  exists shares, Forall3 unit_laws (cn_locos c) shares (cn_locos c') /\
    Forall loco_ok (cn_locos c') /\ Forall2 cum_le (cn_locos c) (cn_locos c') /\
    cs_pwr_out (cn_state c') = ConsistP.sumR (fun x => x) shares.
Proof.
  intros H Hinc Hok.
  destruct (ss_full_step_decomposes _ _ _ _ _ _ _ _ _ _ H) as (st' & c2 & t_i & t_p & Hti & Htp & _ & _ & _ & _ & Hsim).
  assert (Hdt : 0 < t_i - t_p).
  { destruct (k_i (ts_k st)) as [|im1] eqn:Ei.
    - unfold ss_full_step in H. rewrite Ei in H. discriminate.
    - cbn [pred] in Htp. specialize (Hinc im1 t_i t_p Hti Htp). lra. }
  destruct (consist_step_stepped _ _ _ _ Hsim) as (shares & Hst & Hout & _).
  destruct (stepped_laws _ _ _ _ Hdt Hst Hok) as (A & B & C).
  exists shares. auto.
Qed.

Theorem sl_full_step_units (e : Env (F:=R)) pts fmax (s s'' : SLStateR) (c c' : ConsistR) :
  sl_full_step e pts fmax (s, c) = Ok (s'', c') -> 0 < k_dt (ts_k (sl_st s)) ->
  Forall loco_ok (cn_locos c) ->
  exists shares, Forall3 unit_laws (cn_locos c) shares (cn_locos c') /\
    Forall loco_ok (cn_locos c') /\ Forall2 cum_le (cn_locos c) (cn_locos c') /\
    cs_pwr_out (cn_state c') = ConsistP.sumR (fun x => x) shares /\
    k_dt (ts_k (sl_st s'')) = k_dt (ts_k (sl_st s)).
Proof.
  intros H Hdt Hok.
  destruct (sl_full_step_decomposes _ _ _ _ _ _ _ H) as (s' & c2 & _ & Hs & Hb & _ & Hsim).
  destruct (consist_step_stepped _ _ _ _ Hsim) as (shares & Hst & Hout & _).
  destruct (stepped_laws _ _ _ _ Hdt Hst Hok) as (A & B & C).
  exists shares. repeat split; auto.
  subst s''. unfold sl_solve_step in Hs. apply bind_ok in Hs. destruct Hs as ([s1 ax] & Hs & Hq).
  inversion Hq; subst s1. apply sl_solve_step_kin in Hs. destruct Hs as (_ & Kdt & _).
  unfold sl_bump, bump_i. cbn [sl_st ts_k k_dt]. exact Kdt.
Qed.

(* ---- every whole run: cumulative quantities of every unit never decrease, well-formedness is kept ---- *)
Lemma Forall2_cum_le_refl ls : Forall2 cum_le ls ls.
Proof. induction ls; constructor; auto using cum_le_refl. Qed.
Lemma Forall2_cum_le_trans a : forall b c, Forall2 cum_le a b -> Forall2 cum_le b c -> Forall2 cum_le a c.
Proof. induction a as [|x a IH]; intros b c H1 H2; inversion H1; subst; inversion H2; subst; constructor.
  - eapply cum_le_trans; eauto.
  - eapply IH; eauto. Qed.

Theorem ss_full_run_units (e : Env (F:=R)) times speeds fmax :
  (forall i t_i t_p, nth_error times (S i) = Some t_i -> nth_error times i = Some t_p -> t_p < t_i) ->
  forall n x x', Forall loco_ok (cn_locos (snd x)) -> ss_full_run n e times speeds fmax x = Ok x' ->
  Forall loco_ok (cn_locos (snd x')) /\ Forall2 cum_le (cn_locos (snd x)) (cn_locos (snd x')).
Proof.
  intros Hinc. induction n as [|n IH]; intros x x' Hok Hrun; cbn [ss_full_run] in Hrun.
  - inversion Hrun; subst. split; [auto|apply Forall2_cum_le_refl].
  - apply bind_ok in Hrun. destruct Hrun as (x1 & Hstep & Hrun).
    destruct x as [[st cache] c]. destruct x1 as [[st1 cache1] c1]. cbn [fst snd] in *.
    destruct (ss_full_step_units _ _ _ _ _ _ _ _ _ _ Hstep Hinc Hok) as (sh & _ & Hok1 & Hle & _).
    destruct (IH ((st1, cache1), c1) x' Hok1 Hrun) as (A & B). split; [exact A|]. eapply Forall2_cum_le_trans; eauto.
Qed.

Theorem sl_full_run_units (e : Env (F:=R)) pts fmax :
  forall n x x', 0 < k_dt (ts_k (sl_st (fst x))) -> Forall loco_ok (cn_locos (snd x)) ->
  sl_full_run n e pts fmax x = Ok x' ->
  Forall loco_ok (cn_locos (snd x')) /\ Forall2 cum_le (cn_locos (snd x)) (cn_locos (snd x')).
Proof.
  induction n as [|n IH]; intros x x' Hdt Hok Hrun; cbn [sl_full_run] in Hrun.
  - inversion Hrun; subst. split; [auto|apply Forall2_cum_le_refl].
  - apply bind_ok in Hrun. destruct Hrun as (x1 & Hstep & Hrun).
    destruct x as [s c]. destruct x1 as [s1 c1]. cbn [fst snd] in *.
    destruct (sl_full_step_units _ _ _ _ _ _ _ Hstep Hdt Hok) as (sh & _ & Hok1 & Hle & _ & Kdt).
    assert (Hdt1 : 0 < k_dt (ts_k (sl_st s1))) by (rewrite Kdt; exact Hdt).
    destruct (IH (s1, c1) x' Hdt1 Hok1 Hrun) as (A & B). split; [exact A|]. eapply Forall2_cum_le_trans; eauto.
Qed.
