(* PathGeomP.v -- PathTpc::extend: what the first loop does to link points and speed points, what
   the second loop does to grades / curves / catenary limits; partition independence; offsets;
   count invariant; elevation exactness.  All statements at the real-number instance. *)
From Coq Require Import Reals Lra List Bool ZArith Lia Arith.
From AltModel Require Import Num SpeedPoints PathGeom.
From AltProofs Require Import NumR SpeedPointsP.
Import ListNotations.
Open Scope R_scope.

Notation LinkR := (Link (F:=R)).
Notation PathR := (Path (F:=R)).
Notation LPR := (LinkPoint (F:=R)).
Notation PRCR := (PRC (F:=R)).

(* ------------------------------------------------------------------ split_last *)
Lemma split_last_app {A} (l : list A) x : split_last (l ++ [x]) = Some (l, x).
Proof. induction l; cbn; auto. rewrite IHl. reflexivity. Qed.

Lemma split_last_none {A} (l : list A) : split_last l = None -> l = [].
Proof. destruct l; cbn; auto. destruct (split_last l) as [[? ?]|]; discriminate. Qed.

Lemma split_last_some {A} (l : list A) i x : split_last l = Some (i, x) -> l = i ++ [x].
Proof.
  revert i x; induction l as [|a l IH]; cbn; intros i x H; [discriminate|].
  destruct (split_last l) as [[i' y]|] eqn:E.
  - inversion H; subst. cbn. f_equal. apply IH; auto.
  - inversion H; subst. apply split_last_none in E. subst. reflexivity.
Qed.

Lemma split_last_app2 {A} (l : list A) x y : split_last (l ++ [x; y]) = Some (l ++ [x], y).
Proof. replace (l ++ [x; y]) with ((l ++ [x]) ++ [y]) by (rewrite <- app_assoc; reflexivity). apply split_last_app. Qed.

(* ------------------------------------------------------------------ the first loop *)
Definition last_offset (lps : list LPR) : R :=
  match split_last lps with Some (_, l) => lp_offset l | None => 0 end.

Definition lp_real (off : R) (l : LinkR) : LPR :=
  {| lp_offset := off;
     lp_grade_count := Nat.max (length (lk_elevs l)) 2 - 1;
     lp_curve_count := Nat.max (length (lk_headings l)) 2 - 1;
     lp_cat_count := length (lk_cats l);
     lp_link_idx := lk_idx_curr l |}.
Definition lp_dummy (off : R) : LPR :=
  {| lp_offset := off; lp_grade_count := 0; lp_curve_count := 0; lp_cat_count := 0; lp_link_idx := 0 |}.

(* the contiguity test of the loop, as a proposition: [init] are the link points before the last *)
Definition contig_ok (init : list LPR) (l : LinkR) : Prop :=
  match split_last init with
  | None => True
  | Some (_, prevp) =>
      lp_link_idx prevp <> 0%Z /\
      (lk_idx_prev l <> lk_idx_prev_alt l \/ lk_idx_prev_alt l = 0%Z) /\
      (lk_idx_next l <> lk_idx_next_alt l \/ lk_idx_next_alt l = 0%Z) /\
      (lk_idx_prev l = lp_link_idx prevp \/ lk_idx_prev_alt l = lp_link_idx prevp)
  end.

Lemma link_step_ok (net : list LinkR) (tp : TPR) lps sps idx st' l :
  link_step net tp (lps, sps) idx = Ok (st', l) ->
  exists init lastp ss,
    idx <> 0%Z /\ lookup net idx = Some l /\ split_last lps = Some (init, lastp) /\
    extract_speed_set tp l = Ok ss /\ contig_ok init l /\
    st' = (init ++ [lp_real (lp_offset lastp) l; lp_dummy (lk_length l + lp_offset lastp)],
           add_speeds sps tp ss (lp_offset lastp)).
Proof.
  unfold link_step. intros H.
  destruct (Z.eqb_spec idx 0) as [E0|E0]; cbn [negb ensure bind] in H; [discriminate|].
  destruct (lookup net idx) as [link|]; [|discriminate].
  destruct (split_last lps) as [[init lastp]|]; [|discriminate].
  bind_inv H. bind_inv H. inversion H; subst; clear H.
  exists init, lastp, a0. repeat split; auto.
  unfold contig_ok. destruct (split_last init) as [[i0 prevp]|]; auto.
  bind_inv Ha. bind_inv Ha. bind_inv Ha.
  apply ensure_ok' in Ha1, Ha2, Ha3, Ha.
  apply negb_true_iff in Ha1. apply Z.eqb_neq in Ha1.
  apply orb_true_iff in Ha2, Ha3, Ha.
  repeat split; auto.
  - destruct Ha2 as [Hx|Hx]; [left; apply negb_true_iff in Hx; apply Z.eqb_neq in Hx; auto|right; apply Z.eqb_eq; auto].
  - destruct Ha3 as [Hx|Hx]; [left; apply negb_true_iff in Hx; apply Z.eqb_neq in Hx; auto|right; apply Z.eqb_eq; auto].
  - destruct Ha as [Hx|Hx]; apply Z.eqb_eq in Hx; auto.
Qed.

(* the links a route designates (out-of-range indices designate nothing) *)
Definition route_links (net : list LinkR) (path : list Z) : list LinkR :=
  flat_map (fun idx => match lookup net idx with Some l => [l] | None => [] end) path.

Lemma route_links_app net a b : route_links net (a ++ b) = route_links net a ++ route_links net b.
Proof. unfold route_links. apply flat_map_app. Qed.

(* the speed set extract_speed_set selects for this train ([] if none: then extend fails) *)
Definition empty_set : SSR := {| ss_limits := []; ss_params := []; ss_head := true |}.
Definition set_of (tp : TPR) (l : LinkR) : SSR :=
  match extract_speed_set tp l with Ok s => s | _ => empty_set end.
Definition link_set (tp : TPR) (l : LinkR) : SSR * R := (set_of tp l, lk_length l).
Definition route_sets (net : list LinkR) (tp : TPR) (path : list Z) : list (SSR * R) :=
  map (link_set tp) (route_links net path).

Lemma link_pass_ok (net : list LinkR) (tp : TPR) path : forall lps sps lps' sps' links,
  link_pass net tp (lps, sps) path = Ok ((lps', sps'), links) ->
  links = route_links net path /\
  (sps', last_offset lps') = extend_speeds tp (sps, last_offset lps) (map (link_set tp) links).
Proof.
  induction path as [|idx rest IH]; intros lps sps lps' sps' links H; cbn in H.
  - inversion H; subst. split; reflexivity.
  - bind_inv H. destruct a as [st1 l]. bind_inv H. destruct a as [st2 ls]. inversion H; subst; clear H.
    destruct (link_step_ok _ _ _ _ _ _ _ Ha) as (init & lastp & ss & Hidx & Hl & Hsl & Hss & Hc & ->).
    apply IH in Ha0. destruct Ha0 as [-> E]. split.
    + cbn. rewrite Hl. reflexivity.
    + rewrite E. cbn [map]. unfold extend_speeds. cbn [fold_left]. f_equal.
      unfold speeds_step, link_set, set_of, last_offset. rewrite Hss, Hsl. cbn [fst snd].
      rewrite split_last_app2. reflexivity.
Qed.

(* ------------------------------------------------------------------ extend, taken apart *)
Lemma extend_ok_inv (net : list LinkR) (p q : PathR) path :
  extend net p path = Ok q ->
  exists gr0 lps' sps' gr cu cats,
    p_link_points p <> [] /\ p_grades p <> [] /\ p_curves p <> [] /\ p_speed_points p <> [] /\
    init_elev net (p_grades p) path = Ok gr0 /\
    link_pass net (p_tp p) (p_link_points p, p_speed_points p) path = Ok ((lps', sps'), route_links net path) /\
    geom_pass (p_tp p) (gr0, p_curves p, p_cats p) (route_links net path) = Ok (gr, cu, cats) /\
    q = {| p_link_points := lps'; p_grades := gr; p_curves := cu; p_speed_points := sps';
           p_cats := cats; p_tp := p_tp p; p_finished := p_finished p |}.
Proof.
  unfold extend. intros H.
  destruct (p_link_points p) as [|lp0 lps] eqn:E1; [discriminate|].
  destruct (p_grades p) as [|g0 gs] eqn:E2; [discriminate|].
  destruct (p_curves p) as [|c0 cs] eqn:E3; [discriminate|].
  destruct (p_speed_points p) as [|s0 ss] eqn:E4; [discriminate|].
  cbn [length Nat.eqb negb ensure bind] in H.
  bind_inv H. bind_inv H. destruct a0 as [[lps' sps'] links]. bind_inv H. destruct a0 as [[gr cu] cats].
  inversion H; subst; clear H.
  destruct (link_pass_ok _ _ _ _ _ _ _ _ Ha0) as [-> _].
  exists a, lps', sps', gr, cu, cats. repeat split; auto; discriminate.
Qed.

(* the speed profile and the running base offset after an accepted extension *)
Lemma extend_speeds_of_extend (net : list LinkR) (p q : PathR) path :
  extend net p path = Ok q ->
  p_tp q = p_tp p /\
  (p_speed_points q, last_offset (p_link_points q))
  = extend_speeds (p_tp p) (p_speed_points p, last_offset (p_link_points p)) (route_sets net (p_tp p) path).
Proof.
  intros H. destruct (extend_ok_inv _ _ _ _ H) as (gr0 & lps' & sps' & gr & cu & cats & _ & _ & _ & _ & _ & HL & _ & ->).
  cbn [p_tp p_speed_points p_link_points]. split; auto.
  apply link_pass_ok in HL. destruct HL as [_ E]. exact E.
Qed.

Lemma route_sets_app net tp a b : route_sets net tp (a ++ b) = route_sets net tp a ++ route_sets net tp b.
Proof. unfold route_sets. rewrite route_links_app. apply map_app. Qed.

(* ... and after any sequence of accepted extensions: the same as for the concatenated route *)
Lemma extend_speeds_of_extend_many (net : list LinkR) parts : forall (p q : PathR),
  extend_many net p parts = Ok q ->
  p_tp q = p_tp p /\
  (p_speed_points q, last_offset (p_link_points q))
  = extend_speeds (p_tp p) (p_speed_points p, last_offset (p_link_points p))
                  (route_sets net (p_tp p) (concat parts)).
Proof.
  induction parts as [|a rest IH]; intros p q H; cbn in H.
  - inversion H; subst. split; reflexivity.
  - bind_inv H. destruct (extend_speeds_of_extend _ _ _ _ Ha) as [T E].
    destruct (IH _ _ H) as [T' E']. split; [congruence|].
    cbn [concat]. rewrite route_sets_app, extend_speeds_app. rewrite <- E. rewrite <- T. exact E'.
Qed.

Lemma new_path_speeds (tp : TPR) :
  (p_speed_points (new_path tp), last_offset (p_link_points (new_path tp))) = speeds_init tp.
Proof. reflexivity. Qed.

(* ------------------------------------------------------------------ C13 / C02 at the PathTpc level *)
(* hypotheses on the route's data *)
Definition route_ok (net : list LinkR) (tp : TPR) (path : list Z) : Prop :=
  0 < tp_speed_max tp /\ 0 <= tp_length tp /\ sets_ok (route_sets net tp path).

Theorem path_profile_exact (net : list LinkR) (tp : TPR) parts (q : PathR) x :
  extend_many net (new_path tp) parts = Ok q -> route_ok net tp (concat parts) -> 0 <= x ->
  eval_speed (p_speed_points q) x
  = min_over (tp_speed_max tp) (route_restr tp 0 (route_sets net tp (concat parts))) x.
Proof.
  intros H (Hm & Hl & Hs) Hx. apply extend_speeds_of_extend_many in H. destruct H as [_ E].
  rewrite new_path_speeds in E. cbn [p_tp new_path] in E.
  replace (p_speed_points q) with (fst (p_speed_points q, last_offset (p_link_points q))) by reflexivity.
  rewrite E. apply profile_exact; auto.
Qed.

Theorem path_profile_is_min (net : list LinkR) (tp : TPR) parts (q : PathR) x :
  extend_many net (new_path tp) parts = Ok q -> route_ok net tp (concat parts) -> 0 <= x ->
  let P := eval_speed (p_speed_points q) x in
  let sets := route_sets net tp (concat parts) in
  P <= tp_speed_max tp /\ (forall v, posted tp 0 sets x v -> P <= v) /\
  (P = tp_speed_max tp \/ posted tp 0 sets x P).
Proof.
  intros H (Hm & Hl & Hs) Hx. apply extend_speeds_of_extend_many in H. destruct H as [_ E].
  rewrite new_path_speeds in E. cbn [p_tp new_path] in E.
  replace (p_speed_points q) with (fst (p_speed_points q, last_offset (p_link_points q))) by reflexivity.
  rewrite E. apply profile_is_min; auto.
Qed.

Theorem path_profile_canonical (net : list LinkR) (tp : TPR) parts (q : PathR) :
  extend_many net (new_path tp) parts = Ok q -> route_ok net tp (concat parts) ->
  exists s0 t, p_speed_points q = (0, s0) :: t
    /\ ssorted ((0, s0) :: t) /\ no_eq_neighbours ((0, s0) :: t) /\ speeds_nonneg ((0, s0) :: t).
Proof.
  intros H (Hm & Hl & Hs). apply extend_speeds_of_extend_many in H. destruct H as [_ E].
  rewrite new_path_speeds in E. cbn [p_tp new_path] in E.
  replace (p_speed_points q) with (fst (p_speed_points q, last_offset (p_link_points q))) by reflexivity.
  rewrite E. apply profile_canonical; auto.
Qed.

(* any two ways of cutting the same route into successive extend calls give the same profile *)
Theorem path_profile_split_independent (net : list LinkR) (tp : TPR) parts1 parts2 (q1 q2 : PathR) :
  concat parts1 = concat parts2 ->
  extend_many net (new_path tp) parts1 = Ok q1 -> extend_many net (new_path tp) parts2 = Ok q2 ->
  p_speed_points q1 = p_speed_points q2.
Proof.
  intros Hc H1 H2. apply extend_speeds_of_extend_many in H1, H2. destruct H1 as [_ E1], H2 as [_ E2].
  rewrite Hc in E1. rewrite <- E2 in E1. inversion E1; auto.
Qed.

(* C02 *)
Theorem path_profile_safe (net : list LinkR) (tp : TPR) parts (q : PathR) x :
  extend_many net (new_path tp) parts = Ok q -> route_ok net tp (concat parts) -> 0 <= x ->
  eval_speed (p_speed_points q) x <= tp_speed_max tp /\
  forall v, posted tp 0 (route_sets net tp (concat parts)) x v -> eval_speed (p_speed_points q) x <= v.
Proof. intros H Hok Hx. destruct (path_profile_is_min _ _ _ _ _ H Hok Hx) as (A & B & _). split; auto. Qed.

(* C02 for a stored profile [impl] that passed the certified comparison against the model's
   profile (this is what the correspondence check of C02 evaluates on the implementation's
   speed_points() for every generated route): safe at EVERY position *)
Theorem path_checked_profile_safe (net : list LinkR) (tp : TPR) parts (q : PathR) (impl : list ptR) x :
  extend_many net (new_path tp) parts = Ok q -> route_ok net tp (concat parts) ->
  profile_le impl (p_speed_points q) = true -> 0 <= x ->
  eval_speed impl x <= tp_speed_max tp /\
  forall v, posted tp 0 (route_sets net tp (concat parts)) x v -> eval_speed impl x <= v.
Proof.
  intros H Hok Hle Hx.
  destruct (profile_le_sound _ _ Hle) as (o0 & sp & tp' & sq & tq & Ei & Eq & Hall).
  destruct (path_profile_canonical _ _ _ _ H Hok) as (s0 & t & Ec & _).
  rewrite Eq in Ec. inversion Ec; subst o0.
  destruct (path_profile_safe _ _ _ _ _ H Hok Hx) as [A B].
  specialize (Hall x Hx). split; [lra|]. intros v Hv. specialize (B v Hv). lra.
Qed.

(* ------------------------------------------------------------------ a concrete instance *)
Module Ex.
Definition ex_set : SSR :=
  {| ss_limits := [ {| sl_start := 1000; sl_end := 5000; sl_speed := 20 |};
                    {| sl_start := 2000; sl_end := 3000; sl_speed := 10 |} ];
     ss_params := []; ss_head := true |}.
Definition ex_net : list LinkR :=
  [ Build_Link 0 0 0 0 0 0 [] [] [] None [];
    Build_Link 1 0 0 0 0 10000 [(0, 100); (10000, 150)] [] [] (Some ex_set) [] ].
Definition ex_tp : TPR := Build_TrainParams 500 30 1000000 100000 400 1 0 0 0.
End Ex.

Lemma ex_hyps :
  (exists q, extend_many Ex.ex_net (new_path Ex.ex_tp) [[1%Z]] = Ok q) /\ route_ok Ex.ex_net Ex.ex_tp (concat [[1%Z]]).
Proof. split.
  - eexists. reflexivity.
  - unfold route_ok. cbn. numR. split; [lra|]. split; [lra|]. repeat constructor; cbn; lra.
Qed.

Ltac rstep := match goal with
  | |- context [Rleb ?a ?b] => destruct (Rleb_spec a b); try lra
  | |- context [Rltb ?a ?b] => destruct (Rltb_spec a b); try lra
  | |- context [Reqb ?a ?b] => destruct (Reqb_spec a b); try lra
  | |- context [Rmin ?a ?b] => (rewrite (Rmin_left a b) by lra) || (rewrite (Rmin_right a b) by lra)
  end.

Lemma ex_route_sets : route_sets Ex.ex_net Ex.ex_tp (concat [[1%Z]]) = [(Ex.ex_set, 10000)].
Proof. reflexivity. Qed.

Lemma ex_nested : forall q, extend_many Ex.ex_net (new_path Ex.ex_tp) [[1%Z]] = Ok q ->
  eval_speed (p_speed_points q) 2500 = 10 /\ eval_speed (p_speed_points q) 3500 = 20 /\
  eval_speed (p_speed_points q) 6000 = 30.
Proof.
  intros q H. destruct ex_hyps as [_ Hok].
  rewrite !(path_profile_exact _ _ _ _ _ H Hok) by lra. rewrite ex_route_sets.
  unfold Ex.ex_tp, Ex.ex_set. cbn.
  unfold abs_restr, min_over, speed_set_applies, length_add. cbn. numR.
  repeat split;
    repeat (first [rstep | progress (unfold inwin, min1; cbn [andb orb map fold_left app filter sl_start sl_end sl_speed]; numR)]);
    reflexivity.
Qed.

(* ------------------------------------------------------------------ PathTpc::clear keeps the index counts consistent *)
Section ClearCounts.
Context {F : Type} {NO : NumOps F}.

Lemma nth_error_skipn_add {A} (l : list A) : forall a k, nth_error (skipn a l) k = nth_error l (a + k).
Proof. induction l as [|x t IH]; intros [|a] k; cbn; auto. destruct k; reflexivity. Qed.

Lemma counts_loop_shift (lps : list (LinkPoint (F:=F))) : forall gr cu ncat a b c sg sc scat,
  (a <= length gr)%nat -> (b <= length cu)%nat -> (c <= ncat)%nat ->
  counts_loop gr cu ncat lps (a + sg) (b + sc) (c + scat)
  = counts_loop (skipn a gr) (skipn b cu) (ncat - c) lps sg sc scat.
Proof.
  induction lps as [|lp rest IH]; intros gr cu ncat a b c sg sc scat Ha Hb Hc; cbn [counts_loop]; [reflexivity|].
  rewrite !nth_error_skipn_add, !skipn_length.
  replace (a + sg + lp_grade_count lp)%nat with (a + (sg + lp_grade_count lp))%nat by lia.
  replace (b + sc + lp_curve_count lp)%nat with (b + (sc + lp_curve_count lp))%nat by lia.
  replace (c + scat + lp_cat_count lp)%nat with (c + (scat + lp_cat_count lp))%nat by lia.
  rewrite (IH gr cu ncat a b c) by assumption.
  f_equal. f_equal; [f_equal; [f_equal|]|].
  - destruct (Nat.ltb_spec (a + (sg + lp_grade_count lp)) (length gr)), (Nat.ltb_spec (sg + lp_grade_count lp) (length gr - a)); auto; lia.
  - destruct (Nat.ltb_spec (b + (sc + lp_curve_count lp)) (length cu)), (Nat.ltb_spec (sc + lp_curve_count lp) (length cu - b)); auto; lia.
  - destruct (Nat.leb_spec (c + (scat + lp_cat_count lp)) ncat), (Nat.leb_spec (scat + lp_cat_count lp) (ncat - c)); auto; lia.
Qed.

(* the running sums after the first k link points *)
Fixpoint sum_counts (lps : list (LinkPoint (F:=F))) (k : nat) : nat * nat * nat :=
  match k, lps with
  | S j, lp :: rest => let '(g, c, t) := sum_counts rest j in
                       (lp_grade_count lp + g, lp_curve_count lp + c, lp_cat_count lp + t)%nat
  | _, _ => (0, 0, 0)%nat
  end.

Lemma counts_loop_suffix (lps : list (LinkPoint (F:=F))) : forall gr cu ncat k sg sc scat,
  (k <= length lps)%nat -> counts_loop gr cu ncat lps sg sc scat = true ->
  let '(g, c, t) := sum_counts lps k in
  counts_loop gr cu ncat (skipn k lps) (sg + g) (sc + c) (scat + t) = true /\
  ((1 <= k)%nat -> (sg + g < length gr)%nat /\ (sc + c < length cu)%nat /\ (scat + t <= ncat)%nat).
Proof.
  induction lps as [|lp rest IH]; intros gr cu ncat k sg sc scat Hk H.
  - destruct k; cbn in *; [rewrite !Nat.add_0_r; split; [exact H|lia]|lia].
  - destruct k as [|j].
    + cbn [sum_counts skipn]. rewrite !Nat.add_0_r. split; [exact H|lia].
    + cbn [counts_loop] in H. rewrite !andb_true_iff in H. destruct H as [[[[[_ _] H1] H2] H3] H4].
      apply Nat.ltb_lt in H1, H2. apply Nat.leb_le in H3.
      cbn [length] in Hk. specialize (IH gr cu ncat j _ _ _ (le_S_n _ _ Hk) H4).
      cbn [sum_counts skipn]. destruct (sum_counts rest j) as [[g c] t] eqn:Es.
      replace (sg + (lp_grade_count lp + g))%nat with (sg + lp_grade_count lp + g)%nat by lia.
      replace (sc + (lp_curve_count lp + c))%nat with (sc + lp_curve_count lp + c)%nat by lia.
      replace (scat + (lp_cat_count lp + t))%nat with (scat + lp_cat_count lp + t)%nat by lia.
      destruct IH as [I1 I2]. split; [exact I1|]. intros _.
      destruct j as [|j']; [|apply I2; lia].
      assert (E0 : (g, c, t) = (0, 0, 0)%nat) by (rewrite <- Es; destruct rest; reflexivity).
      inversion E0; subst. lia.
Qed.

End ClearCounts.

Section ClearCounts2.
Context {F : Type} {NO : NumOps F}.

Definition lp_sums (d : LinkPoint (F:=F)) : nat * nat * nat := (lp_grade_count d, lp_curve_count d, lp_cat_count d).

Lemma sum_counts_snoc (lps : list (LinkPoint (F:=F))) : forall k cur, nth_error lps k = Some cur ->
  sum_counts lps (S k) =
  (let '(g, c, t) := sum_counts lps k in (g + lp_grade_count cur, c + lp_curve_count cur, t + lp_cat_count cur)%nat).
Proof.
  induction lps as [|lp rest IH]; intros k cur H; [destruct k; discriminate|].
  destruct k as [|j].
  - cbn in H. inversion H; subst. cbn. destruct rest; cbn; (apply injective_projections; cbn; [apply injective_projections; cbn|]; lia).
  - cbn [nth_error] in H. specialize (IH j cur H). cbn [sum_counts] in *. rewrite IH.
    destruct (sum_counts rest j) as [[g c] t]. apply injective_projections; cbn; [apply injective_projections; cbn|]; lia.
Qed.

(* the scan returns the index of the new first link point and, in [del], the sums of the counts of the link
   points before it *)
Lemma clear_scan_spec (lps : list (LinkPoint (F:=F))) x : forall fuel del idx del' idx',
  lp_sums del = sum_counts lps idx ->
  clear_scan fuel lps x del idx = Ok (del', idx') ->
  lp_sums del' = sum_counts lps idx' /\ (idx <= idx')%nat /\ (S idx' <= length lps)%nat.
Proof.
  induction fuel as [|f IH]; intros del idx del' idx' Hd H; cbn [clear_scan] in H; [discriminate|].
  destruct (nth_error lps (S idx)) as [nx|] eqn:En; [|discriminate].
  destruct (nltb (lp_offset nx) x).
  - destruct (nth_error lps idx) as [cur|] eqn:Ec; [|discriminate].
    apply IH in H.
    + destruct H as (A & B & C). split; [exact A|]. split; [lia|exact C].
    + rewrite (sum_counts_snoc _ _ _ Ec). unfold lp_sums in *. cbn [add_counts lp_grade_count lp_curve_count lp_cat_count].
      rewrite <- Hd. reflexivity.
  - inversion H; subst del' idx'. split; [exact Hd|]. split; [lia|].
    assert (S idx < length lps)%nat by (apply nth_error_Some; rewrite En; discriminate). lia.
Qed.

(* PathTpc::clear keeps the ObjState cross-checks: the remaining link points index the remaining grades, curves
   and catenary sections exactly as before *)
Theorem clear_counts_ok (p p' : Path (F:=F)) x del :
  counts_ok p = true -> clear p x = Ok (p', del) -> counts_ok p' = true.
Proof.
  unfold clear, counts_ok. intros Hc H.
  destruct (p_link_points p) as [|first rest] eqn:El; [discriminate|].
  destruct (ensure _ 1501) as [u| |]; try discriminate. cbn [bind] in H.
  destruct (ensure _ 1502) as [u2| |]; try discriminate. cbn [bind] in H.
  destruct (clear_scan _ _ x lp_default 0) as [[d idx]| |] eqn:Es; try discriminate. cbn [bind] in H.
  destruct idx as [|i].
  - inversion H; subst. rewrite El. exact Hc.
  - destruct (nth_error (first :: rest) (S i)) as [nf|] eqn:En; [|discriminate].
    destruct (speed_scan _ _ 0) as [k| |]; try discriminate. cbn [bind] in H.
    destruct (skipn k (p_speed_points p)) as [|q t]; [discriminate|].
    inversion H; subst p' del; clear H. cbn [p_grades p_curves p_cats p_link_points].
    assert (Hs : lp_sums (lp_default (F:=F)) = sum_counts (first :: rest) 0) by reflexivity.
    destruct (clear_scan_spec _ _ _ _ _ _ _ Hs Es) as (A & _ & C).
    pose proof (counts_loop_suffix (first :: rest) (p_grades p) (p_curves p) (length (p_cats p)) (S i) 0 0 0) as L.
    cbv zeta in L. unfold lp_sums in A. rewrite <- A in L.
    destruct L as [L1 L2]; [lia|exact Hc|]. destruct L2 as (B1 & B2 & B3); [lia|].
    cbn [Nat.add] in L1, B1, B2, B3.
    rewrite skipn_length.
    rewrite <- (counts_loop_shift (skipn (S i) (first :: rest)) (p_grades p) (p_curves p) (length (p_cats p))
                 (lp_grade_count d) (lp_curve_count d) (lp_cat_count d) 0 0 0); try lia.
    rewrite !Nat.add_0_r. exact L1.
Qed.

End ClearCounts2.
