(* EstNetP.v -- soundness of the estimated-time-network checker for EVERY walk of ANY length.
   Everything here is about the discrete structure and holds for every numeric carrier F (so in
   particular for the binary64 instance that is executed).  The rank certificate is the induction
   measure; the (finished, last, queue) certificate is the walk invariant. *)
From Coq Require Import List Bool Arith Lia.
From AltModel Require Import Num TrackNet EstNet.
From AltProofs Require Import TrackNetP.
Import ListNotations.

Section EstP.
Context {F : Type} {NO : NumOps F}.
Notation enode := (enode (F:=F)).

(* ---- declarative notions ---- *)
Definition edge (nodes : list enode) (p s : nat) : Prop :=
  exists np, nth_error nodes p = Some np /\ In s (succs np).

(* [walk nodes p w]: starting at node p, the nodes w are visited in this order, each step along
   a primary (idx_next) or alternate (idx_next_alt) link *)
Fixpoint walk (nodes : list enode) (p : nat) (w : list nat) : Prop :=
  match w with [] => True | s :: t => edge nodes p s /\ walk nodes s t end.

Definition ev_of (nodes : list enode) (i : nat) : nat * nat :=
  match nth_error nodes i with Some nd => (n_ty nd, n_link nd) | None => (2, 0) end.
(* links whose entry point the front / the tail passes along w, in order *)
Definition arrives (nodes : list enode) (w : list nat) : list nat :=
  map (fun i => snd (ev_of nodes i)) (filter (fun i => fst (ev_of nodes i) =? 0) w).
Definition clears (nodes : list enode) (w : list nat) : list nat :=
  map (fun i => snd (ev_of nodes i)) (filter (fun i => fst (ev_of nodes i) =? 1) w).

Definition last_node (nodes : list enode) : nat := length nodes - 1.

(* the route described by a walk from node 0 *)
Definition RouteOK (net : list link) (origs dests : list nat) (nodes : list enode) (w : list nat) : Prop :=
  let a := arrives nodes w in let c := clears nodes w in
  Chain net a                                   (* consecutive entered links are connected in the network *)
  /\ ~ In 0 a                                    (* all real links *)
  /\ (forall l, hd_error a = Some l -> In l origs)   (* starts on an origin *)
  /\ (exists q, a = c ++ q)                      (* the tail clears exactly the links entered, in order:
                                                    at every point cleared = a prefix of entered *)
  /\ (last w 0 = last_node nodes -> a <> [] /\ In (last a 0) dests).  (* ends on a destination *)

Record EstStructSpec (net : list link) (origs dests : list nat) (nodes : list enode) : Prop := {
  (* forward and backward links of every node are mutually consistent *)
  es_recip : forall i nd, nth_error nodes i = Some nd ->
      (n_prev nd <> 0 -> edge nodes (n_prev nd) i) /\
      (n_preva nd <> 0 -> edge nodes (n_preva nd) i) /\
      (forall s, In s (succs nd) -> exists ns, nth_error nodes s = Some ns /\ (n_prev ns = i \/ n_preva ns = i));
  (* no walk from the start is longer than the number of nodes (acyclic) *)
  es_bounded : forall w, walk nodes 0 w -> length w < length nodes;
  (* a walk that is not at the end node can always be continued *)
  es_extend : forall w, walk nodes 0 w -> last w 0 <> last_node nodes -> exists s, walk nodes 0 (w ++ [s]);
  (* every walk from the start describes a contiguous route from an origin, FIFO clearing,
     and when it stands at the end node it has arrived on a destination *)
  es_route : forall w, walk nodes 0 w -> RouteOK net origs dests nodes w
}.

(* ---- walks ---- *)
Lemma walk_snoc nodes p w s : walk nodes p (w ++ [s]) <-> walk nodes p w /\ edge nodes (last w p) s.
Proof.
  revert p; induction w as [|a t IH]; intros p; cbn [app walk].
  - cbn. tauto.
  - rewrite IH, last_cons. tauto.
Qed.

Lemma arrives_snoc nodes w s :
  arrives nodes (w ++ [s]) = arrives nodes w ++ (if fst (ev_of nodes s) =? 0 then [snd (ev_of nodes s)] else []).
Proof. unfold arrives. rewrite filter_app, map_app. cbn. destruct (fst (ev_of nodes s) =? 0); reflexivity. Qed.
Lemma clears_snoc nodes w s :
  clears nodes (w ++ [s]) = clears nodes w ++ (if fst (ev_of nodes s) =? 1 then [snd (ev_of nodes s)] else []).
Proof. unfold clears. rewrite filter_app, map_app. cbn. destruct (fst (ev_of nodes s) =? 1); reflexivity. Qed.

(* ---- unpacking the checks ---- *)
Section Checked.
Variables (net : list link) (origs dests : list nat) (nodes : list enode) (cert : list ecert).
Hypothesis Hok : est_struct_ok net origs dests nodes cert = true.

Let n := length nodes.

Lemma ok_parts :
  ck_shape nodes cert = true /\ ck_ranges net nodes = true /\ ck_roles nodes = true /\
  ck_recip nodes = true /\ ck_ranks nodes cert = true /\ ck_events net origs dests nodes cert = true.
Proof. pose proof Hok as H. unfold est_struct_ok in H. do 5 (apply andb_true_iff in H; destruct H as [H ?]). tauto. Qed.

Lemma n_ge3 : 3 <= n.
Proof. destruct ok_parts as (H & _). unfold ck_shape in H. apply andb_true_iff in H. destruct H as [H _].
  apply Nat.leb_le in H. exact H. Qed.

Lemma in_range i nd : nth_error nodes i = Some nd ->
  n_next nd < n /\ n_nexta nd < n /\ n_prev nd < n /\ n_preva nd < n /\ n_link nd < length net.
Proof.
  intros Hn. destruct ok_parts as (_ & H & _). unfold ck_ranges in H. rewrite forallb_forall in H.
  specialize (H nd (nth_error_In _ _ Hn)).
  repeat (apply andb_true_iff in H; destruct H as [H ?]).
  repeat match goal with X : (_ <? _) = true |- _ => apply Nat.ltb_lt in X end. tauto.
Qed.

Lemma node_at i : i < n -> exists nd, nth_error nodes i = Some nd.
Proof. intros H. destruct (nth_error nodes i) eqn:E; eauto. apply nth_error_None in E. unfold n in H. lia. Qed.

Lemma succ_in_range i nd s : nth_error nodes i = Some nd -> In s (succs nd) -> s < n /\ s <> 0.
Proof.
  intros Hn Hs. destruct (in_range _ _ Hn) as (H1 & H2 & _). unfold succs in Hs.
  apply in_app_or in Hs. destruct Hs as [Hs|Hs].
  - destruct (Nat.eqb_spec (n_next nd) 0); cbn in Hs; [tauto|]. destruct Hs as [Hs|[]]. subst. auto.
  - destruct (Nat.eqb_spec (n_nexta nd) 0); cbn in Hs; [tauto|]. destruct Hs as [Hs|[]]. subst. auto.
Qed.

Lemma edge_in_range p s : edge nodes p s -> p < n /\ s < n /\ s <> 0.
Proof.
  intros (np & Hp & Hs). split.
  - apply nth_error_Some. congruence.
  - eapply succ_in_range; eauto.
Qed.

Lemma walk_last_in_range p w : p < n -> walk nodes p w -> last w p < n.
Proof.
  revert p; induction w as [|a t IH]; intros p Hp Hw; [exact Hp|].
  destruct Hw as [He Hw]. rewrite last_cons. apply IH; auto. apply (edge_in_range _ _ He).
Qed.

(* ranks strictly increase along edges, hence along walks *)
Lemma edge_rank p s : edge nodes p s -> c_rank (cget cert p) < c_rank (cget cert s) /\ c_rank (cget cert p) < n.
Proof.
  intros (np & Hp & Hs). destruct ok_parts as (_ & _ & _ & _ & H & _). unfold ck_ranks in H.
  rewrite forallbi0_spec in H. specialize (H _ _ Hp). apply andb_true_iff in H. destruct H as [H1 H2].
  apply Nat.ltb_lt in H1. rewrite forallb_forall in H2. specialize (H2 _ Hs). apply Nat.ltb_lt in H2. auto.
Qed.

Lemma node_rank i : i < n -> c_rank (cget cert i) < n.
Proof.
  intros Hi. destruct (node_at _ Hi) as (nd & Hn). destruct ok_parts as (_ & _ & _ & _ & H & _). unfold ck_ranks in H.
  rewrite forallbi0_spec in H. specialize (H _ _ Hn). apply andb_true_iff in H. destruct H as [H1 _].
  apply Nat.ltb_lt in H1. exact H1.
Qed.

Lemma walk_rank p w : walk nodes p w -> c_rank (cget cert p) + length w <= c_rank (cget cert (last w p)).
Proof.
  revert p; induction w as [|a t IH]; intros p Hw; [cbn; lia|].
  destruct Hw as [He Hw]. rewrite last_cons. cbn [length]. specialize (IH _ Hw). destruct (edge_rank _ _ He). lia.
Qed.

Lemma bounded w : walk nodes 0 w -> length w < n.
Proof.
  intros Hw. pose proof (walk_rank _ _ Hw) as H1.
  assert (H0 : 0 < n) by (pose proof n_ge3; lia).
  pose proof (node_rank _ (walk_last_in_range _ _ H0 Hw)). lia.
Qed.

Lemma roles i nd : nth_error nodes i = Some nd ->
  (n_prev nd <> 0 <-> 2 <= i) /\ (n_next nd <> 0 <-> S i < n) /\ (S i < n \/ n_nexta nd = 0).
Proof.
  intros Hn. destruct ok_parts as (_ & _ & H & _). unfold ck_roles in H. rewrite forallbi0_spec in H.
  specialize (H _ _ Hn). repeat (apply andb_true_iff in H; destruct H as [H ?]).
  apply Bool.eqb_prop in H. apply Bool.eqb_prop in H2. fold n in H2, H1.
  split; [|split].
  - destruct (Nat.eqb_spec (n_prev nd) 0), (Nat.leb_spec 2 i); cbn in H; try discriminate; split; intros; try lia; try congruence.
  - destruct (Nat.eqb_spec (n_next nd) 0), (Nat.ltb_spec (S i) n); cbn in H2; try discriminate; split; intros; try lia; try congruence.
  - apply orb_true_iff in H1. destruct H1 as [H1|H1]; [left; apply Nat.ltb_lt in H1; auto|right; apply Nat.eqb_eq in H1; auto].
Qed.

Lemma extend w : walk nodes 0 w -> last w 0 <> last_node nodes -> exists s, walk nodes 0 (w ++ [s]).
Proof.
  intros Hw Hl. assert (H0 : 0 < n) by (pose proof n_ge3; lia).
  pose proof (walk_last_in_range _ _ H0 Hw) as Hr.
  destruct (node_at _ Hr) as (nd & Hn). destruct (roles _ _ Hn) as (_ & H2 & _).
  unfold last_node in Hl. fold n in Hl.
  assert (Hnx : n_next nd <> 0) by (apply H2; lia).
  exists (n_next nd). apply walk_snoc. split; auto. exists nd. split; auto.
  unfold succs. apply in_or_app. left. destruct (Nat.eqb_spec (n_next nd) 0); [contradiction|]. left; auto.
Qed.

Lemma links_to_edge p i : links_to nodes p i = true -> edge nodes p i.
Proof.
  intros H. unfold links_to in H. apply andb_true_iff in H. destruct H as [Hi H].
  assert (i <> 0) by (intros E; subst; discriminate).
  destruct (nth_error nodes p) as [np|] eqn:E; [|discriminate].
  exists np. split; auto. unfold succs. apply in_or_app. apply orb_true_iff in H. destruct H as [H|H]; apply Nat.eqb_eq in H.
  - left. rewrite H. destruct (Nat.eqb_spec i 0); [contradiction|]. left; auto.
  - right. rewrite H. destruct (Nat.eqb_spec i 0); [contradiction|]. left; auto.
Qed.

Lemma recip i nd : nth_error nodes i = Some nd ->
  (n_prev nd <> 0 -> edge nodes (n_prev nd) i) /\
  (n_preva nd <> 0 -> edge nodes (n_preva nd) i) /\
  (forall s, In s (succs nd) -> exists ns, nth_error nodes s = Some ns /\ (n_prev ns = i \/ n_preva ns = i)).
Proof.
  intros Hn. destruct ok_parts as (_ & _ & _ & H & _). unfold ck_recip in H. rewrite forallbi0_spec in H.
  specialize (H _ _ Hn). repeat (apply andb_true_iff in H; destruct H as [H ?]).
  split; [|split].
  - intros Hp. apply orb_true_iff in H. destruct H as [H|H]; [apply Nat.eqb_eq in H; contradiction|].
    apply links_to_edge; auto.
  - intros Hp. apply orb_true_iff in H1. destruct H1 as [H1|H1]; [apply Nat.eqb_eq in H1; contradiction|].
    apply links_to_edge; auto.
  - intros s Hs. rewrite forallb_forall in H0. specialize (H0 _ Hs). unfold links_back in H0.
    destruct (nth_error nodes s) as [ns|]; [|discriminate]. exists ns. split; auto.
    apply orb_true_iff in H0. destruct H0 as [H0|H0]; apply Nat.eqb_eq in H0; auto.
Qed.

(* ---- the route invariant carried by the certificate ---- *)
Definition RInv (a c : list nat) (ce : ecert) : Prop :=
  Chain net a /\ ~ In 0 a /\ (forall l, hd_error a = Some l -> In l origs) /\
  (exists q, a = c ++ q /\ (c_fin ce = false -> q = c_q ce /\ last a 0 = c_last ce)) /\
  (c_fin ce = true -> a <> [] /\ In (last a 0) dests).

Lemma events_parts :
  (forall i nd s, nth_error nodes i = Some nd -> In s (succs nd) ->
     exists ns, nth_error nodes s = Some ns /\ ev_ok net origs dests (n_ty ns) (n_link ns) (cget cert i) (cget cert s) = true) /\
  (c_fin (cget cert 0) = false /\ c_last (cget cert 0) = 0 /\ c_q (cget cert 0) = []) /\
  c_fin (cget cert (last_node nodes)) = true /\ ~ In 0 dests /\ ~ In 0 origs.
Proof.
  destruct ok_parts as (_ & _ & _ & _ & _ & H). unfold ck_events in H.
  do 4 (apply andb_true_iff in H; destruct H as [H ?]).
  split; [|split; [|split; [|split]]].
  - intros i nd s Hn Hs. rewrite forallbi0_spec in H. specialize (H _ _ Hn). rewrite forallb_forall in H.
    specialize (H _ Hs). destruct (nth_error nodes s) as [ns|]; [|discriminate]. eauto.
  - do 2 (apply andb_true_iff in H3; destruct H3 as [H3 ?]).
    split; [|split].
    + destruct (c_fin (cget cert 0)); auto; discriminate.
    + apply Nat.eqb_eq; auto.
    + destruct (c_q (cget cert 0)); auto; discriminate.
  - exact H2.
  - apply memb_false. destruct (memb 0 dests); auto; discriminate.
  - apply memb_false. destruct (memb 0 origs); auto; discriminate.
Qed.

Lemma last_In {A} (l : list A) d : l <> [] -> In (last l d) l.
Proof.
  induction l as [|a t IH]; intros H; [congruence|].
  destruct t as [|b t']; [left; reflexivity|]. right. rewrite last_cons.
  specialize (IH ltac:(discriminate)). rewrite last_cons in IH. rewrite last_cons. exact IH.
Qed.

Lemma last0_nil (a : list nat) : ~ In 0 a -> last a 0 = 0 -> a = [].
Proof. intros H E. destruct a as [|x t]; auto. exfalso. apply H. rewrite <- E. apply last_In. discriminate. Qed.

Lemma ev_ok_inv a c cp cs ty l :
  RInv a c cp -> ev_ok net origs dests ty l cp cs = true ->
  RInv (a ++ (if ty =? 0 then [l] else [])) (c ++ (if ty =? 1 then [l] else [])) cs.
Proof.
  destruct events_parts as (_ & _ & _ & Hd0 & Ho0).
  intros (Hch & H0 & Hhd & (q & Hq & Hnf) & Hf) Hev. unfold ev_ok in Hev.
  destruct ty as [|[|ty]].
  - (* Arrive l *)
    cbn [Nat.leb andb Nat.eqb] in *. rewrite app_nil_r. unfold ev_step in Hev.
    destruct (c_fin cp) eqn:Efp; [discriminate|]. cbn [negb andb] in Hev.
    destruct (Nat.eqb_spec l 0) as [|Hl0]; [discriminate|]. cbn [negb andb] in Hev.
    destruct (Hnf eq_refl) as [Eq El].
    destruct (if c_last cp =? 0 then memb l origs else connected net (c_last cp) l) eqn:Ec; [|discriminate].
    do 3 (apply andb_true_iff in Hev; destruct Hev as [Hev ?]).
    apply Nat.eqb_eq in H1. apply eql_spec in H.
    assert (Efs : c_fin cs = false) by (destruct (c_fin cs); auto; discriminate).
    unfold RInv. split; [|split; [|split; [|split]]].
    + apply Chain_snoc; auto. destruct (Nat.eqb_spec (c_last cp) 0) as [E0|E0].
      * left. apply last0_nil; auto. congruence.
      * right. rewrite El. apply connected_spec. exact Ec.
    + intros Hin. apply in_app_or in Hin. destruct Hin as [Hin|[Hin|[]]]; auto.
    + intros l' Hl'. destruct a as [|x t].
      * cbn in Hl'. inversion Hl'; subst l'. cbn in El. rewrite <- El in Ec. cbn in Ec. apply memb_spec; auto.
      * cbn in Hl'. apply Hhd. cbn. exact Hl'.
    + exists (q ++ [l]). split; [rewrite Hq, app_assoc; reflexivity|]. intros _. split.
      * rewrite Eq. exact H.
      * rewrite last_snoc. auto.
    + rewrite Efs. discriminate.
  - (* Clear l *)
    cbn [Nat.leb andb Nat.eqb] in *. rewrite app_nil_r. unfold ev_step in Hev.
    destruct (c_q cp) as [|k q'] eqn:Eqp; [discriminate|].
    destruct (c_fin cp) eqn:Efp; [discriminate|]. cbn [negb andb] in Hev.
    destruct (Nat.eqb_spec k l) as [Ekl|]; [|discriminate]. subst k.
    destruct (Hnf eq_refl) as [Eq El].
    do 3 (apply andb_true_iff in Hev; destruct Hev as [Hev ?]).
    apply Nat.eqb_eq in H1. apply eql_spec in H.
    assert (Efs : c_fin cs = false) by (destruct (c_fin cs); auto; discriminate).
    unfold RInv. split; [|split; [|split; [|split]]]; auto.
    + exists q'. split; [rewrite Hq, Eq, <- app_assoc; reflexivity|]. intros _. split; congruence.
    + rewrite Efs. discriminate.
  - (* Fake *)
    cbn [Nat.leb andb Nat.eqb] in *. rewrite !app_nil_r.
    destruct (c_fin cs) eqn:Efs.
    + unfold RInv. split; [|split; [|split; [|split]]]; auto.
      * exists q. split; auto. rewrite Efs. intros X; discriminate X.
      * intros _. apply orb_true_iff in Hev. destruct Hev as [Hev|Hev]; [auto|].
        destruct (c_fin cp) eqn:Efp; [auto|]. destruct (Hnf eq_refl) as [_ El].
        apply memb_spec in Hev. rewrite <- El in Hev. split; auto.
        intros Ea. rewrite Ea in Hev. cbn in Hev. contradiction.
    + unfold ev_step in Hev. do 3 (apply andb_true_iff in Hev; destruct Hev as [Hev ?]).
      apply Nat.eqb_eq in H1. apply eql_spec in H.
      assert (Efp : c_fin cp = false) by (destruct (c_fin cp); auto; discriminate).
      destruct (Hnf Efp) as [Eq El].
      unfold RInv. split; [|split; [|split; [|split]]]; auto.
      * exists q. split; auto. intros _. split; congruence.
      * rewrite Efs. intros X; discriminate X.
Qed.

Lemma walk_route w : walk nodes 0 w -> RInv (arrives nodes w) (clears nodes w) (cget cert (last w 0)).
Proof.
  induction w as [|s w IH] using rev_ind; intros Hw.
  - destruct events_parts as (_ & (E1 & E2 & E3) & _). unfold arrives, clears. cbn [filter map last].
    unfold RInv. split; [exact I|split; [intros []|split; [intros l X; discriminate X|split]]].
    + exists []. split; [reflexivity|]. intros _. rewrite E2, E3. split; reflexivity.
    + rewrite E1. intros X; discriminate X.
  - apply walk_snoc in Hw. destruct Hw as [Hw He]. specialize (IH Hw).
    destruct He as (np & Hp & Hs). destruct events_parts as (Hev & _).
    destruct (Hev _ _ _ Hp Hs) as (ns & Hns & Hok').
    rewrite arrives_snoc, clears_snoc, last_snoc. unfold ev_of. rewrite Hns. cbn [fst snd].
    eapply ev_ok_inv; eauto.
Qed.

Lemma route w : walk nodes 0 w -> RouteOK net origs dests nodes w.
Proof.
  intros Hw. destruct (walk_route _ Hw) as (H1 & H2 & H3 & (q & Hq & _) & H5).
  unfold RouteOK. cbn zeta. split; [|split; [|split; [|split]]]; auto.
  - exists q; auto.
  - intros El. apply H5. rewrite El. apply events_parts.
Qed.

Theorem struct_sound : EstStructSpec net origs dests nodes.
Proof. constructor; [exact recip|exact bounded|exact extend|exact route]. Qed.

End Checked.

(* every walk from the start node along primary or alternate links reaches the end node *)
Lemma spec_reaches_end net origs dests (nodes : list enode) :
  EstStructSpec net origs dests nodes ->
  forall w, walk nodes 0 w -> exists w', walk nodes 0 (w ++ w') /\ last (w ++ w') 0 = last_node nodes.
Proof.
  intros Sp. assert (Hk : forall k w, length nodes - length w <= k -> walk nodes 0 w ->
      exists w', walk nodes 0 (w ++ w') /\ last (w ++ w') 0 = last_node nodes).
  { induction k as [|k IH]; intros w Hl Hw.
    - pose proof (es_bounded _ _ _ _ Sp _ Hw). lia.
    - destruct (Nat.eq_dec (last w 0) (last_node nodes)) as [E|E].
      + exists []. rewrite app_nil_r. auto.
      + destruct (es_extend _ _ _ _ Sp _ Hw E) as (s & Hs).
        destruct (IH (w ++ [s])) as (w' & Hw' & El); auto.
        * rewrite app_length. cbn. pose proof (es_bounded _ _ _ _ Sp _ Hw). lia.
        * exists ([s] ++ w'). rewrite app_assoc. auto. }
  intros w Hw. eapply Hk; eauto.
Qed.

Lemma est_ok_struct net origs dests (nodes : list enode) cert :
  est_ok net origs dests nodes cert = true -> est_struct_ok net origs dests nodes cert = true.
Proof.
  unfold est_ok, est_checks, est_struct_ok. cbv zeta. cbn [forallb]. intros H.
  apply andb_true_iff in H. destruct H as [Hs H].
  apply andb_true_iff in H. destruct H as [Hb H].
  apply andb_true_iff in H. destruct H as [H1 H].
  apply andb_true_iff in H. destruct H as [H2 H].
  apply andb_true_iff in H. destruct H as [H3 H].
  apply andb_true_iff in H. destruct H as [H4 _].
  rewrite Hb in H1, H2, H3, H4. cbn [andb] in H1, H2, H3, H4.
  rewrite Hb, H1, H2, H3, H4. reflexivity.
Qed.

Theorem est_ok_sound net origs dests (nodes : list enode) cert :
  est_ok net origs dests nodes cert = true -> EstStructSpec net origs dests nodes.
Proof. intros H. eapply struct_sound. apply est_ok_struct. exact H. Qed.

End EstP.
