(* WholeSplitP.v -- C10 / C09 for the WHOLE train simulations: the consist transition inside every whole step
   (TrainFull.v) IS one ConsistSimulation step with the wheel power the train model chose (TrainFullP decomposition),
   so the split theorem and the "request within the published limits" theorem hold for every step of every accepted
   whole run, with the train dynamics choosing the request. *)
From Coq Require Import Reals Lra Lia List Bool ZArith Arith.
From AltModel Require Import Num Interp Powertrain Loco Consist Resist Braking TrainStep TrainEnergy TrainFull.
From AltProofs Require Import NumR InterpP PowertrainP LocoP ConsistP C10P TrainStepP TrainFullP.
Import ListNotations.
Open Scope R_scope.

Definition sl_pwr (y : SLStateR * ConsistR) : R := w_pwr_whl_out (ts_w (sl_st (fst y))).
Definition ss_pwr (y : (TStateR * ResCache) * ConsistR) : R := w_pwr_whl_out (ts_w (fst (fst y))).

Theorem sl_full_step_split (e : Env (F:=R)) pts fmax (x x' : SLStateR * ConsistR) :
  sl_full_step e pts fmax x = Ok x' -> cinv (snd x) ->
  cinv (snd x') /\ cn_pdct (snd x') = cn_pdct (snd x) /\
  (limits_nonneg (snd x') -> split_ok (cn_pdct (snd x)) (sl_pwr x') (snd x')).
Proof.
  destruct x as [s c], x' as [s'' c']. cbn [fst snd]. intros H Hc.
  destruct (sl_full_step_decomposes _ _ _ _ _ _ _ H) as (s' & c2 & _ & _ & Hb & _ & Hsim).
  subst s''. unfold sl_pwr. cbn [fst].
  change (w_pwr_whl_out (ts_w (sl_st (sl_bump s')))) with (w_pwr_whl_out (ts_w (sl_st s'))).
  assert (Hst : cstep c (w_pwr_whl_out (ts_w (sl_st s')), k_dt (ts_k (sl_st s))) = Ok c') by exact Hsim.
  split; [exact (cinv_step _ _ _ Hc Hst)|]. split; [exact (proj2 (cstep_assert_limits _ _ _ Hst))|].
  intros Hl. exact (cstep_split c _ c' Hc Hst Hl).
Qed.

Theorem ss_full_step_split (e : Env (F:=R)) times speeds fmax (x x' : (TStateR * ResCache) * ConsistR) :
  ss_full_step e times speeds fmax x = Ok x' -> cinv (snd x) ->
  cinv (snd x') /\ cn_pdct (snd x') = cn_pdct (snd x) /\
  (limits_nonneg (snd x') -> split_ok (cn_pdct (snd x)) (ss_pwr x') (snd x')).
Proof.
  destruct x as [[st ch] c], x' as [[st'' ch'] c']. cbn [fst snd]. intros H Hc.
  destruct (ss_full_step_decomposes _ _ _ _ _ _ _ _ _ _ H) as (st' & c2 & t_i & t_p & _ & _ & _ & _ & Hb & _ & Hsim).
  subst st''. unfold ss_pwr. cbn [fst].
  change (w_pwr_whl_out (ts_w (bump_i st'))) with (w_pwr_whl_out (ts_w st')).
  assert (Hst : cstep c (w_pwr_whl_out (ts_w st'), t_i - t_p) = Ok c') by exact Hsim.
  split; [exact (cinv_step _ _ _ Hc Hst)|]. split; [exact (proj2 (cstep_assert_limits _ _ _ Hst))|].
  intros Hl. exact (cstep_split c _ c' Hc Hst Hl).
Qed.

(* every step of every accepted whole run *)
Theorem sl_full_run_split (e : Env (F:=R)) pts fmax : forall n x x',
  cinv (snd x) -> sl_full_run n e pts fmax x = Ok x' ->
  cinv (snd x') /\ cn_pdct (snd x') = cn_pdct (snd x) /\
  forall k y y', (k < n)%nat -> sl_full_run k e pts fmax x = Ok y -> sl_full_step e pts fmax y = Ok y' ->
    cinv (snd y) /\ (limits_nonneg (snd y') -> split_ok (cn_pdct (snd x)) (sl_pwr y') (snd y')).
Proof.
  induction n as [|n IH]; intros x x' Hc H; cbn [sl_full_run] in H.
  - inversion H; subst. split; [exact Hc|]. split; [reflexivity|]. intros k y y' Hk. lia.
  - apply bind_ok in H. destruct H as (x1 & H1 & Hr).
    destruct (sl_full_step_split _ _ _ _ _ H1 Hc) as (Hc1 & Hp1 & Hs1).
    destruct (IH _ _ Hc1 Hr) as (Hcx & Hpx & Hall).
    split; [exact Hcx|]. split; [congruence|].
    intros k y y' Hk Hy Hy'. destruct k as [|k]; cbn [sl_full_run] in Hy.
    + inversion Hy; subst y. rewrite H1 in Hy'. inversion Hy'; subst y'. split; [exact Hc|exact Hs1].
    + rewrite H1 in Hy. cbn [bind] in Hy. rewrite <- Hp1. apply (Hall k y y'); [lia|exact Hy|exact Hy'].
Qed.

Theorem ss_full_run_split (e : Env (F:=R)) times speeds fmax : forall n x x',
  cinv (snd x) -> ss_full_run n e times speeds fmax x = Ok x' ->
  cinv (snd x') /\ cn_pdct (snd x') = cn_pdct (snd x) /\
  forall k y y', (k < n)%nat -> ss_full_run k e times speeds fmax x = Ok y -> ss_full_step e times speeds fmax y = Ok y' ->
    cinv (snd y) /\ (limits_nonneg (snd y') -> split_ok (cn_pdct (snd x)) (ss_pwr y') (snd y')).
Proof.
  induction n as [|n IH]; intros x x' Hc H; cbn [ss_full_run] in H.
  - inversion H; subst. split; [exact Hc|]. split; [reflexivity|]. intros k y y' Hk. lia.
  - apply bind_ok in H. destruct H as (x1 & H1 & Hr).
    destruct (ss_full_step_split _ _ _ _ _ _ H1 Hc) as (Hc1 & Hp1 & Hs1).
    destruct (IH _ _ Hc1 Hr) as (Hcx & Hpx & Hall).
    split; [exact Hcx|]. split; [congruence|].
    intros k y y' Hk Hy Hy'. destruct k as [|k]; cbn [ss_full_run] in Hy.
    + inversion Hy; subst y. rewrite H1 in Hy'. inversion Hy'; subst y'. split; [exact Hc|exact Hs1].
    + rewrite H1 in Hy. cbn [bind] in Hy. rewrite <- Hp1. apply (Hall k y y'); [lia|exact Hy|exact Hy'].
Qed.

(* C09 at the whole-step level: with limit checking on, the wheel power the train model asks of the consist lies
   inside the traction and braking limits the consist published FOR THIS STEP (c2 is the consist after
   set_pwr_aux / set_cur_pwr_max_out, the state the train model read its limits from) *)
Lemma published_keeps_assert (c c2 : ConsistR) dt :
  consist_set_cur_pwr_max_out (consist_set_pwr_aux c true) dt = Ok c2 -> cn_assert_limits c2 = cn_assert_limits c.
Proof.
  unfold consist_set_cur_pwr_max_out. intros H. apply bind_ok in H. destruct H as (ls & _ & H).
  inversion H; subst c2. reflexivity.
Qed.

Theorem sl_full_step_request_within (e : Env (F:=R)) pts fmax (x x' : SLStateR * ConsistR) :
  sl_full_step e pts fmax x = Ok x' -> cn_assert_limits (snd x) = true ->
  exists c2, consist_set_cur_pwr_max_out (consist_set_pwr_aux (snd x) true) (k_dt (ts_k (sl_st (fst x)))) = Ok c2 /\
    sl_pwr x' <= cs_pwr_out_max (cn_state c2) /\ - sl_pwr x' <= cs_pwr_dyn_brake_max (cn_state c2).
Proof.
  destruct x as [s c], x' as [s'' c']. cbn [fst snd]. intros H Ha.
  destruct (sl_full_step_decomposes _ _ _ _ _ _ _ H) as (s' & c2 & Hc2 & _ & Hb & Hsol & _).
  subst s''. unfold sl_pwr. cbn [fst].
  change (w_pwr_whl_out (ts_w (sl_st (sl_bump s')))) with (w_pwr_whl_out (ts_w (sl_st s'))).
  exists c2. split; [exact Hc2|].
  assert (Ha2 : cn_assert_limits c2 = true) by (rewrite (published_keeps_assert _ _ _ Hc2); exact Ha).
  destruct (consist_accepted_within _ _ _ _ _ Ha2 Hsol) as (A & B & _). split; assumption.
Qed.

Theorem ss_full_step_request_within (e : Env (F:=R)) times speeds fmax (x x' : (TStateR * ResCache) * ConsistR) :
  ss_full_step e times speeds fmax x = Ok x' -> cn_assert_limits (snd x) = true ->
  exists c2 dt, consist_set_cur_pwr_max_out (consist_set_pwr_aux (snd x) true) dt = Ok c2 /\
    ss_pwr x' <= cs_pwr_out_max (cn_state c2) /\ - ss_pwr x' <= cs_pwr_dyn_brake_max (cn_state c2).
Proof.
  destruct x as [[st ch] c], x' as [[st'' ch'] c']. cbn [fst snd]. intros H Ha.
  destruct (ss_full_step_decomposes _ _ _ _ _ _ _ _ _ _ H) as (st' & c2 & t_i & t_p & _ & _ & Hc2 & _ & Hb & Hsol & _).
  subst st''. unfold ss_pwr. cbn [fst].
  change (w_pwr_whl_out (ts_w (bump_i st'))) with (w_pwr_whl_out (ts_w st')).
  exists c2, (t_i - t_p). split; [exact Hc2|].
  assert (Ha2 : cn_assert_limits c2 = true) by (rewrite (published_keeps_assert _ _ _ Hc2); exact Ha).
  destruct (consist_accepted_within _ _ _ _ _ Ha2 Hsol) as (A & B & _). split; assumption.
Qed.
