(* DispPlanP.v -- C04: the occupancy checker decides NoConflict (sound and complete, all pairs);
   the guarded ledger operations preserve the ledger invariant along every operation list.
   C05: the result checker is sound.  Order facts are stated with the carrier's own comparison
   ([nleb x y = true]); DispPlanR.v reads them at the real numbers. *)
From Coq Require Import List Bool Arith Lia ZArith.
From AltModel Require Import Num TrackNet DispPlan.
From AltProofs Require Import TrackNetP.
Import ListNotations.

(* ---- list helpers ---- *)
Lemma forallb_false {A} (f : A -> bool) l : forallb f l = false <-> exists x, In x l /\ f x = false.
Proof.
  induction l as [|a t IH]; cbn.
  - split; [discriminate|intros (x & [] & _)].
  - rewrite andb_false_iff, IH. split.
    + intros [H|(x & Hx & E)]; [exists a; auto|exists x; auto].
    + intros (x & [E|Hx] & Hf); [subst; auto|right; eauto].
Qed.

Lemma forallbi_false {A} (f : nat -> A -> bool) k l :
  forallbi f k l = false <-> exists i a, nth_error l i = Some a /\ f (k + i) a = false.
Proof.
  revert k; induction l as [|x t IH]; intros k; cbn.
  - split; [discriminate|intros (i & a & H & _); destruct i; discriminate].
  - rewrite andb_false_iff, IH. split.
    + intros [H|(i & a & Hn & Hf)].
      * exists 0, x. rewrite Nat.add_0_r. auto.
      * exists (S i), a. replace (k + S i) with (S k + i) by lia. auto.
    + intros (i & a & Hn & Hf). destruct i; cbn in Hn.
      * inversion Hn; subst. rewrite Nat.add_0_r in Hf. auto.
      * right. exists i, a. replace (S k + i) with (k + S i) by lia. auto.
Qed.

Section PlanP.
Context {F : Type} {NO : NumOps F}.
Notation occ := (occ (F:=F)).

(* ---------------------------------------------------------------- declarative C04 *)
Definition Excl (net : list link) (l m : nat) : Prop :=
  exists ll lm, nth_error net l = Some ll /\ nth_error net m = Some lm /\
    (l_flip ll = m \/ l_flip lm = l \/ In m (l_lock ll) \/ In l (l_lock lm)).

(* a <= b on optional times (None = still held = +infinity) *)
Definition Leo (a : option F) (b : F) : Prop := exists x, a = Some x /\ nleb x b = true.
Definition Leoo (a b : option F) : Prop :=
  match a, b with Some x, Some y => nleb x y = true | _, None => True | None, Some _ => False end.

(* the two holding intervals [in, out] do not overlap (touching allowed) *)
Definition Disjoint (x y : occ) : Prop := Leo (o_out x) (o_in y) \/ Leo (o_out y) (o_in x).
Definition Before (a b : nat) (x y : occ) : Prop :=
  nltb (o_in x) (o_in y) = true \/ (neqb (o_in x) (o_in y) = true /\ a < b).
Definition Headway (h : F) (x y : occ) : Prop := exists c, o_ce x = Some c /\ nleb (nadd c h) (o_in y) = true.
(* the follower's front reaches the far end (a real front exit: strictly before its own release, or
   not yet released) no sooner than the headway after the leader's tail left the link *)
Definition ExitHeadway (h : F) (x y : occ) : Prop :=
  forall ya, o_ax y = Some ya -> (forall yo, o_out y = Some yo -> nltb ya yo = true) ->
    exists u, o_out x = Some u /\ nleb (nadd u h) ya = true.
Definition Order (x y : occ) : Prop := Leoo (o_ax x) (o_ax y) /\ Leoo (o_ce x) (o_ce y) /\ Leoo (o_out x) (o_out y).
Definition OpposingBetween (net : list link) (occs : list (list occ)) (a b : nat) (x y : occ) : Prop :=
  exists c oc z, nth_error occs c = Some oc /\ c <> a /\ c <> b /\ In z oc /\
    Excl net (o_link x) (o_link z) /\ Leo (o_out x) (o_in z) /\ Leo (o_out z) (o_in y).

(* C04 on a table of occupancies, one list per train: every pair of holdings of two different trains *)
Definition NoConflict (net : list link) (h : F) (occs : list (list occ)) : Prop :=
  forall a b oa ob x y, nth_error occs a = Some oa -> nth_error occs b = Some ob -> a <> b -> In x oa -> In y ob ->
    (* opposite directions of a segment, or segments declared mutually exclusive: never held at once *)
    (Excl net (o_link x) (o_link y) -> Disjoint x y) /\
    (* followers over the same link keep the headway (unless an opposing movement passed in between)
       and never change order inside it *)
    (o_link x = o_link y -> Before a b x y ->
       (OpposingBetween net occs a b x y \/ (Headway h x y /\ ExitHeadway h x y)) /\ Order x y).

Lemma exclb_spec net l m : exclb net l m = true <-> Excl net l m.
Proof.
  unfold exclb, Excl. destruct (nth_error net l) as [ll|], (nth_error net m) as [lm|]; split;
    try discriminate; try (intros (? & ? & ? & ? & _); discriminate).
  - intros H. exists ll, lm. split; auto. split; auto.
    repeat (apply orb_true_iff in H; destruct H as [H|H]).
    + left. apply Nat.eqb_eq; auto.
    + right; left. apply Nat.eqb_eq; auto.
    + right; right; left. apply memb_spec; auto.
    + right; right; right. apply memb_spec; auto.
  - intros (ll' & lm' & E1 & E2 & H). inversion E1; inversion E2; subst.
    destruct H as [H|[H|[H|H]]].
    + rewrite H, Nat.eqb_refl. reflexivity.
    + rewrite H, Nat.eqb_refl, orb_true_r. reflexivity.
    + apply memb_spec in H. rewrite H, !orb_true_r. reflexivity.
    + apply memb_spec in H. rewrite H, !orb_true_r. reflexivity.
Qed.

Lemma Excl_sym net l m : Excl net l m -> Excl net m l.
Proof. intros (ll & lm & E1 & E2 & H). exists lm, ll. split; auto. split; auto. tauto. Qed.

Lemma leo_spec a b : leo a b = true <-> Leo a b.
Proof. unfold leo, Leo. destruct a as [x|]; split; intros H; eauto; try discriminate.
  - destruct H as (y & E & H). inversion E; subst; auto.
  - destruct H as (y & E & _). discriminate. Qed.
Lemma leoo_spec a b : leoo a b = true <-> Leoo a b.
Proof. unfold leoo, Leoo. destruct a, b; split; auto; try discriminate; tauto. Qed.

Lemma disjointb_spec x y : disjointb x y = true <-> Disjoint x y.
Proof. unfold disjointb, Disjoint. rewrite orb_true_iff, !leo_spec. tauto. Qed.
Lemma beforeb_spec a b x y : beforeb a b x y = true <-> Before a b x y.
Proof. unfold beforeb, Before. rewrite orb_true_iff, andb_true_iff, Nat.ltb_lt. tauto. Qed.
Lemma headwayb_spec h x y : headwayb h x y = true <-> Headway h x y.
Proof. unfold headwayb, Headway. destruct (o_ce x) as [c|]; split; intros H; eauto; try discriminate.
  - destruct H as (c' & E & H). inversion E; subst; auto.
  - destruct H as (c' & E & _). discriminate. Qed.
Lemma exit_headwayb_spec h x y : exit_headwayb h x y = true <-> ExitHeadway h x y.
Proof.
  unfold exit_headwayb, ExitHeadway. destruct (o_ax y) as [ya|]; [|split; [intros _ ? E; discriminate|auto]].
  destruct (o_out y) as [yo|].
  - destruct (nltb ya yo) eqn:El.
    + destruct (o_out x) as [u|]; split.
      * intros H ya' E _. inversion E; subst. eauto.
      * intros H. destruct (H ya eq_refl) as (u' & E & H'); [intros yo' E; inversion E; subst; auto|]. inversion E; subst; auto.
      * discriminate.
      * intros H. destruct (H ya eq_refl) as (u' & E & _); [intros yo' E; inversion E; subst; auto|]. discriminate.
    + split; auto. intros _ ya' E H. inversion E; subst. specialize (H yo eq_refl). congruence.
  - destruct (o_out x) as [u|]; split.
    + intros H ya' E _. inversion E; subst. eauto.
    + intros H. destruct (H ya eq_refl) as (u' & E & H'); [intros yo' E; discriminate|]. inversion E; subst; auto.
    + discriminate.
    + intros H. destruct (H ya eq_refl) as (u' & E & _); [intros yo' E; discriminate|]. discriminate.
Qed.
Lemma orderb_spec x y : orderb x y = true <-> Order x y.
Proof. unfold orderb, Order. rewrite !andb_true_iff, !leoo_spec. tauto. Qed.

Lemma opposing_betweenb_spec net occs a b x y :
  opposing_betweenb net occs a b x y = true <-> OpposingBetween net occs a b x y.
Proof.
  unfold opposing_betweenb, OpposingBetween. rewrite negb_true_iff, forallbi_false. cbn [Nat.add]. split.
  - intros (c & oc & Hn & Hf). apply orb_false_iff in Hf. destruct Hf as [Hf Hz].
    apply orb_false_iff in Hf. destruct Hf as [Ha Hb].
    apply forallb_false in Hz. destruct Hz as (z & Hz & Hf). apply negb_false_iff in Hf.
    apply andb_true_iff in Hf. destruct Hf as [Hf H3]. apply andb_true_iff in Hf. destruct Hf as [H1 H2].
    exists c, oc, z. split; auto. split; [apply Nat.eqb_neq; auto|]. split; [apply Nat.eqb_neq; auto|].
    split; auto. split; [apply exclb_spec; auto|]. split; apply leo_spec; auto.
  - intros (c & oc & z & Hn & Ha & Hb & Hz & H1 & H2 & H3). exists c, oc. split; auto.
    apply orb_false_iff. split; [apply orb_false_iff; split; apply Nat.eqb_neq; auto|].
    apply forallb_false. exists z. split; auto. apply negb_false_iff.
    apply exclb_spec in H1. apply leo_spec in H2, H3. rewrite H1, H2, H3. reflexivity.
Qed.

Lemma pair_okb_spec net h occs a b x y :
  pair_okb net h occs a b x y = true <->
  (Excl net (o_link x) (o_link y) -> Disjoint x y) /\
  (o_link x = o_link y -> Before a b x y ->
     (OpposingBetween net occs a b x y \/ (Headway h x y /\ ExitHeadway h x y)) /\ Order x y).
Proof.
  unfold pair_okb. rewrite andb_true_iff, !orb_true_iff, !negb_true_iff, andb_true_iff.
  rewrite disjointb_spec, orb_true_iff, andb_true_iff, opposing_betweenb_spec, headwayb_spec, exit_headwayb_spec, orderb_spec.
  split.
  - intros [H1 H2]. split.
    + intros He. destruct H1 as [H1|H1]; auto. apply exclb_spec in He. congruence.
    + intros El Hb. destruct H2 as [H2|H2]; auto.
      apply Nat.eqb_eq in El. apply beforeb_spec in Hb. rewrite El, Hb in H2. discriminate.
  - intros [H1 H2]. split.
    + destruct (exclb net (o_link x) (o_link y)) eqn:E; auto. right. apply H1. apply exclb_spec; auto.
    + destruct (o_link x =? o_link y) eqn:E1; auto. destruct (beforeb a b x y) eqn:E2; auto.
      right. apply H2; [apply Nat.eqb_eq; auto|apply beforeb_spec; auto].
Qed.

Theorem plan_ok_iff net h occs : plan_ok net h occs = true <-> NoConflict net h occs.
Proof.
  unfold plan_ok, NoConflict. rewrite forallbi0_spec. split.
  - intros H a b oa ob x y Ha Hb Hab Hx Hy. specialize (H _ _ Ha). rewrite forallbi0_spec in H.
    specialize (H _ _ Hb). apply orb_true_iff in H. destruct H as [H|H]; [apply Nat.eqb_eq in H; contradiction|].
    rewrite forallb_forall in H. specialize (H _ Hx). rewrite forallb_forall in H. specialize (H _ Hy).
    apply pair_okb_spec in H. exact H.
  - intros H a oa Ha. rewrite forallbi0_spec. intros b ob Hb.
    destruct (Nat.eqb_spec a b) as [E|E]; auto. cbn [orb].
    apply forallb_forall. intros x Hx. apply forallb_forall. intros y Hy.
    apply pair_okb_spec. eapply H; eauto.
Qed.

(* the per-state check: occupancies are derived from the trains' own event lists inside the checker *)
Theorem state_ok_sound net h trains :
  state_ok net h trains = true -> exists occs, occs_of trains = Some occs /\ NoConflict net h occs.
Proof.
  unfold state_ok. destruct (occs_of trains) as [occs|]; [|discriminate].
  intros H. exists occs. split; auto. apply plan_ok_iff; auto.
Qed.

(* ---------------------------------------------------------------- the abstract ledger *)
Notation ledger := (ledger (F:=F)).

Lemma nth_error_upd {A} (v : list A) i j f :
  nth_error (upd v i f) j = if i =? j then option_map f (nth_error v j) else nth_error v j.
Proof.
  revert i j; induction v as [|a t IH]; intros i j; cbn.
  - destruct (i =? j), j; reflexivity.
  - destruct i, j; cbn; auto.
Qed.

Lemma upd_length {A} (v : list A) i f : length (upd v i f) = length v.
Proof. revert i; induction v as [|a t IH]; intros i; cbn; auto. destruct i; cbn; auto. Qed.

Lemma stack_upd (led : ledger) l m f : l < length led ->
  stack (upd led l f) m = if l =? m then f (stack led l) else stack led m.
Proof.
  intros Hl. unfold stack.
  destruct (Nat.eqb_spec l m) as [E|E].
  - subst m. destruct (nth_error led l) as [s|] eqn:Es; [|apply nth_error_None in Es; lia].
    erewrite (nth_error_nth (upd led l f)); [|rewrite nth_error_upd, Nat.eqb_refl, Es; reflexivity].
    erewrite (nth_error_nth led); eauto.
  - destruct (nth_error led m) as [s|] eqn:Es.
    + erewrite (nth_error_nth (upd led l f)); [|rewrite nth_error_upd; apply Nat.eqb_neq in E; rewrite E; exact Es].
      erewrite (nth_error_nth led); eauto.
    + rewrite !nth_overflow; auto.
      * apply nth_error_None; auto.
      * rewrite upd_length. apply nth_error_None; auto.
Qed.

(* well-formed authority: in <= ax, in <= ce, ce <= out, ax <= out *)
Definition WF (a : occ) : Prop :=
  Leoo (Some (o_in a)) (o_ax a) /\ Leoo (Some (o_in a)) (o_ce a) /\ Leoo (o_ce a) (o_out a) /\ Leoo (o_ax a) (o_out a).
Definition ExitHw (h : F) (p a : occ) : Prop :=
  match o_ax a with None => True | Some x => exists u, o_out p = Some u /\ nleb (nadd u h) x = true end.
(* consecutive authorities p, a on one stack (p entered first) *)
Definition PairOK (h : F) (p a : occ) : Prop :=
  nleb (o_in p) (o_in a) = true /\ Order p a /\ (Headway h p a \/ Leo (o_out p) (o_in a)) /\ ExitHw h p a.

Definition StackOK (h : F) (st : list (nat * occ)) : Prop :=
  forall i p a, nth_error st i = Some p -> nth_error st (S i) = Some a -> PairOK h (snd p) (snd a).

Record LInv (net : list link) (h : F) (led : ledger) : Prop := {
  (* two different links that exclude each other are never held at the same time *)
  li_excl : forall l m a b, l <> m -> Excl net l m -> In a (stack led l) -> In b (stack led m) -> Disjoint (snd a) (snd b);
  li_stack : forall l, StackOK h (stack led l);
  li_wf : forall l a, In a (stack led l) -> WF (snd a)
}.

Lemma stack_nil_empty n l : stack (repeat (@nil (nat * occ)) n) l = [].
Proof. unfold stack. revert l; induction n as [|n IH]; intros l; cbn; destruct l; auto. Qed.

Lemma LInv_empty net h n : LInv net h (repeat [] n).
Proof.
  constructor.
  - intros l m a b _ _ Ha. rewrite stack_nil_empty in Ha. destruct Ha.
  - intros l i p a Hp. rewrite stack_nil_empty in Hp. destruct i; discriminate.
  - intros l a Ha. rewrite stack_nil_empty in Ha. destruct Ha.
Qed.

Lemma Disjoint_sym x y : Disjoint x y -> Disjoint y x.
Proof. unfold Disjoint. tauto. Qed.

Lemma lastopt_snoc {A} (l : list A) x : lastopt (l ++ [x]) = Some x.
Proof. unfold lastopt. rewrite rev_app_distr. reflexivity. Qed.
Lemma lastopt_nth {A} (l : list A) x : lastopt l = Some x -> nth_error l (length l - 1) = Some x /\ l <> [].
Proof.
  destruct l as [|a t] using rev_ind; [discriminate|]. rewrite lastopt_snoc. intros E; inversion E; subst.
  rewrite app_length. cbn. replace (length t + 1 - 1) with (length t) by lia.
  rewrite nth_error_app2, Nat.sub_diag by lia. split; [reflexivity|]. destruct t; discriminate.
Qed.
Lemma lastopt_none {A} (l : list A) : lastopt l = None -> l = [].
Proof. destruct l as [|a t] using rev_ind; auto. rewrite lastopt_snoc. discriminate. Qed.

Lemma In_removelast {A} (l : list A) x : In x (removelast l) -> In x l.
Proof.
  induction l as [|a t IH]; cbn; auto. destruct t as [|b t']; [intros []|].
  intros [E|H]; [left; auto|right; apply IH; auto].
Qed.
Lemma nth_error_removelast {A} (l : list A) i x : nth_error (removelast l) i = Some x -> nth_error l i = Some x.
Proof.
  revert i; induction l as [|a t IH]; intros i; cbn; [destruct i; discriminate|].
  destruct t as [|b t']; [destruct i; discriminate|].
  destruct i; cbn; auto.
Qed.

Lemma In_upd {A} (v : list A) k f y : In y (upd v k f) ->
  In y v \/ exists x, nth_error v k = Some x /\ y = f x.
Proof.
  revert k; induction v as [|a t IH]; intros k; cbn; auto.
  destruct k; cbn.
  - intros [E|H]; [right; exists a; auto|left; auto].
  - intros [E|H]; [left; auto|]. destruct (IH _ H) as [H'|(x & Hx & E)]; [left; auto|right; eauto].
Qed.

(* an update of one field that keeps [o_in] and does not lengthen the holding interval keeps Disjoint *)
Lemma Disjoint_keep (a a' b : occ) :
  o_in a' = o_in a -> (forall t, Leo (o_out a) t -> Leo (o_out a') t) -> Disjoint a b -> Disjoint a' b.
Proof. unfold Disjoint. intros Ei Ho [H|H]; [left; auto|right; rewrite Ei; auto]. Qed.

Section Step.
Variables (net : list link) (h : F).

(* the three field updates and their effect on the interval *)
Lemma set_ax_out a t z : Leo (o_out a) z -> Leo (o_out (set_ax a t)) z. Proof. auto. Qed.
Lemma set_ce_out a t z : Leo (o_out a) z -> Leo (o_out (set_ce a t)) z. Proof. auto. Qed.
Lemma set_out_out a t z : o_out a = None -> Leo (o_out a) z -> Leo (o_out (set_out a t)) z.
Proof. intros E (x & E' & _). congruence. Qed.

(* generic preservation for an update of authority k on link l *)
Lemma upd_field_preserves (led : ledger) l k (g : occ -> occ) tr a :
  LInv net h led -> l < length led -> nth_error (stack led l) k = Some (tr, a) ->
  o_in (g a) = o_in a -> (forall z, Leo (o_out a) z -> Leo (o_out (g a)) z) ->
  WF (g a) ->
  (forall p, prev_of (stack led l) k = Some p -> PairOK h p a -> PairOK h p (g a)) ->
  (forall s, next_of (stack led l) k = Some s -> PairOK h a s -> PairOK h (g a) s) ->
  LInv net h (upd led l (fun s => upd s k (fun x => (fst x, g (snd x))))).
Proof.
  intros [He Hs Hw] Hl Hk Ein Hout Hwf Hprev Hnext.
  set (st := stack led l) in *. set (f := fun x : nat * occ => (fst x, g (snd x))).
  assert (Hst : forall m, stack (upd led l (fun s => upd s k f)) m = if l =? m then upd st k f else stack led m)
    by (intros m; apply stack_upd; auto).
  assert (Hin : forall y, In y (upd st k f) -> In y st \/ y = (tr, g a)).
  { intros y Hy. destruct (In_upd _ _ _ _ Hy) as [H|(x & Hx & E)]; auto. right. rewrite Hk in Hx. inversion Hx; subst. reflexivity. }
  assert (Hka : In (tr, a) st) by (eapply nth_error_In; eauto).
  constructor.
  - intros l1 m1 x y Hne Hex Hx Hy. rewrite Hst in Hx, Hy.
    assert (Hx' : (In x (stack led l1)) \/ (l = l1 /\ x = (tr, g a))).
    { destruct (Nat.eqb_spec l l1); auto. subst. destruct (Hin _ Hx); auto. }
    assert (Hy' : (In y (stack led m1)) \/ (l = m1 /\ y = (tr, g a))).
    { destruct (Nat.eqb_spec l m1); auto. subst. destruct (Hin _ Hy); auto. }
    destruct Hx' as [Hx'|[E1 Ex]], Hy' as [Hy'|[E2 Ey]]; subst; try congruence.
    + eapply He; eauto.
    + cbn [snd]. apply Disjoint_sym. eapply Disjoint_keep; eauto. apply Disjoint_sym.
      apply (He _ _ x (tr, a) Hne Hex); auto.
    + cbn [snd]. eapply Disjoint_keep; eauto. apply (He _ _ (tr, a) y Hne Hex); auto.
  - intros m. rewrite Hst. destruct (Nat.eqb_spec l m) as [E|E]; [|apply Hs].
    intros i p s Hp Hs'. rewrite nth_error_upd in Hp, Hs'.
    destruct (Nat.eqb_spec k i) as [Eki|Eki], (Nat.eqb_spec k (S i)) as [Eks|Eks]; try lia.
    + (* p is the updated authority, s its successor *)
      subst i. fold st in Hk. rewrite Hk in Hp. cbn in Hp. inversion Hp; subst p. cbn [snd].
      apply Hnext; [unfold next_of; fold st; rewrite Hs'; reflexivity|].
      apply (Hs l k (tr, a) s); auto.
    + (* s is the updated authority, p its predecessor *)
      subst k. fold st in Hk. rewrite Hk in Hs'. cbn in Hs'. inversion Hs'; subst s. cbn [snd].
      apply Hprev; [unfold prev_of; fold st; rewrite Hp; reflexivity|].
      apply (Hs l i p (tr, a)); auto.
    + apply (Hs l i p s); auto.
  - intros m y Hy. rewrite Hst in Hy. destruct (Nat.eqb_spec l m) as [E|E]; [|eapply Hw; eauto].
    destruct (Hin _ Hy) as [H|H]; [eapply Hw; eauto|subst; exact Hwf].
Qed.

Lemma Leoo_none (a : option F) : Leoo a None.
Proof. destruct a; exact I. Qed.

Lemma enter_preserves (led : ledger) l tr t :
  LInv net h led -> l < length led ->
  (forall m b, Excl net l m -> In b (stack led m) -> Leo (o_out (snd b)) t) ->
  (forall q p, lastopt (stack led l) = Some (q, p) ->
     nleb (o_in p) t = true /\ (Headway h p (mkO l t None None None) \/ Leo (o_out p) t)) ->
  LInv net h (upd led l (fun s => s ++ [(tr, mkO l t None None None)])).
Proof.
  intros [He Hs Hw] G Hrel Hlast.
  set (nw := (tr, mkO l t None None None) : nat * occ).
  assert (Hst : forall m, stack (upd led l (fun s => s ++ [nw])) m = if l =? m then stack led l ++ [nw] else stack led m)
    by (intros m; apply stack_upd; auto).
  constructor.
  - intros l1 m1 x y Hne Hex Hx Hy. rewrite Hst in Hx, Hy.
    assert (Hx' : In x (stack led l1) \/ (l = l1 /\ x = nw)).
    { destruct (Nat.eqb_spec l l1); auto. subst. apply in_app_or in Hx. destruct Hx as [Hx|[Hx|[]]]; auto. }
    assert (Hy' : In y (stack led m1) \/ (l = m1 /\ y = nw)).
    { destruct (Nat.eqb_spec l m1); auto. subst. apply in_app_or in Hy. destruct Hy as [Hy|[Hy|[]]]; auto. }
    destruct Hx' as [Hx'|[E1 Ex]], Hy' as [Hy'|[E2 Ey]]; subst; try congruence.
    + eapply He; eauto.
    + left. cbn. apply (Hrel _ _ (Excl_sym _ _ _ Hex) Hx').
    + right. cbn. apply (Hrel _ _ Hex Hy').
  - intros m. rewrite Hst. destruct (Nat.eqb_spec l m) as [E|E]; [|apply Hs].
    intros i p a Hp Ha.
    destruct (Nat.lt_ge_cases (S i) (length (stack led l))) as [Hlt|Hge].
    + rewrite nth_error_app1 in Hp, Ha by lia. eapply Hs; eauto.
    + assert (Hi : i < length (stack led l)).
      { destruct (Nat.lt_ge_cases i (length (stack led l))); auto.
        rewrite nth_error_app2 in Ha by lia. destruct (S i - length (stack led l)) eqn:Ed; [lia|].
        cbn in Ha. destruct n; discriminate. }
      rewrite nth_error_app1 in Hp by lia. rewrite nth_error_app2 in Ha by lia.
      replace (S i - length (stack led l)) with 0 in Ha by lia. cbn in Ha. inversion Ha; subst a.
      assert (Hl : lastopt (stack led l) = Some p).
      { destruct (stack led l) as [|x t0] eqn:Es using rev_ind; [cbn in Hi; lia|].
        rewrite lastopt_snoc. rewrite app_length in Hi, Hge. cbn in Hi, Hge.
        rewrite nth_error_app2 in Hp by lia. replace (i - length t0) with 0 in Hp by lia. cbn in Hp. auto. }
      destruct p as [q p]. destruct (Hlast _ _ Hl) as [H1 H2].
      unfold nw. cbn [snd]. split; [exact H1|]. split; [|split; [exact H2|exact I]].
      unfold Order. cbn. repeat split; apply Leoo_none.
  - intros m y Hy. rewrite Hst in Hy. destruct (Nat.eqb_spec l m) as [E|E]; [|eapply Hw; eauto].
    apply in_app_or in Hy. destruct Hy as [Hy|[Hy|[]]]; [eapply Hw; eauto|].
    subst y. unfold nw, WF. cbn. repeat split; exact I.
Qed.

Lemma pop_preserves (led : ledger) l :
  LInv net h led -> l < length led -> LInv net h (upd led l (fun s => removelast s)).
Proof.
  intros [He Hs Hw] G.
  assert (Hst : forall m, stack (upd led l (fun s => removelast s)) m = if l =? m then removelast (stack led l) else stack led m)
    by (intros m; apply stack_upd; auto).
  assert (Hin : forall m y, In y (stack (upd led l (fun s => removelast s)) m) -> In y (stack led m)).
  { intros m y. rewrite Hst. destruct (Nat.eqb_spec l m); auto. subst. apply In_removelast. }
  constructor.
  - intros l1 m1 x y Hne Hex Hx Hy. eapply He; eauto.
  - intros m i p a. rewrite Hst. destruct (Nat.eqb_spec l m) as [E|E]; [|apply Hs].
    intros Hp Ha. apply nth_error_removelast in Hp, Ha. subst. eapply Hs; eauto.
  - intros m y Hy. eapply Hw; eauto.
Qed.

Ltac ensn H X :=
  match type of H with bind (ensure ?b ?c) _ = Ok _ => destruct b eqn:X; [cbn [ensure bind] in H|cbn in H; discriminate] end.

(* every operation whose guard holds preserves the ledger invariant (Pop needs no guard beyond the
   link index being valid) *)
Theorem ledger_step_preserves (led led' : ledger) op :
  LInv net h led -> lop_apply net h led op = Ok led' -> LInv net h led'.
Proof.
  intros Inv Hop. destruct op as [l tr t|l k t|l k t|l k t|l]; cbn [lop_apply] in Hop.
  - (* Enter *)
    ensn Hop G. ensn Hop G0. ensn Hop G1. inversion Hop; subst led'; clear Hop.
    apply Nat.ltb_lt in G. apply enter_preserves; auto.
    + intros m b Hex Hb. unfold excl_released in G0. rewrite forallbi0_spec in G0.
      unfold stack in Hb. destruct (nth_error led m) as [sm|] eqn:Em.
      * rewrite (nth_error_nth _ _ _ Em) in Hb. specialize (G0 _ _ Em). apply orb_true_iff in G0.
        destruct G0 as [G0|G0]; [apply negb_true_iff in G0; apply exclb_spec in Hex; congruence|].
        rewrite forallb_forall in G0. apply leo_spec. apply G0; auto.
      * rewrite nth_overflow in Hb by (apply nth_error_None; auto). destruct Hb.
    + intros q p Hl. rewrite Hl in G1. apply andb_true_iff in G1. destruct G1 as [H1 H2].
      split; auto. apply orb_true_iff in H2. destruct H2 as [H2|H2]; [left; apply headwayb_spec; auto|right; apply leo_spec; auto].
  - (* FrontExit *)
    destruct (nth_error (stack led l) k) as [[tr a]|] eqn:Ek; [|discriminate].
    ensn Hop G. ensn Hop G0. ensn Hop G4. inversion Hop; subst led'; clear Hop.
    assert (Hl : l < length led).
    { destruct (Nat.lt_ge_cases l (length led)); auto. unfold stack in Ek. rewrite nth_overflow in Ek by lia. destruct k; discriminate. }
    apply andb_true_iff in G. destruct G as [G G3]. apply andb_true_iff in G. destruct G as [G1' G2].
    pose proof (li_wf _ _ _ Inv l (tr, a) (nth_error_In _ _ Ek)) as (W1 & W2 & W3 & W4). cbn [snd] in *.
    eapply (upd_field_preserves led l k (fun x => set_ax x t) tr a); eauto.
    + unfold WF. cbn. split; [exact G2|]. split; [exact W2|]. split; [exact W3|]. apply leoo_spec in G3. exact G3.
    + intros p Hp (P1 & (O1 & O2 & O3) & P3 & P4). rewrite Hp in G0. apply andb_true_iff in G0. destruct G0 as [Ga Gb].
      split; [exact P1|]. split; [|split; [exact P3|]].
      * split; [apply leoo_spec in Ga; exact Ga|]. split; [exact O2|exact O3].
      * unfold ExitHw. cbn. apply leo_spec in Gb. destruct Gb as (x & Ex & Hx).
        destruct (o_out p) as [u|]; [|discriminate]. cbn in Ex. inversion Ex; subst. exists u. auto.
    + intros s Hs' (P1 & (O1 & O2 & O3) & P3 & P4). rewrite Hs' in G4.
      split; [exact P1|]. split; [|split; [exact P3|exact P4]].
      split; [apply leoo_spec in G4; exact G4|]. split; [exact O2|exact O3].
  - (* TailEnter *)
    destruct (nth_error (stack led l) k) as [[tr a]|] eqn:Ek; [|discriminate].
    ensn Hop G. ensn Hop G0. inversion Hop; subst led'; clear Hop.
    assert (Hl : l < length led).
    { destruct (Nat.lt_ge_cases l (length led)); auto. unfold stack in Ek. rewrite nth_overflow in Ek by lia. destruct k; discriminate. }
    apply andb_true_iff in G. destruct G as [G G4]. apply andb_true_iff in G. destruct G as [G G3].
    apply andb_true_iff in G. destruct G as [G1' G2]. apply Nat.eqb_eq in G4.
    pose proof (li_wf _ _ _ Inv l (tr, a) (nth_error_In _ _ Ek)) as (W1 & W2 & W3 & W4). cbn [snd] in *.
    eapply (upd_field_preserves led l k (fun x => set_ce x t) tr a); eauto.
    + unfold WF. cbn. split; [exact W1|]. split; [exact G2|]. split; [apply leoo_spec in G3; exact G3|exact W4].
    + intros p Hp (P1 & (O1 & O2 & O3) & P3 & P4). rewrite Hp in G0.
      split; [exact P1|]. split; [|split; [exact P3|exact P4]].
      split; [exact O1|]. split; [apply leoo_spec in G0; exact G0|exact O3].
    + intros s Hs'. unfold next_of in Hs'. rewrite G4 in Hs'.
      destruct (nth_error (stack led l) (length (stack led l))) eqn:En; [|discriminate].
      assert (length (stack led l) < length (stack led l)) by (apply nth_error_Some; congruence). lia.
  - (* TailExit *)
    destruct (nth_error (stack led l) k) as [[tr a]|] eqn:Ek; [|discriminate].
    ensn Hop G. ensn Hop G0. ensn Hop G5. inversion Hop; subst led'; clear Hop.
    assert (Hl : l < length led).
    { destruct (Nat.lt_ge_cases l (length led)); auto. unfold stack in Ek. rewrite nth_overflow in Ek by lia. destruct k; discriminate. }
    apply andb_true_iff in G. destruct G as [G G4]. apply andb_true_iff in G. destruct G as [G G3].
    apply andb_true_iff in G. destruct G as [G1' G2].
    assert (Eout : o_out a = None) by (destruct (o_out a); [discriminate|reflexivity]).
    pose proof (li_wf _ _ _ Inv l (tr, a) (nth_error_In _ _ Ek)) as (W1 & W2 & W3 & W4). cbn [snd] in *.
    apply leo_spec in G3, G4. destruct G3 as (c & Ec & Hc). destruct G4 as (x & Ex & Hx).
    eapply (upd_field_preserves led l k (fun y => set_out y t) tr a); eauto.
    + intros z Hz. apply set_out_out; auto.
    + unfold WF. cbn. split; [exact W1|]. split; [exact W2|]. rewrite Ec, Ex. split; assumption.
    + intros p Hp (P1 & (O1 & O2 & O3) & P3 & P4). rewrite Hp in G0.
      split; [exact P1|]. split; [|split; [exact P3|exact P4]].
      split; [exact O1|]. split; [exact O2|apply leoo_spec in G0; exact G0].
    + intros s Hs' (P1 & (O1 & O2 & O3) & P3 & P4). rewrite Hs' in G5.
      apply andb_true_iff in G5. destruct G5 as [G5 Gc]. apply andb_true_iff in G5. destruct G5 as [Ga Gb].
      split; [exact P1|]. split; [|split].
      * split; [exact O1|]. split; [exact O2|apply leoo_spec in Ga; exact Ga].
      * apply orb_true_iff in Gb. destruct Gb as [Gb|Gb]; [left; apply headwayb_spec in Gb; exact Gb|].
        right. exists t. cbn. auto.
      * unfold ExitHw in *. cbn. destruct (o_ax s) as [xs|]; [|exact I]. exists t. auto.
  - (* Pop *)
    ensn Hop G. inversion Hop; subst led'. apply Nat.ltb_lt in G. apply pop_preserves; auto.
Qed.

(* every ledger reachable from the empty one by guarded operations satisfies the invariant *)
Fixpoint lrun (led : ledger) (ops : list lop) : res ledger :=
  match ops with
  | [] => Ok led
  | op :: rest => match lop_apply net h led op with Ok led' => lrun led' rest | Err c => Err c | Panic c => Panic c end
  end.

Theorem ledger_run_preserves ops : forall led led', LInv net h led -> lrun led ops = Ok led' -> LInv net h led'.
Proof.
  induction ops as [|op rest IH]; intros led led' Inv H; cbn in H.
  - inversion H; subst; auto.
  - destruct (lop_apply net h led op) as [led1| |] eqn:E; try discriminate.
    eapply IH; [|exact H]. eapply ledger_step_preserves; eauto.
Qed.

Theorem ledger_reachable_ok n ops led : lrun (repeat [] n) ops = Ok led -> LInv net h led.
Proof. apply ledger_run_preserves. apply LInv_empty. Qed.

End Step.

(* ---------------------------------------------------------------- C05: the returned result *)
Notation rnode := (rnode (F:=F)).
Notation tspec := (tspec (F:=F)).

Fixpoint NonDecr (ts : list F) : Prop :=
  match ts with a :: ((b :: _) as rest) => nleb a b = true /\ NonDecr rest | _ => True end.

(* every step of the timed walk follows an edge of the train's estimated-time network and is not
   faster than that edge's free-running duration (relative tolerance 1e-9) *)
Fixpoint TimedSteps (est : list rnode) (i : nat) (ti : F) (w : list (nat * F)) : Prop :=
  match w with
  | [] => True
  | (j, tj) :: rest =>
      (exists d, step_dur est i j = Some d /\ nleb (nadd ti d) (nadd tj (rtol tj (nadd ti d))) = true)
      /\ TimedSteps est j tj rest
  end.
Definition wend (i : nat) (w : list (nat * F)) : nat := last (map fst w) i.

Fixpoint PlanEq (a b : list (nat * F)) : Prop :=
  match a, b with
  | [], [] => True
  | (l, t) :: a', (m, u) :: b' => l = m /\ neqb t u = true /\ PlanEq a' b'
  | _, _ => False
  end.

Record TrainOK (net : list link) (t : tspec) (plan : list (nat * F)) : Prop := {
  tk_nonempty : plan <> [];
  tk_origin : exists l u rest, plan = (l, u) :: rest /\ In l (t_origs t) /\ nleb (t_depart t) u = true;
  tk_dest : In (last (map fst plan) 0) (t_dests t) /\ last (map fst plan) 0 <> 0;
  tk_contiguous : Chain net (map fst plan);
  tk_nondecr : NonDecr (map snd plan);
  (* every arrival time is a finite number (x - x = 0 fails for infinities and NaN) *)
  tk_finite : forall u, In u (map snd plan) -> neqb (nsub u u) n0 = true;
  (* never faster than the train's own free-running times: there is a timing of a start-to-end walk
     of its estimated-time network whose Arrive events are exactly the returned (link, time) list *)
  tk_paced : exists t0 w, TimedSteps (t_est t) 0 t0 w /\ wend 0 w = length (t_est t) - 1 /\
                          PlanEq (arrivals (t_est t) w) plan
}.

Definition ResultOK (net : list link) (ts : list tspec) (plans : list (list (nat * F))) : Prop :=
  length plans = length ts /\
  forall k t p, nth_error ts k = Some t -> nth_error plans k = Some p -> TrainOK net t p.

Lemma nondecr_spec ts : nondecr ts = true -> NonDecr ts.
Proof.
  induction ts as [|a r IH]; cbn; auto. destruct r as [|b r']; auto.
  intros H. apply andb_true_iff in H. destruct H as [H1 H2]. split; auto.
Qed.

Lemma timed_walk_ok_spec est : forall w i ti, timed_walk_ok est i ti w = true ->
  TimedSteps est i ti w /\ wend i w = length est - 1.
Proof.
  induction w as [|[j tj] rest IH]; intros i ti H; cbn [timed_walk_ok] in H.
  - apply Nat.eqb_eq in H. split; [exact I|]. exact H.
  - destruct (step_dur est i j) as [d|] eqn:Ed; [|discriminate].
    apply andb_true_iff in H. destruct H as [H1 H2]. destruct (IH _ _ H2) as [H3 H4].
    split.
    + cbn [TimedSteps]. split; auto. exists d. auto.
    + unfold wend in *. cbn [map fst]. rewrite last_cons. exact H4.
Qed.

Lemma plan_eqb_spec a : forall b, plan_eqb a b = true -> PlanEq a b.
Proof.
  induction a as [|[l t] a' IH]; intros [|[m u] b'] H; cbn in *; auto; try discriminate.
  apply andb_true_iff in H. destruct H as [H H3]. apply andb_true_iff in H. destruct H as [H1 H2].
  apply Nat.eqb_eq in H1. split; auto.
Qed.

Theorem train_ok_sound net t plan t0 w : train_ok net t plan t0 w = true -> TrainOK net t plan.
Proof.
  unfold train_ok, train_checks. cbn [forallb]. intros H.
  repeat (apply andb_true_iff in H; destruct H as [? H]). clear H.
  constructor.
  - destruct plan; [discriminate|discriminate].
  - destruct plan as [|[l u] rest]; [discriminate|]. cbn in *. exists l, u, rest. split; auto. split; [apply memb_spec; auto|auto].
  - apply andb_true_iff in H3. destruct H3 as [Ha Hb]. apply memb_spec in Ha. split; auto.
    intros E. rewrite E in Ha. apply negb_true_iff in Hb. apply memb_false in Hb. contradiction.
  - apply chainb_spec; auto.
  - apply nondecr_spec; auto.
  - rewrite forallb_forall in H6. exact H6.
  - exists t0, w. destruct (timed_walk_ok_spec _ _ _ _ H7) as [Hs He]. split; auto. split; auto. apply plan_eqb_spec; auto.
Qed.

Theorem result_ok_sound net : forall ts plans cert, result_ok net ts plans cert = true -> ResultOK net ts plans.
Proof.
  induction ts as [|t ts IH]; intros [|p ps] [|[t0 w] cs] H; cbn in H; try discriminate.
  - split; auto. intros k t p Hk. destruct k; discriminate.
  - apply andb_true_iff in H. destruct H as [H1 H2]. destruct (IH _ _ H2) as [Hl Hk].
    split; [cbn; lia|]. intros k t' p' Ht Hp. destruct k; cbn in Ht, Hp.
    + inversion Ht; inversion Hp; subst t' p'. exact (train_ok_sound _ _ _ _ _ H1).
    + eapply Hk; eauto.
Qed.

(* steps of a prefix / suffix of a timed walk are timed steps *)
Lemma TimedSteps_app est : forall w1 w2 i ti, TimedSteps est i ti (w1 ++ w2) ->
  TimedSteps est i ti w1 /\ TimedSteps est (fst (last w1 (i, ti))) (snd (last w1 (i, ti))) w2.
Proof.
  induction w1 as [|[j tj] r IH]; intros w2 i ti H; cbn [app] in *.
  - split; [exact I|exact H].
  - destruct H as [H1 H2]. destruct (IH _ _ _ H2) as [H3 H4]. split; [split; auto|].
    rewrite last_cons. exact H4.
Qed.

End PlanP.

(* the stuck-trains error names a non-empty set of distinct valid train indices *)
Theorem stuck_ok_sound n ids : stuck_ok n ids = true ->
  ids <> [] /\ (forall i, In i ids -> 1 <= i <= n) /\ NoDup ids.
Proof.
  unfold stuck_ok. intros H. apply andb_true_iff in H. destruct H as [H H3]. apply andb_true_iff in H. destruct H as [H1 H2].
  split; [destruct ids; [discriminate|discriminate]|]. split.
  - intros i Hi. rewrite forallb_forall in H2. specialize (H2 _ Hi). apply andb_true_iff in H2.
    destruct H2 as [Ha Hb]. apply Nat.leb_le in Ha, Hb. lia.
  - clear H1 H2. induction ids as [|x t IH]; [constructor|]. cbn in H3. apply andb_true_iff in H3. destruct H3 as [Ha Hb].
    constructor; auto. apply negb_true_iff in Ha. apply memb_false in Ha. exact Ha.
Qed.
