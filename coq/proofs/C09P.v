(* C09P.v -- accepted steps respect ratings, transient limits, ramp rate and the SOC window. *)
From Coq Require Import Reals Lra Lia List Bool ZArith Arith.
From AltModel Require Import Num Interp Powertrain Loco.
From AltProofs Require Import NumR InterpP PowertrainP LocoP C08P.
Import ListNotations.
Open Scope R_scope.

(* [v] is within limit [L] up to the code's own tolerance tau = 1e-3 (relative or absolute) *)
Definition within_tol (v L : R) : Prop := v < L * (1 + /1000) \/ v < L + /1000.
Definition within_tol_neg (v L : R) : Prop := L * (1 - /1000) < v \/ L - /1000 < v.

(* ---------------------------------------------------------------- engine *)
(* the published transient limit: ramp from the previous shaft power, never above rating (or floor) *)
Theorem fc_ramp (c c' : FC (F:=R)) dt : fc_set_cur_pwr_out_max c dt = Ok c' ->
  let floor := Rmax (fc_pwr_out_max_init c) (fc_pwr_out_max c / 10) in
  let lim := fcs_pwr_out_max (fc_state c') in
  0 < dt /\
  lim = Rmax (Rmin (fcs_pwr_brake (fc_state c) + fc_pwr_out_max c / fc_pwr_ramp_lag c * dt) (fc_pwr_out_max c)) floor /\
  lim <= Rmax (fc_pwr_out_max c) floor /\
  lim <= Rmax (fcs_pwr_brake (fc_state c) + fc_pwr_out_max c / fc_pwr_ramp_lag c * dt) floor /\
  floor <= lim /\ fc_pwr_out_max_init c' = floor.
Proof.
  unfold fc_set_cur_pwr_out_max. intros H. ens H. inversion H; subst c'; clear H. cbn. numR.
  apply Rltb_true in E. replace (IZR 10) with 10 by reflexivity.
  set (fl := Rmax (fc_pwr_out_max_init c) (fc_pwr_out_max c / 10)).
  set (ramp := fcs_pwr_brake (fc_state c) + fc_pwr_out_max c / fc_pwr_ramp_lag c * dt).
  repeat split; auto.
  - apply Rmax_lub; [|apply Rmax_r]. eapply Rle_trans; [apply Rmin_r|apply Rmax_l].
  - apply Rmax_lub; [|apply Rmax_r]. eapply Rle_trans; [apply Rmin_l|apply Rmax_l].
  - apply Rmax_r.
Qed.

Theorem fc_accepted_within (c c' : FC (F:=R)) req dt on eta : fc_solve_eta c req dt on true eta = Ok c' ->
  fcs_pwr_brake (fc_state c') = req /\ 0 <= req /\
  within_tol req (fc_pwr_out_max c) /\ within_tol req (fcs_pwr_out_max (fc_state c)).
Proof.
  intros H. destruct (fc_step_facts _ _ _ _ _ _ _ H) as (H0 & Hb & F). 
  repeat split; auto; apply F; reflexivity.
Qed.

(* ---------------------------------------------------------------- generator / drivetrain *)
Theorem gen_accepted_within (g g' : Gen (F:=R)) prop aux dt : gen_set_pwr_in_req g prop aux dt = Ok g' ->
  0 <= prop /\ prop + aux <= gen_pwr_out_max g /\
  gs_pwr_elec_prop_out (gen_state g') = prop /\ gs_pwr_elec_aux (gen_state g') = aux.
Proof.
  intros H. destruct (gen_req_unfold _ _ _ _ _ H) as (H0 & H1 & eta0 & _ & Hs).
  destruct (gen_step_facts _ _ _ _ _ _ Hs) as (_ & A & B & _). auto.
Qed.

Theorem edrv_accepted_within (e e' : Edrv (F:=R)) req dt : edrv_set_pwr_in_req e req dt = Ok e' ->
  req <= edrv_pwr_out_max e /\ es_pwr_out_req (edrv_state e') = req /\
  - es_pwr_mech_regen_max (edrv_state e) <= es_pwr_mech_prop_out (edrv_state e') /\
  es_pwr_mech_prop_out (edrv_state e') - es_pwr_mech_dyn_brake (edrv_state e') = req.
Proof.
  intros H. destruct (edrv_req_unfold _ _ _ _ H) as (H0 & eta0 & _ & Hs).
  pose proof (edrv_wheel_balance _ _ _ _ _ Hs) as W.
  destruct (edrv_step_facts _ _ _ _ _ Hs) as (_ & A & B & _). repeat split; auto.
  rewrite B. apply Rmax_r.
Qed.

(* published generator / drivetrain limits never exceed the ratings *)
Theorem gen_published_le_rating (g g' : Gen (F:=R)) pin aux : gen_set_cur_pwr_max_out g pin aux = Ok g' ->
  gs_pwr_elec_out_max (gen_state g') <= gen_pwr_out_max g /\
  gs_pwr_elec_prop_out_max (gen_state g') = gs_pwr_elec_out_max (gen_state g') - aux.
Proof. unfold gen_set_cur_pwr_max_out. intros H. bind_inv H. bind_inv H. inversion H; subst; clear H.
  cbn. numR. split; [apply Rmin_r|reflexivity]. Qed.

Theorem edrv_published_le_rating (e e' : Edrv (F:=R)) pin : edrv_set_cur_pwr_max_out e pin = Ok e' ->
  es_pwr_mech_out_max (edrv_state e') <= edrv_pwr_out_max e.
Proof. unfold edrv_set_cur_pwr_max_out. intros H. bind_inv H. bind_inv H. inversion H; subst; clear H.
  cbn. numR. apply Rmin_l. Qed.

(* ---------------------------------------------------------------- battery *)
(* two-point clamped interpolation in closed form *)
Lemma interp1d_two (x a b ya yb v : R) : a < b -> interp1d x [a; b] [ya; yb] false = Ok v ->
  v = if Rltb x a then ya else if Rltb b x then yb else ya + (yb - ya) / (b - a) * (x - a).
Proof.
  intros Hab. unfold interp1d, sumF, lenF.
  cbn [fold_left length forallb Nat.ltb Nat.leb Nat.sub Nat.add]. numR.
  change (IZR (Z.of_nat 2)) with 2.
  assert (Hi : (if Rleb (nthF [a; b] 0) x then 0%nat else scan 2 x [a; b] 0) = 0%nat).
  { unfold nthF. cbn [nth]. destruct (Rleb_spec a x) as [Hax|Hax]; [reflexivity|].
    cbn [scan Nat.add]. unfold nthF. cbn [nth]. numR. destruct (Rltb_spec b x); [lra|reflexivity]. }
  destruct (Reqb_spec ya ((0 + ya + yb) / 2)) as [E1|E1];
  destruct (Reqb_spec yb ((0 + ya + yb) / 2)) as [E2|E2]; cbn [andb].
  - intros H; inversion H; subst v; clear H.
    assert (ya = yb) by lra. subst yb.
    destruct (Rltb x a); [lra|]. destruct (Rltb b x); [lra|]. unfold Rdiv. lra.
  - destruct (Reqb_spec a ((0 + a + b) / 2)); [destruct (Reqb_spec b ((0 + a + b) / 2)); [exfalso; lra|]|]; cbn [andb];
    rewrite Hi; cbn [Nat.add Nat.leb]; unfold nthF; cbn [nth negb andb];
    intros H; inversion H; subst v; clear H;
    destruct (Rltb_spec x a); destruct (Rltb_spec b x); try lra;
    try (replace ((ya - ya) / (b - a)) with 0 by (unfold Rdiv; ring); lra);
    try (replace ((yb - yb) / (b - a)) with 0 by (unfold Rdiv; ring); lra).
  - destruct (Reqb_spec a ((0 + a + b) / 2)); [destruct (Reqb_spec b ((0 + a + b) / 2)); [exfalso; lra|]|]; cbn [andb];
    rewrite Hi; cbn [Nat.add Nat.leb]; unfold nthF; cbn [nth negb andb];
    intros H; inversion H; subst v; clear H;
    destruct (Rltb_spec x a); destruct (Rltb_spec b x); try lra;
    try (replace ((ya - ya) / (b - a)) with 0 by (unfold Rdiv; ring); lra);
    try (replace ((yb - yb) / (b - a)) with 0 by (unfold Rdiv; ring); lra).
  - destruct (Reqb_spec a ((0 + a + b) / 2)); [destruct (Reqb_spec b ((0 + a + b) / 2)); [exfalso; lra|]|]; cbn [andb];
    rewrite Hi; cbn [Nat.add Nat.leb]; unfold nthF; cbn [nth negb andb];
    intros H; inversion H; subst v; clear H;
    destruct (Rltb_spec x a); destruct (Rltb_spec b x); try lra;
    try (replace ((ya - ya) / (b - a)) with 0 by (unfold Rdiv; ring); lra);
    try (replace ((yb - yb) / (b - a)) with 0 by (unfold Rdiv; ring); lra).
Qed.

(* the SOC-dependent limits published for a step, in closed form *)
Theorem res_published (r r' : Res (F:=R)) aux cb db : res_set_cur_pwr_out_max r aux cb db = Ok r' ->
  let s' := res_state r' in
  rs_min_soc s' < rs_soc_lo_ramp_start s' -> rs_soc_hi_ramp_start s' < rs_max_soc s' ->
  0 <= res_pwr_out_max r ->
  let soc := rs_soc (res_state r) in let pmax := res_pwr_out_max r in
  rs_soc s' = soc /\ res_pwr_out_max r' = pmax /\ res_energy_capacity r' = res_energy_capacity r /\
  rs_pwr_disch_max s' =
    (if Rltb soc (rs_min_soc s') then 0 else if Rltb (rs_soc_lo_ramp_start s') soc then pmax
     else 0 + (pmax - 0) / (rs_soc_lo_ramp_start s' - rs_min_soc s') * (soc - rs_min_soc s')) /\
  rs_pwr_charge_max s' =
    (if Rltb soc (rs_soc_hi_ramp_start s') then pmax else if Rltb (rs_max_soc s') soc then 0
     else pmax + (0 - pmax) / (rs_max_soc s' - rs_soc_hi_ramp_start s') * (soc - rs_soc_hi_ramp_start s')) /\
  0 <= rs_pwr_disch_max s' <= pmax /\ 0 <= rs_pwr_charge_max s' <= pmax /\
  rs_pwr_prop_out_max s' = rs_pwr_disch_max s' - aux /\
  rs_pwr_regen_out_max s' = rs_pwr_charge_max s' + aux.
Proof.
  unfold res_set_cur_pwr_out_max. intros H. apply bind_ok in H. destruct H as (d & Hd & H).
  apply bind_ok in H. destruct H as (ch & Hch & H). inversion H; subst r'; clear H.
  cbn [res_state res_with rs_min_soc rs_soc_lo_ramp_start rs_soc_hi_ramp_start rs_max_soc rs_soc
       rs_pwr_disch_max rs_pwr_charge_max rs_pwr_prop_out_max rs_pwr_regen_out_max res_pwr_out_max
       res_energy_capacity]. numR.
  intros Hlo Hhi Hp.
  match type of Hlo with ?a < ?b => set (smin := a) in *; set (slo := b) in * end.
  match type of Hhi with ?a < ?b => set (shi := a) in *; set (smax := b) in * end.
  apply (interp1d_two _ _ _ _ _ _ Hlo) in Hd. apply (interp1d_two _ _ _ _ _ _ Hhi) in Hch.
  rewrite !Rmult_1_l. rewrite Hd, Hch.
  set (soc := rs_soc (res_state r)) in *. set (pm := res_pwr_out_max r) in *.
  split; [reflexivity|]. split; [reflexivity|]. split; [reflexivity|]. split; [reflexivity|]. split; [reflexivity|].
  split; [|split; [|split; reflexivity]].
  - destruct (Rltb_spec soc smin) as [A|A]; [lra|]. destruct (Rltb_spec slo soc) as [B|B]; [lra|].
    match goal with |- context [(pm - 0) / ?d * ?x] =>
      assert (Ht : 0 <= x / d <= 1) by (split; [apply Rmult_le_pos; [lra|left; apply Rinv_0_lt_compat; lra]|
        apply (Rmult_le_reg_r d); [lra|]; unfold Rdiv; rewrite Rmult_assoc, Rinv_l by lra; lra]);
      replace (0 + (pm - 0) / d * x) with (pm * (x / d)) by (unfold Rdiv; field; lra) end.
    split; nra.
  - destruct (Rltb_spec soc shi) as [A|A]; [lra|]. destruct (Rltb_spec smax soc) as [B|B]; [lra|].
    match goal with |- context [(0 - pm) / ?d * ?x] =>
      assert (Ht : 0 <= x / d <= 1) by (split; [apply Rmult_le_pos; [lra|left; apply Rinv_0_lt_compat; lra]|
        apply (Rmult_le_reg_r d); [lra|]; unfold Rdiv; rewrite Rmult_assoc, Rinv_l by lra; lra]);
      replace (pm + (0 - pm) / d * x) with (pm * (1 - x / d)) by (unfold Rdiv; field; lra) end.
    split; nra.
Qed.

(* an accepted battery step is within rating and within the published limits (code's tolerance) *)
Theorem res_accepted_within (r r' : Res (F:=R)) prop aux dt eta : res_solve_eta r prop aux dt eta = Ok r' ->
  let s := res_state r in let el := prop + aux in
  rs_pwr_out_electrical (res_state r') = el /\
  (0 <= el -> within_tol el (res_pwr_out_max r) /\ within_tol el (rs_pwr_disch_max s)) /\
  (el < 0 -> within_tol_neg el (- res_pwr_out_max r) /\ within_tol_neg el (- rs_pwr_charge_max s)) /\
  (rs_max_soc s < rs_soc s -> 0 <= prop) /\ (rs_soc s < rs_min_soc s -> prop <= 0).
Proof.
  intros H. destruct (res_step_facts _ _ _ _ _ _ H) as (_ & Hp & Ha & He & _ & _ & _ & _ & _ & _ & _ & _ & _ & _ & _ & _ & _ & _ & Hl).
  cbv zeta. rewrite He, Hp, Ha. split; [reflexivity|].
  unfold res_limit_checks in Hl. ens Hl. ens Hl. numR.
  assert (Hs1 : rs_max_soc (res_state r) < rs_soc (res_state r) -> 0 <= prop).
  { intros Hx. apply orb_true_iff in E. destruct E as [E|E]; [apply Rleb_true in E; lra|apply Rleb_true in E; exact E]. }
  assert (Hs2 : rs_soc (res_state r) < rs_min_soc (res_state r) -> prop <= 0).
  { intros Hx. apply orb_true_iff in E0. destruct E0 as [E0|E0]; [apply Rleb_true in E0; lra|apply Rleb_true in E0; exact E0]. }
  destruct (Rleb_spec 0 (prop + aux)) as [Hpos|Hneg].
  - ens Hl. apply ensure_ok' in Hl. apply almost_le_spec in E1, Hl. rewrite eps3_val in E1, Hl.
    split; [intros _; split; assumption|]. split; [intros; lra|]. split; assumption.
  - ens Hl. apply ensure_ok' in Hl. apply almost_ge_spec in E1, Hl. rewrite eps3_val in E1, Hl.
    split; [intros; lra|]. split; [intros _; split; assumption|]. split; assumption.
Qed.

(* SOC stays inside the published window, for time steps up to the stated bound.
   D, C: the published discharge / charge limits; the hypotheses on them are what [res_published]
   establishes (closed form); eta in [eta_lo, 1]. *)
Theorem soc_window (r r' : Res (F:=R)) prop aux dt eta eta_lo :
  res_solve_eta r prop aux dt eta = Ok r' ->
  let s := res_state r in let cap := res_energy_capacity r in let pmax := res_pwr_out_max r in
  0 < dt -> 0 < cap -> 0 <= pmax -> 0 < eta_lo <= eta -> eta <= 1 ->
  rs_min_soc s <= rs_soc s <= rs_max_soc s ->
  rs_min_soc s < rs_soc_lo_ramp_start s -> rs_soc_hi_ramp_start s < rs_max_soc s ->
  0 <= rs_pwr_disch_max s <= pmax * (rs_soc s - rs_min_soc s) / (rs_soc_lo_ramp_start s - rs_min_soc s) ->
  0 <= rs_pwr_charge_max s <= pmax * (rs_max_soc s - rs_soc s) / (rs_max_soc s - rs_soc_hi_ramp_start s) ->
  (* the step-size bound *)
  pmax * (1 + /1000) * dt <= cap * eta_lo * (rs_soc_lo_ramp_start s - rs_min_soc s) ->
  pmax * (1 + /1000) * dt <= cap * (rs_max_soc s - rs_soc_hi_ramp_start s) ->
  rs_min_soc s - /1000 * dt / (eta_lo * cap) < rs_soc (res_state r') /\
  rs_soc (res_state r') < rs_max_soc s + /1000 * dt / cap.
Proof.
  intros H. cbv zeta. intros Hdt Hcap Hpm [Hlo0 Hlo] Hhi1 [Hs1 Hs2] Hwlo Hwhi [HD0 HD] [HC0 HC] Bd Bc.
  destruct (res_accepted_within _ _ _ _ _ _ H) as (_ & Wd & Wc & _).
  destruct (res_step_facts _ _ _ _ _ _ H) as (_ & Hp & Ha & He & Hc & _ & _ & _ & _ & _ & _ & Hsoc & _).
  cbv zeta in *. rewrite Hsoc, Hc, He, Hp, Ha.
  set (el := prop + aux) in *. set (s := res_state r) in *.
  set (cap := res_energy_capacity r) in *. set (pm := res_pwr_out_max r) in *.
  set (wl := rs_soc_lo_ramp_start s - rs_min_soc s) in *. set (wh := rs_max_soc s - rs_soc_hi_ramp_start s) in *.
  assert (Hinv : 1 <= / eta) by (rewrite <- Rinv_1; apply Rinv_le_contravar; lra).
  assert (Hinvlo : / eta <= / eta_lo) by (apply Rinv_le_contravar; lra).
  assert (Hil : 0 < / eta_lo) by (apply Rinv_0_lt_compat; lra).
  assert (Hic : 0 < / cap) by (apply Rinv_0_lt_compat; lra).
  destruct (Rltb_spec 0 el) as [Hpos|Hneg].
  - (* discharging: SOC falls, cannot go below the window (minus the absolute tolerance) *)
    destruct (Wd ltac:(lra)) as [_ Wd2].
    assert (Hel : el < rs_pwr_disch_max s * (1 + /1000) + /1000) by (destruct Wd2; nra).
    set (D := rs_pwr_disch_max s) in *.
    assert (HDw : D * wl <= pm * (rs_soc s - rs_min_soc s)).
    { unfold Rdiv in HD. apply (Rmult_le_compat_r wl) in HD; [|unfold wl; lra].
      rewrite Rmult_assoc, Rinv_l in HD by (unfold wl; lra). lra. }
    (* chem * dt / cap <= el / eta_lo * dt / cap *)
    assert (Hchem : el / eta * dt / cap <= el * / eta_lo * dt * / cap).
    { unfold Rdiv. apply Rmult_le_compat_r; [lra|]. apply Rmult_le_compat_r; [lra|].
      apply Rmult_le_compat_l; lra. }
    split.
    + (* lower bound *)
      assert (Hkey : el * / eta_lo * dt * / cap < (rs_soc s - rs_min_soc s) + / 1000 * dt / (eta_lo * cap)).
      { assert (Hx : el * dt < (D * (1 + /1000) + /1000) * dt) by nra.
        assert (Hy : D * (1 + /1000) * dt * wl <= cap * eta_lo * wl * (rs_soc s - rs_min_soc s)).
        { assert (0 <= rs_soc s - rs_min_soc s) by lra.
          assert (D * wl * ((1 + /1000) * dt) <= pm * (rs_soc s - rs_min_soc s) * ((1 + /1000) * dt)) by (apply Rmult_le_compat_r; nra).
          nra. }
        assert (Hz : D * (1 + /1000) * dt <= cap * eta_lo * (rs_soc s - rs_min_soc s)).
        { apply (Rmult_le_reg_r wl); [unfold wl; lra|]. nra. }
        replace (/ 1000 * dt / (eta_lo * cap)) with (/1000 * dt * / eta_lo * / cap) by (field; lra).
        assert (Hw : el * dt * (/ eta_lo * / cap) < (cap * eta_lo * (rs_soc s - rs_min_soc s) + /1000 * dt) * (/ eta_lo * / cap)).
        { apply Rmult_lt_compat_r; [nra|]. nra. }
        replace ((cap * eta_lo * (rs_soc s - rs_min_soc s) + /1000 * dt) * (/ eta_lo * / cap))
          with ((rs_soc s - rs_min_soc s) + /1000 * dt * / eta_lo * / cap) in Hw by (field; lra).
        lra. }
      lra.
    + (* upper bound: SOC only falls *)
      assert (0 <= el / eta * dt / cap).
      { unfold Rdiv. repeat apply Rmult_le_pos; try lra. }
      assert (0 < / 1000 * dt / cap) by (unfold Rdiv; repeat apply Rmult_lt_0_compat; lra).
      lra.
  - (* charging or idle: SOC rises by at most (C + tol) dt / cap *)
    assert (Hel0 : el <= 0) by lra.
    assert (Hch : el <= el * eta <= 0) by (split; nra).
    split.
    + assert (0 <= - (el * eta) * dt / cap) by (unfold Rdiv; repeat apply Rmult_le_pos; lra).
      assert (0 < / 1000 * dt / (eta_lo * cap)).
      { unfold Rdiv. apply Rmult_lt_0_compat; [lra|]. apply Rinv_0_lt_compat. nra. }
      unfold Rdiv in *. lra.
    + destruct (Req_dec el 0) as [Hz|Hnz].
      { rewrite Hz. assert (0 < / 1000 * dt / cap) by (unfold Rdiv; repeat apply Rmult_lt_0_compat; lra).
        unfold Rdiv in *. lra. }
      destruct (Wc ltac:(lra)) as [_ Wc2].
      set (C := rs_pwr_charge_max s) in *.
      assert (Hel : - C - /1000 < el) by (destruct Wc2; nra).
      assert (HCw : C * wh <= pm * (rs_max_soc s - rs_soc s)).
      { unfold Rdiv in HC. apply (Rmult_le_compat_r wh) in HC; [|unfold wh; lra].
        rewrite Rmult_assoc, Rinv_l in HC by (unfold wh; lra). lra. }
      assert (Hz : C * dt <= cap * (rs_max_soc s - rs_soc s)).
      { apply (Rmult_le_reg_r wh); [unfold wh; lra|].
        assert (0 <= rs_max_soc s - rs_soc s) by lra.
        assert (C * wh * dt <= pm * (rs_max_soc s - rs_soc s) * dt) by (apply Rmult_le_compat_r; nra).
        assert (pm * dt <= cap * wh) by nra. nra. }
      assert (Hrise : - (el * eta) * dt * / cap < (rs_max_soc s - rs_soc s) + /1000 * dt * / cap).
      { assert (- (el * eta) <= - el) by nra.
        assert (Hw : - el * dt * / cap < (cap * (rs_max_soc s - rs_soc s) + /1000 * dt) * / cap).
        { apply Rmult_lt_compat_r; [lra|]. nra. }
        replace ((cap * (rs_max_soc s - rs_soc s) + /1000 * dt) * / cap)
          with ((rs_max_soc s - rs_soc s) + /1000 * dt * / cap) in Hw by (field; lra).
        assert (- (el * eta) * dt * / cap <= - el * dt * / cap) by (repeat apply Rmult_le_compat_r; lra).
        lra. }
      unfold Rdiv in *. lra.
Qed.

Lemma edrv_regen_le_max' (e e' : Edrv (F:=R)) pin : edrv_set_cur_pwr_regen_max e pin = Ok e' ->
  0 <= es_pwr_mech_regen_max (edrv_state e') <= edrv_pwr_out_max e /\ edrv_pwr_out_max e' = edrv_pwr_out_max e.
Proof. unfold edrv_set_cur_pwr_regen_max. intros H. bind_inv H. bind_inv H. ens H.
  inversion H; subst; clear H. cbn. numR. apply Rleb_true in E. split; [split; [exact E|apply Rmin_r]|reflexivity]. Qed.
Lemma edrv_regen_keeps_out_max (e e' : Edrv (F:=R)) pin : edrv_set_cur_pwr_regen_max e pin = Ok e' ->
  es_pwr_mech_out_max (edrv_state e') = es_pwr_mech_out_max (edrv_state e).
Proof. unfold edrv_set_cur_pwr_regen_max. intros H. bind_inv H. bind_inv H. ens H.
  inversion H; subst; reflexivity. Qed.
Lemma edrv_rate_out_max (e : Edrv (F:=R)) r :
  es_pwr_mech_out_max (edrv_state (edrv_set_pwr_rate_out_max e r)) = es_pwr_mech_out_max (edrv_state e).
Proof. reflexivity. Qed.
Lemma edrv_rate_par_max (e : Edrv (F:=R)) r : edrv_pwr_out_max (edrv_set_pwr_rate_out_max e r) = edrv_pwr_out_max e.
Proof. reflexivity. Qed.

(* ---------------------------------------------------------------- locomotive level *)
Lemma loco_sim_step_stages (l l' : Loco (F:=R)) pwr dt on : loco_sim_solve_step l pwr dt on = Ok l' ->
  exists l1, loco_pre_step l dt on = Ok l1 /\ loco_solve l1 pwr dt on = Ok l'.
Proof. unfold loco_sim_solve_step, loco_pre_step. intros H.
  apply bind_ok in H. destruct H as (l1 & H1 & H). apply bind_ok in H. destruct H as (l2 & H2 & H).
  ens H. inversion H; subst. eauto. Qed.

(* conventional unit: limits published for the step and what an accepted step respects *)
Definition conv_limits_ok (c0 c1 c' : Conv (F:=R)) (pwr dt aux : R) (on : bool) : Prop :=
  let f0 := cv_fc c0 in let f1 := cv_fc c1 in let f' := cv_fc c' in
  let floor := Rmax (fc_pwr_out_max_init f0) (fc_pwr_out_max f0 / 10) in
  let pub := fcs_pwr_out_max (fc_state f1) in
  let shaft := fcs_pwr_brake (fc_state f') in
  (* ramp law of the published transient engine limit *)
  0 < dt /\
  pub <= Rmax (fc_pwr_out_max f0) floor /\
  pub <= Rmax (fcs_pwr_brake (fc_state f0) + fc_pwr_out_max f0 / fc_pwr_ramp_lag f0 * dt) floor /\
  floor <= pub /\
  (* the accepted step *)
  fcs_pwr_out_max (fc_state f') = pub /\ 0 <= shaft /\
  within_tol shaft (fc_pwr_out_max f0) /\ within_tol shaft pub /\
  gs_pwr_elec_prop_out (gen_state (cv_gen c')) + gs_pwr_elec_aux (gen_state (cv_gen c')) <= gen_pwr_out_max (cv_gen c0) /\
  gs_pwr_elec_out_max (gen_state (cv_gen c1)) <= gen_pwr_out_max (cv_gen c0) /\
  gs_pwr_elec_prop_out_max (gen_state (cv_gen c1)) = gs_pwr_elec_out_max (gen_state (cv_gen c1)) - aux /\
  pwr <= edrv_pwr_out_max (cv_edrv c0) /\
  es_pwr_mech_out_max (edrv_state (cv_edrv c1)) <= edrv_pwr_out_max (cv_edrv c0).

Theorem conv_step_limits (c0 c1 c' : Conv (F:=R)) pwr dt aux on :
  conv_set_cur_pwr_max_out c0 aux dt = Ok c1 -> conv_solve c1 pwr dt on aux true = Ok c' ->
  conv_limits_ok c0 c1 c' pwr dt aux on.
Proof.
  intros Hlim Hsol. unfold conv_set_cur_pwr_max_out in Hlim.
  apply bind_ok in Hlim. destruct Hlim as (f1 & Hf1 & Hlim).
  apply bind_ok in Hlim. destruct Hlim as (g1 & Hg1 & Hlim).
  apply bind_ok in Hlim. destruct Hlim as (e1 & He1 & Hlim). inversion Hlim; subst c1; clear Hlim.
  unfold conv_solve in Hsol. cbn [cv_fc cv_gen cv_edrv] in Hsol.
  apply bind_ok in Hsol. destruct Hsol as (e' & He' & Hsol).
  apply bind_ok in Hsol. destruct Hsol as (g' & Hg' & Hsol). ens Hsol.
  apply bind_ok in Hsol. destruct Hsol as (f' & Hf' & Hsol). inversion Hsol; subst c'; clear Hsol.
  unfold conv_limits_ok. cbn [cv_fc cv_gen cv_edrv].
  destruct (fc_ramp _ _ _ Hf1) as (Hdt & _ & R1 & R2 & R3 & _).
  destruct (fc_limits_frame _ _ _ Hf1) as (Pf & _).
  apply fc_solve_unfold in Hf'. destruct Hf' as (ef & _ & Hf').
  destruct (fc_accepted_within _ _ _ _ _ _ Hf') as (Hb & H0 & W1 & W2).
  destruct (fc_step_facts _ _ _ _ _ _ _ Hf') as (_ & _ & _ & _ & _ & _ & _ & _ & _ & _ & _ & _ & _ & Hpub & _).
  unfold fc_par in Pf. injection Pf as P1 P2 P3 P4 P5.
  destruct (gen_published_le_rating _ _ _ _ Hg1) as (G1 & G2).
  destruct (gen_limits_frame _ _ _ _ Hg1) as (Pg & _). unfold gen_par in Pg. injection Pg as Q1 Q2 Q3.
  destruct (gen_accepted_within _ _ _ _ _ Hg') as (_ & G3 & G4 & G5).
  pose proof (edrv_published_le_rating _ _ _ He1) as E1.
  destruct (edrv_limits_frame _ _ _ He1) as (Pe & _). unfold edrv_par in Pe. injection Pe as T1 T2 T3.
  destruct (edrv_accepted_within _ _ _ _ He') as (E2 & _).
  rewrite Hb. rewrite G4, G5. cbn in G3, E2. rewrite P1 in W1. rewrite Q1 in G3. rewrite T1 in E2.
  split; [exact Hdt|]. split; [exact R1|]. split; [exact R2|]. split; [exact R3|].
  split; [exact Hpub|]. split; [exact H0|]. split; [exact W1|]. split; [exact W2|].
  split; [exact G3|]. split; [exact G1|]. split; [exact G2|]. split; [exact E2|exact E1].
Qed.

(* battery-electric unit *)
Definition bel_limits_ok (b0 b1 b' : Bel (F:=R)) (pwr aux : R) : Prop :=
  let r1 := bl_res b1 in let s1 := res_state r1 in let s' := res_state (bl_res b') in
  let el := rs_pwr_out_electrical s' in
  (0 <= el -> within_tol el (res_pwr_out_max (bl_res b0)) /\ within_tol el (rs_pwr_disch_max s1)) /\
  (el < 0 -> within_tol_neg el (- res_pwr_out_max (bl_res b0)) /\ within_tol_neg el (- rs_pwr_charge_max s1)) /\
  rs_pwr_disch_max s' = rs_pwr_disch_max s1 /\ rs_pwr_charge_max s' = rs_pwr_charge_max s1 /\
  rs_pwr_prop_out_max s1 = rs_pwr_disch_max s1 - aux /\
  rs_pwr_regen_out_max s1 = rs_pwr_charge_max s1 + aux /\
  pwr <= edrv_pwr_out_max (bl_edrv b0) /\
  es_pwr_mech_out_max (edrv_state (bl_edrv b1)) <= edrv_pwr_out_max (bl_edrv b0) /\
  0 <= es_pwr_mech_regen_max (edrv_state (bl_edrv b1)) <= edrv_pwr_out_max (bl_edrv b0) /\
  - es_pwr_mech_regen_max (edrv_state (bl_edrv b1)) <= es_pwr_mech_prop_out (edrv_state (bl_edrv b')).

Theorem bel_step_limits (b0 b1 b' : Bel (F:=R)) pwr dt aux :
  bel_set_cur_pwr_max_out b0 aux dt = Ok b1 -> bel_solve b1 pwr dt aux = Ok b' ->
  bel_limits_ok b0 b1 b' pwr aux.
Proof.
  intros Hlim Hsol. unfold bel_set_cur_pwr_max_out in Hlim.
  apply bind_ok in Hlim. destruct Hlim as (r1 & Hr1 & Hlim).
  apply bind_ok in Hlim. destruct Hlim as (e1 & He1 & Hlim).
  apply bind_ok in Hlim. destruct Hlim as (e2 & He2 & Hlim). inversion Hlim; subst b1; clear Hlim.
  unfold bel_solve in Hsol. cbn [bl_res bl_edrv] in Hsol.
  apply bind_ok in Hsol. destruct Hsol as (e' & He' & Hsol).
  apply bind_ok in Hsol. destruct Hsol as (r' & Hr' & Hsol). inversion Hsol; subst b'; clear Hsol.
  unfold bel_limits_ok. cbn [bl_res bl_edrv]. rewrite ?edrv_rate_regen.
  unfold res_solve in Hr'. apply bind_ok in Hr'. destruct Hr' as (? & _ & Hr').
  destruct (interp3d _ _ _ _ _) as [er| |] eqn:Her; try discriminate.
  destruct (res_accepted_within _ _ _ _ _ _ Hr') as (Hel & Wd & Wc & _).
  destruct (res_step_facts _ _ _ _ _ _ Hr') as (_ & _ & _ & _ & _ & _ & _ & _ & _ & _ & _ & _ & _ & _ & Kd & Kc & _).
  destruct (res_limits_frame _ _ _ _ _ Hr1) as (Pr & _). unfold res_par in Pr. injection Pr as P1 P2 P3 P4 P5 P6 P7 P8.
  pose proof (edrv_published_le_rating _ _ _ He1) as E1.
  destruct (edrv_limits_frame _ _ _ He1) as (Pe1 & _). unfold edrv_par in Pe1. injection Pe1 as T1 T2 T3.
  destruct (edrv_regen_le_max' _ _ _ He2) as (Bnd & Pm).
  destruct (edrv_accepted_within _ _ _ _ He') as (E2 & _ & E3 & _).
  rewrite ?edrv_rate_par_max in E2. rewrite ?edrv_rate_regen in E3.
  rewrite Pm, T1 in E2. rewrite T1 in Bnd.
  assert (Hpm : rs_pwr_prop_out_max (res_state r1) = rs_pwr_disch_max (res_state r1) - aux /\
                rs_pwr_regen_out_max (res_state r1) = rs_pwr_charge_max (res_state r1) + aux).
  { unfold res_set_cur_pwr_out_max in Hr1. apply bind_ok in Hr1. destruct Hr1 as (d & _ & Hr1).
    apply bind_ok in Hr1. destruct Hr1 as (ch & _ & Hr1). inversion Hr1; subst r1; clear Hr1.
    cbn. numR. split; reflexivity. }
  destruct Hpm as (M1 & M2).
  rewrite Hel. rewrite P1 in Wd, Wc. rewrite edrv_rate_out_max, (edrv_regen_keeps_out_max _ _ _ He2).
  split; [exact Wd|]. split; [exact Wc|]. split; [exact Kd|]. split; [exact Kc|].
  split; [exact M1|]. split; [exact M2|]. split; [exact E2|]. split; [exact E1|]. split; [exact Bnd|exact E3].
Qed.

(* LocomotiveSimulation::solve_step, limit checking on *)
Definition loco_limits_ok (l l1 l' : Loco (F:=R)) (pwr dt : R) (on : bool) : Prop :=
  match lc_type l, lc_type l1, lc_type l' with
  | PConv c0, PConv c1, PConv c' => conv_limits_ok c0 c1 c' pwr dt (aux_of l on) on
  | PBel b0, PBel b1, PBel b' => bel_limits_ok b0 b1 b' pwr (aux_of l on)
  | _, _, _ => False
  end /\
  (* what the locomotive publishes is what its drivetrain publishes; limits survive the solve *)
  ls_pwr_out_max (lc_state l1) = es_pwr_mech_out_max (edrv_state (loco_edrv l1)) /\
  ls_pwr_regen_max (lc_state l1) = es_pwr_mech_regen_max (edrv_state (loco_edrv l1)) /\
  ls_pwr_out_max (lc_state l') = ls_pwr_out_max (lc_state l1) /\
  ls_pwr_regen_max (lc_state l') = ls_pwr_regen_max (lc_state l1).

Theorem loco_stages_limits (l l1 l' : Loco (F:=R)) pwr dt on :
  lc_assert_limits l = true ->
  loco_pre_step l dt on = Ok l1 -> loco_solve l1 pwr dt on = Ok l' -> loco_limits_ok l l1 l' pwr dt on.
Proof.
  intros Hal Hpre Hsol. unfold loco_pre_step, loco_set_cur_pwr_max_out in Hpre.
  apply bind_ok in Hpre. destruct Hpre as (t1 & Ht1 & Hpre).
  apply bind_ok in Hpre. destruct Hpre as (u & _ & Hpre). inversion Hpre; subst l1; clear Hpre.
  unfold loco_solve in Hsol. cbv zeta in Hsol.
  apply bind_ok in Hsol; destruct Hsol as ([] & Hlimchk & Hsol). apply ensure_ok in Hlimchk.
  cbn [lc_state lc_type loco_with lc_assert_limits loco_set_pwr_aux ls_pwr_aux] in *.
  apply bind_ok in Hsol. destruct Hsol as (t2 & Ht2 & Hsol). inversion Hsol; subst l'; clear Hsol.
  unfold loco_limits_ok, loco_edrv. cbn [lc_state lc_type loco_with ls_pwr_out_max ls_pwr_regen_max]. numR.
  fold (aux_of l on) in *.
  split; [|repeat split; reflexivity].
  destruct (lc_type l) as [c0|b0].
  - apply bind_ok in Ht1. destruct Ht1 as (c1 & Hc1 & Ht1). inversion Ht1; subst t1; clear Ht1.
    apply bind_ok in Ht2. destruct Ht2 as (c2 & Hc2 & Ht2). inversion Ht2; subst t2; clear Ht2.
    rewrite Hal in Hc2. eapply conv_step_limits; eauto.
  - apply bind_ok in Ht1. destruct Ht1 as (b1 & Hb1 & Ht1). inversion Ht1; subst t1; clear Ht1.
    apply bind_ok in Ht2. destruct Ht2 as (b2 & Hb2 & Ht2). inversion Ht2; subst t2; clear Ht2.
    eapply bel_step_limits; eauto.
Qed.

Theorem loco_step_limits (l l' : Loco (F:=R)) pwr dt on :
  lc_assert_limits l = true -> loco_sim_solve_step l pwr dt on = Ok l' ->
  exists l1, loco_pre_step l dt on = Ok l1 /\ loco_limits_ok l l1 l' pwr dt on.
Proof. intros Hal H. destruct (loco_sim_step_stages _ _ _ _ _ H) as (l1 & H1 & H2).
  exists l1. split; [exact H1|]. eapply loco_stages_limits; eauto. Qed.

(* every step of every accepted run *)
Theorem run_every_step_limits l pre i post l' :
  lc_assert_limits l = true -> run C08P.lstep l (pre ++ i :: post) = Ok l' ->
  exists m m1 m', run C08P.lstep l pre = Ok m /\ C08P.lstep m i = Ok m' /\
    loco_pre_step m (snd (fst i)) (snd i) = Ok m1 /\
    loco_limits_ok m m1 m' (fst (fst i)) (snd (fst i)) (snd i).
Proof.
  intros Hal Hrun. apply run_prefix in Hrun. destruct Hrun as (m & Hpre & Hrest).
  assert (Hm : lc_assert_limits m = true).
  { clear Hrest. revert l Hal Hpre. induction pre as [|j t IH]; intros l Hal Hpre; cbn in Hpre.
    - inversion Hpre; subst; auto.
    - destruct (C08P.lstep l j) as [l2| |] eqn:E; try discriminate. apply (IH l2); auto.
      destruct j as [[p d] o]. cbn in E. apply loco_step_spec in E. destruct E as (_ & _ & A & _). congruence. }
  cbn in Hrest. destruct (C08P.lstep m i) as [m'| |] eqn:Es; try discriminate.
  destruct i as [[pwr dt] on]. cbn in Es |- *.
  destruct (loco_step_limits _ _ _ _ _ Hm Es) as (m1 & H1 & H2).
  exists m, m1, m'. split; [exact Hpre|]. split; [exact Es|]. split; [exact H1|exact H2].
Qed.

(* The step-size bound of [soc_window] cannot be dropped: one accepted 1 s step of a small battery
   (capacity 1000 J, rating 1000 W, SOC at the ramp start 0.2, limit = rating) drives the SOC to -0.8,
   far below its minimum 0.1. *)
Definition rs_w : ResState (F:=R) :=
  Build_ResState 1%Z 1000 0 1000 0 0 0 0 0 0 0 0 0 0 0 (9/10) (8/10) (1/10) (2/10) (2/10) 1 1 25.
Definition res_w : Res (F:=R) := Build_Res rs_w [25] [0; 1] [0; 1] [[[1; 1]; [1; 1]]] 1000 1000 (1/10) (9/10) None None.

Theorem soc_window_refuted : exists r', res_solve_eta res_w 1000 0 1 1 = Ok r' /\
  rs_min_soc rs_w <= rs_soc rs_w <= rs_max_soc rs_w /\ rs_soc (res_state r') < rs_min_soc rs_w - / 2.
Proof.
  unfold res_solve_eta, res_limit_checks, res_w, rs_w.
  cbn [res_state rs_soc rs_max_soc rs_min_soc rs_pwr_disch_max rs_pwr_charge_max res_pwr_out_max res_energy_capacity].
  unfold ensure, almost_le. rewrite eps3_val. numR.
  assert (H1 : Rleb (2 / 10) (9 / 10) = true) by (apply Rleb_true; lra).
  assert (H2 : Rleb (1 / 10) (2 / 10) = true) by (apply Rleb_true; lra).
  assert (H3 : Rleb 0 (1000 + 0) = true) by (apply Rleb_true; lra).
  assert (H4 : Rltb (1000 + 0) (1000 * (1 + / 1000)) = true) by (apply Rltb_true; lra).
  assert (H5 : Rleb 0 (1 * 1) = true) by (apply Rleb_true; lra).
  assert (H6 : Rltb 0 (1000 + 0) = true) by (apply Rltb_true; lra).
  rewrite H1, H2, H3, H4, H5, H6. cbn [orb bind]. eexists. split; [reflexivity|].
  cbn [res_state res_with rs_soc]. split; [lra|]. unfold Rdiv. rewrite Rinv_1. lra.
Qed.

(* ---- tractive power is within the published locomotive limit, also for a locomotive on its own (/repo fix:
   Locomotive::solve_energy_consumption checks the demand against state.pwr_out_max like Consist does) ---- *)
Lemma pre_step_keeps_assert (l l1 : Loco (F:=R)) dt on : loco_pre_step l dt on = Ok l1 -> lc_assert_limits l1 = lc_assert_limits l.
Proof.
  unfold loco_pre_step, loco_set_cur_pwr_max_out. intros H.
  apply bind_ok in H. destruct H as (t1 & _ & H). apply bind_ok in H. destruct H as (u & _ & H).
  inversion H; subst. reflexivity.
Qed.

Theorem loco_step_within_published (l l' : Loco (F:=R)) pwr dt on :
  lc_assert_limits l = true -> loco_sim_solve_step l pwr dt on = Ok l' ->
  exists l1, loco_pre_step l dt on = Ok l1 /\
    (pwr < ls_pwr_out_max (lc_state l1) * (1 + / 100000000) \/ pwr < ls_pwr_out_max (lc_state l1) + / 100000000).
Proof.
  intros Hal H. destruct (loco_sim_step_stages _ _ _ _ _ H) as (l1 & H1 & H2). exists l1. split; [exact H1|].
  pose proof (pre_step_keeps_assert _ _ _ _ H1) as Ha. rewrite Hal in Ha.
  unfold loco_solve in H2. cbv zeta in H2. apply bind_ok in H2. destruct H2 as ([] & E & _). apply ensure_ok in E.
  rewrite Ha in E. cbn [negb orb] in E. unfold almost_le in E. rewrite eps8_val in E. numR.
  apply orb_true_iff in E. destruct E as [E|E]; apply Rltb_true in E; [left|right]; exact E.
Qed.
