(* DispPlanR.v -- the dispatch checkers read at the real numbers. *)
From Coq Require Import Reals Lra List Bool ZArith Lia Arith.
From AltModel Require Import Num TrackNet EstNet DispPlan.
From AltProofs Require Import NumR TrackNetP OrdP DispPlanP.
Import ListNotations.
Open Scope R_scope.

Notation occR := (occ (F:=R)).

Lemma Leo_R (a : option R) (b : R) : Leo a b <-> exists x, a = Some x /\ x <= b.
Proof. unfold Leo. numR. split; intros (x & E & H); exists x; split; auto; apply Rleb_true; auto. Qed.

(* the two holding intervals do not overlap: one is released no later than the other begins *)
Lemma Disjoint_R (x y : occR) :
  Disjoint x y <-> (exists u, o_out x = Some u /\ u <= o_in y) \/ (exists u, o_out y = Some u /\ u <= o_in x).
Proof. unfold Disjoint. rewrite !Leo_R. tauto. Qed.

Lemma Headway_R (h : R) (x y : occR) : Headway h x y <-> exists c, o_ce x = Some c /\ c + h <= o_in y.
Proof. unfold Headway. numR. split; intros (c & E & H); exists c; split; auto; apply Rleb_true; auto. Qed.

(* exit end of a shared link: once the follower's front has left it (a real exit: strictly before the
   follower's own release, or not yet released) the leader's tail had left it a headway earlier *)
Lemma ExitHeadway_R (h : R) (x y : occR) : ExitHeadway h x y <->
  forall ya, o_ax y = Some ya -> (forall yo, o_out y = Some yo -> ya < yo) ->
    exists u, o_out x = Some u /\ u + h <= ya.
Proof.
  unfold ExitHeadway. numR. split; intros H ya E Hy.
  - destruct (H ya E) as (u & Eu & Hu); [intros yo Eo; apply Rltb_true; auto|]. exists u; split; auto. apply Rleb_true; auto.
  - destruct (H ya E) as (u & Eu & Hu); [intros yo Eo; apply Rltb_true; auto|]. exists u; split; auto. apply Rleb_true; auto.
Qed.

(* ---- a timed walk is never faster than the free-running durations of its steps ---- *)
Notation rnodeR := (rnode (F:=R)).
Definition durR (est : list rnodeR) (i j : nat) : R := match step_dur est i j with Some d => d | None => 0 end.
Fixpoint dursR (est : list rnodeR) (i : nat) (w : list (nat * R)) : R :=
  match w with [] => 0 | (j, _) :: rest => durR est i j + dursR est j rest end.
Fixpoint tolsR (est : list rnodeR) (i : nat) (ti : R) (w : list (nat * R)) : R :=
  match w with [] => 0 | (j, tj) :: rest => rtol tj (ti + durR est i j) + tolsR est j tj rest end.

Theorem timed_steps_lower_bound (est : list rnodeR) : forall w i ti,
  TimedSteps est i ti w ->
  ti + dursR est i w <= snd (last w (i, ti)) + tolsR est i ti w.
Proof.
  induction w as [|[j tj] rest IH]; intros i ti H.
  - cbn. lra.
  - destruct H as [(d & Ed & Hd) H2]. specialize (IH _ _ H2).
    rewrite last_cons. cbn [dursR tolsR]. unfold durR. rewrite Ed.
    numR. apply Rleb_true in Hd. lra.
Qed.

(* TrainDispNext: a total order on real times, never reaching unwrap() *)
Theorem cmp_disp_next_total : TotalCmp (cmp_disp_next (F:=R)).
Proof. exact cmp_est_next_total. Qed.
