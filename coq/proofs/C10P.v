(* C10P.v -- the split theorem lifted to every step of every consist run. *)
From Coq Require Import Reals Lra Lia List Bool ZArith Arith.
From AltModel Require Import Num Interp Powertrain Loco Consist.
From AltProofs Require Import NumR InterpP PowertrainP LocoP ConsistP.
Import ListNotations.
Open Scope R_scope.

Definition cstep (c : ConsistR) (i : R * R) : res ConsistR := consist_sim_solve_step c (fst i) (snd i).

Definition cinv (c : ConsistR) : Prop := consist_wf c /\ cn_assert_limits c = true.

Lemma cstep_assert_limits c i c' : cstep c i = Ok c' -> cn_assert_limits c' = cn_assert_limits c /\ cn_pdct c' = cn_pdct c.
Proof.
  unfold cstep, consist_sim_solve_step. intros H. apply bind_ok in H. destruct H as (c2 & Hc2 & Hsol).
  destruct (consist_solve_locos _ _ _ _ _ Hsol) as (_ & _ & _ & _ & Hp & Ha & _).
  unfold consist_set_cur_pwr_max_out in Hc2. apply bind_ok in Hc2. destruct Hc2 as (ls & _ & Hc2).
  inversion Hc2; subst c2. cbn in *. split; congruence.
Qed.

Lemma cinv_step c i c' : cinv c -> cstep c i = Ok c' -> cinv c'.
Proof. intros [Hw Ha] H. split; [eapply consist_step_wf; eauto|].
  destruct (cstep_assert_limits _ _ _ H) as [E _]. congruence. Qed.

(* the per-step statement, as a predicate on (request, post-state) *)
Definition split_ok (pd : Pdct) (req : R) (c' : ConsistR) : Prop :=
  let ls' := cn_locos c' in let s' := cn_state c' in
  sumR pout ls' = req /\ cs_pwr_out s' = req /\ cs_pwr_out_req s' = req /\
  (0 < req -> Forall (fun l' => 0 <= pout l' <= lim l') ls') /\
  (req < 0 -> Forall (fun l' => - em l' <= pout l' <= 0) ls') /\
  (req = 0 -> Forall (fun l' => pout l' = 0) ls') /\
  (req < 0 -> cs_pwr_regen_deficit s' = 0 ->
     Forall (fun l' => (is_bel l' = false -> pout l' = 0) /\ - rg l' <= pout l') ls') /\
  (pd = RESGreedy -> 0 < req ->
     sumR (fun l' => if is_bel l' then 0 else pout l') ls' = cs_pwr_out_deficit s' /\
     cs_pwr_out_deficit s' = Rmax (req - cs_pwr_out_max_reves s') 0 /\
     (cs_pwr_out_deficit s' = 0 -> Forall (fun l' => is_bel l' = false -> pout l' = 0) ls') /\
     (cs_pwr_out_deficit s' <> 0 -> Forall (fun l' => is_bel l' = true -> pout l' = lim l') ls')).

Definition limits_nonneg (c' : ConsistR) : Prop := forall l', In l' (cn_locos c') -> 0 <= lim l'.

Theorem cstep_split c i c' : cinv c -> cstep c i = Ok c' -> limits_nonneg c' -> split_ok (cn_pdct c) (fst i) c'.
Proof. intros [Hw Ha] H Hl. unfold cstep in H.
  destruct (consist_step_split _ _ _ _ Hw Ha H Hl) as (_ & S). exact S. Qed.

Theorem run_every_step_split c pre i post c' :
  cinv c -> run cstep c (pre ++ i :: post) = Ok c' ->
  exists m m', run cstep c pre = Ok m /\ cstep m i = Ok m' /\ cinv m /\ cinv m' /\
               (limits_nonneg m' -> split_ok (cn_pdct c) (fst i) m').
Proof.
  intros Hc Hrun. apply run_prefix in Hrun. destruct Hrun as (m & Hpre & Hrest).
  assert (Hm : cinv m /\ cn_pdct m = cn_pdct c).
  { clear Hrest. revert c Hc Hpre. induction pre as [|j t IH]; intros c Hc Hpre; cbn in Hpre.
    - inversion Hpre; subst. auto.
    - destruct (cstep c j) as [c1| |] eqn:E; try discriminate.
      destruct (IH c1 (cinv_step _ _ _ Hc E) Hpre) as [A B]. split; auto.
      destruct (cstep_assert_limits _ _ _ E) as [_ P]. congruence. }
  destruct Hm as [Hm Hpd]. cbn in Hrest. destruct (cstep m i) as [m'| |] eqn:Es; try discriminate.
  exists m, m'. split; [exact Hpre|]. split; [exact Es|]. split; [exact Hm|].
  split; [eapply cinv_step; eauto|]. intros Hl. rewrite <- Hpd. eapply cstep_split; eauto.
Qed.
