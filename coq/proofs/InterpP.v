(* InterpP.v -- interp1d / interp3d never leave the value range of their table. *)
From Coq Require Import Reals Lra Lia List Bool ZArith Arith.
From AltModel Require Import Num Interp.
From AltProofs Require Import NumR.
Import ListNotations.
Open Scope R_scope.

Definition lbound (l : list R) (m : R) := forall y, In y l -> m <= y.
Definition ubound (l : list R) (m : R) := forall y, In y l -> y <= m.

(* consecutive x values differ (weaker than strictly sorted; the shipped engine map is not sorted) *)
Definition adjacent_distinct (xs : list R) :=
  forall i, (i + 1 < length xs)%nat -> nth i xs 0 <> nth (i + 1) xs 0.

Lemma lerp_between yl yr xl xr x : xl < xr -> xl <= x <= xr ->
  Rmin yl yr <= yl + (yr - yl) / (xr - xl) * (x - xl) <= Rmax yl yr.
Proof.
  intros Hlr [H1 H2]. set (t := (x - xl) / (xr - xl)).
  assert (Ht : 0 <= t <= 1).
  { unfold t. split.
    - apply Rmult_le_pos; [lra|]. left. apply Rinv_0_lt_compat. lra.
    - apply (Rmult_le_reg_r (xr - xl)); [lra|]. unfold Rdiv. rewrite Rmult_assoc, Rinv_l by lra. lra. }
  replace (yl + (yr - yl) / (xr - xl) * (x - xl)) with (yl + (yr - yl) * t) by (unfold t; field; lra).
  unfold Rmin, Rmax. destruct (Rle_dec yl yr); split; nra.
Qed.

Lemma forallb_eq_all (ys : list R) m : forallb (fun y => Reqb y m) ys = true -> forall y, In y ys -> y = m.
Proof. intros H y Hy. rewrite forallb_forall in H. apply Reqb_true. auto. Qed.

Theorem interp1d_range (x : R) (xs ys : list R) (v m M : R) :
  adjacent_distinct xs -> length xs = length ys -> (0 < length ys)%nat ->
  lbound ys m -> ubound ys M ->
  interp1d x xs ys false = Ok v -> m <= v <= M.
Proof.
  intros Had Hlen Hne Hm HM. unfold interp1d. numR.
  destruct (forallb _ ys) eqn:Eall.
  - intros H; inversion H; subst v; clear H.
    destruct ys as [|y0 yt].
    + cbn in Hne; lia.
    + pose proof (forallb_eq_all _ _ Eall y0 (or_introl eq_refl)) as E. unfold lenF in *; numR. rewrite <- E.
      split; [apply Hm|apply HM]; left; reflexivity.
  - destruct (forallb _ xs); [discriminate|].
    destruct (Nat.ltb (length xs) 2) eqn:E2; [discriminate|]. apply Nat.ltb_ge in E2.
    set (i := if Rleb (nthF xs (length xs - 2)) x then (length xs - 2)%nat else scan (length xs) x xs 0).
    destruct (Nat.leb (length ys) (i + 1)) eqn:Ei; [discriminate|]. apply Nat.leb_gt in Ei.
    unfold nthF. numR. cbn [negb andb].
    assert (Hyl : In (nth i ys 0) ys) by (apply nth_In; lia).
    assert (Hyr : In (nth (i + 1) ys 0) ys) by (apply nth_In; lia).
    set (xl := nth i xs 0) in *. set (xr := nth (i + 1) xs 0) in *.
    set (yl := nth i ys 0) in *. set (yr := nth (i + 1) ys 0) in *.
    assert (Hx : xl <> xr) by (apply Had; lia).
    pose proof (Hm _ Hyl) as B1. pose proof (Hm _ Hyr) as B2. pose proof (HM _ Hyl) as B3. pose proof (HM _ Hyr) as B4.
    intros Hv; inversion Hv; subst v; clear Hv.
    destruct (Rltb_spec x xl) as [Hlt|Hge].
    + (* clamped below: yr' = yl, and yl' = yl in both sub-cases *)
      destruct (Rltb_spec xr x); replace ((yl - yl) / (xr - xl)) with 0 by (unfold Rdiv; ring); lra.
    + destruct (Rltb_spec xr x) as [Hgt|Hle].
      * replace ((yr - yr) / (xr - xl)) with 0 by (unfold Rdiv; ring). lra.
      * assert (Hlr : xl < xr) by lra.
        assert (Hin : xl <= x <= xr) by (split; lra).
        pose proof (lerp_between yl yr xl xr x Hlr Hin) as [L U].
        unfold Rmin, Rmax in *. destruct (Rle_dec yl yr); lra.
Qed.

(* ------------------------------------------------------------------ interp3d *)
Definition lbound3 (vals : list (list (list R))) (m : R) :=
  forall i j k c, nth3 vals i j k = Some c -> m <= c.
Definition ubound3 (vals : list (list (list R))) (M : R) :=
  forall i j k c, nth3 vals i j k = Some c -> c <= M.

Lemma win_pos_spec q axis k p :
  win_pos q axis k = Some p ->
  (k <= p)%nat /\ nth (p - k) axis 0 <= q < nth (p - k + 1) axis 0.
Proof.
  revert k. induction axis as [|a [|b t] IH]; intros k H; cbn in H; try discriminate.
  numR. destruct (Rleb_spec a q) as [Ha|Ha]; destruct (Rltb_spec q b) as [Hb|Hb]; cbn in H.
  - inversion H; subst p. replace (k - k)%nat with 0%nat by lia. cbn. split; [lia|lra].
  - apply IH in H. destruct H as [Hk H]. split; [lia|].
    replace (p - k)%nat with (S (p - S k)) by lia. replace (S (p - S k) + 1)%nat with (S (p - S k + 1)) by lia.
    exact H.
  - apply IH in H. destruct H as [Hk H]. split; [lia|].
    replace (p - k)%nat with (S (p - S k)) by lia. replace (S (p - S k) + 1)%nat with (S (p - S k + 1)) by lia.
    exact H.
  - apply IH in H. destruct H as [Hk H]. split; [lia|].
    replace (p - k)%nat with (S (p - S k)) by lia. replace (S (p - S k) + 1)%nat with (S (p - S k + 1)) by lia.
    exact H.
Qed.

Lemma interp_diff_unit q axis i0 i1 :
  find_interp_indices q axis = Ok (i0, i1) ->
  0 <= compute_interp_diff q (nthF axis i0) (nthF axis i1) <= 1.
Proof.
  unfold find_interp_indices, compute_interp_diff. numR.
  destruct (win_pos q axis 0) as [p|] eqn:Ew.
  - apply win_pos_spec in Ew. destruct Ew as [_ Hw]. rewrite Nat.sub_0_r in Hw.
    destruct (Reqb q (nthF axis p)).
    { intros H; inversion H; subst. destruct (Reqb_spec (nthF axis i1) (nthF axis i1)); [lra|congruence]. }
    destruct (Reqb q (nthF axis (p + 1))).
    { intros H; inversion H; subst. destruct (Reqb_spec (nthF axis (S p)) (nthF axis (S p))); [lra|congruence]. }
    intros H; inversion H; subst. unfold nthF. numR.
    replace (S i0) with (i0 + 1)%nat by lia.
    set (lo := nth i0 axis 0) in *. set (hi := nth (i0 + 1) axis 0) in *.
    destruct (Reqb_spec lo hi); [lra|].
    assert (Hd : 0 < hi - lo) by lra. split.
    + apply Rmult_le_pos; [lra|]. left. apply Rinv_0_lt_compat; lra.
    + apply (Rmult_le_reg_r (hi - lo)); [lra|]. unfold Rdiv. rewrite Rmult_assoc, Rinv_l by lra. lra.
  - destruct axis as [|a0 at_]; [discriminate|].
    destruct (Rleb q a0).
    { intros H; inversion H; subst. destruct (Reqb_spec (nthF (a0 :: at_) 0) (nthF (a0 :: at_) 0)); [lra|congruence]. }
    destruct (Rleb _ q); [|discriminate].
    intros H; inversion H; subst.
    match goal with |- context [Reqb ?a ?a] => destruct (Reqb_spec a a); [lra|congruence] end.
Qed.

Lemma convex2 a b t m M : m <= a <= M -> m <= b <= M -> 0 <= t <= 1 -> m <= a * (1 - t) + b * t <= M.
Proof. intros. split; nra. Qed.

Theorem interp3d_range x y z gx gy gz vals v m M :
  lbound3 vals m -> ubound3 vals M ->
  interp3d (x, y, z) gx gy gz vals = Ok v -> m <= v <= M.
Proof.
  intros Hm HM. unfold interp3d.
  intros H. bind_inv H. destruct a as [xi0 xi1]. bind_inv H. destruct a as [yi0 yi1].
  bind_inv H. destruct a as [zi0 zi1].
  apply interp_diff_unit in Ha, Ha0, Ha1.
  repeat match type of H with
  | match ?o with Some _ => _ | None => _ end = _ => let E := fresh "E" in destruct o eqn:E; [|discriminate]
  end.
  inversion H; subst v; clear H. numR.
  repeat match goal with
  | E : nth3 vals _ _ _ = Some ?c |- _ =>
      pose proof (conj (Hm _ _ _ _ E) (HM _ _ _ _ E)); clear E
  end.
  repeat apply convex2; assumption.
Qed.
