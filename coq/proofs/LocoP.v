(* LocoP.v -- locomotive-level laws: frames of the limit-setting functions, the step
   decomposition of LocomotiveSimulation::solve_step, well-formedness invariant. *)
From Coq Require Import Reals Lra Lia List Bool ZArith Arith.
From AltModel Require Import Num Interp Powertrain Loco.
From AltProofs Require Import NumR InterpP PowertrainP.
Import ListNotations.
Open Scope R_scope.

(* ---------------------------------------------------------------- frames *)
Definition fc_par (c : FC (F:=R)) :=
  (fc_pwr_out_max c, fc_pwr_ramp_lag c, fc_frac c, fc_eta_interp c, fc_pwr_idle_fuel c).
Definition fc_cum (c : FC (F:=R)) := let s := fc_state c in
  (fcs_energy_brake s, fcs_energy_fuel s, fcs_energy_loss s, fcs_energy_idle_fuel s, fcs_pwr_brake s).
Definition gen_par (g : Gen (F:=R)) := (gen_pwr_out_max g, gen_frac g, gen_eta_interp g).
Definition gen_cum (g : Gen (F:=R)) := let s := gen_state g in
  (gs_energy_mech_in s, gs_energy_elec_prop_out s, gs_energy_elec_aux s, gs_energy_loss s).
Definition edrv_par (e : Edrv (F:=R)) := (edrv_pwr_out_max e, edrv_frac e, edrv_eta_interp e).
Definition edrv_cum (e : Edrv (F:=R)) := let s := edrv_state e in
  (es_energy_elec_prop_in s, es_energy_mech_prop_out s, es_energy_mech_dyn_brake s,
   es_energy_elec_dyn_brake s, es_energy_loss s, es_pwr_mech_prop_out s).
Definition res_par (r : Res (F:=R)) :=
  (res_pwr_out_max r, res_energy_capacity r, res_min_soc r, res_max_soc r,
   res_grid_t r, res_grid_soc r, res_grid_c r, res_eta_vals r).
Definition res_cum (r : Res (F:=R)) := let s := res_state r in
  (rs_energy_out_electrical s, rs_energy_out_propulsion s, rs_energy_aux s, rs_energy_loss s,
   rs_energy_out_chemical s, rs_soc s, rs_temperature s).

Lemma fc_limits_frame c dt c' : fc_set_cur_pwr_out_max c dt = Ok c' ->
  fc_par c' = fc_par c /\ fc_cum c' = fc_cum c /\ 0 < dt.
Proof. unfold fc_set_cur_pwr_out_max. intros H. ens H. inversion H; subst; clear H.
  numR. apply Rltb_true in E. repeat split; auto. Qed.

Lemma gen_limits_frame g pin aux g' : gen_set_cur_pwr_max_out g pin aux = Ok g' ->
  gen_par g' = gen_par g /\ gen_cum g' = gen_cum g.
Proof. unfold gen_set_cur_pwr_max_out. intros H. bind_inv H. bind_inv H.
  inversion H; subst; clear H. split; reflexivity. Qed.
Lemma gen_rate_frame g rate : gen_par (gen_set_pwr_rate_out_max g rate) = gen_par g /\
  gen_cum (gen_set_pwr_rate_out_max g rate) = gen_cum g.
Proof. split; reflexivity. Qed.

Lemma edrv_limits_frame e pin e' : edrv_set_cur_pwr_max_out e pin = Ok e' ->
  edrv_par e' = edrv_par e /\ edrv_cum e' = edrv_cum e /\
  es_pwr_mech_regen_max (edrv_state e') = es_pwr_mech_regen_max (edrv_state e).
Proof. unfold edrv_set_cur_pwr_max_out. intros H. bind_inv H. bind_inv H.
  inversion H; subst; clear H. repeat split; reflexivity. Qed.
Lemma edrv_regen_frame e pin e' : edrv_set_cur_pwr_regen_max e pin = Ok e' ->
  edrv_par e' = edrv_par e /\ edrv_cum e' = edrv_cum e /\
  0 <= es_pwr_mech_regen_max (edrv_state e').
Proof. unfold edrv_set_cur_pwr_regen_max. intros H. bind_inv H. bind_inv H. ens H.
  inversion H; subst; clear H. numR. apply Rleb_true in E. repeat split; auto. Qed.
Lemma edrv_rate_frame e rate : edrv_par (edrv_set_pwr_rate_out_max e rate) = edrv_par e /\
  edrv_cum (edrv_set_pwr_rate_out_max e rate) = edrv_cum e /\
  es_pwr_mech_regen_max (edrv_state (edrv_set_pwr_rate_out_max e rate)) = es_pwr_mech_regen_max (edrv_state e).
Proof. repeat split; reflexivity. Qed.

Lemma gen_rate_par g r : gen_par (gen_set_pwr_rate_out_max g r) = gen_par g. Proof. reflexivity. Qed.
Lemma gen_rate_cum g r : gen_cum (gen_set_pwr_rate_out_max g r) = gen_cum g. Proof. reflexivity. Qed.
Lemma edrv_rate_par e r : edrv_par (edrv_set_pwr_rate_out_max e r) = edrv_par e. Proof. reflexivity. Qed.
Lemma edrv_rate_cum e r : edrv_cum (edrv_set_pwr_rate_out_max e r) = edrv_cum e. Proof. reflexivity. Qed.
Lemma edrv_rate_regen e r : es_pwr_mech_regen_max (edrv_state (edrv_set_pwr_rate_out_max e r)) =
  es_pwr_mech_regen_max (edrv_state e). Proof. reflexivity. Qed.

Lemma res_limits_frame r aux cb db r' : res_set_cur_pwr_out_max r aux cb db = Ok r' ->
  res_par r' = res_par r /\ res_cum r' = res_cum r.
Proof. unfold res_set_cur_pwr_out_max. intros H. bind_inv H. bind_inv H.
  inversion H; subst; clear H. split; reflexivity. Qed.

(* ---------------------------------------------------------------- well-formed locomotives *)
Definition fc_ok (c : FC (F:=R)) :=
  map_ok (fc_frac c) (fc_eta_interp c) /\ 0 <= fc_pwr_idle_fuel c.
Definition gen_ok (g : Gen (F:=R)) := map_ok (gen_frac g) (gen_eta_interp g).
Definition edrv_ok (e : Edrv (F:=R)) := map_ok (edrv_frac e) (edrv_eta_interp e).
Definition res_ok (r : Res (F:=R)) :=
  (exists lo, 0 < lo /\ lbound3 (res_eta_vals r) lo /\ ubound3 (res_eta_vals r) 1).

Definition ptype_ok (t : Ptype (F:=R)) :=
  match t with
  | PConv c => fc_ok (cv_fc c) /\ gen_ok (cv_gen c) /\ edrv_ok (cv_edrv c)
  | PBel b => res_ok (bl_res b) /\ edrv_ok (bl_edrv b)
  end.
Definition loco_ok (l : Loco (F:=R)) :=
  ptype_ok (lc_type l) /\ 0 <= lc_pwr_aux_offset l /\ 0 <= lc_pwr_aux_traction_coeff l.

(* ---------------------------------------------------------------- step decomposition *)
(* What an accepted LocomotiveSimulation::solve_step consists of. *)
Inductive conv_step_spec (c0 c' : Conv (F:=R)) (req dt aux : R) (on lim : bool) : Prop :=
| ConvStep (c : Conv (F:=R)) e g f ee eg ef
    (Hpar : fc_par (cv_fc c) = fc_par (cv_fc c0) /\ gen_par (cv_gen c) = gen_par (cv_gen c0) /\
            edrv_par (cv_edrv c) = edrv_par (cv_edrv c0))
    (Hcum : fc_cum (cv_fc c) = fc_cum (cv_fc c0) /\ gen_cum (cv_gen c) = gen_cum (cv_gen c0) /\
            edrv_cum (cv_edrv c) = edrv_cum (cv_edrv c0))
    (Hregen : es_pwr_mech_regen_max (edrv_state (cv_edrv c)) = 0)
    (Hdt : 0 < dt)
    (He : edrv_set_pwr_in_req_eta (cv_edrv c) req dt (1 * ee) = Ok e)
    (Hee : interp1d (Rabs (req / edrv_pwr_out_max (cv_edrv c))) (edrv_frac (cv_edrv c))
                    (edrv_eta_interp (cv_edrv c)) false = Ok ee)
    (Hg : gen_set_pwr_in_req_eta (cv_gen c) (es_pwr_elec_prop_in (edrv_state e))
                                 (if on then aux else 0) dt (1 * eg) = Ok g)
    (Hgp : 0 <= es_pwr_elec_prop_in (edrv_state e))
    (Heg : interp1d (Rabs (es_pwr_elec_prop_in (edrv_state e) / gen_pwr_out_max (cv_gen c)))
                    (gen_frac (cv_gen c)) (gen_eta_interp (cv_gen c)) false = Ok eg)
    (Hf : fc_solve_eta (cv_fc c) (gs_pwr_mech_in (gen_state g)) dt on lim (1 * ef) = Ok f)
    (Hef : interp1d (gs_pwr_mech_in (gen_state g) / fc_pwr_out_max (cv_fc c))
                    (fc_frac (cv_fc c)) (fc_eta_interp (cv_fc c)) false = Ok ef)
    (Hc' : c' = {| cv_fc := f; cv_gen := g; cv_edrv := e |}).

Inductive bel_step_spec (b0 b' : Bel (F:=R)) (req dt aux : R) : Prop :=
| BelStep (b : Bel (F:=R)) e r ee er
    (Hpar : res_par (bl_res b) = res_par (bl_res b0) /\ edrv_par (bl_edrv b) = edrv_par (bl_edrv b0))
    (Hcum : res_cum (bl_res b) = res_cum (bl_res b0) /\ edrv_cum (bl_edrv b) = edrv_cum (bl_edrv b0))
    (Hregen : 0 <= es_pwr_mech_regen_max (edrv_state (bl_edrv b)))
    (He : edrv_set_pwr_in_req_eta (bl_edrv b) req dt (1 * ee) = Ok e)
    (Hee : interp1d (Rabs (req / edrv_pwr_out_max (bl_edrv b))) (edrv_frac (bl_edrv b))
                    (edrv_eta_interp (bl_edrv b)) false = Ok ee)
    (Hr : res_solve_eta (bl_res b) (es_pwr_elec_prop_in (edrv_state e)) (bel_aux_served b e aux) dt er = Ok r)
    (Her : interp3d (rs_temperature (res_state (bl_res b)), rs_soc (res_state (bl_res b)),
                     (es_pwr_elec_prop_in (edrv_state e) + bel_aux_served b e aux)
                       / (res_energy_capacity (bl_res b) / 3600))
                    (res_grid_t (bl_res b)) (res_grid_soc (bl_res b)) (res_grid_c (bl_res b))
                    (res_eta_vals (bl_res b)) = Ok er)
    (Hb' : b' = {| bl_res := r; bl_edrv := e |}).

Lemma conv_limits_spec c aux dt c1 : conv_set_cur_pwr_max_out c aux dt = Ok c1 ->
  (fc_par (cv_fc c1) = fc_par (cv_fc c) /\ gen_par (cv_gen c1) = gen_par (cv_gen c) /\
   edrv_par (cv_edrv c1) = edrv_par (cv_edrv c)) /\
  (fc_cum (cv_fc c1) = fc_cum (cv_fc c) /\ gen_cum (cv_gen c1) = gen_cum (cv_gen c) /\
   edrv_cum (cv_edrv c1) = edrv_cum (cv_edrv c)) /\
  es_pwr_mech_regen_max (edrv_state (cv_edrv c1)) = es_pwr_mech_regen_max (edrv_state (cv_edrv c)) /\
  0 < dt.
Proof.
  unfold conv_set_cur_pwr_max_out. intros H. bind_inv H. bind_inv H. bind_inv H.
  inversion H; subst c1; clear H. cbn [cv_fc cv_gen cv_edrv].
  apply fc_limits_frame in Ha. apply gen_limits_frame in Ha0. apply edrv_limits_frame in Ha1.
  destruct Ha as (P1 & C1 & Hdt), Ha0 as (P2 & C2), Ha1 as (P3 & C3 & R3).
  rewrite ?gen_rate_par, ?gen_rate_cum, ?edrv_rate_par, ?edrv_rate_cum, ?edrv_rate_regen.
  repeat split; try congruence; try exact Hdt.
  exact R3.
Qed.

Lemma bel_limits_spec b aux dt b1 : bel_set_cur_pwr_max_out b aux dt = Ok b1 ->
  (res_par (bl_res b1) = res_par (bl_res b) /\ edrv_par (bl_edrv b1) = edrv_par (bl_edrv b)) /\
  (res_cum (bl_res b1) = res_cum (bl_res b) /\ edrv_cum (bl_edrv b1) = edrv_cum (bl_edrv b)) /\
  0 <= es_pwr_mech_regen_max (edrv_state (bl_edrv b1)).
Proof.
  unfold bel_set_cur_pwr_max_out. intros H. bind_inv H. bind_inv H. bind_inv H.
  inversion H; subst b1; clear H. cbn [bl_res bl_edrv].
  apply res_limits_frame in Ha. apply edrv_limits_frame in Ha0. apply edrv_regen_frame in Ha1.
  destruct Ha as (P1 & C1), Ha0 as (P2 & C2 & _), Ha1 as (P3 & C3 & R3).
  rewrite ?edrv_rate_par, ?edrv_rate_cum, ?edrv_rate_regen.
  repeat split; try congruence; try exact R3.
Qed.

Lemma conv_solve_spec c req dt on aux lim c' : conv_solve c req dt on aux lim = Ok c' ->
  exists e g f ee eg ef,
    edrv_set_pwr_in_req_eta (cv_edrv c) req dt (1 * ee) = Ok e /\
    interp1d (Rabs (req / edrv_pwr_out_max (cv_edrv c))) (edrv_frac (cv_edrv c))
             (edrv_eta_interp (cv_edrv c)) false = Ok ee /\
    gen_set_pwr_in_req_eta (cv_gen c) (es_pwr_elec_prop_in (edrv_state e))
                           (if on then aux else 0) dt (1 * eg) = Ok g /\
    0 <= es_pwr_elec_prop_in (edrv_state e) /\
    interp1d (Rabs (es_pwr_elec_prop_in (edrv_state e) / gen_pwr_out_max (cv_gen c)))
             (gen_frac (cv_gen c)) (gen_eta_interp (cv_gen c)) false = Ok eg /\
    fc_solve_eta (cv_fc c) (gs_pwr_mech_in (gen_state g)) dt on lim (1 * ef) = Ok f /\
    interp1d (gs_pwr_mech_in (gen_state g) / fc_pwr_out_max (cv_fc c))
             (fc_frac (cv_fc c)) (fc_eta_interp (cv_fc c)) false = Ok ef /\
    c' = {| cv_fc := f; cv_gen := g; cv_edrv := e |}.
Proof.
  unfold conv_solve. intros H. bind_inv H. bind_inv H. ens H. bind_inv H.
  inversion H; subst c'; clear H. numR.
  apply edrv_req_unfold in Ha. destruct Ha as (_ & ee & Hee & He).
  apply gen_req_unfold in Ha0. destruct Ha0 as (Hgp & _ & eg & Heg & Hg).
  apply fc_solve_unfold in Ha1. destruct Ha1 as (ef & Hef & Hf).
  exists a, a0, a1, ee, eg, ef. repeat split; auto.
Qed.

Lemma bel_solve_spec b req dt aux b' : bel_solve b req dt aux = Ok b' ->
  exists e r ee er,
    edrv_set_pwr_in_req_eta (bl_edrv b) req dt (1 * ee) = Ok e /\
    interp1d (Rabs (req / edrv_pwr_out_max (bl_edrv b))) (edrv_frac (bl_edrv b))
             (edrv_eta_interp (bl_edrv b)) false = Ok ee /\
    res_solve_eta (bl_res b) (es_pwr_elec_prop_in (edrv_state e)) (bel_aux_served b e aux) dt er = Ok r /\
    interp3d (rs_temperature (res_state (bl_res b)), rs_soc (res_state (bl_res b)),
              (es_pwr_elec_prop_in (edrv_state e) + bel_aux_served b e aux)
                / (res_energy_capacity (bl_res b) / 3600))
             (res_grid_t (bl_res b)) (res_grid_soc (bl_res b)) (res_grid_c (bl_res b))
             (res_eta_vals (bl_res b)) = Ok er /\
    b' = {| bl_res := r; bl_edrv := e |}.
Proof.
  unfold bel_solve. intros H. bind_inv H. bind_inv H. inversion H; subst b'; clear H.
  apply edrv_req_unfold in Ha. destruct Ha as (_ & ee & Hee & He).
  unfold res_solve in Ha0. apply bind_ok in Ha0. destruct Ha0 as ([] & _ & Ha0). numR.
  destruct (interp3d _ _ _ _ _) as [er| |] eqn:Her; try discriminate.
  exists a, a0, ee, er. repeat split; auto.
Qed.

(* ---------------------------------------------------------------- LocomotiveSimulation::solve_step *)
Definition aux_of (l : Loco (F:=R)) (on : bool) : R :=
  if on then lc_pwr_aux_offset l + lc_pwr_aux_traction_coeff l * Rabs (ls_pwr_out (lc_state l)) else 0.

Lemma aux_of_nonneg l on : 0 <= lc_pwr_aux_offset l -> 0 <= lc_pwr_aux_traction_coeff l -> 0 <= aux_of l on.
Proof. intros H1 H2. unfold aux_of. destruct on; [|lra].
  pose proof (Rabs_pos (ls_pwr_out (lc_state l))). nra. Qed.

(* what one locomotive step (publish limits for this step, then solve) establishes *)
Definition loco_step_rel (l l' : Loco (F:=R)) (pwr dt : R) (on : bool) : Prop :=
  lc_pwr_aux_offset l' = lc_pwr_aux_offset l /\
  lc_pwr_aux_traction_coeff l' = lc_pwr_aux_traction_coeff l /\
  lc_assert_limits l' = lc_assert_limits l /\
  ls_pwr_aux (lc_state l') = aux_of l on /\
  ls_energy_aux (lc_state l') = ls_energy_aux (lc_state l) + aux_of l on * dt /\
  ls_energy_out (lc_state l') = ls_energy_out (lc_state l) + ls_pwr_out (lc_state l') * dt /\
  ls_pwr_out (lc_state l') = es_pwr_mech_prop_out (edrv_state (loco_edrv l')) -
                             es_pwr_mech_dyn_brake (edrv_state (loco_edrv l')) /\
  match lc_type l, lc_type l' with
  | PConv c0, PConv c' => conv_step_spec c0 c' pwr dt (aux_of l on) on (lc_assert_limits l)
  | PBel b0, PBel b' => bel_step_spec b0 b' pwr dt (aux_of l on)
  | _, _ => False
  end.

(* the two stages as the consist drives them: set_pwr_aux + set_cur_pwr_max_out, then solve *)
Definition loco_pre_step (l : Loco (F:=R)) (dt : R) (on : bool) : res (Loco (F:=R)) :=
  loco_set_cur_pwr_max_out (loco_set_pwr_aux l on) dt.

Theorem loco_two_stage_spec (l l1 l' : Loco (F:=R)) pwr dt on :
  loco_pre_step l dt on = Ok l1 -> loco_solve l1 pwr dt on = Ok l' -> loco_step_rel l l' pwr dt on.
Proof.
  unfold loco_pre_step, loco_step_rel. intros Hlim Hsol.
  unfold loco_set_cur_pwr_max_out in Hlim.
  apply bind_ok in Hlim. destruct Hlim as (t1 & Ht1 & Hlim).
  apply bind_ok in Hlim. destruct Hlim as (u & Hassert & Hlim). inversion Hlim; subst l1; clear Hlim.
  unfold loco_solve in Hsol. cbv zeta in Hsol.
  apply bind_ok in Hsol; destruct Hsol as ([] & _ & Hsol).
  cbn [lc_state lc_type loco_with lc_assert_limits lc_pwr_aux_offset
    lc_pwr_aux_traction_coeff loco_set_pwr_aux ls_pwr_aux ls_energy_aux ls_energy_out ls_pwr_out ls_i] in *.
  apply bind_ok in Hsol. destruct Hsol as (t2 & Ht2 & Hsol). inversion Hsol; subst l'; clear Hsol.
  cbn [lc_state lc_type loco_with lc_assert_limits lc_pwr_aux_offset loco_edrv
    lc_pwr_aux_traction_coeff ls_pwr_aux ls_energy_aux ls_energy_out ls_pwr_out ls_i]. numR.
  fold (aux_of l on) in *.
  repeat split; auto.
  destruct (lc_type l) as [c0|b0] eqn:Et.
  - apply bind_ok in Ht1. destruct Ht1 as (c1 & Hc1 & Ht1). inversion Ht1; subst t1; clear Ht1.
    apply bind_ok in Ht2. destruct Ht2 as (c2 & Hc2 & Ht2). inversion Ht2; subst t2; clear Ht2.
    assert (Hr0 : es_pwr_mech_regen_max (edrv_state (cv_edrv c1)) = 0).
    { unfold passert in Hassert. numR.
      destruct (Reqb_spec (es_pwr_mech_regen_max (edrv_state (cv_edrv c1))) 0); [auto|discriminate]. }
    apply conv_limits_spec in Hc1. destruct Hc1 as (Hp & Hc & _ & Hdt).
    apply conv_solve_spec in Hc2.
    destruct Hc2 as (e & g & f & ee & eg & ef & He & Hee & Hg & Hgp & Heg & Hf & Hef & Hc').
    econstructor; eauto.
  - apply bind_ok in Ht1. destruct Ht1 as (b1 & Hb1 & Ht1). inversion Ht1; subst t1; clear Ht1.
    apply bind_ok in Ht2. destruct Ht2 as (b2 & Hb2 & Ht2). inversion Ht2; subst t2; clear Ht2.
    apply bel_limits_spec in Hb1. destruct Hb1 as (Hp & Hc & Hr).
    apply bel_solve_spec in Hb2. destruct Hb2 as (e & r & ee & er & He & Hee & Hr' & Her & Hb').
    econstructor; eauto.
Qed.

Theorem loco_step_spec (l l' : Loco (F:=R)) pwr dt on :
  loco_sim_solve_step l pwr dt on = Ok l' -> loco_step_rel l l' pwr dt on.
Proof.
  unfold loco_sim_solve_step. intros H.
  apply bind_ok in H. destruct H as (l1 & Hlim & H).
  apply bind_ok in H. destruct H as (l2 & Hsol & H). ens H. inversion H; subst l'; clear H E.
  eapply loco_two_stage_spec; eauto.
Qed.

(* the simulation additionally checks that the delivered power is the trace power *)
Lemma loco_step_delivers (l l' : Loco (F:=R)) pwr dt on :
  loco_sim_solve_step l pwr dt on = Ok l' -> almost_eq pwr (ls_pwr_out (lc_state l')) eps8 = true.
Proof.
  unfold loco_sim_solve_step. intros H.
  apply bind_ok in H. destruct H as (l1 & Hlim & H).
  apply bind_ok in H. destruct H as (l2 & Hsol & H). ens H. inversion H; subst l'; exact E.
Qed.
