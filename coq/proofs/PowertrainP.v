(* PowertrainP.v -- step laws of the four powertrain components over the reals:
   energy balance of every step (C01), second-law facts (C08), limit facts (C09). *)
From Coq Require Import Reals Lra Lia List Bool ZArith Arith.
From AltModel Require Import Num Interp Powertrain.
From AltProofs Require Import NumR InterpP.
Import ListNotations.
Open Scope R_scope.

(* an efficiency table with all values in [lo,1], lo > 0 *)
Definition eta_table (l : list R) := exists lo, 0 < lo /\ forall e, In e l -> lo <= e <= 1.
Definition eta_ok (e : R) := 0 < e <= 1.

Definition map_ok (frac eta : list R) :=
  adjacent_distinct frac /\ length frac = length eta /\ (0 < length eta)%nat /\ eta_table eta.

Lemma interp1d_eta x frac eta v :
  map_ok frac eta -> interp1d x frac eta false = Ok v -> eta_ok v.
Proof.
  intros (Had & Hlen & Hne & lo & Hlo & Hall) H.
  assert (lo <= v <= 1).
  { eapply interp1d_range; eauto; intros y Hy; apply Hall; exact Hy. }
  unfold eta_ok; lra.
Qed.

Ltac ens H := let E := fresh "E" in
  apply bind_ok in H; destruct H as ([] & E & H); apply ensure_ok in E.

(* almost_le at R with eps = 1e-3 *)
Lemma eps3_val : eps3 (F:=R) = / 1000.
Proof. unfold eps3. cbn [nlit R_ops]. unfold Rpow10. change (Pos.to_nat 3) with 3%nat. simpl pow. field_simplify_eq. lra. Qed.
Lemma eps8_val : eps8 (F:=R) = / 100000000.
Proof. unfold eps8. cbn [nlit R_ops]. unfold Rpow10. change (Pos.to_nat 8) with 8%nat. simpl pow. field_simplify_eq. lra. Qed.

Lemma almost_le_spec v1 v2 eps : almost_le v1 v2 eps = true -> v1 < v2 * (1 + eps) \/ v1 < v2 + eps.
Proof. unfold almost_le. numR. intros H. apply orb_true_iff in H.
  destruct H as [H|H]; apply Rltb_true in H; auto. Qed.
Lemma almost_ge_spec v1 v2 eps : almost_ge v1 v2 eps = true -> v2 * (1 - eps) < v1 \/ v2 - eps < v1.
Proof. unfold almost_ge. numR. intros H. apply orb_true_iff in H.
  destruct H as [H|H]; apply Rltb_true in H; auto. Qed.

(* ------------------------------------------------------------------ FuelConverter *)
Section FC.
Variables (c c' : FC (F:=R)) (req dt eta : R) (on lim : bool).
Hypothesis Hstep : fc_solve_eta c req dt on lim eta = Ok c'.
Let s := fc_state c.
Let s' := fc_state c'.

Lemma fc_step_facts :
  0 <= req /\
  fcs_pwr_brake s' = req /\
  fcs_eta s' = eta /\
  fcs_engine_on s' = on /\
  fcs_pwr_idle_fuel s' = (if on then fc_pwr_idle_fuel c else 0) /\
  fcs_pwr_fuel s' = req / eta + fcs_pwr_idle_fuel s' /\
  fcs_pwr_loss s' = fcs_pwr_fuel s' - fcs_pwr_brake s' /\
  fcs_energy_brake s' = fcs_energy_brake s + fcs_pwr_brake s' * dt /\
  fcs_energy_fuel s' = fcs_energy_fuel s + fcs_pwr_fuel s' * dt /\
  fcs_energy_loss s' = fcs_energy_loss s + fcs_pwr_loss s' * dt /\
  fcs_energy_idle_fuel s' = fcs_energy_idle_fuel s + fcs_pwr_idle_fuel s' * dt /\
  (on = false -> req = 0) /\
  0 <= fcs_energy_loss s' /\
  (* parameters and the published limit are untouched *)
  fcs_pwr_out_max s' = fcs_pwr_out_max s /\ fc_pwr_out_max c' = fc_pwr_out_max c /\
  fc_pwr_idle_fuel c' = fc_pwr_idle_fuel c /\ fc_frac c' = fc_frac c /\
  fc_eta_interp c' = fc_eta_interp c /\ fc_pwr_ramp_lag c' = fc_pwr_ramp_lag c /\
  fc_pwr_out_max_init c' = fc_pwr_out_max_init c /\
  (lim = true -> (req < fc_pwr_out_max c * (1 + /1000) \/ req < fc_pwr_out_max c + /1000) /\
                 (req < fcs_pwr_out_max s * (1 + /1000) \/ req < fcs_pwr_out_max s + /1000)).
Proof.
  pose proof Hstep as H. unfold fc_solve_eta in H.
  ens H. ens H. ens H. ens H. ens H. ens H.
  inversion H; subst c'; clear H. subst s s'. cbn. numR.
  apply Rleb_true in E1. apply Rleb_true in E4.
  repeat split; auto; try (destruct on; reflexivity).
  - intros ->. cbn in E3. apply Reqb_true in E3. exact E3.
  - match goal with Hl : lim = true |- _ => rewrite Hl in E end.
    cbn [negb orb] in E. apply almost_le_spec in E. rewrite eps3_val in E. exact E.
  - match goal with Hl : lim = true |- _ => rewrite Hl in E0 end.
    cbn [negb orb] in E0. apply almost_le_spec in E0. rewrite eps3_val in E0. exact E0.
Qed.
End FC.

(* second law for the engine: needs a valid efficiency and a non-negative idle parameter *)
Lemma fc_second_law c c' req dt eta on lim :
  fc_solve_eta c req dt on lim eta = Ok c' -> eta_ok eta -> 0 <= fc_pwr_idle_fuel c ->
  let s' := fc_state c' in
  0 <= fcs_pwr_loss s' /\ fcs_pwr_brake s' <= fcs_pwr_fuel s' /\ 0 <= fcs_pwr_fuel s' /\
  0 <= fcs_pwr_idle_fuel s' /\
  (on = false -> fcs_pwr_fuel s' = 0 /\ fcs_pwr_idle_fuel s' = 0 /\ fcs_pwr_loss s' = 0).
Proof.
  intros H [He0 He1] Hidle. cbv zeta.
  destruct (fc_step_facts _ _ _ _ _ _ _ H) as (Hr & Hb & _ & _ & Hi & Hf & Hl & _ & _ & _ & _ & Hoff & _).
  assert (Hq : req <= req / eta).
  { unfold Rdiv. rewrite <- (Rmult_1_r req) at 1. apply Rmult_le_compat_l; [exact Hr|].
    rewrite <- Rinv_1. apply Rinv_le_contravar; lra. }
  assert (Hi0 : 0 <= fcs_pwr_idle_fuel (fc_state c')) by (rewrite Hi; destruct on; lra).
  rewrite Hl, Hf, Hb.
  split; [lra|]. split; [lra|]. split; [lra|]. split; [lra|].
  intros Ho. specialize (Hoff Ho). subst on req. cbn [Rdiv] in *.
  assert (Hz : fcs_pwr_idle_fuel (fc_state c') = 0) by exact Hi.
  rewrite Hz. unfold Rdiv. rewrite ?Hoff. repeat split; lra.
Qed.

Lemma fc_solve_unfold c req dt on lim c' :
  fc_solve c req dt on lim = Ok c' ->
  exists eta0, interp1d (req / fc_pwr_out_max c) (fc_frac c) (fc_eta_interp c) false = Ok eta0 /\
               fc_solve_eta c req dt on lim (1 * eta0) = Ok c'.
Proof.
  unfold fc_solve. intros H. ens H. ens H. ens H. numR.
  apply bind_ok in H. destruct H as (eta0 & He & H). exists eta0. split; [exact He|exact H].
Qed.

(* ------------------------------------------------------------------ Generator *)
Lemma gen_step_facts (g g' : Gen (F:=R)) prop aux dt eta :
  gen_set_pwr_in_req_eta g prop aux dt eta = Ok g' ->
  let s := gen_state g in let s' := gen_state g' in
  gs_eta s' = eta /\
  gs_pwr_elec_prop_out s' = prop /\ gs_pwr_elec_aux s' = aux /\
  gs_pwr_mech_in s' = (prop + aux) / eta /\
  gs_pwr_loss s' = gs_pwr_mech_in s' - (gs_pwr_elec_prop_out s' + gs_pwr_elec_aux s') /\
  gs_energy_mech_in s' = gs_energy_mech_in s + gs_pwr_mech_in s' * dt /\
  gs_energy_elec_prop_out s' = gs_energy_elec_prop_out s + gs_pwr_elec_prop_out s' * dt /\
  gs_energy_elec_aux s' = gs_energy_elec_aux s + gs_pwr_elec_aux s' * dt /\
  gs_energy_loss s' = gs_energy_loss s + gs_pwr_loss s' * dt /\
  gs_pwr_elec_prop_out_max s' = gs_pwr_elec_prop_out_max s /\
  gs_pwr_elec_out_max s' = gs_pwr_elec_out_max s /\
  gen_pwr_out_max g' = gen_pwr_out_max g /\ gen_frac g' = gen_frac g /\
  gen_eta_interp g' = gen_eta_interp g /\ gen_in_frac g' = gen_in_frac g.
Proof.
  unfold gen_set_pwr_in_req_eta. intros H. ens H. inversion H; subst g'; clear H. cbn. numR.
  repeat split; reflexivity.
Qed.

Lemma gen_second_law (g g' : Gen (F:=R)) prop aux dt eta :
  gen_set_pwr_in_req_eta g prop aux dt eta = Ok g' -> eta_ok eta -> 0 <= prop + aux ->
  let s' := gen_state g' in
  0 <= gs_pwr_loss s' /\ gs_pwr_elec_prop_out s' + gs_pwr_elec_aux s' <= gs_pwr_mech_in s'.
Proof.
  intros H [He0 He1] Hp. cbv zeta.
  destruct (gen_step_facts _ _ _ _ _ _ H) as (_ & Hpo & Ha & Hm & Hl & _).
  assert (Hq : prop + aux <= (prop + aux) / eta).
  { unfold Rdiv. rewrite <- (Rmult_1_r (prop + aux)) at 1. apply Rmult_le_compat_l; [exact Hp|].
    rewrite <- Rinv_1. apply Rinv_le_contravar; lra. }
  rewrite Hl, Hm, Hpo, Ha. split; lra.
Qed.

Lemma gen_req_unfold (g g' : Gen (F:=R)) prop aux dt :
  gen_set_pwr_in_req g prop aux dt = Ok g' ->
  0 <= prop /\ prop + aux <= gen_pwr_out_max g /\
  exists eta0, interp1d (Rabs (prop / gen_pwr_out_max g)) (gen_frac g) (gen_eta_interp g) false = Ok eta0 /\
               gen_set_pwr_in_req_eta g prop aux dt (1 * eta0) = Ok g'.
Proof.
  unfold gen_set_pwr_in_req. intros H. ens H. ens H. numR.
  apply Rleb_true in E, E0. apply bind_ok in H. destruct H as (eta0 & He & H).
  repeat split; auto. exists eta0. split; auto.
Qed.

(* ------------------------------------------------------------------ ElectricDrivetrain *)
Lemma edrv_step_facts (e e' : Edrv (F:=R)) req dt eta :
  edrv_set_pwr_in_req_eta e req dt eta = Ok e' ->
  let s := edrv_state e in let s' := edrv_state e' in
  es_eta s' = eta /\ es_pwr_out_req s' = req /\
  es_pwr_mech_prop_out s' = Rmax req (- es_pwr_mech_regen_max s) /\
  es_pwr_mech_dyn_brake s' = - (req - es_pwr_mech_prop_out s') /\
  0 <= es_pwr_mech_dyn_brake s' /\
  es_pwr_elec_prop_in s' = (if Rltb 0 req then es_pwr_mech_prop_out s' / eta
                            else es_pwr_mech_prop_out s' * eta) /\
  es_pwr_elec_dyn_brake s' = es_pwr_mech_dyn_brake s' * eta /\
  es_pwr_loss s' = Rabs (es_pwr_mech_prop_out s' - es_pwr_elec_prop_in s') /\
  es_energy_elec_prop_in s' = es_energy_elec_prop_in s + es_pwr_elec_prop_in s' * dt /\
  es_energy_mech_prop_out s' = es_energy_mech_prop_out s + es_pwr_mech_prop_out s' * dt /\
  es_energy_mech_dyn_brake s' = es_energy_mech_dyn_brake s + es_pwr_mech_dyn_brake s' * dt /\
  es_energy_elec_dyn_brake s' = es_energy_elec_dyn_brake s + es_pwr_elec_dyn_brake s' * dt /\
  es_energy_loss s' = es_energy_loss s + es_pwr_loss s' * dt /\
  es_pwr_mech_out_max s' = es_pwr_mech_out_max s /\
  es_pwr_mech_regen_max s' = es_pwr_mech_regen_max s /\
  edrv_pwr_out_max e' = edrv_pwr_out_max e /\ edrv_frac e' = edrv_frac e /\
  edrv_eta_interp e' = edrv_eta_interp e /\ edrv_in_frac e' = edrv_in_frac e.
Proof.
  unfold edrv_set_pwr_in_req_eta. intros H. ens H. ens H. inversion H; subst e'; clear H. cbn. numR.
  apply Rleb_true in E0. repeat split; auto.
Qed.

(* wheel power = propulsion - dynamic braking = the request *)
Lemma edrv_wheel_balance (e e' : Edrv (F:=R)) req dt eta :
  edrv_set_pwr_in_req_eta e req dt eta = Ok e' ->
  es_pwr_mech_prop_out (edrv_state e') - es_pwr_mech_dyn_brake (edrv_state e') = req.
Proof.
  intros H. destruct (edrv_step_facts _ _ _ _ _ H) as (_ & _ & _ & Hd & _). rewrite Hd. lra.
Qed.

Lemma edrv_second_law (e e' : Edrv (F:=R)) req dt eta :
  edrv_set_pwr_in_req_eta e req dt eta = Ok e' -> eta_ok eta -> 0 <= es_pwr_mech_regen_max (edrv_state e) ->
  let s' := edrv_state e' in
  0 <= es_pwr_loss s' /\
  (* traction: mechanical out <= electrical in; braking: |electrical| <= |mechanical| *)
  (0 < req -> 0 <= es_pwr_mech_prop_out s' <= es_pwr_elec_prop_in s') /\
  (req <= 0 -> es_pwr_mech_prop_out s' <= es_pwr_elec_prop_in s' <= 0) /\
  (* electrical in = mechanical out + loss in traction, mechanical = electrical - loss in regen *)
  (0 < req -> es_pwr_elec_prop_in s' = es_pwr_mech_prop_out s' + es_pwr_loss s') /\
  (req <= 0 -> es_pwr_elec_prop_in s' = es_pwr_mech_prop_out s' + es_pwr_loss s') /\
  (* no dynamic braking unless braking is demanded *)
  (0 <= req -> es_pwr_mech_dyn_brake s' = 0) /\
  0 <= es_pwr_elec_dyn_brake s' <= es_pwr_mech_dyn_brake s'.
Proof.
  intros H [He0 He1] Hrm. cbv zeta.
  destruct (edrv_step_facts _ _ _ _ _ H) as (_ & _ & Hp & Hd & Hd0 & Hi & Hed & Hl & _).
  set (p := es_pwr_mech_prop_out (edrv_state e')) in *.
  set (rm := es_pwr_mech_regen_max (edrv_state e)) in *.
  assert (Hinv : 1 <= / eta) by (rewrite <- Rinv_1; apply Rinv_le_contravar; lra).
  assert (Hpm : p = Rmax req (- rm)) by exact Hp.
  rewrite Hl, Hi, Hed, Hd.
  split; [apply Rabs_pos|].
  destruct (Rltb_spec 0 req) as [Hpos|Hneg].
  - assert (Hpr : p = req) by (rewrite Hpm; apply Rmax_left; lra).
    assert (Hq : p <= p / eta) by (unfold Rdiv; nra).
    assert (Hab : Rabs (p - p / eta) = p / eta - p) by (rewrite Rabs_left1 by lra; lra).
    assert (Hdz : - (req - p) = 0) by lra.
    rewrite Hab, Hdz, Rmult_0_l.
    repeat split; intros; lra.
  - assert (Hp0 : p <= 0) by (rewrite Hpm; apply Rmax_lub; lra).
    assert (Hq : p <= p * eta) by nra.
    assert (Hq0 : p * eta <= 0) by nra.
    assert (Hreq : req <= p) by (rewrite Hpm; apply Rmax_l).
    assert (Hab : Rabs (p - p * eta) = p * eta - p) by (rewrite Rabs_left1 by lra; lra).
    assert (Hz : 0 <= req -> p = req) by (intros; rewrite Hpm; apply Rmax_left; lra).
    assert (Hde : 0 <= - (req - p) * eta <= - (req - p)) by (split; nra).
    rewrite Hab.
    repeat split; intros; lra.
Qed.

Lemma edrv_req_unfold (e e' : Edrv (F:=R)) req dt :
  edrv_set_pwr_in_req e req dt = Ok e' ->
  req <= edrv_pwr_out_max e /\
  exists eta0, interp1d (Rabs (req / edrv_pwr_out_max e)) (edrv_frac e) (edrv_eta_interp e) false = Ok eta0 /\
               edrv_set_pwr_in_req_eta e req dt (1 * eta0) = Ok e'.
Proof.
  unfold edrv_set_pwr_in_req. intros H. ens H. numR. apply Rleb_true in E.
  apply bind_ok in H. destruct H as (eta0 & He & H). split; auto. exists eta0; split; auto.
Qed.

(* ------------------------------------------------------------------ ReversibleEnergyStorage *)
Lemma res_step_facts (r r' : Res (F:=R)) prop aux dt eta :
  res_solve_eta r prop aux dt eta = Ok r' ->
  let s := res_state r in let s' := res_state r' in
  rs_eta s' = 1 * eta /\
  rs_pwr_out_propulsion s' = prop /\ rs_pwr_aux s' = aux /\
  rs_pwr_out_electrical s' = rs_pwr_out_propulsion s' + rs_pwr_aux s' /\
  rs_pwr_out_chemical s' = (if Rltb 0 (rs_pwr_out_electrical s') then rs_pwr_out_electrical s' / eta
                            else rs_pwr_out_electrical s' * eta) /\
  rs_pwr_loss s' = Rabs (rs_pwr_out_chemical s' - rs_pwr_out_electrical s') /\
  rs_energy_out_electrical s' = rs_energy_out_electrical s + rs_pwr_out_electrical s' * dt /\
  rs_energy_out_propulsion s' = rs_energy_out_propulsion s + rs_pwr_out_propulsion s' * dt /\
  rs_energy_aux s' = rs_energy_aux s + rs_pwr_aux s' * dt /\
  rs_energy_loss s' = rs_energy_loss s + rs_pwr_loss s' * dt /\
  rs_energy_out_chemical s' = rs_energy_out_chemical s + rs_pwr_out_chemical s' * dt /\
  rs_soc s' = rs_soc s - rs_pwr_out_chemical s' * dt / res_energy_capacity r /\
  res_energy_capacity r' = res_energy_capacity r /\ res_pwr_out_max r' = res_pwr_out_max r /\
  rs_pwr_disch_max s' = rs_pwr_disch_max s /\ rs_pwr_charge_max s' = rs_pwr_charge_max s /\
  rs_min_soc s' = rs_min_soc s /\ rs_max_soc s' = rs_max_soc s /\
  res_limit_checks r prop aux = Ok tt.
Proof.
  unfold res_solve_eta. intros H.
  apply bind_ok in H. destruct H as ([] & Elim & H). ens H.
  inversion H; subst r'; clear H. cbn. numR. repeat split; auto.
Qed.

Lemma res_second_law (r r' : Res (F:=R)) prop aux dt eta :
  res_solve_eta r prop aux dt eta = Ok r' -> eta_ok eta ->
  let s' := res_state r' in
  0 <= rs_pwr_loss s' /\
  (0 < rs_pwr_out_electrical s' -> rs_pwr_out_electrical s' <= rs_pwr_out_chemical s') /\
  (rs_pwr_out_electrical s' <= 0 -> rs_pwr_out_electrical s' <= rs_pwr_out_chemical s' <= 0) /\
  (* chemical = electrical + loss, both directions *)
  rs_pwr_out_chemical s' = rs_pwr_out_electrical s' + rs_pwr_loss s'.
Proof.
  intros H [He0 He1]. cbv zeta.
  destruct (res_step_facts _ _ _ _ _ _ H) as (_ & _ & _ & _ & Hc & Hl & _).
  set (el := rs_pwr_out_electrical (res_state r')) in *.
  assert (Hinv : 1 <= / eta) by (rewrite <- Rinv_1; apply Rinv_le_contravar; lra).
  rewrite Hl, Hc. split; [apply Rabs_pos|].
  destruct (Rltb_spec 0 el) as [Hpos|Hneg].
  - assert (el <= el / eta) by (unfold Rdiv; nra).
    repeat split; intros; try lra. rewrite Rabs_right by lra. lra.
  - assert (el <= el * eta) by nra. assert (el * eta <= 0) by nra.
    repeat split; intros; try lra. rewrite Rabs_right by lra. lra.
Qed.
