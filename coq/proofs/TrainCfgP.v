(* TrainCfgP.v -- the train's own maximum speed is the minimum over the vehicle types present. *)
From Coq Require Import Reals Lra Lia List Bool ZArith.
From AltModel Require Import Num SpeedPoints PathGeom TrainCfg.
From AltProofs Require Import NumR SpeedPointsP PathGeomP.
Import ListNotations.
Open Scope R_scope.

Notation RVR := (RV (F:=R)).

Definition present (rv : RVR) : Prop := (0 < rv_n rv)%Z.

Lemma speed_fold_spec (rvs : list RVR) : forall acc,
  match fold_left speed_fold rvs acc with
  | None => acc = None /\ Forall (fun rv => ~ present rv) rvs
  | Some m =>
      (forall a, acc = Some a -> m <= a) /\
      (forall rv, In rv rvs -> present rv -> m <= rv_speed_max rv) /\
      (acc = Some m \/ exists rv, In rv rvs /\ present rv /\ m = rv_speed_max rv)
  end.
Proof.
  induction rvs as [|rv t IH]; intros acc; cbn [fold_left].
  - destruct acc as [a|]; [|split; [reflexivity|constructor]].
    split; [intros a' E; inversion E; lra|]. split; [intros rv [] |]. left; reflexivity.
  - specialize (IH (speed_fold acc rv)).
    destruct (fold_left speed_fold t (speed_fold acc rv)) as [m|] eqn:Ef.
    + destruct IH as (I1 & I2 & I3). unfold speed_fold in I1, I3.
      destruct (0 <? rv_n rv)%Z eqn:En.
      * apply Z.ltb_lt in En. destruct acc as [a|]; numR.
        -- specialize (I1 _ eq_refl). pose proof (Rmin_l a (rv_speed_max rv)). pose proof (Rmin_r a (rv_speed_max rv)).
           split; [intros a' E; inversion E; subst; lra|]. split.
           ++ intros r [<-|Hin] Hp; [lra|auto].
           ++ destruct I3 as [I3|(r & Hin & Hp & E)].
              ** inversion I3 as [E]. unfold Rmin. destruct (Rle_dec a (rv_speed_max rv)).
                 --- left; reflexivity.
                 --- right. exists rv. split; [left; reflexivity|]. split; [exact En|]. reflexivity.
              ** right. exists r. split; [right; exact Hin|]. auto.
        -- specialize (I1 _ eq_refl). split; [intros a' E; discriminate|]. split.
           ++ intros r [<-|Hin] Hp; [lra|auto].
           ++ right. destruct I3 as [I3|(r & Hin & Hp & E)].
              ** inversion I3. exists rv. split; [left; reflexivity|]. split; [exact En|]. reflexivity.
              ** exists r. split; [right; exact Hin|]. auto.
      * apply Z.ltb_ge in En. split; [exact I1|]. split.
        -- intros r [<-|Hin] Hp; [unfold present in Hp; lia|auto].
        -- destruct I3 as [I3|(r & Hin & Hp & E)]; [left; exact I3|]. right. exists r. split; [right; exact Hin|]. auto.
    + destruct IH as (I1 & I2). unfold speed_fold in I1.
      destruct (0 <? rv_n rv)%Z eqn:En.
      * destruct acc; discriminate.
      * apply Z.ltb_ge in En. split; [exact I1|]. constructor; [unfold present; lia|exact I2].
Qed.

(* the train's maximum speed is at most the maximum speed of every vehicle type present in the train,
   and it is the maximum speed of one of them *)
Theorem cfg_speed_max_is_min (rvs : list RVR) ttype tm tl (tp : TPR) :
  make_train_params rvs ttype tm tl = Ok tp ->
  (exists rv, In rv rvs /\ present rv) ->
  (forall rv, In rv rvs -> present rv -> tp_speed_max tp <= rv_speed_max rv) /\
  (exists rv, In rv rvs /\ present rv /\ tp_speed_max tp = rv_speed_max rv).
Proof.
  unfold make_train_params. destruct rvs as [|rv0 t]; [discriminate|]. intros H (rp & Hin & Hp).
  inversion H; subst tp; clear H. cbn [tp_speed_max]. unfold cfg_speed_max, cfg_speed_max_opt.
  pose proof (speed_fold_spec (rv0 :: t) None) as S.
  destruct (fold_left speed_fold (rv0 :: t) None) as [m|].
  - destruct S as (_ & S2 & S3). split; [exact S2|]. destruct S3 as [S3|S3]; [discriminate|exact S3].
  - destruct S as (_ & S). rewrite Forall_forall in S. exfalso. exact (S rp Hin Hp).
Qed.

(* C02, for a train described by its configuration: the enforced profile never exceeds the maximum
   speed of ANY vehicle type present in the train *)
Theorem config_profile_safe (rvs : list RVR) ttype tm tl (tp : TPR) (net : list LinkR) parts (q : PathR) x rv :
  make_train_params rvs ttype tm tl = Ok tp ->
  extend_many net (new_path tp) parts = Ok q -> route_ok net tp (concat parts) -> 0 <= x ->
  In rv rvs -> present rv ->
  eval_speed (p_speed_points q) x <= rv_speed_max rv.
Proof.
  intros Hm He Hr Hx Hin Hp.
  destruct (cfg_speed_max_is_min _ _ _ _ _ Hm (ex_intro _ rv (conj Hin Hp))) as (Hle & _).
  destruct (path_profile_safe net tp parts q x He Hr Hx) as (Hs & _).
  specialize (Hle rv Hin Hp). lra.
Qed.
