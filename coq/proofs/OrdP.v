(* OrdP.v -- the hand-written Ord instances that drive the BinaryHeaps of make_est_times and
   run_dispatch are total orders on real (non-NaN) times, and never reach the unwrap() panic. *)
From Coq Require Import Reals Lra List Bool ZArith Lia Arith.
From AltModel Require Import Num TrackNet EstNet.
From AltProofs Require Import NumR.
Import ListNotations.

Record TotalCmp {A} (cmp : A -> A -> res comparison) : Prop := {
  tc_total : forall x y, exists c, cmp x y = Ok c;
  tc_refl : forall x, cmp x x = Ok Eq;
  tc_eq : forall x y, cmp x y = Ok Eq -> x = y;
  tc_anti : forall x y c, cmp x y = Ok c -> cmp y x = Ok (CompOpp c);
  tc_trans : forall x y z, cmp x y = Ok Lt -> cmp y z = Ok Lt -> cmp x z = Ok Lt }.

Definition flipc {A} (cmp : A -> A -> res comparison) (x y : A) := cmp y x.
Definition lexc {A B} (ca : A -> A -> res comparison) (cb : B -> B -> res comparison) (x y : A * B) : res comparison :=
  let? c := ca (fst x) (fst y) in match c with Eq => cb (snd x) (snd y) | _ => Ok c end.
Definition natc (x y : nat) : res comparison := Ok (Nat.compare x y).

Lemma flip_total {A} (cmp : A -> A -> res comparison) : TotalCmp cmp -> TotalCmp (flipc cmp).
Proof.
  intros T. unfold flipc. constructor.
  - intros x y. apply (tc_total _ T).
  - intros x. apply (tc_refl _ T).
  - intros x y H. symmetry. apply (tc_eq _ T); auto.
  - intros x y c H. apply (tc_anti _ T) in H. rewrite H. destruct c; reflexivity.
  - intros x y z H1 H2. apply (tc_trans _ T z y x); auto.
Qed.

Lemma lex_total {A B} (ca : A -> A -> res comparison) (cb : B -> B -> res comparison) :
  TotalCmp ca -> TotalCmp cb -> TotalCmp (lexc ca cb).
Proof.
  intros Ta Tb. constructor.
  - intros [x1 x2] [y1 y2]. unfold lexc. cbn. destruct (tc_total _ Ta x1 y1) as [c E]. rewrite E. cbn.
    destruct c; eauto. apply (tc_total _ Tb).
  - intros [x1 x2]. unfold lexc. cbn. rewrite (tc_refl _ Ta). cbn. apply (tc_refl _ Tb).
  - intros [x1 x2] [y1 y2]. unfold lexc. cbn. destruct (ca x1 y1) as [c| |] eqn:E; cbn; try discriminate.
    destruct c; try discriminate. intros H. apply (tc_eq _ Ta) in E. apply (tc_eq _ Tb) in H. subst; auto.
  - intros [x1 x2] [y1 y2] c. unfold lexc. cbn. destruct (ca x1 y1) as [c1| |] eqn:E; cbn; try discriminate.
    rewrite (tc_anti _ Ta _ _ _ E). cbn. destruct c1; cbn.
    + apply (tc_anti _ Tb).
    + intros H; inversion H; subst; reflexivity.
    + intros H; inversion H; subst; reflexivity.
  - intros [x1 x2] [y1 y2] [z1 z2]. unfold lexc. cbn.
    destruct (ca x1 y1) as [c1| |] eqn:E1; cbn; try discriminate.
    destruct (ca y1 z1) as [c2| |] eqn:E2; cbn; try (destruct c1; discriminate).
    destruct c1, c2; try discriminate; intros H1 H2.
    + apply (tc_eq _ Ta) in E1, E2. subst. rewrite (tc_refl _ Ta). cbn. apply (tc_trans _ Tb _ y2); auto.
    + apply (tc_eq _ Ta) in E1. subst. rewrite E2. reflexivity.
    + apply (tc_eq _ Ta) in E2. subst. rewrite E1. reflexivity.
    + rewrite (tc_trans _ Ta _ _ _ E1 E2). reflexivity.
Qed.

Lemma natc_total : TotalCmp natc.
Proof.
  unfold natc. constructor.
  - eauto.
  - intros x. rewrite Nat.compare_refl. reflexivity.
  - intros x y H. inversion H. apply Nat.compare_eq; auto.
  - intros x y c H. inversion H. rewrite (Nat.compare_antisym x y). reflexivity.
  - intros x y z H1 H2. injection H1 as H1. injection H2 as H2. apply Nat.compare_lt_iff in H1, H2.
    f_equal. apply Nat.compare_lt_iff. lia.
Qed.

(* f64::partial_cmp(..).unwrap() on real numbers *)
Lemma pcmp_R (a b : R) :
  (a < b /\ pcmp a b = Ok Lt) \/ (a = b /\ pcmp a b = Ok Eq) \/ (b < a /\ pcmp a b = Ok Gt).
Proof.
  unfold pcmp. numR. destruct (Rltb_spec a b); [left; auto|].
  destruct (Reqb_spec a b); [right; left; auto|].
  destruct (Rltb_spec b a); [right; right; auto|]. lra.
Qed.

Lemma pcmp_total : TotalCmp (pcmp (F:=R)).
Proof.
  constructor.
  - intros x y. destruct (pcmp_R x y) as [[_ H]|[[_ H]|[_ H]]]; eauto.
  - intros x. destruct (pcmp_R x x) as [[? H]|[[_ H]|[? H]]]; auto; lra.
  - intros x y H. destruct (pcmp_R x y) as [[? H']|[[? H']|[? H']]]; auto; congruence.
  - intros x y c H.
    destruct (pcmp_R x y) as [[? H1]|[[? H1]|[? H1]]], (pcmp_R y x) as [[? H2]|[[? H2]|[? H2]]];
      try lra; rewrite H1 in H; inversion H; subst; rewrite H2; reflexivity.
  - intros x y z H1 H2.
    destruct (pcmp_R x y) as [[? E1]|[[? E1]|[? E1]]]; try congruence.
    destruct (pcmp_R y z) as [[? E2]|[[? E2]|[? E2]]]; try congruence.
    destruct (pcmp_R x z) as [[? E3]|[[? E3]|[? E3]]]; auto; lra.
Qed.

(* EstTimeNext: reversed time, then reversed index (a min-heap on (time, index)) *)
Lemma cmp_est_next_lex (a b : R * nat) : cmp_est_next a b = lexc (flipc pcmp) (flipc natc) a b.
Proof.
  unfold cmp_est_next, lexc, flipc, natc. destruct (pcmp (fst b) (fst a)) as [c| |]; cbn; auto. destruct c; reflexivity.
Qed.

Theorem cmp_est_next_total : TotalCmp (cmp_est_next (F:=R)).
Proof.
  assert (T : TotalCmp (lexc (flipc (pcmp (F:=R))) (flipc natc))).
  { apply lex_total; apply flip_total; [apply pcmp_total|apply natc_total]. }
  destruct T as [t1 t2 t3 t4 t5].
  constructor; intros; rewrite ?cmp_est_next_lex in *; eauto.
Qed.

(* EstTimePrev: derived lexicographic order on (time_prev, time_sub, est_idx) *)
Definition prev_key (a : R * R * nat) : R * (R * nat) := let '(a1, a2, a3) := a in (a1, (a2, a3)).
Lemma cmp_est_prev_lex (a b : R * R * nat) :
  cmp_est_prev a b = lexc pcmp (lexc pcmp natc) (prev_key a) (prev_key b).
Proof.
  destruct a as [[a1 a2] a3], b as [[b1 b2] b3]. unfold cmp_est_prev, lexc, natc, prev_key. cbn.
  destruct (pcmp a1 b1) as [c| |]; cbn; auto. destruct c; auto.
  destruct (pcmp a2 b2) as [c| |]; cbn; auto. destruct c; reflexivity.
Qed.

Lemma prev_key_inj a b : prev_key a = prev_key b -> a = b.
Proof. destruct a as [[a1 a2] a3], b as [[b1 b2] b3]. cbn. intros H; inversion H; reflexivity. Qed.

Theorem cmp_est_prev_total : TotalCmp (cmp_est_prev (F:=R)).
Proof.
  assert (T : TotalCmp (lexc (pcmp (F:=R)) (lexc (pcmp (F:=R)) natc))).
  { apply lex_total; [apply pcmp_total|apply lex_total; [apply pcmp_total|apply natc_total]]. }
  destruct T as [t1 t2 t3 t4 t5].
  constructor; intros; rewrite ?cmp_est_prev_lex in *; eauto.
  apply prev_key_inj. eauto.
Qed.
