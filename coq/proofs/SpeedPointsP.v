(* SpeedPointsP.v -- the speed profile denotes the pointwise minimum of the posted restrictions,
   in canonical form.  All statements at the real-number instance. *)
From Coq Require Import Reals Lra List Bool ZArith Lia.
From AltModel Require Import Num SpeedPoints.
From AltProofs Require Import NumR.
Import ListNotations.
Open Scope R_scope.

Notation ptR := (pt (F:=R)).
Notation SLR := (SpeedLimit (F:=R)).
Notation SSR := (SpeedSet (F:=R)).
Notation TPR := (TrainParams (F:=R)).

(* ------------------------------------------------------------------ step functions *)
Fixpoint sorted_from (lo : R) (pts : list ptR) : Prop :=
  match pts with [] => True | (o, _) :: t => lo <= o /\ sorted_from o t end.
(* offsets non-decreasing *)
Definition sorted (pts : list ptR) : Prop :=
  match pts with [] => True | (o, _) :: t => sorted_from o t end.

Fixpoint ssorted_from (lo : R) (pts : list ptR) : Prop :=
  match pts with [] => True | (o, _) :: t => lo < o /\ ssorted_from o t end.
(* offsets strictly increasing *)
Definition ssorted (pts : list ptR) : Prop :=
  match pts with [] => True | (o, _) :: t => ssorted_from o t end.

Fixpoint no_eq_adj (d : R) (pts : list ptR) : Prop :=
  match pts with [] => True | (_, s) :: t => s <> d /\ no_eq_adj s t end.
(* no two neighbouring points carry the same speed *)
Definition no_eq_neighbours (pts : list ptR) : Prop :=
  match pts with [] => True | (_, s) :: t => no_eq_adj s t end.

Definition speeds_nonneg (pts : list ptR) : Prop := Forall (fun p => 0 <= snd p) pts.

Lemma ssorted_from_sorted lo pts : ssorted_from lo pts -> sorted_from lo pts.
Proof. revert lo; induction pts as [|[o s] t IH]; cbn; auto. intros lo [H1 H2]. split; [lra|auto]. Qed.
Lemma ssorted_sorted pts : ssorted pts -> sorted pts.
Proof. destruct pts as [|[o s] t]; cbn; auto. apply ssorted_from_sorted. Qed.

Lemma sorted_from_weaken lo lo' pts : lo' <= lo -> sorted_from lo pts -> sorted_from lo' pts.
Proof. destruct pts as [|[o s] t]; cbn; auto. intros H [A B]; split; auto; lra. Qed.

(* ------------------------------------------------------------------ add_bp *)
Lemma eval_add_bp (d : R) (pts : list ptR) (o x lo : R) : sorted_from lo pts -> eval d (add_bp d pts o) x = eval d pts x.
Proof.
  revert d lo. induction pts as [|[o' s] t IH]; intros d lo Hs; cbn; numR.
  - destruct (Rleb_spec o x); reflexivity.
  - destruct Hs as [Hlo Hs]. destruct (Rltb_spec o o').
    + cbn; numR. destruct (Rleb_spec o x); destruct (Rleb_spec o' x); try reflexivity; lra.
    + destruct (Reqb_spec o o'); cbn; numR.
      * reflexivity.
      * destruct (Rleb_spec o' x); [eapply IH; eauto|reflexivity].
Qed.

Lemma sorted_add_bp (d : R) (pts : list ptR) (o lo : R) : lo <= o -> sorted_from lo pts -> sorted_from lo (add_bp d pts o).
Proof.
  revert d lo. induction pts as [|[o' s] t IH]; intros d lo Hlo Hs; cbn; numR.
  - split; auto.
  - destruct Hs as [Hlo' Hs]. destruct (Rltb_spec o o').
    + cbn. repeat split; auto; lra.
    + destruct (Reqb_spec o o'); cbn; [split; auto|]. split; auto. apply IH; auto. lra.
Qed.

Lemma ssorted_add_bp (d : R) (pts : list ptR) (o lo : R) : lo < o -> ssorted_from lo pts -> ssorted_from lo (add_bp d pts o).
Proof.
  revert d lo. induction pts as [|[o' s] t IH]; intros d lo Hlo Hs; cbn; numR.
  - split; auto.
  - destruct Hs as [Hlo' Hs]. destruct (Rltb_spec o o').
    + cbn. repeat split; auto; lra.
    + destruct (Reqb_spec o o'); cbn; [split; auto|]. split; auto. apply IH; auto. lra.
Qed.

Lemma add_bp_in (d : R) (pts : list ptR) (o : R) : In o (map fst (add_bp d pts o)).
Proof. revert d; induction pts as [|[o' s] t IH]; intros d; cbn; numR; auto.
  destruct (Rltb_spec o o'); cbn; auto. destruct (Reqb_spec o o'); cbn; auto. Qed.
Lemma add_bp_keeps (d : R) (pts : list ptR) (o e : R) : In e (map fst pts) -> In e (map fst (add_bp d pts o)).
Proof. revert d; induction pts as [|[o' s] t IH]; intros d H; cbn in *; numR; [tauto|].
  destruct (Rltb_spec o o'); cbn; auto. destruct (Reqb_spec o o'); cbn; auto.
  destruct H; auto. Qed.
Lemma add_bp_offsets (d : R) (pts : list ptR) (o e : R) : In e (map fst (add_bp d pts o)) -> e = o \/ In e (map fst pts).
Proof. revert d; induction pts as [|[o' s] t IH]; intros d H; cbn in *; numR.
  - destruct H; auto.
  - destruct (Rltb_spec o o'); cbn in *; [intuition auto|]. destruct (Reqb_spec o o'); cbn in *; [intuition auto|].
    destruct H as [H|H]; auto. apply IH in H. intuition auto. Qed.
Lemma add_bp_speeds (d : R) (pts : list ptR) (o : R) (P : R -> Prop) :
  P d -> Forall (fun p => P (snd p)) pts -> Forall (fun p => P (snd p)) (add_bp d pts o).
Proof. revert d; induction pts as [|[o' s] t IH]; intros d Hd H; cbn; numR.
  - constructor; auto.
  - inversion H as [|? ? Hs Ht]; subst. cbn in Hs.
    destruct (Rltb_spec o o'); [constructor; auto|]. destruct (Reqb_spec o o'); auto. Qed.
(* a breakpoint at or after the first point leaves the first point in place *)
Lemma add_bp_head (d o0 s0 : R) (t : list ptR) (o : R) : o0 <= o -> exists t', add_bp d ((o0, s0) :: t) o = (o0, s0) :: t'.
Proof. intros H. cbn; numR. destruct (Rltb_spec o o0); [lra|]. destruct (Reqb_spec o o0); eauto. Qed.

(* ------------------------------------------------------------------ last breakpoint <= x *)
Fixpoint evalo (lo d : R) (pts : list ptR) (x : R) : ptR :=
  match pts with
  | [] => (lo, d)
  | (o, s) :: t => if Rleb o x then evalo o s t x else (lo, d)
  end.

Lemma eval_evalo (lo d : R) (pts : list ptR) (x : R) : eval d pts x = snd (evalo lo d pts x).
Proof. revert lo d; induction pts as [|[o s] t IH]; intros; cbn; numR; auto. destruct (Rleb o x); auto. Qed.

Lemma evalo_le lo d pts x : lo <= x -> fst (evalo lo d pts x) <= x.
Proof. revert lo d; induction pts as [|[o s] t IH]; intros lo d H; cbn; auto.
  destruct (Rleb_spec o x); cbn; auto. Qed.

Lemma evalo_ge_lo lo d pts x : sorted_from lo pts -> lo <= fst (evalo lo d pts x).
Proof. revert lo d; induction pts as [|[o s] t IH]; intros lo d H; cbn; try lra.
  destruct H as [H1 H2]. destruct (Rleb_spec o x); cbn; try lra. specialize (IH o s H2). lra. Qed.

Lemma sorted_from_in lo pts e : sorted_from lo pts -> In e (map fst pts) -> lo <= e.
Proof. revert lo; induction pts as [|[o s] t IH]; cbn; intros lo Hs Hin; [tauto|].
  destruct Hs as [A B]. destruct Hin as [->|Hin]; auto. specialize (IH o B Hin). lra. Qed.

Lemma evalo_last lo d pts x e : sorted_from lo pts -> In e (map fst pts) -> e <= x ->
  e <= fst (evalo lo d pts x).
Proof. revert lo d; induction pts as [|[o s] t IH]; intros lo d Hs Hin Hex; cbn in *; [tauto|].
  destruct Hs as [H1 H2]. destruct (Rleb_spec o x).
  - destruct Hin as [->|Hin]; [apply evalo_ge_lo; auto|eapply IH; eauto].
  - destruct Hin as [->|Hin]; [lra|]. exfalso.
    pose proof (sorted_from_in o t e H2 Hin). lra.
Qed.

(* ------------------------------------------------------------------ lower *)
Lemma low1_fst (a b v : R) (p : ptR) : fst (low1 a b v p) = fst p.
Proof. unfold low1. destruct (inwin a b (fst p)); reflexivity. Qed.

Lemma evalo_lower (a b v lo d : R) (pts : list ptR) (x : R) :
  evalo lo (snd (low1 a b v (lo, d))) (lower a b v pts) x = low1 a b v (evalo lo d pts x).
Proof. revert lo d; induction pts as [|[o s] t IH]; intros lo d; cbn [lower map evalo].
  - unfold low1; cbn. destruct (inwin a b lo); reflexivity.
  - assert (E : low1 a b v (o, s) = (o, snd (low1 a b v (o, s)))).
    { unfold low1; cbn. destruct (inwin a b o); reflexivity. }
    rewrite E. destruct (Rleb o x).
    + apply IH.
    + unfold low1; cbn. destruct (inwin a b lo); reflexivity.
Qed.

Lemma sorted_lower (a b v lo : R) (pts : list ptR) : sorted_from lo pts -> sorted_from lo (lower a b v pts).
Proof. revert lo; induction pts as [|[o s] t IH]; cbn; auto. intros lo [A B].
  unfold low1 at 1; cbn. destruct (inwin a b o); cbn; split; auto. Qed.
Lemma ssorted_lower (a b v lo : R) (pts : list ptR) : ssorted_from lo pts -> ssorted_from lo (lower a b v pts).
Proof. revert lo; induction pts as [|[o s] t IH]; cbn; auto. intros lo [A B].
  unfold low1 at 1; cbn. destruct (inwin a b o); cbn; split; auto. Qed.
Lemma lower_offsets (a b v : R) (pts : list ptR) : map fst (lower a b v pts) = map fst pts.
Proof. unfold lower. induction pts as [|p t IH]; cbn; auto. rewrite low1_fst, IH. reflexivity. Qed.

Lemma inwin_spec (a b o : R) : inwin (F:=R) a b o = true <-> a <= o < b.
Proof. unfold inwin; numR. destruct (Rleb_spec a o), (Rltb_spec o b); cbn; split; intros; try discriminate; try lra; auto. Qed.

Lemma inwin_last (a b lo d : R) (pts : list ptR) (x : R) : sorted_from lo pts -> lo <= x ->
  (a <= lo \/ In a (map fst pts)) -> (b <= lo \/ In b (map fst pts)) ->
  inwin a b (fst (evalo lo d pts x)) = inwin a b x.
Proof.
  intros Hs Hx Ha Hb. pose proof (evalo_le lo d pts x Hx) as Hle.
  pose proof (evalo_ge_lo lo d pts x Hs) as Hge.
  assert (F1 : a <= x -> a <= fst (evalo lo d pts x)).
  { intros H. destruct Ha as [Ha|Ha]; [lra|]. eapply evalo_last; eauto. }
  assert (F2 : b <= x -> b <= fst (evalo lo d pts x)).
  { intros H. destruct Hb as [Hb|Hb]; [lra|]. eapply evalo_last; eauto. }
  unfold inwin; numR.
  destruct (Rleb_spec a (fst (evalo lo d pts x))), (Rleb_spec a x),
           (Rltb_spec (fst (evalo lo d pts x)) b), (Rltb_spec x b); cbn; try reflexivity; exfalso;
  try lra; try (assert (b <= x) by lra; specialize (F2 H); lra); try (specialize (F1 ltac:(assumption)); lra).
Qed.

(* ------------------------------------------------------------------ canon *)
Lemma eval_before (d lo : R) (pts : list ptR) (x : R) : sorted_from lo pts -> x < lo -> eval d pts x = d.
Proof. destruct pts as [|[o s] t]; cbn; numR; auto. intros [H _] Hx. destruct (Rleb_spec o x); auto; lra. Qed.

Lemma eval_canon (d lo : R) (pts : list ptR) (x : R) : sorted_from lo pts -> eval d (canon d pts) x = eval d pts x.
Proof. revert d lo; induction pts as [|[o s] t IH]; intros d lo Hs; cbn; numR; auto.
  destruct Hs as [H1 H2]. destruct (Reqb_spec s d) as [->|Hne]; cbn; numR.
  - rewrite (IH d o H2). destruct (Rleb_spec o x); auto.
    apply (eval_before d o t x H2). lra.
  - destruct (Rleb o x); auto. eapply IH; eauto.
Qed.

Lemma canon_no_eq (d : R) (pts : list ptR) : no_eq_adj d (canon d pts).
Proof. revert d; induction pts as [|[o s] t IH]; intros d; cbn; numR; auto.
  destruct (Reqb_spec s d); cbn; auto. Qed.

Lemma canon_incl (d : R) (pts : list ptR) (p : ptR) : In p (canon d pts) -> In p pts.
Proof. revert d; induction pts as [|[o s] t IH]; intros d; cbn; numR; auto.
  destruct (Reqb_spec s d); cbn; intros H; [right; eauto|]. destruct H; [left; auto|right; eauto]. Qed.

Lemma ssorted_from_weaken lo lo' pts : lo' <= lo -> ssorted_from lo pts -> ssorted_from lo' pts.
Proof. destruct pts as [|[o s] t]; cbn; auto. intros H [A B]; split; auto; lra. Qed.

Lemma ssorted_canon (d lo : R) (pts : list ptR) : ssorted_from lo pts -> ssorted_from lo (canon d pts).
Proof. revert d lo; induction pts as [|[o s] t IH]; intros d lo; cbn; numR; auto. intros [A B].
  destruct (Reqb_spec s d); cbn.
  - apply IH. eapply ssorted_from_weaken; [|exact B]. lra.
  - split; auto. Qed.

(* a canonical list is a fixed point of canon *)
Lemma canon_id (d : R) (pts : list ptR) : no_eq_adj d pts -> canon d pts = pts.
Proof. revert d; induction pts as [|[o s] t IH]; intros d H; cbn in *; numR; auto. destruct H as [A B].
  destruct (Reqb_spec s d); [contradiction|]. rewrite IH; auto. Qed.

(* ------------------------------------------------------------------ min_speed *)
Lemma sign_pos_false (x : R) : 0 <= x -> sign_pos x = false -> x = 0.
Proof. unfold sign_pos; numR. intros H. destruct (Rltb_spec 0 x); cbn [orb]; [discriminate|intros _; lra]. Qed.

Lemma min_speed_nonneg (s v : R) : 0 <= s -> 0 <= v -> min_speed s v = Rmin s v.
Proof.
  intros Hs Hv. unfold min_speed. numR.
  destruct (sign_pos s) eqn:E1; destruct (sign_pos v) eqn:E2; cbn [andb]; try reflexivity.
  - apply sign_pos_false in E2; auto. subst v. rewrite Rabs_R0, (Rabs_pos_eq s) by lra. rewrite !Rmin_right by lra. lra.
  - apply sign_pos_false in E1; auto. subst s. rewrite Rabs_R0, (Rabs_pos_eq v) by lra. rewrite !Rmin_left by lra. lra.
  - apply sign_pos_false in E1; auto. apply sign_pos_false in E2; auto. subst. rewrite Rabs_R0. rewrite !Rmin_left by lra. lra.
Qed.

(* ------------------------------------------------------------------ insert_speed *)
(* the window test, as a proposition *)
Definition covers (a b x : R) : Prop := a <= x < b.

(* Semantics of one insertion, for every real position x at or after the first point:
   inside [a,b) the profile is lowered by [min_speed], elsewhere it is unchanged. *)
Theorem insert_speed_sem_gen (o0 s0 : R) (t : list ptR) (a b v x : R) :
  sorted_from o0 t -> o0 <= a -> a <= b -> o0 <= x ->
  eval_speed (insert_speed ((o0, s0) :: t) a b v) x =
  if inwin a b x then min_speed (eval_speed ((o0, s0) :: t) x) v else eval_speed ((o0, s0) :: t) x.
Proof.
  intros Hs Ha Hab Hx. unfold insert_speed.
  set (pts := (o0, s0) :: t).
  assert (Hsp : sorted_from o0 pts) by (cbn; split; [lra|auto]).
  destruct (add_bp_head s0 o0 s0 t a Ha) as [ta Eta]. fold pts in Eta.
  assert (Hsa : sorted_from o0 (add_bp s0 pts a)) by (apply sorted_add_bp; auto).
  rewrite Eta in *.
  destruct (add_bp_head s0 o0 s0 ta b ltac:(lra)) as [t1 Et1].
  assert (Hs1 : sorted_from o0 (add_bp s0 ((o0, s0) :: ta) b)) by (apply sorted_add_bp; auto; lra).
  assert (Hev : forall y, eval s0 (add_bp s0 ((o0, s0) :: ta) b) y = eval s0 pts y).
  { intros y. rewrite (eval_add_bp s0 _ b y o0 Hsa). rewrite <- Eta. apply (eval_add_bp s0 pts a y o0 Hsp). }
  assert (Hin_a : In a (map fst (add_bp s0 ((o0, s0) :: ta) b))).
  { apply add_bp_keeps. rewrite <- Eta. apply add_bp_in. }
  assert (Hin_b : In b (map fst (add_bp s0 ((o0, s0) :: ta) b))) by apply add_bp_in.
  rewrite Et1 in *. clear Et1 Eta.
  cbn [lower map].
  assert (E : low1 a b v (o0, s0) = (o0, snd (low1 a b v (o0, s0)))).
  { unfold low1; cbn. destruct (inwin a b o0); reflexivity. }
  rewrite E. cbn [eval_speed].
  destruct Hs1 as [_ Hs1].
  rewrite (eval_canon _ o0 _ x (sorted_lower a b v o0 t1 Hs1)).
  rewrite (eval_evalo o0). fold (lower a b v t1). rewrite evalo_lower.
  assert (Ha' : a <= o0 \/ In a (map fst t1)) by (cbn in Hin_a; destruct Hin_a as [<-|]; [left; lra|auto]).
  assert (Hb' : b <= o0 \/ In b (map fst t1)) by (cbn in Hin_b; destruct Hin_b as [<-|]; [left; lra|auto]).
  pose proof (inwin_last a b o0 s0 t1 x Hs1 Hx Ha' Hb') as W.
  assert (Hval : snd (evalo o0 s0 t1 x) = eval_speed pts x).
  { rewrite <- (eval_evalo o0 s0 t1 x). specialize (Hev x). unfold pts in *. cbn [eval] in Hev. numR.
    destruct (Rleb_spec o0 x); [|lra]. cbn [eval_speed]. exact Hev. }
  unfold low1. rewrite W. destruct (inwin a b x); cbn [snd]; rewrite Hval; reflexivity.
Qed.

(* structure of the result: first point kept in place, canonical, strictly sorted, offsets only
   from the old profile or the two bounds, speeds non-negative *)
Lemma insert_speed_shape (o0 s0 : R) (t : list ptR) (a b v : R) :
  o0 <= a -> a <= b ->
  exists s0' t', insert_speed ((o0, s0) :: t) a b v = (o0, s0') :: t'
    /\ no_eq_adj s0' t'
    /\ (ssorted_from o0 t -> ssorted_from o0 t')
    /\ (forall e, In e (map fst t') -> e = a \/ e = b \/ In e (map fst t))
    /\ (0 <= v -> speeds_nonneg ((o0, s0) :: t) -> speeds_nonneg ((o0, s0') :: t')).
Proof.
  intros Ha Hab. unfold insert_speed.
  destruct (add_bp_head s0 o0 s0 t a Ha) as [ta Eta].
  destruct (add_bp_head s0 o0 s0 ta b ltac:(lra)) as [t1 Et1].
  pose proof Et1 as Et1'. rewrite <- Eta in Et1'. rewrite Et1'. cbn [lower map].
  assert (E : low1 a b v (o0, s0) = (o0, snd (low1 a b v (o0, s0)))).
  { unfold low1; cbn. destruct (inwin a b o0); reflexivity. }
  rewrite E. eexists _, _. split; [reflexivity|]. split; [apply canon_no_eq|]. split; [|split].
  - intros Hss. apply ssorted_canon. apply ssorted_lower.
    (* t1 is the tail of add_bp (add_bp pts a) b *)
    destruct (Req_dec a o0) as [->|Hao].
    + assert (ta = t) by (cbn in Eta; numR; destruct (Rltb_spec o0 o0); [lra|]; destruct (Reqb_spec o0 o0); [inversion Eta; auto|lra]). subst ta.
      destruct (Req_dec b o0) as [->|Hbo].
      * assert (t1 = t) by (cbn in Et1; numR; destruct (Rltb_spec o0 o0); [lra|]; destruct (Reqb_spec o0 o0); [inversion Et1; auto|lra]). subst; auto.
      * assert (t1 = add_bp s0 t b) by (cbn in Et1; numR; destruct (Rltb_spec b o0); [lra|]; destruct (Reqb_spec b o0); [lra|inversion Et1; auto]).
        subst t1. apply ssorted_add_bp; auto; lra.
    + assert (ta = add_bp s0 t a) by (cbn in Eta; numR; destruct (Rltb_spec a o0); [lra|]; destruct (Reqb_spec a o0); [lra|inversion Eta; auto]).
      subst ta.
      assert (t1 = add_bp s0 (add_bp s0 t a) b) by (cbn in Et1; numR; destruct (Rltb_spec b o0); [lra|]; destruct (Reqb_spec b o0); [lra|inversion Et1; auto]).
      subst t1. apply ssorted_add_bp; [lra|]. apply ssorted_add_bp; auto; lra.
  - intros e He.
    assert (He1 : In e (map fst t1)).
    { rewrite <- (lower_offsets a b v t1). apply in_map_iff in He. destruct He as [p [<- Hp]].
      apply in_map. eapply canon_incl; eauto. }
    assert (He2 : In e (map fst ((o0, s0) :: t1))) by (right; auto).
    rewrite <- Et1 in He2. apply add_bp_offsets in He2. destruct He2 as [->|He2]; auto.
    rewrite <- Eta in He2. apply add_bp_offsets in He2. destruct He2 as [->|He2]; auto.
    cbn in He2. destruct He2 as [<-|He2]; auto.
    (* e = o0 is an offset of t1 only if it came from a or b ... it is an old offset or a bound *)
    assert (Hin : In o0 (map fst ((o0, s0) :: ta))) by (left; auto).
    destruct (Req_dec a o0); auto. destruct (Req_dec b o0); auto. right; right.
    (* o0 in t1, but neither a nor b equals o0: then it was already in t *)
    assert (He3 : In o0 (map fst (add_bp s0 ((o0, s0) :: ta) b))) by (rewrite Et1; right; auto).
    clear He3. (* derive from t1 = add_bp (add_bp t a) b *)
    assert (ta = add_bp s0 t a) by (cbn in Eta; numR; destruct (Rltb_spec a o0); [lra|]; destruct (Reqb_spec a o0); [lra|inversion Eta; auto]).
    assert (t1 = add_bp s0 ta b) by (cbn in Et1; numR; destruct (Rltb_spec b o0); [lra|]; destruct (Reqb_spec b o0); [lra|inversion Et1; auto]).
    subst t1 ta. apply add_bp_offsets in He1. destruct He1 as [->|He1]; [lra|].
    apply add_bp_offsets in He1. destruct He1 as [->|He1]; [lra|auto].
  - intros Hv Hnn.
    assert (H1 : speeds_nonneg ((o0, s0) :: t1)).
    { rewrite <- Et1. apply (add_bp_speeds s0 _ b (fun s => 0 <= s)).
      - inversion Hnn; auto.
      - rewrite <- Eta. apply (add_bp_speeds s0 _ a (fun s => 0 <= s)); [inversion Hnn; auto|exact Hnn]. }
    assert (H2 : speeds_nonneg (lower a b v ((o0, s0) :: t1))).
    { unfold speeds_nonneg, lower. apply Forall_map. eapply Forall_impl; [|exact H1].
      intros p Hp. unfold low1. destruct (inwin a b (fst p)); cbn [snd]; auto.
      rewrite min_speed_nonneg by auto. apply Rmin_glb; auto. }
    cbn [lower map] in H2. rewrite E in H2. inversion H2 as [|? ? Hh Ht]; subst.
    constructor; auto. unfold speeds_nonneg. rewrite Forall_forall in *. intros p Hp.
    apply Ht. eapply canon_incl; eauto.
Qed.

(* ------------------------------------------------------------------ many insertions *)
Definition restr : Type := (R * R * R)%type.

Definition insert1 (pts : list ptR) (r : restr) : list ptR :=
  match r with (a, b, v) => insert_speed pts a b v end.
Definition insert_all (pts : list ptR) (rs : list restr) : list ptR := fold_left insert1 rs pts.

(* the running minimum over the restrictions that cover x *)
Definition min1 (x : R) (m : R) (r : restr) : R :=
  match r with (a, b, v) => if inwin a b x then Rmin m v else m end.
Definition min_over (d : R) (rs : list restr) (x : R) : R := fold_left (min1 x) rs d.

(* invariant of a profile whose first point is at [o0] *)
Definition prof_inv (o0 : R) (pts : list ptR) : Prop :=
  exists s0 t, pts = (o0, s0) :: t /\ ssorted_from o0 t /\ no_eq_adj s0 t /\ speeds_nonneg pts.

Definition restr_ok (o0 : R) (r : restr) : Prop :=
  match r with (a, b, v) => o0 <= a /\ a <= b /\ 0 <= v end.

Lemma insert1_inv o0 pts r : prof_inv o0 pts -> restr_ok o0 r -> prof_inv o0 (insert1 pts r).
Proof.
  intros (s0 & t & -> & Hss & Hne & Hnn) Hr. destruct r as [[a b] v]. destruct Hr as (Ha & Hab & Hv).
  destruct (insert_speed_shape o0 s0 t a b v Ha Hab) as (s0' & t' & E & N & S & _ & P).
  cbn [insert1]. rewrite E. exists s0', t'. repeat split; auto.
Qed.

(* the profile's value is one of its speeds, all non-negative *)
Lemma eval_nonneg (d : R) (t : list ptR) (x : R) : 0 <= d -> speeds_nonneg t -> 0 <= eval d t x.
Proof. revert d; induction t as [|[o s] u IH]; intros d Hd Ht; cbn; numR; auto.
  inversion Ht; subst. destruct (Rleb o x); auto. Qed.

Lemma insert1_sem o0 pts r x : prof_inv o0 pts -> restr_ok o0 r -> o0 <= x ->
  eval_speed (insert1 pts r) x = min1 x (eval_speed pts x) r.
Proof.
  intros (s0 & t & -> & Hss & Hne & Hnn) Hr Hx. destruct r as [[a b] v]. destruct Hr as (Ha & Hab & Hv).
  cbn [insert1 min1]. rewrite insert_speed_sem_gen by (auto using ssorted_from_sorted).
  destruct (inwin a b x); auto. apply min_speed_nonneg; auto.
  cbn [eval_speed]. inversion Hnn as [|? ? H0 Ht]; subst. apply eval_nonneg; auto.
Qed.

Theorem insert_all_sem o0 rs : forall pts x, prof_inv o0 pts -> Forall (restr_ok o0) rs -> o0 <= x ->
  prof_inv o0 (insert_all pts rs) /\
  eval_speed (insert_all pts rs) x = min_over (eval_speed pts x) rs x.
Proof.
  induction rs as [|r rs IH]; intros pts x Hi Hr Hx; cbn; auto.
  inversion Hr as [|? ? Hr1 Hr2]; subst.
  destruct (IH (insert1 pts r) x (insert1_inv o0 pts r Hi Hr1) Hr2 Hx) as [A B].
  split; auto. unfold insert_all, min_over in *. rewrite B. rewrite (insert1_sem o0); auto.
Qed.

(* declarative reading of the running minimum *)
Lemma min_over_le d rs x : min_over d rs x <= d.
Proof. revert d; induction rs as [|[[a b] v] rs IH]; intros d; cbn; [lra|].
  unfold min_over in *. destruct (inwin a b x); [|apply IH].
  eapply Rle_trans; [apply IH|apply Rmin_l]. Qed.

Lemma min_over_mono d d' rs x : d <= d' -> min_over d rs x <= min_over d' rs x.
Proof. revert d d'; induction rs as [|[[a b] v] rs IH]; intros d d' H; cbn; auto.
  unfold min_over in *. destruct (inwin a b x); apply IH; auto.
  unfold Rmin. destruct (Rle_dec d v), (Rle_dec d' v); lra. Qed.

Lemma min_over_lower_bound d rs x a b v : In (a, b, v) rs -> a <= x < b -> min_over d rs x <= v.
Proof. revert d; induction rs as [|[[a' b'] v'] rs IH]; intros d Hin Hc; cbn; [contradiction|].
  unfold min_over in *. destruct Hin as [E|Hin].
  - inversion E; subst. rewrite (proj2 (inwin_spec a b x) Hc).
    eapply Rle_trans; [apply min_over_le|apply Rmin_r].
  - apply IH; auto. Qed.

Lemma min_over_attained d rs x :
  min_over d rs x = d \/ exists a b v, In (a, b, v) rs /\ a <= x < b /\ min_over d rs x = v.
Proof. revert d; induction rs as [|[[a b] v] rs IH]; intros d; cbn; auto.
  unfold min_over in *. destruct (inwin a b x) eqn:W.
  - destruct (IH (Rmin d v)) as [E|(a' & b' & v' & Hin & Hc & E)].
    + unfold Rmin in E at 2. destruct (Rle_dec d v); auto. right.
      exists a, b, v. split; [left; auto|]. split; [apply inwin_spec; auto|auto].
    + right. exists a', b', v'. auto.
  - destruct (IH d) as [E|(a' & b' & v' & Hin & Hc & E)]; auto.
    right. exists a', b', v'. auto.
Qed.

(* ------------------------------------------------------------------ speed sets of a route *)
(* the restrictions one speed set contributes, in path coordinates *)
Definition abs_restr (tp : TPR) (ss : SSR) (base : R) : list restr :=
  if speed_set_applies tp ss
  then map (fun sl => (sl_start sl + base, sl_end sl + base + length_add tp ss, sl_speed sl))
           (filter (fun sl => Rltb (sl_speed sl) (tp_speed_max tp)) (ss_limits ss))
  else [].

Fixpoint route_restr (tp : TPR) (base : R) (sets : list (SSR * R)) : list restr :=
  match sets with
  | [] => []
  | (ss, len) :: rest => abs_restr tp ss base ++ route_restr tp (len + base) rest
  end.

Lemma add_speeds_insert_all (pts : list ptR) (tp : TPR) (ss : SSR) (base : R) :
  add_speeds pts tp ss base = insert_all pts (abs_restr tp ss base).
Proof.
  unfold add_speeds, abs_restr. destruct (speed_set_applies tp ss); [|reflexivity].
  generalize (length_add tp ss) as ext. intros ext. revert pts.
  induction (ss_limits ss) as [|sl l IH]; intros pts; cbn [fold_left filter map]; [reflexivity|].
  unfold add_speed1 at 2. numR. destruct (Rltb (sl_speed sl) (tp_speed_max tp)); cbn [map insert_all fold_left insert1].
  - apply IH.
  - apply IH.
Qed.

Lemma insert_all_app pts r1 r2 : insert_all pts (r1 ++ r2) = insert_all (insert_all pts r1) r2.
Proof. unfold insert_all. apply fold_left_app. Qed.

Lemma extend_speeds_insert_all (tp : TPR) sets : forall pts base,
  fst (extend_speeds tp (pts, base) sets) = insert_all pts (route_restr tp base sets).
Proof.
  induction sets as [|[ss len] rest IH]; intros pts base; [reflexivity|].
  unfold extend_speeds in *. cbn [fold_left route_restr]. unfold speeds_step at 2. cbn [fst snd].
  rewrite IH. rewrite insert_all_app. rewrite add_speeds_insert_all. reflexivity.
Qed.

(* supplying the route at once or in two (hence any number of) pieces gives the same state *)
Lemma extend_speeds_app (tp : TPR) st s1 s2 :
  extend_speeds tp st (s1 ++ s2) = extend_speeds tp (extend_speeds tp st s1) s2.
Proof. unfold extend_speeds. apply fold_left_app. Qed.

(* hypotheses on the network data: bounds ordered and non-negative, speeds non-negative,
   link lengths non-negative *)
Definition limit_ok (sl : SLR) : Prop := 0 <= sl_start sl /\ sl_start sl <= sl_end sl /\ 0 <= sl_speed sl.
Definition set_ok (ss : SSR) : Prop := Forall limit_ok (ss_limits ss).
Definition sets_ok (sets : list (SSR * R)) : Prop := Forall (fun p => set_ok (fst p) /\ 0 <= snd p) sets.

Lemma abs_restr_ok tp ss base o0 : 0 <= tp_length tp -> set_ok ss -> o0 <= base ->
  Forall (restr_ok o0) (abs_restr tp ss base).
Proof.
  intros Hl Hs Hb. unfold abs_restr. destruct (speed_set_applies tp ss); [|constructor].
  apply Forall_map. apply Forall_forall. intros sl Hin. apply filter_In in Hin. destruct Hin as [Hin _].
  unfold set_ok in Hs. rewrite Forall_forall in Hs. destruct (Hs sl Hin) as (A & B & C).
  assert (0 <= length_add tp ss) by (unfold length_add; numR; destruct (ss_head ss); lra).
  cbn. numR. repeat split; lra.
Qed.

Lemma route_restr_ok tp sets : forall base o0, 0 <= tp_length tp -> sets_ok sets -> o0 <= base ->
  Forall (restr_ok o0) (route_restr tp base sets).
Proof.
  induction sets as [|[ss len] rest IH]; intros base o0 Hl Hs Hb; cbn; [constructor|].
  inversion Hs as [|? ? [H1 H2] H3]; subst. cbn in H1, H2. apply Forall_app. split.
  - apply abs_restr_ok; auto.
  - apply IH; auto. numR. lra.
Qed.

(* C13, fold form, from any reachable state *)
Theorem profile_exact_from (tp : TPR) o0 pts base sets x :
  prof_inv o0 pts -> o0 <= base -> 0 <= tp_length tp -> sets_ok sets -> o0 <= x ->
  prof_inv o0 (fst (extend_speeds tp (pts, base) sets)) /\
  eval_speed (fst (extend_speeds tp (pts, base) sets)) x
  = min_over (eval_speed pts x) (route_restr tp base sets) x.
Proof.
  intros Hi Hb Hl Hs Hx. rewrite extend_speeds_insert_all.
  apply insert_all_sem; auto. apply route_restr_ok; auto.
Qed.

Lemma init_inv (tp : TPR) : 0 <= tp_speed_max tp -> prof_inv 0 (fst (speeds_init tp)).
Proof. intros H. exists (tp_speed_max tp), []. cbn. numR. repeat split; auto. constructor; auto. Qed.

(* C13: the profile of a route built from PathTpc::new *)
Theorem profile_exact (tp : TPR) sets x :
  0 < tp_speed_max tp -> 0 <= tp_length tp -> sets_ok sets -> 0 <= x ->
  eval_speed (fst (extend_speeds tp (speeds_init tp) sets)) x
  = min_over (tp_speed_max tp) (route_restr tp 0 sets) x.
Proof.
  intros Hm Hl Hs Hx.
  assert (Hi : prof_inv 0 (fst (speeds_init tp))) by (apply init_inv; lra).
  destruct (profile_exact_from tp 0 (fst (speeds_init tp)) 0 sets x Hi (Rle_refl 0) Hl Hs Hx) as [_ E].
  exact E.
Qed.

(* ------------------------------------------------------------------ declarative form *)
(* [posted tp base sets x v]: some restriction with speed v, of an applicable speed set of a link
   of the route (whose first link starts at [base]), covers position x -- tail-end sets extended
   by the train length *)
Inductive posted (tp : TPR) : R -> list (SSR * R) -> R -> R -> Prop :=
| posted_here base ss len rest sl x :
    speed_set_applies tp ss = true -> In sl (ss_limits ss) ->
    sl_start sl + base <= x < sl_end sl + base + length_add tp ss ->
    posted tp base ((ss, len) :: rest) x (sl_speed sl)
| posted_later base ss len rest x v :
    posted tp (len + base) rest x v -> posted tp base ((ss, len) :: rest) x v.

Lemma route_restr_posted tp sets : forall base a b v x,
  In (a, b, v) (route_restr tp base sets) -> a <= x < b -> posted tp base sets x v.
Proof.
  induction sets as [|[ss len] rest IH]; intros base a b v x Hin Hc; cbn in Hin; [contradiction|].
  apply in_app_or in Hin. destruct Hin as [Hin|Hin].
  - unfold abs_restr in Hin. destruct (speed_set_applies tp ss) eqn:Ea; [|contradiction].
    apply in_map_iff in Hin. destruct Hin as (sl & E & Hin). apply filter_In in Hin. destruct Hin as [Hin _].
    inversion E; subst. numR. apply posted_here; auto.
  - apply posted_later. eapply IH; eauto.
Qed.

Lemma posted_route_restr tp sets : forall base x v,
  posted tp base sets x v -> v < tp_speed_max tp ->
  exists a b, In (a, b, v) (route_restr tp base sets) /\ a <= x < b.
Proof.
  intros base x v H. induction H as [base ss len rest sl x Ha Hin Hc|base ss len rest x v H IH]; intros Hv.
  - exists (sl_start sl + base), (sl_end sl + base + length_add tp ss). split; auto.
    cbn. apply in_or_app. left. unfold abs_restr. rewrite Ha.
    apply in_map_iff. exists sl. split; auto. apply filter_In. split; auto. apply Rltb_true; auto.
  - destruct (IH Hv) as (a & b & Hin & Hc). exists a, b. split; auto. cbn. apply in_or_app; auto.
Qed.

(* C13, declarative: the enforced limit is a lower bound of {speed_max} + posted speeds, and is attained *)
Theorem profile_is_min (tp : TPR) sets x :
  0 < tp_speed_max tp -> 0 <= tp_length tp -> sets_ok sets -> 0 <= x ->
  let P := eval_speed (fst (extend_speeds tp (speeds_init tp) sets)) x in
  P <= tp_speed_max tp /\
  (forall v, posted tp 0 sets x v -> P <= v) /\
  (P = tp_speed_max tp \/ posted tp 0 sets x P).
Proof.
  intros Hm Hl Hs Hx P. unfold P. rewrite profile_exact by auto.
  split; [apply min_over_le|]. split.
  - intros v Hp. destruct (Rlt_dec v (tp_speed_max tp)) as [Hv|Hv].
    + destruct (posted_route_restr tp sets 0 x v Hp Hv) as (a & b & Hin & Hc).
      eapply min_over_lower_bound; eauto.
    + eapply Rle_trans; [apply min_over_le|lra].
  - destruct (min_over_attained (tp_speed_max tp) (route_restr tp 0 sets) x) as [E|(a & b & v & Hin & Hc & E)]; auto.
    right. rewrite E. eapply route_restr_posted; eauto.
Qed.

(* C02: never above a covering restriction, never above the train's maximum *)
Corollary profile_safe (tp : TPR) sets x v :
  0 < tp_speed_max tp -> 0 <= tp_length tp -> sets_ok sets -> 0 <= x ->
  posted tp 0 sets x v ->
  eval_speed (fst (extend_speeds tp (speeds_init tp) sets)) x <= v.
Proof. intros Hm Hl Hs Hx Hp. destruct (profile_is_min tp sets x Hm Hl Hs Hx) as (_ & H & _). auto. Qed.

Corollary profile_le_speed_max (tp : TPR) sets x :
  0 < tp_speed_max tp -> 0 <= tp_length tp -> sets_ok sets -> 0 <= x ->
  eval_speed (fst (extend_speeds tp (speeds_init tp) sets)) x <= tp_speed_max tp.
Proof. intros Hm Hl Hs Hx. destruct (profile_is_min tp sets x Hm Hl Hs Hx) as (H & _). auto. Qed.

(* C13: canonical form of the stored list *)
Theorem profile_canonical (tp : TPR) sets :
  0 < tp_speed_max tp -> 0 <= tp_length tp -> sets_ok sets ->
  exists s0 t, fst (extend_speeds tp (speeds_init tp) sets) = (0, s0) :: t
    /\ ssorted ((0, s0) :: t) /\ no_eq_neighbours ((0, s0) :: t) /\ speeds_nonneg ((0, s0) :: t).
Proof.
  intros Hm Hl Hs.
  assert (Hi : prof_inv 0 (fst (speeds_init tp))) by (apply init_inv; lra).
  destruct (profile_exact_from tp 0 (fst (speeds_init tp)) 0 sets 0 Hi (Rle_refl 0) Hl Hs (Rle_refl 0))
    as [(s0 & t & E & A & B & C) _].
  exists s0, t. repeat split; auto. rewrite <- E. exact C.
Qed.

(* the position of the last posted link end: the explicit "exists a link" reading of [posted] *)
Fixpoint sum_len (sets : list (SSR * R)) : R :=
  match sets with [] => 0 | (_, len) :: t => len + sum_len t end.

Lemma posted_iff tp sets : forall base x v,
  posted tp base sets x v <->
  exists pre ss len post sl, sets = pre ++ (ss, len) :: post /\ speed_set_applies tp ss = true /\
    In sl (ss_limits ss) /\ v = sl_speed sl /\
    sl_start sl + (base + sum_len pre) <= x < sl_end sl + (base + sum_len pre) + length_add tp ss.
Proof.
  induction sets as [|[ss len] rest IH]; intros base x v; split.
  - intros H; inversion H.
  - intros (pre & ss & len & post & sl & E & _). destruct pre; discriminate.
  - intros H. inversion H as [? ? ? ? sl ? Ha Hin Hc | ? ? ? ? ? ? Hp]; subst.
    + exists [], ss, len, rest, sl. cbn. repeat split; auto; lra.
    + apply IH in Hp. destruct Hp as (pre & ss' & len' & post & sl & E & A & B & C & D).
      exists ((ss, len) :: pre), ss', len', post, sl. subst rest. cbn. repeat split; auto; lra.
  - intros (pre & ss' & len' & post & sl & E & A & B & C & D). destruct pre as [|[s0 l0] pre].
    + cbn in E. inversion E; subst. cbn in D. apply posted_here; auto. lra.
    + cbn in E. inversion E; subst. apply posted_later. apply IH.
      exists pre, ss', len', post, sl. cbn in D. repeat split; auto; lra.
Qed.

(* ------------------------------------------------------------------ the certified comparison *)
Lemma evalo_stable (lo d : R) (pts : list ptR) (x y : R) :
  sorted_from lo pts -> fst (evalo lo d pts x) <= y -> y <= x -> evalo lo d pts y = evalo lo d pts x.
Proof.
  revert lo d. induction pts as [|[o s] t IH]; intros lo d Hs H1 H2; cbn in *; auto.
  destruct Hs as [A B]. destruct (Rleb_spec o x).
  - pose proof (evalo_ge_lo o s t x B). destruct (Rleb_spec o y); [|lra]. apply IH; auto.
  - cbn in H1. destruct (Rleb_spec o y); [lra|reflexivity].
Qed.

Lemma evalo_fst_in (lo d : R) (pts : list ptR) (x : R) :
  fst (evalo lo d pts x) = lo \/ In (fst (evalo lo d pts x)) (map fst pts).
Proof.
  revert lo d. induction pts as [|[o s] t IH]; intros lo d; cbn; auto.
  destruct (Rleb o x); cbn; auto. destruct (IH o s) as [E|E]; [rewrite E|]; auto.
Qed.

Lemma sortedb_from_spec (lo : R) (pts : list ptR) : sortedb_from lo pts = true -> sorted_from lo pts.
Proof. revert lo; induction pts as [|[o s] t IH]; intros lo; cbn; numR; auto.
  destruct (Rleb_spec lo o); cbn; [|discriminate]. auto. Qed.

Theorem profile_le_sound (p q : list ptR) :
  profile_le p q = true ->
  exists o0 sp tp sq tq, p = (o0, sp) :: tp /\ q = (o0, sq) :: tq /\
    forall x, o0 <= x -> eval_speed p x <= eval_speed q x.
Proof.
  unfold profile_le. destruct p as [|[op sp] tp]; [discriminate|]. destruct q as [|[oq sq] tq]; [discriminate|].
  intros H. apply andb_true_iff in H. destruct H as [H H4]. apply andb_true_iff in H. destruct H as [H H3].
  apply andb_true_iff in H. destruct H as [H1 H2]. numR. apply Reqb_true in H1. subst oq.
  cbn [sortedb] in H2, H3. apply sortedb_from_spec in H2, H3.
  exists op, sp, tp, sq, tq. repeat split; auto. intros x Hx.
  rewrite forallb_forall in H4.
  set (ep := evalo op sp tp x). set (eq := evalo op sq tq x).
  set (o := Rmax (fst ep) (fst eq)).
  assert (Hp1 : fst ep <= x) by (apply evalo_le; auto). assert (Hq1 : fst eq <= x) by (apply evalo_le; auto).
  assert (Hp0 : op <= fst ep) by (apply evalo_ge_lo; auto). assert (Hq0 : op <= fst eq) by (apply evalo_ge_lo; auto).
  assert (Ho : o <= x) by (unfold o; apply Rmax_lub; auto).
  assert (Hop : fst ep <= o) by apply Rmax_l. assert (Hoq : fst eq <= o) by apply Rmax_r.
  assert (Hin : In o (map fst ((op, sp) :: tp) ++ map fst ((op, sq) :: tq))).
  { unfold o, Rmax. destruct (Rle_dec (fst ep) (fst eq)).
    - apply in_or_app. right. destruct (evalo_fst_in op sq tq x) as [E|E]; fold eq in E; [left; auto|right; auto].
    - apply in_or_app. left. destruct (evalo_fst_in op sp tp x) as [E|E]; fold ep in E; [left; auto|right; auto]. }
  specialize (H4 o Hin). numR. apply Rleb_true in H4. cbn [eval_speed] in *.
  rewrite (eval_evalo op sp tp x), (eval_evalo op sq tq x).
  rewrite (eval_evalo op sp tp o), (eval_evalo op sq tq o) in H4.
  rewrite (evalo_stable op sp tp x o H2 Hop Ho) in H4. rewrite (evalo_stable op sq tq x o H3 Hoq Ho) in H4.
  exact H4.
Qed.
