(* EstUpdateP.v -- frame theorem for the two shortest-path passes of make_est_times (model EstUpdate.v):
   whatever they re-link and re-time, they never change the number of nodes, which track event a node stands for
   (link, event type) or its ALTERNATE links; the forward pass never touches durations or distances.
   Valid for every carrier (R and binary64). *)
From Coq Require Import List Bool Arith ZArith Lia.
From AltModel Require Import Num TrackNet EstNet EstUpdate.
Import ListNotations.

Section EstUpdateP.
Context {F : Type} {NO : NumOps F}.
Notation enode := (enode (F:=F)).

(* what no pass may change of a node *)
Definition frame (a b : enode) : Prop :=
  n_link a = n_link b /\ n_ty a = n_ty b /\ n_nexta a = n_nexta b /\ n_preva a = n_preva b.
(* ... and what the forward pass additionally keeps *)
Definition frame_f (a b : enode) : Prop := frame a b /\ n_ttn a = n_ttn b /\ n_dist a = n_dist b.

Lemma frame_refl a : frame a a. Proof. repeat split. Qed.
Lemma frame_trans a b c : frame a b -> frame b c -> frame a c.
Proof. unfold frame. intuition congruence. Qed.
Lemma frame_f_refl a : frame_f a a. Proof. repeat split. Qed.
Lemma frame_f_trans a b c : frame_f a b -> frame_f b c -> frame_f a c.
Proof. unfold frame_f, frame. intuition congruence. Qed.

Definition Fr (P : enode -> enode -> Prop) (a b : list enode) : Prop := Forall2 P a b.
Lemma Fr_refl (P : enode -> enode -> Prop) (Hr : forall a, P a a) l : Fr P l l.
Proof. induction l; constructor; auto. Qed.
Lemma Fr_trans (P : enode -> enode -> Prop) (Ht : forall a b c, P a b -> P b c -> P a c) : forall a b c, Fr P a b -> Fr P b c -> Fr P a c.
Proof. induction a as [|x a IH]; intros b c H1 H2; inversion H1; subst; inversion H2; subst; constructor; eauto.
  eapply IH; eauto. Qed.
Lemma Fr_length (P : enode -> enode -> Prop) a b : Fr P a b -> length a = length b.
Proof. induction 1; cbn; auto. Qed.

Lemma updl_Fr (P : enode -> enode -> Prop) (Hr : forall a, P a a) (f : enode -> enode) (Hf : forall x, P (f x) x) : forall ns i, Fr P (updl ns i f) ns.
Proof. induction ns as [|a t IH]; intros [|i]; cbn; try constructor; auto; try apply Fr_refl; auto. apply IH. Qed.
Lemma updl_const_Fr (P : enode -> enode -> Prop) (Hr : forall a, P a a) : forall ns i a b, nth_error ns i = Some a -> P b a -> Fr P (updl ns i (fun _ => b)) ns.
Proof. induction ns as [|x t IH]; intros [|i] a b E Hb; cbn in *; try discriminate.
  - inversion E; subst. constructor; auto. apply Fr_refl; auto.
  - constructor; auto. eapply IH; eauto. Qed.

Lemma set_ts_frame_f t a : frame_f (set_ts t a) a. Proof. repeat split. Qed.
Lemma set_next_frame_f j a : frame_f (set_next j a) a. Proof. repeat split. Qed.
Lemma set_prev_frame_f j a : frame_f (set_prev j a) a. Proof. repeat split. Qed.
Lemma set_ttn_dist_frame t d a : frame (set_ttn_dist t d a) a. Proof. repeat split. Qed.
Lemma frame_f_frame a b : frame_f a b -> frame a b. Proof. intros [H _]; exact H. Qed.

Lemma getn_some (ns : list enode) i a : getn ns i = Ok a -> nth_error ns i = Some a.
Proof. unfold getn. destruct (nth_error ns i); intros H; inversion H; auto. Qed.

Ltac bind_inv H := match type of H with
  | bind ?m _ = Ok _ => let x := fresh "x" in let E := fresh "E" in destruct m as [x| |] eqn:E; cbn [bind] in H; [|discriminate|discriminate]
  end.

(* ---------------------------------------------------------------- forward *)
Ltac binds H := repeat (cbv beta iota zeta in H; match type of H with bind ?m _ = Ok _ =>
  let x := fresh "x" in let E := fresh "E" in destruct m as [x| |] eqn:E; cbn [bind] in H; [|discriminate|discriminate] end); cbv beta iota zeta in H.
Ltac split_if H := match type of H with (if ?c then _ else _) = _ => destruct c end.

Lemma fwd_run_frame : forall fuel (ns : list enode) set q ic inx ns' set' q' ic' inx',
  fwd_run fuel ns set q ic inx = Ok (ns', set', q', ic', inx') -> Fr frame_f ns' ns.
Proof.
  induction fuel as [|f IH]; intros ns set q ic inx ns' set' q' ic' inx' H; cbn [fwd_run] in H; [discriminate|].
  bind_inv H. rename x into ec.
  destruct (Nat.eqb (n_nexta ec) 0) eqn:Ea.
  - cbn [bind] in H. binds H.
    match type of H with context [updl ns inx ?g] => assert (S1 : Fr frame_f (updl ns inx g) ns) end.
    { eapply updl_const_Fr; [apply frame_f_refl|apply getn_some; eassumption|]. apply set_ts_frame_f. }
    split_if H.
    + inversion H; subst. exact S1.
    + apply IH in H. eapply Fr_trans; [apply frame_f_trans|exact H|exact S1].
  - cbv beta iota zeta in H. destruct (getn ns (n_nexta ec)) as [ea| |] eqn:Eg; cbn [bind] in H; try discriminate. cbv beta iota zeta in H.
    match type of H with context [updl ns (n_nexta ec) ?g] => assert (S0 : Fr frame_f (updl ns (n_nexta ec) g) ns) end.
    { eapply updl_const_Fr; [apply frame_f_refl|apply getn_some; eassumption|]. apply set_ts_frame_f. }
    binds H.
    match type of H with context [updl (updl ns (n_nexta ec) ?g0) inx ?g] =>
      assert (S1 : Fr frame_f (updl (updl ns (n_nexta ec) g0) inx g) (updl ns (n_nexta ec) g0)) end.
    { eapply updl_const_Fr; [apply frame_f_refl|apply getn_some; eassumption|]. apply set_ts_frame_f. }
    split_if H.
    + inversion H; subst. eapply Fr_trans; [apply frame_f_trans|exact S1|exact S0].
    + apply IH in H. eapply Fr_trans; [apply frame_f_trans|exact H|]. eapply Fr_trans; [apply frame_f_trans|exact S1|exact S0].
Qed.

Lemma upd4_frame_f (ns : list enode) a b c d fa fb fc fd :
  (forall x, frame_f (fa x) x) -> (forall x, frame_f (fb x) x) -> (forall x, frame_f (fc x) x) -> (forall x, frame_f (fd x) x) ->
  Fr frame_f (updl (updl (updl (updl ns a fa) b fb) c fc) d fd) ns.
Proof.
  intros Ha Hb Hc Hd.
  eapply Fr_trans; [apply frame_f_trans|apply updl_Fr; [apply frame_f_refl|exact Hd]|].
  eapply Fr_trans; [apply frame_f_trans|apply updl_Fr; [apply frame_f_refl|exact Hc]|].
  eapply Fr_trans; [apply frame_f_trans|apply updl_Fr; [apply frame_f_refl|exact Hb]|].
  apply updl_Fr; [apply frame_f_refl|exact Ha].
Qed.

Lemma fwd_outer_frame : forall fuel (ns : list enode) set q ns' set',
  fwd_outer fuel ns set q = Ok (ns', set') -> Fr frame_f ns' ns.
Proof.
  induction fuel as [|f IH]; intros ns set q ns' set' H; destruct q as [|x rest]; cbn [fwd_outer] in H.
  - inversion H; subst. apply Fr_refl, frame_f_refl.
  - discriminate.
  - inversion H; subst. apply Fr_refl, frame_f_refl.
  - bind_inv H. destruct x0 as [[t0 idx_curr] q0]. binds H.
    (* the relinked array *)
    match goal with E : (if Nat.eqb ?a ?b then _ else _) = Ok ?n1 |- _ =>
      assert (S1 : Fr frame_f n1 ns);
      [ destruct (Nat.eqb a b); [inversion E; subst; apply Fr_refl, frame_f_refl|];
        binds E; inversion E; subst; apply upd4_frame_f; intros; first [apply set_next_frame_f|apply set_prev_frame_f] | ] end.
    match goal with E : fwd_run _ _ _ _ _ _ = Ok _ |- _ => pose proof E as Er end.
    repeat match goal with y : (_ * _)%type |- _ => destruct y end.
    apply fwd_run_frame in Er.
    match type of Er with Fr frame_f ?l2 _ => assert (S2 : Fr frame_f l2 ns) by (eapply Fr_trans; [apply frame_f_trans|exact Er|exact S1]) end.
    binds H. repeat split_if H.
    + apply IH in H. eapply Fr_trans; [apply frame_f_trans|exact H|].
      eapply Fr_trans; [apply frame_f_trans|apply updl_Fr; [apply frame_f_refl|intros; apply set_ts_frame_f]|exact S2].
    + binds H. apply IH in H. eapply Fr_trans; [apply frame_f_trans|exact H|exact S2].
    + binds H. apply IH in H. eapply Fr_trans; [apply frame_f_trans|exact H|exact S2].
Qed.

Theorem update_times_forward_frame fuel (ns : list enode) set t0 ns' set' :
  update_times_forward fuel ns set t0 = Ok (ns', set') -> Fr frame_f ns' ns.
Proof.
  unfold update_times_forward. intros H. binds H. apply fwd_outer_frame in H.
  eapply Fr_trans; [apply frame_f_trans|exact H|].
  eapply Fr_trans; [apply frame_f_trans|apply updl_Fr; [apply frame_f_refl|intros; apply set_ts_frame_f]|].
  apply updl_Fr; [apply frame_f_refl|intros; apply set_ts_frame_f].
Qed.

(* ---------------------------------------------------------------- backward *)
Lemma set_ts_frame t a : frame (set_ts t a) a. Proof. repeat split. Qed.
Lemma set_next_frame j a : frame (set_next j a) a. Proof. repeat split. Qed.
Lemma set_prev_frame j a : frame (set_prev j a) a. Proof. repeat split. Qed.

Lemma bwd_run_frame : forall fuel (ns : list enode) passed q tsub ic ip ns' passed' q' ic' ip',
  bwd_run fuel ns passed q tsub ic ip = Ok (ns', passed', q', ic', ip') -> Fr frame ns' ns.
Proof.
  induction fuel as [|f IH]; intros ns passed q tsub ic ip ns' passed' q' ic' ip' H; cbn [bwd_run] in H; [discriminate|].
  bind_inv H. rename x into ec.
  destruct (Nat.eqb (n_preva ec) 0) eqn:Ea.
  - cbn [bind] in H. binds H.
    match type of H with context [updl ns ip ?g] => assert (S1 : Fr frame (updl ns ip g) ns) end.
    { apply updl_Fr; [apply frame_refl|intros; apply set_ts_frame]. }
    split_if H.
    + inversion H; subst. exact S1.
    + apply IH in H. eapply Fr_trans; [apply frame_trans|exact H|exact S1].
  - cbv beta iota zeta in H. destruct (getn ns (n_preva ec)) as [ea| |] eqn:Eg; cbn [bind] in H; try discriminate. cbv beta iota zeta in H.
    match type of H with context [updl ns (n_preva ec) ?g] => assert (S0 : Fr frame (updl ns (n_preva ec) g) ns) end.
    { apply updl_Fr; [apply frame_refl|intros; apply set_ts_frame]. }
    binds H.
    match type of H with context [updl (updl ns (n_preva ec) ?g0) ip ?g] =>
      assert (S1 : Fr frame (updl (updl ns (n_preva ec) g0) ip g) (updl ns (n_preva ec) g0)) end.
    { apply updl_Fr; [apply frame_refl|intros; apply set_ts_frame]. }
    split_if H.
    + inversion H; subst. eapply Fr_trans; [apply frame_trans|exact S1|exact S0].
    + apply IH in H. eapply Fr_trans; [apply frame_trans|exact H|]. eapply Fr_trans; [apply frame_trans|exact S1|exact S0].
Qed.

Lemma upd_frame_chain (ns : list enode) (fs : list (nat * (enode -> enode))) :
  Forall (fun p => forall x, frame (snd p x) x) fs ->
  Fr frame (fold_left (fun acc p => updl acc (fst p) (snd p)) fs ns) ns.
Proof.
  revert ns. induction fs as [|[i g] t IH]; intros ns Hf; cbn [fold_left].
  - apply Fr_refl, frame_refl.
  - inversion Hf; subst. eapply Fr_trans; [apply frame_trans|apply IH; assumption|].
    apply updl_Fr; [apply frame_refl|assumption].
Qed.

Lemma bwd_outer_frame : forall fuel (ns : list enode) passed q ns',
  bwd_outer fuel ns passed q = Ok ns' -> Fr frame ns' ns.
Proof.
  induction fuel as [|f IH]; intros ns passed q ns' H; destruct q as [|x rest]; cbn [bwd_outer] in H.
  - inversion H; subst. apply Fr_refl, frame_refl.
  - discriminate.
  - inversion H; subst. apply Fr_refl, frame_refl.
  - bind_inv H. destruct x0 as [[[t0 tsub] idx_curr] q0]. binds H.
    match goal with E : (if Nat.eqb ?a ?b then _ else _) = Ok ?n1 |- _ =>
      assert (S1 : Fr frame n1 ns);
      [ destruct (Nat.eqb a b); [inversion E; subst; apply Fr_refl, frame_refl|];
        binds E; inversion E; subst;
        match goal with |- Fr frame (updl (updl (updl (updl (updl (updl ns ?i1 ?g1) ?i2 ?g2) ?i3 ?g3) ?i4 ?g4) ?i5 ?g5) ?i6 ?g6) ns =>
          apply (upd_frame_chain ns [(i1, g1); (i2, g2); (i3, g3); (i4, g4); (i5, g5); (i6, g6)]) end;
        repeat constructor; cbn [snd]; intros; first [apply set_next_frame|apply set_prev_frame|apply set_ttn_dist_frame] | ] end.
    match goal with E : bwd_run _ _ _ _ _ _ _ = Ok _ |- _ => pose proof E as Er end.
    repeat match goal with y : (_ * _)%type |- _ => destruct y end.
    apply bwd_run_frame in Er.
    match type of Er with Fr frame ?l2 _ => assert (S2 : Fr frame l2 ns) by (eapply Fr_trans; [apply frame_trans|exact Er|exact S1]) end.
    binds H. repeat split_if H.
    + apply IH in H. eapply Fr_trans; [apply frame_trans|exact H|].
      eapply Fr_trans; [apply frame_trans|apply updl_Fr; [apply frame_refl|intros; apply set_ts_frame]|].
      eapply Fr_trans; [apply frame_trans|apply updl_Fr; [apply frame_refl|intros; apply set_ts_frame]|exact S2].
    + binds H. apply IH in H. eapply Fr_trans; [apply frame_trans|exact H|exact S2].
    + binds H. apply IH in H. eapply Fr_trans; [apply frame_trans|exact H|exact S2].
Qed.

Theorem update_times_backward_frame fuel (ns ns' : list enode) :
  update_times_backward fuel ns = Ok ns' -> Fr frame ns' ns.
Proof. unfold update_times_backward. intros H. cbv zeta in H. binds H. eapply bwd_outer_frame; eauto. Qed.

Lemma Fr_frame_f_frame (a b : list enode) : Fr frame_f a b -> Fr frame a b.
Proof. induction 1; constructor; auto using frame_f_frame. Qed.

(* THE frame theorem: after both passes the array has the same length and every node still stands for the same
   track event with the same alternate links *)
Theorem update_times_frame fuel (ns : list enode) set t0 ns' :
  update_times fuel ns set t0 = Ok ns' ->
  length ns' = length ns /\
  forall i a a', nth_error ns i = Some a -> nth_error ns' i = Some a' ->
    n_link a' = n_link a /\ n_ty a' = n_ty a /\ n_nexta a' = n_nexta a /\ n_preva a' = n_preva a.
Proof.
  unfold update_times. intros H. binds H. destruct x as [n1 s1]. cbn [fst] in H.
  match goal with E : update_times_forward _ _ _ _ = Ok _ |- _ => apply update_times_forward_frame in E; apply Fr_frame_f_frame in E; rename E into E1 end.
  apply update_times_backward_frame in H.
  assert (Hall : Fr frame ns' ns) by (eapply Fr_trans; [apply frame_trans|exact H|exact E1]).
  split; [apply (Fr_length _ _ _ Hall)|].
  clear - Hall. induction Hall as [|x y l l' Hxy Hl IH]; intros i a a' Ha Ha'.
  - destruct i; discriminate.
  - destruct i as [|i]; cbn in Ha, Ha'.
    + inversion Ha; inversion Ha'; subst. exact Hxy.
    + eapply IH; eauto.
Qed.
End EstUpdateP.
