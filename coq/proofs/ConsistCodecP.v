(* ConsistCodecP.v -- typed save / load of a CONSIST of the numeric model (Consist.v): the embedding is well typed for
   the schema read off the Rust struct, decoding inverts it, and a reload returns the consist with every unit's lazily
   rebuilt input-fraction maps cleared (exactly what loading each unit on its own returns). *)
From Coq Require Import Reals List Bool ZArith String.
From AltModel Require Import Num Interp Powertrain Loco Consist Codec CodecSchema.
From AltProofs Require Import NumR CodecP CodecSchemaP.
Import ListNotations.
Local Open Scope string_scope.

Notation ConsistR := (Consist (F:=R)).

Lemma consiststate_ty (s : ConsistState (F:=R)) : has_tyb sch_consiststate (consiststate_to_val s) = true.
Proof. unfold consiststate_to_val, sch_consiststate, consiststate_fields. ty_tac. Qed.
Lemma pdct_ty (p : Pdct) : has_tyb (sch_pdct (F:=R)) (pdct_to_val p) = true.
Proof. destruct p; unfold pdct_to_val, sch_pdct; rewrite has_ty_enum; reflexivity. Qed.
Lemma locos_ty (ls : list (Loco (F:=R))) : has_tyb (TSeq sch_loco) (VSeq (map loco_to_val ls)) = true.
Proof. cbn [has_tyb]. induction ls as [|l t IH]; [reflexivity|]. cbn [map forallb]. rewrite IH.
  change (has_tyb sch_loco (loco_to_val l) && true = true). rewrite loco_ty. reflexivity. Qed.
Lemma consist_ty (c : ConsistR) : has_tyb sch_consist (consist_to_val c) = true.
Proof. unfold consist_to_val, sch_consist. rewrite has_ty_rec; cbn [typed_fields]; unfld; cbn [fst snd].
  rewrite locos_ty, pdct_ty, consiststate_ty. reflexivity. Qed.

Lemma consiststate_clear_val (s : ConsistState (F:=R)) : clear sch_consiststate (consiststate_to_val s) = consiststate_to_val s.
Proof. unfold consiststate_to_val, sch_consiststate, consiststate_fields. clear_tac. reflexivity. Qed.
Lemma pdct_clear_val (p : Pdct) : clear (sch_pdct (F:=R)) (pdct_to_val p) = pdct_to_val p.
Proof. destruct p; unfold pdct_to_val, sch_pdct; rewrite clear_enum; reflexivity. Qed.
Lemma locos_clear_val (ls : list (Loco (F:=R))) :
  clear (TSeq sch_loco) (VSeq (map loco_to_val ls)) = VSeq (map loco_to_val (map loco_normalize ls)).
Proof. cbn [clear]. f_equal. induction ls as [|l t IH]; [reflexivity|]. cbn [map]. rewrite IH. f_equal. apply loco_clear_val. Qed.
Lemma consist_clear_val (c : ConsistR) : clear sch_consist (consist_to_val c) = consist_to_val (consist_normalize c).
Proof. unfold consist_to_val, sch_consist. clear_tac.
  rewrite locos_clear_val, pdct_clear_val, consiststate_clear_val. reflexivity. Qed.

Lemma consiststate_of_to (s : ConsistState (F:=R)) : consiststate_of_val (consiststate_to_val s) = s.
Proof. destruct s. reflexivity. Qed.
Lemma pdct_of_to (p : Pdct) : pdct_of_val (F:=R) (pdct_to_val p) = p.
Proof. destruct p; reflexivity. Qed.
Lemma locos_of_to (ls : list (Loco (F:=R))) : map loco_of_val (map loco_to_val ls) = ls.
Proof. induction ls as [|l t IH]; [reflexivity|]. cbn [map]. rewrite IH, loco_of_to. reflexivity. Qed.
Lemma consist_of_to (c : ConsistR) : consist_of_val (consist_to_val c) = c.
Proof. destruct c as [ls p a s]. unfold consist_of_val, consist_to_val. cbn [gfld nth gseq gbool cn_locos cn_pdct cn_assert_limits cn_state].
  rewrite locos_of_to, pdct_of_to, consiststate_of_to. reflexivity. Qed.

(* ---------------------------------------------------------------- typed round trips *)
Theorem consist_roundtrip (c : ConsistR) : consist_decode (consist_encode c) = Ok (consist_normalize c).
Proof. unfold consist_decode, consist_encode. rewrite (dec_enc sch_consist (consist_to_val c) wf_consist (consist_ty c)).
  cbn [bind]. rewrite consist_clear_val, consist_of_to. reflexivity. Qed.

Lemma consist_normalize_idem (c : ConsistR) : consist_normalize (consist_normalize c) = consist_normalize c.
Proof. destruct c as [ls p a s]. unfold consist_normalize. cbn [cn_locos cn_pdct cn_assert_limits cn_state]. f_equal.
  induction ls as [|l t IH]; [reflexivity|]. cbn [map]. rewrite IH, loco_normalize_idem. reflexivity. Qed.

Corollary consist_roundtrip_twice (c c1 : ConsistR) :
  consist_decode (consist_encode c) = Ok c1 -> consist_decode (consist_encode c1) = Ok c1.
Proof. rewrite consist_roundtrip. intros H; inversion H; subst. rewrite consist_roundtrip, consist_normalize_idem. reflexivity. Qed.

Theorem consist_positional_roundtrip (c : ConsistR) :
  no_skip sch_consist (consist_to_val c) = true -> consist_decode_pos (consist_encode_pos c) = Ok (consist_normalize c).
Proof. intros Hn. unfold consist_decode_pos, consist_encode_pos.
  rewrite <- (app_nil_r (encp sch_consist (consist_to_val c))).
  rewrite (decp_encp sch_consist (consist_to_val c) [] wf_consist (consist_ty c) Hn). cbn [bind fst].
  rewrite consist_clear_val, consist_of_to. reflexivity. Qed.

(* a reload of the consist is the consist of the reloaded units *)
Theorem consist_reload_is_unitwise (c c1 : ConsistR) :
  consist_decode (consist_encode c) = Ok c1 ->
  Forall2 (fun l l1 => loco_decode (loco_encode l) = Ok l1) (cn_locos c) (cn_locos c1) /\
  cn_pdct c1 = cn_pdct c /\ cn_assert_limits c1 = cn_assert_limits c /\ cn_state c1 = cn_state c.
Proof. rewrite consist_roundtrip. intros H; inversion H; subst c1; clear H. cbn [consist_normalize cn_locos cn_pdct cn_assert_limits cn_state].
  split; [|repeat split]. induction (cn_locos c) as [|l t IH]; constructor; [apply loco_roundtrip|exact IH]. Qed.

(* ---------------------------------------------------------------- "the reloaded consist behaves identically"
   CInv: every unit's stored input-fraction maps are absent or exactly what the code would rebuild.  It holds of every
   loaded consist, is kept by every accepted ConsistSimulation step, and under it a step of the reloaded consist is THE
   SAME as a step of the original - hence resume equivalence over arbitrary traces. *)
From AltProofs Require Import ConsistP C10P.
Open Scope R_scope.

Definition CInv (c : ConsistR) : Prop := Forall CacheInv (cn_locos c).

Lemma CInv_normalize (c : ConsistR) : CInv (consist_normalize c).
Proof. unfold CInv, consist_normalize. cbn [cn_locos]. induction (cn_locos c) as [|l t IH]; constructor; [apply CacheInv_normalize|exact IH]. Qed.

Lemma map_res_limits_clear dt : forall ls : list (Loco (F:=R)), Forall CacheInv ls ->
  map_res (fun l => loco_set_cur_pwr_max_out l dt) (map loco_normalize ls) = map_res (fun l => loco_set_cur_pwr_max_out l dt) ls.
Proof. induction ls as [|l t IH]; intros H; [reflexivity|]. inversion H as [|? ? Hl Ht]; subst.
  cbn [map map_res]. rewrite (loco_limits_clear l dt Hl), (IH Ht). reflexivity. Qed.

Lemma map_aux_normalize on (ls : list (Loco (F:=R))) :
  map (fun l => loco_set_pwr_aux l on) (map loco_normalize ls) = map loco_normalize (map (fun l => loco_set_pwr_aux l on) ls).
Proof. induction ls as [|l t IH]; [reflexivity|]. cbn [map]. rewrite IH, loco_aux_normalize. reflexivity. Qed.

Lemma Forall_CacheInv_aux on (ls : list (Loco (F:=R))) : Forall CacheInv ls -> Forall CacheInv (map (fun l => loco_set_pwr_aux l on) ls).
Proof. induction 1 as [|l t Hl Ht IH]; constructor; [apply (proj2 (CacheInv_aux l on)); exact Hl|exact IH]. Qed.

Theorem consist_step_cache_insensitive (c : ConsistR) pwr dt : CInv c ->
  consist_sim_solve_step (consist_normalize c) pwr dt = consist_sim_solve_step c pwr dt.
Proof.
  intros Hc. unfold consist_sim_solve_step, consist_set_pwr_aux, consist_set_cur_pwr_max_out, consist_normalize.
  cbn [cn_locos cn_pdct cn_assert_limits cn_state]. rewrite map_aux_normalize.
  rewrite (map_res_limits_clear dt _ (Forall_CacheInv_aux true _ Hc)). reflexivity.
Qed.

Lemma map_res_limits_cache dt : forall (ls ls' : list (Loco (F:=R))),
  map_res (fun l => loco_set_cur_pwr_max_out l dt) ls = Ok ls' -> Forall CacheInv ls -> Forall CacheInv ls'.
Proof. induction ls as [|l t IH]; intros ls' H Hc; cbn [map_res] in H.
  - inversion H; constructor.
  - inversion Hc as [|? ? Hl Ht]; subst. apply bind_ok in H. destruct H as (l1 & H1 & H). apply bind_ok in H.
    destruct H as (t1 & Ht1 & H). inversion H; subst. constructor; [exact (loco_limits_cache _ _ _ H1 Hl)|exact (IH _ Ht1 Ht)]. Qed.

Lemma solved_cache dt on ls ps ls' : solved dt on ls ps ls' -> Forall CacheInv ls -> Forall CacheInv ls'.
Proof. induction 1 as [|l p l' ls ps ls' Hs _ IH]; intros Hc; [constructor|].
  inversion Hc as [|? ? Hl Ht]; subst. constructor; [exact (loco_solve_cache _ _ _ _ _ Hs Hl)|exact (IH Ht)]. Qed.

Theorem consist_step_keeps_CInv (c c' : ConsistR) pwr dt : consist_sim_solve_step c pwr dt = Ok c' -> CInv c -> CInv c'.
Proof.
  unfold consist_sim_solve_step. intros H Hc. apply bind_ok in H. destruct H as (c2 & H2 & Hs).
  assert (Hc2 : CInv c2).
  { unfold consist_set_cur_pwr_max_out in H2. apply bind_ok in H2. destruct H2 as (ls & Hm & H2). inversion H2; subst c2.
    unfold CInv. cbn [cn_locos]. eapply map_res_limits_cache; [exact Hm|].
    unfold consist_set_pwr_aux. cbn [cn_locos]. apply Forall_CacheInv_aux. exact Hc. }
  destruct (consist_solve_locos _ _ _ _ _ Hs) as (sh & _ & Hsol & _). exact (solved_cache _ _ _ _ _ Hsol Hc2).
Qed.

(* resume equivalence for ConsistSimulation-style runs ([cstep] of C10P.v) *)
Lemma cstep_cache_insensitive c i : CInv c -> cstep (consist_normalize c) i = cstep c i.
Proof. destruct i as [pwr dt]. apply consist_step_cache_insensitive. Qed.
Lemma run_keeps_CInv ins : forall c c', run cstep c ins = Ok c' -> CInv c -> CInv c'.
Proof. intros c c' H Hc. revert H. apply (run_inv cstep CInv); [|exact Hc].
  intros s [pwr dt] s' Hs Hst. exact (consist_step_keeps_CInv _ _ _ _ Hst Hs). Qed.

Definition cresume (c : ConsistR) (pre post : list (R * R)) : res ConsistR :=
  let? m := run cstep c pre in
  let? m' := consist_decode (consist_encode m) in
  run cstep m' post.

Theorem consist_resume_equiv_exact c pre i post : CInv c ->
  cresume c pre (i :: post) = run cstep c (pre ++ i :: post).
Proof. intros Hc. unfold cresume. rewrite run_app.
  destruct (run cstep c pre) as [m| |] eqn:E; cbn [bind]; try reflexivity.
  rewrite consist_roundtrip. cbn [bind run]. rewrite (cstep_cache_insensitive m i (run_keeps_CInv pre c m E Hc)). reflexivity. Qed.

Theorem consist_resume_equiv c pre post : CInv c ->
  res_map consist_normalize (cresume c pre post) = res_map consist_normalize (run cstep c (pre ++ post)).
Proof. intros Hc. destruct post as [|i post].
  - unfold cresume. rewrite app_nil_r. destruct (run cstep c pre) as [m| |] eqn:E; cbn [bind]; try reflexivity.
    rewrite consist_roundtrip. cbn [bind run res_map]. rewrite consist_normalize_idem. reflexivity.
  - rewrite (consist_resume_equiv_exact c pre i post Hc). reflexivity. Qed.
