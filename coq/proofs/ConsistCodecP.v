(* ConsistCodecP.v -- typed save / load of a CONSIST of the numeric model (Consist.v): the embedding is well typed for
   the schema read off the Rust struct, decoding inverts it, and a reload returns the consist with every unit's lazily
   rebuilt input-fraction maps cleared (exactly what loading each unit on its own returns). *)
From Coq Require Import Reals List Bool ZArith String.
From AltModel Require Import Num Interp Powertrain Loco Consist Codec CodecSchema.
From AltProofs Require Import NumR CodecP CodecSchemaP.
Import ListNotations.
Local Open Scope string_scope.

Notation ConsistR := (Consist (F:=R)).

Lemma consiststate_ty (s : ConsistState (F:=R)) : has_tyb sch_consiststate (consiststate_to_val s) = true.
Proof. unfold consiststate_to_val, sch_consiststate, consiststate_fields. ty_tac. Qed.
Lemma pdct_ty (p : Pdct) : has_tyb (sch_pdct (F:=R)) (pdct_to_val p) = true.
Proof. destruct p; unfold pdct_to_val, sch_pdct; rewrite has_ty_enum; reflexivity. Qed.
Lemma locos_ty (ls : list (Loco (F:=R))) : has_tyb (TSeq sch_loco) (VSeq (map loco_to_val ls)) = true.
Proof. cbn [has_tyb]. induction ls as [|l t IH]; [reflexivity|]. cbn [map forallb]. rewrite IH.
  change (has_tyb sch_loco (loco_to_val l) && true = true). rewrite loco_ty. reflexivity. Qed.
Lemma consist_ty (c : ConsistR) : has_tyb sch_consist (consist_to_val c) = true.
Proof. unfold consist_to_val, sch_consist. rewrite has_ty_rec; cbn [typed_fields]; unfld; cbn [fst snd].
  rewrite locos_ty, pdct_ty, consiststate_ty. reflexivity. Qed.

Lemma consiststate_clear_val (s : ConsistState (F:=R)) : clear sch_consiststate (consiststate_to_val s) = consiststate_to_val s.
Proof. unfold consiststate_to_val, sch_consiststate, consiststate_fields. clear_tac. reflexivity. Qed.
Lemma pdct_clear_val (p : Pdct) : clear (sch_pdct (F:=R)) (pdct_to_val p) = pdct_to_val p.
Proof. destruct p; unfold pdct_to_val, sch_pdct; rewrite clear_enum; reflexivity. Qed.
Lemma locos_clear_val (ls : list (Loco (F:=R))) :
  clear (TSeq sch_loco) (VSeq (map loco_to_val ls)) = VSeq (map loco_to_val (map loco_normalize ls)).
Proof. cbn [clear]. f_equal. induction ls as [|l t IH]; [reflexivity|]. cbn [map]. rewrite IH. f_equal. apply loco_clear_val. Qed.
Lemma consist_clear_val (c : ConsistR) : clear sch_consist (consist_to_val c) = consist_to_val (consist_normalize c).
Proof. unfold consist_to_val, sch_consist. clear_tac.
  rewrite locos_clear_val, pdct_clear_val, consiststate_clear_val. reflexivity. Qed.

Lemma consiststate_of_to (s : ConsistState (F:=R)) : consiststate_of_val (consiststate_to_val s) = s.
Proof. destruct s. reflexivity. Qed.
Lemma pdct_of_to (p : Pdct) : pdct_of_val (F:=R) (pdct_to_val p) = p.
Proof. destruct p; reflexivity. Qed.
Lemma locos_of_to (ls : list (Loco (F:=R))) : map loco_of_val (map loco_to_val ls) = ls.
Proof. induction ls as [|l t IH]; [reflexivity|]. cbn [map]. rewrite IH, loco_of_to. reflexivity. Qed.
Lemma consist_of_to (c : ConsistR) : consist_of_val (consist_to_val c) = c.
Proof. destruct c as [ls p a s]. unfold consist_of_val, consist_to_val. cbn [gfld nth gseq gbool cn_locos cn_pdct cn_assert_limits cn_state].
  rewrite locos_of_to, pdct_of_to, consiststate_of_to. reflexivity. Qed.

(* ---------------------------------------------------------------- typed round trips *)
Theorem consist_roundtrip (c : ConsistR) : consist_decode (consist_encode c) = Ok (consist_normalize c).
Proof. unfold consist_decode, consist_encode. rewrite (dec_enc sch_consist (consist_to_val c) wf_consist (consist_ty c)).
  cbn [bind]. rewrite consist_clear_val, consist_of_to. reflexivity. Qed.

Lemma consist_normalize_idem (c : ConsistR) : consist_normalize (consist_normalize c) = consist_normalize c.
Proof. destruct c as [ls p a s]. unfold consist_normalize. cbn [cn_locos cn_pdct cn_assert_limits cn_state]. f_equal.
  induction ls as [|l t IH]; [reflexivity|]. cbn [map]. rewrite IH, loco_normalize_idem. reflexivity. Qed.

Corollary consist_roundtrip_twice (c c1 : ConsistR) :
  consist_decode (consist_encode c) = Ok c1 -> consist_decode (consist_encode c1) = Ok c1.
Proof. rewrite consist_roundtrip. intros H; inversion H; subst. rewrite consist_roundtrip, consist_normalize_idem. reflexivity. Qed.

Theorem consist_positional_roundtrip (c : ConsistR) :
  no_skip sch_consist (consist_to_val c) = true -> consist_decode_pos (consist_encode_pos c) = Ok (consist_normalize c).
Proof. intros Hn. unfold consist_decode_pos, consist_encode_pos.
  rewrite <- (app_nil_r (encp sch_consist (consist_to_val c))).
  rewrite (decp_encp sch_consist (consist_to_val c) [] wf_consist (consist_ty c) Hn). cbn [bind fst].
  rewrite consist_clear_val, consist_of_to. reflexivity. Qed.

(* a reload of the consist is the consist of the reloaded units *)
Theorem consist_reload_is_unitwise (c c1 : ConsistR) :
  consist_decode (consist_encode c) = Ok c1 ->
  Forall2 (fun l l1 => loco_decode (loco_encode l) = Ok l1) (cn_locos c) (cn_locos c1) /\
  cn_pdct c1 = cn_pdct c /\ cn_assert_limits c1 = cn_assert_limits c /\ cn_state c1 = cn_state c.
Proof. rewrite consist_roundtrip. intros H; inversion H; subst c1; clear H. cbn [consist_normalize cn_locos cn_pdct cn_assert_limits cn_state].
  split; [|repeat split]. induction (cn_locos c) as [|l t IH]; constructor; [apply loco_roundtrip|exact IH]. Qed.
