(* ExecDisp.v -- binary64 / discrete entry points of the dispatch checkers (C04, C05) and of the
   sentinel-scan models.  First element of every result: outcome tag (0 Ok / 1 Err / 2 Panic). *)
From Coq Require Import ZArith List Bool Floats.
From AltModel Require Import Num TrackNet EstNet DispPlan Scans.
Import ListNotations.

Notation evf := (ev (F:=float)).
Notation occf := (occ (F:=float)).
Notation rnodef := (rnode (F:=float)).
Notation tspecf := (tspec (F:=float)).

(* ---- C04 ---- *)
(* one dispatch state: every train's own timed events and its end time (None while under way);
   verdicts: the event lists are train movements; no conflicting occupancy *)
Definition x_state_ok (net : list link) (h : float) (trains : list (list evf * option float)) : list out :=
  match occs_of trains with
  | Some occs => [OZ 0; OB true; OB (plan_ok net h occs)]
  | None => [OZ 0; OB false; OB false]
  end.

(* black-box: front-occupancy intervals of the returned timed link paths *)
Definition x_fronts_ok (net : list link) (plans : list (list (nat * float))) : list out :=
  [OZ 0; OB (fronts_ok net plans)].

(* replay of guarded ledger operations from a given ledger: Ok + the resulting authorities, or the
   number of the guard that failed *)
Definition optf_outs (o : option float) : list out := match o with Some x => [OB true; OF x] | None => [OB false; OF 0%float] end.
Definition auth_outs (a : nat * occf) : list out :=
  [OZ (Z.of_nat (fst a)); OF (o_in (snd a))] ++ optf_outs (o_ce (snd a)) ++ optf_outs (o_ax (snd a)) ++ optf_outs (o_out (snd a)).
Fixpoint lrunf (net : list link) (h : float) (led : ledger (F:=float)) (ops : list (lop (F:=float))) : res (ledger (F:=float)) :=
  match ops with
  | [] => Ok led
  | op :: rest => let? led' := lop_apply net h led op in lrunf net h led' rest
  end.
Definition x_ledger_run (net : list link) (h : float) (led : ledger (F:=float)) (ops : list (lop (F:=float))) : list out :=
  res_outs (lrunf net h led ops)
    (fun l => flat_map (fun st => OZ (Z.of_nat (length st)) :: flat_map auth_outs st) l).

(* ---- C05 ---- *)
Definition x_result_ok (net : list link) (ts : list tspecf) (plans : list (list (nat * float)))
    (cert : list (float * list (nat * float))) : list out :=
  OZ 0 :: OB ((length plans =? length ts)%nat && (length cert =? length ts)%nat)
       :: flat_map (fun x => map OB (train_checks net (fst (fst x)) (snd (fst x)) (fst (snd x)) (snd (snd x))))
                   (combine (combine ts plans) cert).

Definition x_stuck_ok (n : nat) (ids : list nat) : list out := [OZ 0; OB (stuck_ok n ids)].

(* ---- the three scans ---- *)
Definition zn (n : nat) : out := OZ (Z.of_nat n).
Definition x_calc_idx_sentinels (div_idx tsent : nat) (dn : list (nat * nat)) : list out :=
  res_outs (calc_idx_sentinels div_idx tsent dn) (fun r => [zn (fst r); zn (snd r)]).
Definition x_find_train_intersect (idx_split idx_sentinel : nat) (opt : link_opt) (path : list Z) (blocked : list nat) : list out :=
  res_outs (find_train_intersect idx_split idx_sentinel opt path blocked) (fun r => zn (fst r) :: map OZ (snd r)).
Definition x_add_blocking_trains (tb : list nat) (base add : nat * nat) : list out :=
  res_outs (add_blocking_trains tb base add) (fun r => zn (fst (snd r)) :: zn (snd (snd r)) :: map zn (fst r)).
