(* Exec.v -- the model instantiated at binary64, with flat entry points for the
   correspondence check.  Every entry point returns [list out]; the first element is the
   outcome tag (0 Ok / 1 Err code / 2 Panic code).  The field order of every [*_outs]
   function is the order in which harness/src/pt.rs lists the implementation's fields. *)
From Coq Require Import ZArith List Bool Floats.
From AltModel Require Import Num Interp Powertrain Loco.
Import ListNotations.

Notation FCf := (FC (F:=float)).
Notation Genf := (Gen (F:=float)).
Notation Edrvf := (Edrv (F:=float)).
Notation Resf := (Res (F:=float)).
Notation Locof := (Loco (F:=float)).

Definition fc_outs (c : FCf) : list out :=
  let s := fc_state c in
  [OF (fcs_pwr_out_max s); OF (fcs_eta s); OF (fcs_pwr_brake s); OF (fcs_pwr_fuel s);
   OF (fcs_pwr_loss s); OF (fcs_pwr_idle_fuel s); OF (fcs_energy_brake s); OF (fcs_energy_fuel s);
   OF (fcs_energy_loss s); OF (fcs_energy_idle_fuel s); OB (fcs_engine_on s);
   OF (fc_pwr_out_max_init c)].

Definition gen_outs (g : Genf) : list out :=
  let s := gen_state g in
  [OF (gs_eta s); OF (gs_pwr_elec_prop_out_max s); OF (gs_pwr_elec_out_max s);
   OF (gs_pwr_rate_out_max s); OF (gs_pwr_mech_in s); OF (gs_pwr_elec_prop_out s);
   OF (gs_pwr_elec_aux s); OF (gs_pwr_loss s); OF (gs_energy_mech_in s);
   OF (gs_energy_elec_prop_out s); OF (gs_energy_elec_aux s); OF (gs_energy_loss s)].

Definition edrv_outs (e : Edrvf) : list out :=
  let s := edrv_state e in
  [OF (es_eta s); OF (es_pwr_mech_out_max s); OF (es_pwr_mech_regen_max s);
   OF (es_pwr_rate_out_max s); OF (es_pwr_out_req s); OF (es_pwr_elec_prop_in s);
   OF (es_pwr_mech_prop_out s); OF (es_pwr_mech_dyn_brake s); OF (es_pwr_elec_dyn_brake s);
   OF (es_pwr_loss s); OF (es_energy_elec_prop_in s); OF (es_energy_mech_prop_out s);
   OF (es_energy_mech_dyn_brake s); OF (es_energy_elec_dyn_brake s); OF (es_energy_loss s)].

Definition res_outs_ (r : Resf) : list out :=
  let s := res_state r in
  [OF (rs_pwr_prop_out_max s); OF (rs_pwr_regen_out_max s); OF (rs_pwr_disch_max s);
   OF (rs_pwr_charge_max s); OF (rs_pwr_out_electrical s); OF (rs_pwr_out_propulsion s);
   OF (rs_pwr_aux s); OF (rs_pwr_loss s); OF (rs_pwr_out_chemical s);
   OF (rs_energy_out_electrical s); OF (rs_energy_out_propulsion s); OF (rs_energy_aux s);
   OF (rs_energy_loss s); OF (rs_energy_out_chemical s); OF (rs_max_soc s);
   OF (rs_soc_hi_ramp_start s); OF (rs_min_soc s); OF (rs_soc_lo_ramp_start s); OF (rs_soc s);
   OF (rs_eta s)].

Definition loco_outs (l : Locof) : list out :=
  let s := lc_state l in
  [OF (ls_pwr_out_max s); OF (ls_pwr_rate_out_max s); OF (ls_pwr_regen_max s); OF (ls_pwr_out s);
   OF (ls_pwr_aux s); OF (ls_energy_out s); OF (ls_energy_aux s)] ++
  match lc_type l with
  | PConv c => fc_outs (cv_fc c) ++ gen_outs (cv_gen c) ++ edrv_outs (cv_edrv c)
  | PBel b => res_outs_ (bl_res b) ++ edrv_outs (bl_edrv b)
  end.

(* ---- entry points ---- *)
Definition x_interp1d (x : float) (xs ys : list float) (ex : bool) : list out :=
  res_outs (interp1d x xs ys ex) (fun v => [OF v]).
Definition x_interp3d (x y z : float) (gx gy gz : list float) (vals : list (list (list float)))
  : list out := res_outs (interp3d (x, y, z) gx gy gz vals) (fun v => [OF v]).

Definition x_fc_solve (c : FCf) (req dt : float) (on lim : bool) : list out :=
  res_outs (fc_solve c req dt on lim) fc_outs.
Definition x_fc_limits (c : FCf) (dt : float) : list out :=
  res_outs (fc_set_cur_pwr_out_max c dt) fc_outs.
Definition x_gen_req (g : Genf) (prop aux dt : float) : list out :=
  res_outs (gen_set_pwr_in_req g prop aux dt) gen_outs.
Definition x_gen_limits (g : Genf) (pin aux : float) : list out :=
  res_outs (gen_set_cur_pwr_max_out g pin aux) gen_outs.
Definition x_edrv_req (e : Edrvf) (req dt : float) : list out :=
  res_outs (edrv_set_pwr_in_req e req dt) edrv_outs.
Definition x_edrv_limits (e : Edrvf) (pin : float) : list out :=
  res_outs (edrv_set_cur_pwr_max_out e pin) edrv_outs.
Definition x_edrv_regen (e : Edrvf) (pin : float) : list out :=
  res_outs (edrv_set_cur_pwr_regen_max e pin) edrv_outs.
Definition x_res_solve (r : Resf) (prop aux dt : float) : list out :=
  res_outs (res_solve r prop aux dt) res_outs_.
Definition x_res_limits (r : Resf) (aux : float) (cb db : option float) : list out :=
  res_outs (res_set_cur_pwr_out_max r aux cb db) res_outs_.
Definition x_loco_step (l : Locof) (pwr dt : float) (on : bool) : list out :=
  res_outs (loco_sim_solve_step l pwr dt on) loco_outs.

(* ---- consist ---- *)
From AltModel Require Import Consist.
Notation Consistf := (Consist (F:=float)).

Definition cstate_outs (s : ConsistState (F:=float)) : list out :=
  [OF (cs_pwr_out_max s); OF (cs_pwr_rate_out_max s); OF (cs_pwr_regen_max s);
   OF (cs_pwr_out_max_reves s); OF (cs_pwr_out_deficit s); OF (cs_pwr_out_max_non_reves s);
   OF (cs_pwr_regen_deficit s); OF (cs_pwr_dyn_brake_max s); OF (cs_pwr_out_req s);
   OF (cs_pwr_out s); OF (cs_pwr_reves s); OF (cs_pwr_fuel s); OF (cs_energy_out s);
   OF (cs_energy_out_pos s); OF (cs_energy_out_neg s); OF (cs_energy_res s); OF (cs_energy_fuel s)].

Definition consist_outs (c : Consistf) : list out :=
  cstate_outs (cn_state c) ++ flat_map loco_outs (cn_locos c).

Definition x_consist_step (c : Consistf) (pwr dt : float) : list out :=
  res_outs (consist_sim_solve_step c pwr dt) consist_outs.

(* ---- whole walks (end-to-end, not lock-step): the run function the theorems quantify over ---- *)
Fixpoint loco_run (l : Locof) (tr : list (float * float * bool)) : res Locof :=
  match tr with
  | [] => Ok l
  | (p, dt, on) :: t => match loco_sim_solve_step l p dt on with
                        | Ok l' => loco_run l' t | Err c => Err c | Panic c => Panic c end
  end.
Definition x_loco_walk (l : Locof) (tr : list (float * float * bool)) : list out :=
  res_outs (loco_run l tr) loco_outs.

Fixpoint consist_run (c : Consistf) (tr : list (float * float)) : res Consistf :=
  match tr with
  | [] => Ok c
  | (p, dt) :: t => match consist_sim_solve_step c p dt with
                    | Ok c' => consist_run c' t | Err e => Err e | Panic e => Panic e end
  end.
Definition x_consist_walk (c : Consistf) (tr : list (float * float)) : list out :=
  res_outs (consist_run c tr) consist_outs.

(* ---- train-level wheel energies + consist (C11) ---- *)
From AltModel Require Import TrainEnergy.
Definition te_outs (t : TrainEnergy (F:=float)) : list out :=
  [OF (te_pwr_whl_out t); OF (te_energy_whl_out t); OF (te_energy_whl_out_pos t); OF (te_energy_whl_out_neg t)].
Definition x_train_consist_step (t : TrainEnergy (F:=float)) (c : Consistf) (p dt : float) : list out :=
  res_outs (train_consist_step (t, c) p dt) (fun tc => te_outs (fst tc) ++ consist_outs (snd tc)).
Definition x_trip_outputs (c : Consistf) (annualize : bool) (days : option float) : list out :=
  [OZ 0; OF (trip_energy_fuel c annualize days); OF (trip_net_energy_res c annualize days); OF (scaling_factor annualize days)].
