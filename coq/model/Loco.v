(* Loco.v -- ConventionalLoco, BatteryElectricLoco, Locomotive, LocomotiveSimulation::step
   (conventional_loco.rs, battery_electric_loco.rs, locomotive_model.rs, loco_sim.rs).
   HybridLoco and DummyLoco are outside the model (DESIGN.md section 5). *)
From Coq Require Import ZArith List Bool.
From AltModel Require Import Num Interp Powertrain.
Import ListNotations.
Local Open Scope num_scope.

Section Loco.
Context {F : Type} {NO : NumOps F}.

Record Conv := { cv_fc : FC (F:=F); cv_gen : Gen (F:=F); cv_edrv : Edrv (F:=F) }.
Record Bel := { bl_res : Res (F:=F); bl_edrv : Edrv (F:=F) }.

Inductive Ptype := PConv (c : Conv) | PBel (b : Bel).

(* ConventionalLoco::solve_energy_consumption ; Err 601 = gen mech in negative *)
Definition conv_solve (c : Conv) (req dt : F) (engine_on : bool) (aux : F) (assert_limits : bool)
  : res Conv :=
  let? e := edrv_set_pwr_in_req (cv_edrv c) req dt in
  let? g := gen_set_pwr_in_req (cv_gen c) (es_pwr_elec_prop_in (edrv_state e))
                               (if engine_on then aux else n0) dt in
  let? _ := ensure (n0 <=? gs_pwr_mech_in (gen_state g)) 601 in
  let? f := fc_solve (cv_fc c) (gs_pwr_mech_in (gen_state g)) dt engine_on assert_limits in
  Ok {| cv_fc := f; cv_gen := g; cv_edrv := e |}.

(* LocoTrait::set_cur_pwr_max_out for ConventionalLoco *)
Definition conv_set_cur_pwr_max_out (c : Conv) (aux dt : F) : res Conv :=
  let? f := fc_set_cur_pwr_out_max (cv_fc c) dt in
  let? g := gen_set_cur_pwr_max_out (cv_gen c) (fcs_pwr_out_max (fc_state f)) aux in
  let? e := edrv_set_cur_pwr_max_out (cv_edrv c) (gs_pwr_elec_prop_out_max (gen_state g)) in
  let g := gen_set_pwr_rate_out_max g (fc_pwr_out_max f / fc_pwr_ramp_lag f) in
  let e := edrv_set_pwr_rate_out_max e (gs_pwr_rate_out_max (gen_state g)) in
  Ok {| cv_fc := f; cv_gen := g; cv_edrv := e |}.

(* the auxiliary power a BEL actually serves *)
Definition bel_aux_served (b : Bel) (e : Edrv (F:=F)) (aux : F) : F :=
  let pin := es_pwr_elec_prop_in (edrv_state e) in
  if n0 <? pin then aux
  else nmax (nmin aux (rs_pwr_prop_out_max (res_state (bl_res b)) - pin)) n0.

(* BatteryElectricLoco::solve_energy_consumption *)
Definition bel_solve (b : Bel) (req dt aux : F) : res Bel :=
  let? e := edrv_set_pwr_in_req (bl_edrv b) req dt in
  let? r := res_solve (bl_res b) (es_pwr_elec_prop_in (edrv_state e)) (bel_aux_served b e aux) dt in
  Ok {| bl_res := r; bl_edrv := e |}.

(* LocoTrait::set_cur_pwr_max_out for BatteryElectricLoco *)
Definition bel_set_cur_pwr_max_out (b : Bel) (aux dt : F) : res Bel :=
  let? r := res_set_cur_pwr_out_max (bl_res b) aux None None in
  let? e := edrv_set_cur_pwr_max_out (bl_edrv b) (rs_pwr_prop_out_max (res_state r)) in
  let? e := edrv_set_cur_pwr_regen_max e (rs_pwr_regen_out_max (res_state r)) in
  let e := edrv_set_pwr_rate_out_max e
             ((es_pwr_mech_out_max (edrv_state e) - es_pwr_mech_prop_out (edrv_state e)) / dt) in
  Ok {| bl_res := r; bl_edrv := e |}.

(* ---------------------------------------------------------------- Locomotive *)
Record LocoState := {
  ls_i : Z; ls_pwr_out_max : F; ls_pwr_rate_out_max : F; ls_pwr_regen_max : F;
  ls_pwr_out : F; ls_pwr_aux : F; ls_energy_out : F; ls_energy_aux : F }.

Record Loco := {
  lc_type : Ptype; lc_state : LocoState; lc_assert_limits : bool;
  lc_pwr_aux_offset : F; lc_pwr_aux_traction_coeff : F }.

Definition loco_edrv (l : Loco) : Edrv (F:=F) :=
  match lc_type l with PConv c => cv_edrv c | PBel b => bl_edrv b end.

Definition loco_with (l : Loco) (t : Ptype) (s : LocoState) : Loco :=
  {| lc_type := t; lc_state := s; lc_assert_limits := lc_assert_limits l;
     lc_pwr_aux_offset := lc_pwr_aux_offset l;
     lc_pwr_aux_traction_coeff := lc_pwr_aux_traction_coeff l |}.

(* Locomotive::set_pwr_aux  (engine_on = None is treated as true) *)
Definition loco_set_pwr_aux (l : Loco) (engine_on : bool) : Loco :=
  let s := lc_state l in
  loco_with l (lc_type l)
    {| ls_i := ls_i s; ls_pwr_out_max := ls_pwr_out_max s;
       ls_pwr_rate_out_max := ls_pwr_rate_out_max s; ls_pwr_regen_max := ls_pwr_regen_max s;
       ls_pwr_out := ls_pwr_out s;
       ls_pwr_aux := if engine_on
                     then lc_pwr_aux_offset l + lc_pwr_aux_traction_coeff l * nabs (ls_pwr_out s)
                     else n0;
       ls_energy_out := ls_energy_out s; ls_energy_aux := ls_energy_aux s |}.

(* LocoTrait::set_cur_pwr_max_out for Locomotive ; Panic 801 = assert_eq!(pwr_regen_max, 0) *)
Definition loco_set_cur_pwr_max_out (l : Loco) (dt : F) : res Loco :=
  let s := lc_state l in
  let? t := match lc_type l with
            | PConv c => let? c' := conv_set_cur_pwr_max_out c (ls_pwr_aux s) dt in Ok (PConv c')
            | PBel b => let? b' := bel_set_cur_pwr_max_out b (ls_pwr_aux s) dt in Ok (PBel b')
            end in
  let es := edrv_state (match t with PConv c => cv_edrv c | PBel b => bl_edrv b end) in
  let? _ := match t with
            | PConv _ => passert (es_pwr_mech_regen_max es =? n0) 801
            | PBel _ => Ok tt end in
  Ok (loco_with l t
        {| ls_i := ls_i s; ls_pwr_out_max := es_pwr_mech_out_max es;
           ls_pwr_rate_out_max := es_pwr_rate_out_max es;
           ls_pwr_regen_max := es_pwr_mech_regen_max es;
           ls_pwr_out := ls_pwr_out s; ls_pwr_aux := ls_pwr_aux s;
           ls_energy_out := ls_energy_out s; ls_energy_aux := ls_energy_aux s |}).

(* Locomotive::solve_energy_consumption *)
(* Err 803 (/repo fix: the published limit binds a locomotive on its own just as it binds it inside a consist):
   with limit checking on, the power asked of the locomotive exceeds the limit it published for this step *)
Definition loco_solve (l : Loco) (req dt : F) (engine_on : bool) : res Loco :=
  let s := lc_state l in
  let? _ := ensure (negb (lc_assert_limits l) || almost_le req (ls_pwr_out_max s) eps8) 803 in
  let? t := match lc_type l with
            | PConv c => let? c' := conv_solve c req dt engine_on (ls_pwr_aux s) (lc_assert_limits l)
                         in Ok (PConv c')
            | PBel b => let? b' := bel_solve b req dt (ls_pwr_aux s) in Ok (PBel b')
            end in
  let es := edrv_state (match t with PConv c => cv_edrv c | PBel b => bl_edrv b end) in
  let out := es_pwr_mech_prop_out es - es_pwr_mech_dyn_brake es in
  Ok (loco_with l t
        {| ls_i := ls_i s; ls_pwr_out_max := ls_pwr_out_max s;
           ls_pwr_rate_out_max := ls_pwr_rate_out_max s; ls_pwr_regen_max := ls_pwr_regen_max s;
           ls_pwr_out := out; ls_pwr_aux := ls_pwr_aux s;
           ls_energy_out := ls_energy_out s + out * dt;
           ls_energy_aux := ls_energy_aux s + ls_pwr_aux s * dt |}).

(* LocomotiveSimulation::solve_step for one trace entry (pwr, dt, engine_on);
   Err 802 = delivered power is not almost_eq to the trace power *)
Definition loco_sim_solve_step (l : Loco) (pwr dt : F) (engine_on : bool) : res Loco :=
  let l := loco_set_pwr_aux l engine_on in
  let? l := loco_set_cur_pwr_max_out l dt in
  let? l := loco_solve l pwr dt engine_on in
  let? _ := ensure (almost_eq pwr (ls_pwr_out (lc_state l)) eps8) 802 in
  Ok l.

End Loco.
