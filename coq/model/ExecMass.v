(* ExecMass.v -- binary64 entry points of the mass/traction-parameter model (C20).
   Every entry point reports tag 0 followed by labelled values (harness/src/c20.rs lists them in
   the same order): the return class of the call (0 Ok, 1 Err), the object as the call left it,
   and what the getters say about that object. *)
From Coq Require Import ZArith List Bool Floats.
From AltModel Require Import Num MassParams.
Import ListNotations.

Notation Compf := (Comp (F:=float)).
Notation LocoMf := (LocoM (F:=float)).

Definition opt_outs (o : option float) : list out :=
  match o with Some x => [OB true; OF x] | None => [OB false; OF 0%float] end.
(* getter returning Result<Option<_>>: class 0 = Ok(None), 1 = Ok(Some v), 2 = Err *)
Definition resopt_outs (r : res (option float)) : list out :=
  match r with
  | Ok None => [OZ 0; OF 0%float]
  | Ok (Some x) => [OZ 1; OF x]
  | _ => [OZ 2; OF 0%float]
  end.
Definition resf_outs (r : res float) : list out :=
  match r with Ok x => [OZ 1; OF x] | _ => [OZ 2; OF 0%float] end.
Definition ret_out (r : res unit) : out := match r with Ok _ => OZ 0 | _ => OZ 1 end.

Definition comp_outs (c : Compf) : list out := opt_outs (cm_mass c) ++ opt_outs (cm_spec c) ++ [OF (cm_ext c)].
Definition comp_getters (c : Compf) : list out := resopt_outs (comp_mass c) ++ opt_outs (comp_derived c).

Definition x_comp_set_mass (c : Compf) (new : option float) (se : MassSE) : list out :=
  let '(c', r) := comp_set_mass c new se in
  OZ 0 :: ret_out r :: comp_outs c' ++ comp_getters c'.
Definition x_comp_expunge (c : Compf) : list out :=
  let c' := comp_expunge c in OZ 0 :: OZ 0 :: comp_outs c' ++ comp_getters c'.
Definition x_comp_getters (c : Compf) : list out := OZ 0 :: OZ 0 :: comp_outs c ++ comp_getters c.

Definition pt_outs (p : PT (F:=float)) : list out :=
  match p with
  | PTConv fc gen => comp_outs fc ++ comp_outs gen
  | PTBel r => comp_outs r
  | PTDummy => []
  end.
Definition loco_outs_m (l : LocoMf) : list out :=
  opt_outs (lm_mass l) ++ opt_outs (lm_mu l) ++ opt_outs (lm_ballast l) ++ opt_outs (lm_baseline l) ++
  [OF (lm_force l)] ++ pt_outs (lm_pt l).
Definition loco_getters (l : LocoMf) : list out :=
  resopt_outs (loco_mass l) ++ resopt_outs (loco_mu l) ++ resf_outs (loco_force_max l) ++
  resopt_outs (loco_derived_trait l).

Definition x_loco_call (l : LocoMf) (c : LCmd (F:=float)) : list out :=
  let '(l', r) := loco_call l c in
  OZ 0 :: ret_out r :: loco_outs_m l' ++ loco_getters l'.
Definition x_loco_getters (l : LocoMf) : list out := OZ 0 :: OZ 0 :: loco_outs_m l ++ loco_getters l.
Definition x_loco_expunge (l : LocoMf) : list out :=
  let l' := loco_expunge l in OZ 0 :: OZ 0 :: loco_outs_m l' ++ loco_getters l'.

Definition x_consist (ls : list LocoMf) : list out :=
  OZ 0 :: resopt_outs (consist_mass ls) ++ resf_outs (consist_force_max ls).

Definition x_train_static (override : option float) (cars : list (float * float * Z)) (consist : option float) : list out :=
  [OZ 0; OF (cars_mass cars); OF (train_mass_static override cars consist)].
