(* Num.v -- the numeric interface of the model.

   Every model function is written once, over a carrier [F] equipped with a
   [NumOps F] dictionary.  Two instances:
     - [R_ops]     : Coq's real numbers.  All property theorems are proved here.
     - [float_ops] : IEEE-754 binary64 (Coq primitive floats).  This instance is
                     *executed* by [vm_compute] in the correspondence check and
                     compared with the Rust implementation.
   No axiom is declared here.  *)
From Coq Require Import Reals ZArith List Bool Floats Uint63 Lra.
Import ListNotations.

Class NumOps (F : Type) := {
  n0   : F;
  n1   : F;
  nadd : F -> F -> F;
  nsub : F -> F -> F;
  nmul : F -> F -> F;
  ndiv : F -> F -> F;
  nneg : F -> F;
  nabs : F -> F;
  nsqrt : F -> F;
  nleb : F -> F -> bool;
  nltb : F -> F -> bool;
  neqb : F -> F -> bool;
  nmax : F -> F -> F;
  nmin : F -> F -> F;
  nofZ : Z -> F;
  (* literal: [nlit m e] = m * 10^e, for decimal constants such as 0.05, 1e-3 *)
  nlit : Z -> Z -> F;
  ninf : F
}.

Declare Scope num_scope.
Delimit Scope num_scope with num.
Infix "+" := nadd : num_scope.
Infix "-" := nsub : num_scope.
Infix "*" := nmul : num_scope.
Infix "/" := ndiv : num_scope.
Notation "- x" := (nneg x) : num_scope.
Infix "<=?" := nleb : num_scope.
Infix "<?" := nltb : num_scope.
Infix "=?" := neqb : num_scope.

(* ------------------------------------------------------------------ *)
(* Reals                                                               *)
(* ------------------------------------------------------------------ *)
Definition Rleb (a b : R) : bool := if Rle_dec a b then true else false.
Definition Rltb (a b : R) : bool := if Rlt_dec a b then true else false.
Definition Reqb (a b : R) : bool := if Req_EM_T a b then true else false.

Lemma Rleb_spec a b : reflect (a <= b)%R (Rleb a b).
Proof. unfold Rleb; destruct (Rle_dec a b); constructor; auto. Qed.
Lemma Rltb_spec a b : reflect (a < b)%R (Rltb a b).
Proof. unfold Rltb; destruct (Rlt_dec a b); constructor; auto. Qed.
Lemma Reqb_spec a b : reflect (a = b)%R (Reqb a b).
Proof. unfold Reqb; destruct (Req_EM_T a b); constructor; auto. Qed.

Definition Rpow10 (e : Z) : R :=
  match e with
  | Z0 => 1%R
  | Zpos p => pow 10 (Pos.to_nat p)
  | Zneg p => (/ pow 10 (Pos.to_nat p))%R
  end.

(* [ninf] at R: there is no infinity; the model only ever compares against it
   or stores it as a sentinel, and the theorems that mention sentinels carry
   the hypothesis explicitly.  We use 0 so that nothing can be concluded from
   its magnitude. *)
#[export] Instance R_ops : NumOps R := {|
  n0 := 0%R; n1 := 1%R;
  nadd := Rplus; nsub := Rminus; nmul := Rmult; ndiv := Rdiv;
  nneg := Ropp; nabs := Rabs; nsqrt := R_sqrt.sqrt;
  nleb := Rleb; nltb := Rltb; neqb := Reqb;
  nmax := Rmax; nmin := Rmin;
  nofZ := IZR;
  nlit := fun m e => (IZR m * Rpow10 e)%R;
  ninf := 0%R
|}.

(* ------------------------------------------------------------------ *)
(* binary64                                                            *)
(* ------------------------------------------------------------------ *)
(* Rust: f64::max / f64::min ignore a NaN operand. *)
Definition fmax (a b : float) : float :=
  if PrimFloat.is_nan a then b else if PrimFloat.is_nan b then a
  else if PrimFloat.ltb a b then b else a.
Definition fmin (a b : float) : float :=
  if PrimFloat.is_nan a then b else if PrimFloat.is_nan b then a
  else if PrimFloat.ltb b a then b else a.

Definition f_ofZ (z : Z) : float :=
  match z with
  | Z0 => PrimFloat.zero
  | Zpos _ => PrimFloat.of_uint63 (Uint63.of_Z z)
  | Zneg p => PrimFloat.opp (PrimFloat.of_uint63 (Uint63.of_Z (Zpos p)))
  end.

(* decimal literal m * 10^e, rounded the way rustc rounds the same literal
   whenever m and 10^|e| are exactly representable (|m| < 2^53, |e| <= 22):
   then one correctly-rounded multiplication or division gives the nearest
   double, which is what the Rust literal denotes. *)
Fixpoint fpow10 (n : nat) : float :=
  match n with O => PrimFloat.one | S k => PrimFloat.mul 10%float (fpow10 k) end.
Definition f_lit (m e : Z) : float :=
  match e with
  | Z0 => f_ofZ m
  | Zpos p => PrimFloat.mul (f_ofZ m) (fpow10 (Pos.to_nat p))
  | Zneg p => PrimFloat.div (f_ofZ m) (fpow10 (Pos.to_nat p))
  end.

#[export] Instance float_ops : NumOps float := {|
  n0 := PrimFloat.zero; n1 := PrimFloat.one;
  nadd := PrimFloat.add; nsub := PrimFloat.sub; nmul := PrimFloat.mul; ndiv := PrimFloat.div;
  nneg := PrimFloat.opp; nabs := PrimFloat.abs; nsqrt := PrimFloat.sqrt;
  nleb := PrimFloat.leb; nltb := PrimFloat.ltb; neqb := PrimFloat.eqb;
  nmax := fmax; nmin := fmin;
  nofZ := f_ofZ;
  nlit := f_lit;
  ninf := PrimFloat.infinity
|}.

(* ------------------------------------------------------------------ *)
(* Exact float I/O for the correspondence check                        *)
(* ------------------------------------------------------------------ *)
(* in:  value = (+/-) m * 2^(e - 2101)   (e is the biased exponent [ldshiftexp] expects) *)
Definition Fp (m e : int) : float := PrimFloat.ldshiftexp (PrimFloat.of_uint63 m) e.
Definition Fn (m e : int) : float := PrimFloat.opp (Fp m e).
Definition Finf : float := PrimFloat.infinity.
Definition Fninf : float := PrimFloat.neg_infinity.
Definition Fnan : float := PrimFloat.nan.

(* Uniform output values of model runs. *)
Inductive out :=
| OF (f : float)      (* a binary64 number *)
| OZ (z : Z)          (* an integer / index / count / enum tag *)
| OB (b : bool).

(* out:  [tag; mant; exp]  tag 0 = finite >= 0, 1 = finite < 0 (value = mant * 2^(exp-2154)),
         2 = +inf, 3 = -inf, 4 = NaN, 5 = integer >= 0 (mant), 6 = integer < 0 (-mant), 7 = bool (mant) *)
Definition out_ser (o : out) : list int :=
  match o with
  | OF f =>
      if PrimFloat.is_nan f then [4;0;0]%uint63 else
      if PrimFloat.is_infinity f then
        (if PrimFloat.ltb f PrimFloat.zero then [3;0;0]%uint63 else [2;0;0]%uint63)
      else
        let '(m, e) := PrimFloat.frshiftexp (PrimFloat.abs f) in
        [(if PrimFloat.ltb f PrimFloat.zero then 1 else 0)%uint63; PrimFloat.normfr_mantissa m; e]
  | OZ z => match z with
            | Zneg p => [6%uint63; Uint63.of_Z (Zpos p); 0%uint63]
            | _ => [5%uint63; Uint63.of_Z z; 0%uint63]
            end
  | OB b => [7%uint63; (if b then 1 else 0)%uint63; 0%uint63]
  end.

Definition outs_ser (l : list out) : list int := flat_map out_ser l.

(* Result of a fallible model function: the small error enumeration mirrors
   the [ensure!]/[bail!] sites of the Rust code by a numeric code. [Panic] is a
   Rust panic (index out of bounds, unwrap on None, assert!, overflow). *)
Inductive res (A : Type) :=
| Ok (a : A)
| Err (code : Z)
| Panic (code : Z).
Arguments Ok {A} a.
Arguments Err {A} code.
Arguments Panic {A} code.

Definition bind {A B} (r : res A) (f : A -> res B) : res B :=
  match r with Ok a => f a | Err c => Err c | Panic c => Panic c end.
Notation "'let?' x ':=' r 'in' k" := (bind r (fun x => k))
  (at level 200, x pattern, r at level 100, k at level 200).
Definition ensure (b : bool) (code : Z) : res unit := if b then Ok tt else Err code.
Definition passert (b : bool) (code : Z) : res unit := if b then Ok tt else Panic code.

(* outcome tag for the correspondence: 0 Ok, 1 Err, 2 Panic *)
Definition res_outs {A} (r : res A) (f : A -> list out) : list out :=
  match r with
  | Ok a => OZ 0 :: f a
  | Err c => [OZ 1; OZ c]
  | Panic c => [OZ 2; OZ c]
  end.
