(* Sched.v -- determinism and independence of thread scheduling (C18): the LOGIC part.

   rayon, std::collections::HashMap's RandomState and the OS scheduler are runtime behaviour and are
   not modelled.  What the repository's own code decides is
     - that the elements of a batch (LocomotiveSimulationVec) share no state: one worker step
       advances exactly one element (loco_sim.rs: `par_iter_mut().try_for_each(|s| s.walk())`);
     - how results are folded out of hash containers: `extract_speed_set` (path_tpc.rs) searches
       `Link.speed_sets : HashMap<TrainType, SpeedSet>` with `iter().find(key == train_type)`;
       `TrainConfig::cars_total` folds `n_cars_by_type.values()` with u32 `+`;
       `make_train_params` looks car counts up by key; `perform_speed_join` (est_times/mod.rs)
       chooses among the join candidates the one with the strictly smallest speed difference below
       the threshold, scanning them in the order `add_new_join_paths` pushed them, which is the
       iteration order of an `IntSet` (identity hasher).
   This file gives executable models of exactly these; SchedP.v proves that the results do not
   depend on the schedule / the iteration order. *)
From Coq Require Import ZArith List Bool.
From AltModel Require Import Num.
Import ListNotations.

(* ---------------------------------------------------------------- a batch of independent simulations *)
Section Batch.
Context {St Inp : Type} (step : St -> Inp -> res St).

(* one element: its inputs (the trace, never modified), the index of the next trace entry, and its
   state or the error it stopped with *)
Record elem := { e_trace : list Inp; e_pos : nat; e_state : res St }.

(* one `step()` of one element; no-op when finished or failed.  A failing step leaves the position
   where it was: `LocomotiveSimulation::step` returns before `self.i += 1`. *)
Definition step_elem (e : elem) : elem :=
  match e_state e with
  | Ok s =>
      match nth_error (e_trace e) (e_pos e) with
      | Some i =>
          match step s i with
          | Ok s' => {| e_trace := e_trace e; e_pos := S (e_pos e); e_state := Ok s' |}
          | Err c => {| e_trace := e_trace e; e_pos := e_pos e; e_state := Err c |}
          | Panic c => {| e_trace := e_trace e; e_pos := e_pos e; e_state := Panic c |}
          end
      | None => e
      end
  | _ => e
  end.

Definition remaining (e : elem) : nat := length (e_trace e) - e_pos e.

(* `walk()`: step until the trace is exhausted or a step fails *)
Definition walk_elem (e : elem) : elem := Nat.iter (remaining e) step_elem e.

Fixpoint update {A} (k : nat) (f : A -> A) (l : list A) : list A :=
  match l, k with
  | [], _ => []
  | x :: t, O => f x :: t
  | x :: t, S k' => x :: update k' f t
  end.

(* a schedule: which element gets the next worker step; any list of indices (out-of-range indices
   do nothing) *)
Definition run_sched (sched : list nat) (batch : list elem) : list elem :=
  fold_left (fun b k => update k step_elem b) sched batch.

(* every element is scheduled at least as often as it has steps left *)
Definition complete (sched : list nat) (batch : list elem) : Prop :=
  forall k e, nth_error batch k = Some e -> remaining e <= count_occ Nat.eq_dec sched k.

(* the serial batch: `iter_mut().try_for_each(|s| s.walk())` stops at the first failing element *)
Definition failed (e : elem) : bool := match e_state e with Ok _ => false | _ => true end.
Fixpoint walk_serial (batch : list elem) : list elem :=
  match batch with
  | [] => []
  | e :: t => let e' := walk_elem e in if failed e' then e' :: t else e' :: walk_serial t
  end.

End Batch.

Arguments elem : clear implicits.

(* ---------------------------------------------------------------- folds over hash containers *)
Section HashFolds.
Context {F : Type} {NO : NumOps F}.
Local Open Scope num_scope.

(* `speed_sets.iter().find(|s| s.0 == &train_type)` over the entries in SOME iteration order *)
Fixpoint find_key {K V : Type} (eqb : K -> K -> bool) (k : K) (entries : list (K * V)) : option V :=
  match entries with
  | [] => None
  | (k', v) :: t => if eqb k k' then Some v else find_key eqb k t
  end.

(* `n_cars_by_type.values().fold(0, |acc, n| *n + acc)` in u32: an overflow is a panic (debug
   build / overflow-checks) *)
Definition u32_max : Z := 4294967295.
Definition cars_total (values : list Z) : res Z :=
  fold_left (fun acc n => let? a := acc in if (n + a <=? u32_max)%Z then Ok (n + a)%Z else Panic 1801)
            values (Ok 0%Z).

(* perform_speed_join: candidates = (est_idx_next, |speed difference|) of the space-matched join
   paths in list order; keep the first strictly smaller difference; join iff one was below the
   threshold.  [None] = no join. *)
Definition join_choice (threshold : F) (cands : list (nat * F)) : option nat :=
  snd (fold_left (fun (best : F * option nat) (c : nat * F) =>
                    if snd c <? fst best then (snd c, Some (fst c)) else best)
                 cands (threshold, None)).

End HashFolds.
