(* ExecSched.v -- entry points of the C18 model for the correspondence check. *)
From Coq Require Import ZArith List Bool Floats.
From AltModel Require Import Num Sched.
Import ListNotations.

(* TrainConfig::cars_total over the values in the iteration order the real HashMap produced *)
Definition x_cars_total (values : list Z) : list out := res_outs (cars_total values) (fun z => [OZ z]).

(* a batch of counters as a concrete instance of the scheduling model: element = trace of increments,
   a step adds the trace entry to the state and fails (Err 1) on a negative entry.  Evaluates an
   arbitrary schedule and the element-wise walk; the harness supplies the same from the real
   rayon run's per-element outcomes when they are expressible this way (used as a model self-check) *)
Definition zstep (s i : Z) : res Z := if (i <? 0)%Z then Err 1 else Ok (s + i)%Z.
Definition zelem (tr : list Z) : elem Z Z := {| e_trace := tr; e_pos := 0; e_state := Ok 0%Z |}.
Definition elem_outs (e : elem Z Z) : list out :=
  [OZ (Z.of_nat (e_pos e))] ++ match e_state e with Ok s => [OZ 0; OZ s] | Err c => [OZ 1; OZ c] | Panic c => [OZ 2; OZ c] end.
Definition x_sched (sched : list nat) (traces : list (list Z)) : list out :=
  OZ 0 :: flat_map elem_outs (run_sched zstep sched (map zelem traces)).
Definition x_walks (traces : list (list Z)) : list out :=
  OZ 0 :: flat_map elem_outs (map (walk_elem zstep) (map zelem traces)).
