(* Interp.v -- utils::interp1d, utils::interp3d, almost_* comparisons
   (rust/altrios-core/src/utils/mod.rs), transcribed operation for operation. *)
From Coq Require Import ZArith List Bool.
From AltModel Require Import Num.
Import ListNotations.
Local Open Scope num_scope.

Section Interp.
Context {F : Type} {NO : NumOps F}.

Definition sumF (l : list F) : F := fold_left nadd l n0.
Definition lenF (l : list F) : F := nofZ (Z.of_nat (length l)).
Definition nthF (l : list F) (i : nat) : F := nth i l n0.

(* while x > x_data[i + 1] { i += 1 } ; fuel = length, never exhausted (see proofs) *)
Fixpoint scan (fuel : nat) (x : F) (xs : list F) (i : nat) : nat :=
  match fuel with
  | O => i
  | S f => if nthF xs (i + 1) <? x then scan f x xs (i + 1) else i
  end.

(* error codes: Err 101 = "Cannot interpolate as all values are equal";
   Panic 102 = index out of bounds / usize underflow (fewer than 2 x points, or y shorter than x) *)
Definition interp1d (x : F) (xs ys : list F) (extrapolate : bool) : res F :=
  let ymean := sumF ys / lenF ys in
  if forallb (fun y => y =? ymean) ys then Ok ymean else
  let xmean := sumF xs / lenF xs in
  if forallb (fun x' => x' =? xmean) xs then Err 101 else
  let size := length xs in
  if Nat.ltb size 2 then Panic 102 else
  let i := if nthF xs (size - 2) <=? x then (size - 2)%nat else scan size x xs 0 in
  if Nat.leb (length ys) (i + 1) then Panic 102 else
  let xl := nthF xs i in let yl := nthF ys i in
  let xr := nthF xs (i + 1) in let yr := nthF ys (i + 1) in
  let yr' := if negb extrapolate && (x <? xl) then yl else yr in
  let yl' := if negb extrapolate && (xr <? x) then yr' else yl in
  let dydx := (yr' - yl') / (xr - xl) in
  Ok (yl' + dydx * (x - xl)).

(* axis.windows(2).position(|w| query >= w[0] && query < w[1]) *)
Fixpoint win_pos (q : F) (axis : list F) (i : nat) : option nat :=
  match axis with
  | a :: ((b :: _) as t) => if (a <=? q) && (q <? b) then Some i else win_pos q t (S i)
  | _ => None
  end.

(* Err 103 = "Unable to find where the query fits in the values, check grid."
   Panic 104 = empty axis *)
Definition find_interp_indices (q : F) (axis : list F) : res (nat * nat) :=
  match win_pos q axis 0 with
  | Some p =>
      if q =? nthF axis p then Ok (p, p)
      else if q =? nthF axis (p + 1) then Ok (S p, S p)
      else Ok (p, S p)
  | None =>
      match axis with
      | [] => Panic 104
      | a0 :: _ =>
          if q <=? a0 then Ok (0, 0)%nat
          else if nthF axis (length axis - 1) <=? q then Ok (length axis - 1, length axis - 1)%nat
          else Err 103
      end
  end.

Definition compute_interp_diff (v lo hi : F) : F :=
  if lo =? hi then n0 else (v - lo) / (hi - lo).

Definition nth3 (vals : list (list (list F))) (i j k : nat) : option F :=
  match nth_error vals i with
  | Some p => match nth_error p j with
              | Some r => nth_error r k
              | None => None end
  | None => None
  end.

(* Panic 105 = values[..][..][..] out of bounds *)
Definition interp3d (pt : F * F * F) (gx gy gz : list F) (vals : list (list (list F))) : res F :=
  let '(x, y, z) := pt in
  let? (xi0, xi1) := find_interp_indices x gx in
  let? (yi0, yi1) := find_interp_indices y gy in
  let? (zi0, zi1) := find_interp_indices z gz in
  let xd := compute_interp_diff x (nthF gx xi0) (nthF gx xi1) in
  let yd := compute_interp_diff y (nthF gy yi0) (nthF gy yi1) in
  let zd := compute_interp_diff z (nthF gz zi0) (nthF gz zi1) in
  match nth3 vals xi0 yi0 zi0, nth3 vals xi1 yi0 zi0, nth3 vals xi0 yi0 zi1, nth3 vals xi1 yi0 zi1,
        nth3 vals xi0 yi1 zi0, nth3 vals xi1 yi1 zi0, nth3 vals xi0 yi1 zi1, nth3 vals xi1 yi1 zi1 with
  | Some c000, Some c100, Some c001, Some c101, Some c010, Some c110, Some c011, Some c111 =>
      let c00 := c000 * (n1 - xd) + c100 * xd in
      let c01 := c001 * (n1 - xd) + c101 * xd in
      let c10 := c010 * (n1 - xd) + c110 * xd in
      let c11 := c011 * (n1 - xd) + c111 * xd in
      let c0 := c00 * (n1 - yd) + c10 * yd in
      let c1 := c01 * (n1 - yd) + c11 * yd in
      Ok (c0 * (n1 - zd) + c1 * zd)
  | _, _, _, _, _, _, _, _ => Panic 105
  end.

(* utils::almost_eq / almost_le / almost_ge with explicit epsilon *)
Definition almost_eq (v1 v2 eps : F) : bool :=
  (nabs ((v2 - v1) / (v1 + v2)) <? eps) || (nabs (v2 - v1) <? eps).
Definition almost_le (v1 v2 eps : F) : bool :=
  (v1 <? v2 * (n1 + eps)) || (v1 <? v2 + eps).
Definition almost_ge (v1 v2 eps : F) : bool :=
  (v2 * (n1 - eps) <? v1) || (v2 - eps <? v1).

Definition eps8 : F := nlit 1 (-8).
Definition eps3 : F := nlit 1 (-3).

End Interp.
