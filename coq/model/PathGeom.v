(* PathGeom.v -- PathTpc::new / extend / finish and the ObjState cross-checks of PathTpc
   (rust/altrios-core/src/track/path_track/path_tpc.rs, path_res_coeff.rs, link_point.rs;
    link/link_impl.rs, elev.rs, heading.rs, cat_power.rs for the data).

   Error sites of [extend] (numeric codes of the [res] type):
     Err 1301..1304  ensure! link_points / grades / curves / speed_points non-empty
     Panic 1310      network[idx] out of bounds
     Err 1311        ensure! link_idx.is_real()
     Err 1312        ensure! link_idx_prev.is_real()
     Err 1313        ensure! idx_prev != idx_prev_alt || idx_prev_alt == 0
     Err 1314        ensure! idx_next != idx_next_alt || idx_next_alt == 0
     Err 1315        ensure! link is contiguous with the path
     Err 1316        extract_speed_set: no speed_set and train type not in speed_sets
     Err 1390        OUTSIDE THE MODELLED DOMAIN: heading difference beyond (-REV-REV/2, REV+REV/2)
                     (the f64 remainder is modelled on that range only; validated headings lie in [0,REV))
   Not modelled: [district_id] of catenary limits (a string that is cloned; compared on the Rust
   side), [osm_id], [idx_flip], [link_idxs_lockout] (unused by [extend]); the debug_assert!s of
   insert_speed. *)
From Coq Require Import ZArith List Bool Arith.
From AltModel Require Import Num SpeedPoints.
Import ListNotations.
Local Open Scope num_scope.

Section PathGeom.
Context {F : Type} {NO : NumOps F}.

(* Elev {offset, elev}; Heading {offset, heading}; CatPowerLimit {offset_start, offset_end, power_limit} *)
Record Link := {
  lk_idx_curr : Z; lk_idx_next : Z; lk_idx_next_alt : Z; lk_idx_prev : Z; lk_idx_prev_alt : Z;
  lk_length : F;
  lk_elevs : list (F * F);
  lk_headings : list (F * F);
  lk_speed_sets : list (Z * SpeedSet (F:=F));      (* HashMap<TrainType, SpeedSet> *)
  lk_speed_set : option (SpeedSet (F:=F));
  lk_cats : list (F * F * F) }.

Record LinkPoint := {
  lp_offset : F; lp_grade_count : nat; lp_curve_count : nat; lp_cat_count : nat; lp_link_idx : Z }.

(* PathResCoeff {offset, res_coeff, res_net} *)
Record PRC := { prc_offset : F; prc_coeff : F; prc_net : F }.

Record Path := {
  p_link_points : list LinkPoint;
  p_grades : list PRC;
  p_curves : list PRC;
  p_speed_points : list (pt (F:=F));
  p_cats : list (F * F * F);
  p_tp : TrainParams (F:=F);
  p_finished : bool }.

Definition lp_default : LinkPoint :=
  {| lp_offset := n0; lp_grade_count := 0; lp_curve_count := 0; lp_cat_count := 0; lp_link_idx := 0 |}.
Definition prc_default : PRC := {| prc_offset := n0; prc_coeff := n0; prc_net := n0 |}.

(* PathTpc::new *)
Definition new_path (tp : TrainParams) : Path :=
  {| p_link_points := [lp_default]; p_grades := [prc_default]; p_curves := [prc_default];
     p_speed_points := [(n0, tp_speed_max tp)]; p_cats := []; p_tp := tp; p_finished := false |}.

(* Vec: split off the last element *)
Fixpoint split_last {A} (l : list A) : option (list A * A) :=
  match l with
  | [] => None
  | x :: t => match split_last t with
              | None => Some ([], x)
              | Some (i, y) => Some (x :: i, y)
              end
  end.

(* ------------------------------------------------------------------ link loop *)
(* extract_speed_set *)
Definition extract_speed_set (tp : TrainParams (F:=F)) (l : Link) : res (SpeedSet (F:=F)) :=
  match lk_speed_set l with
  | Some s => Ok s
  | None => match find (fun p => Z.eqb (fst p) (tp_train_type tp)) (lk_speed_sets l) with
            | Some p => Ok (snd p)
            | None => Err 1316
            end
  end.

(* network[link_idx.idx()] ; None = index out of bounds (a Rust panic) *)
Definition lookup (net : list Link) (idx : Z) : option Link :=
  if Z.ltb idx 0 then None else nth_error net (Z.to_nat idx).

(* state of the first loop: link points and speed points *)
Definition LState : Type := (list LinkPoint * list (pt (F:=F)))%type.

(* one iteration of "for link_idx in link_path" (first loop); returns the link it resolved *)
Definition link_step (net : list Link) (tp : TrainParams (F:=F)) (st : LState) (idx : Z)
  : res (LState * Link) :=
  let '(lps, sps) := st in
  let? _ := ensure (negb (Z.eqb idx 0)) 1311 in
  match lookup net idx with
  | None => Panic 1310
  | Some link =>
    match split_last lps with
    | None => Panic 1317                      (* link_points.last().unwrap() on an empty Vec *)
    | Some (init, lastp) =>
      let offset_base := lp_offset lastp in
      let? _ :=
        match split_last init with
        | None => Ok tt                       (* fewer than two link points: nothing to check *)
        | Some (_, prevp) =>
            let prev := lp_link_idx prevp in
            let? _ := ensure (negb (Z.eqb prev 0)) 1312 in
            let? _ := ensure (negb (Z.eqb (lk_idx_prev link) (lk_idx_prev_alt link))
                              || Z.eqb (lk_idx_prev_alt link) 0) 1313 in
            let? _ := ensure (negb (Z.eqb (lk_idx_next link) (lk_idx_next_alt link))
                              || Z.eqb (lk_idx_next_alt link) 0) 1314 in
            ensure (Z.eqb (lk_idx_prev link) prev || Z.eqb (lk_idx_prev_alt link) prev) 1315
        end in
      let? ss := extract_speed_set tp link in
      let sps' := add_speeds sps tp ss offset_base in
      let lastp' := {| lp_offset := offset_base;
                       lp_grade_count := Nat.max (length (lk_elevs link)) 2 - 1;
                       lp_curve_count := Nat.max (length (lk_headings link)) 2 - 1;
                       lp_cat_count := length (lk_cats link);
                       lp_link_idx := lk_idx_curr link |} in
      let dummy := {| lp_offset := lk_length link + offset_base; lp_grade_count := 0;
                      lp_curve_count := 0; lp_cat_count := 0; lp_link_idx := 0 |} in
      Ok ((init ++ [lastp'; dummy], sps'), link)
    end
  end.

(* the whole first loop; stops at the first error like [?]; collects the links in route order *)
Fixpoint link_pass (net : list Link) (tp : TrainParams (F:=F)) (st : LState) (path : list Z)
  : res (LState * list Link) :=
  match path with
  | [] => Ok (st, [])
  | idx :: rest =>
      let? (st1, l) := link_step net tp st idx in
      let? (st2, ls) := link_pass net tp st1 rest in
      Ok (st2, l :: ls)
  end.

(* ------------------------------------------------------------------ second loop *)
(* push the points of one link onto a PathResCoeff vector whose last ("open") point is [lastp]:
   every segment (coeff, offset, net) closes the open point with its coefficient and opens a new
   point.  [segs] are given in order. *)
Fixpoint build_prc (lastp : PRC) (segs : list (F * F * F)) : list PRC :=
  match segs with
  | [] => [lastp]
  | (coeff, off, net) :: t =>
      {| prc_offset := prc_offset lastp; prc_coeff := coeff; prc_net := prc_net lastp |}
      :: build_prc {| prc_offset := off; prc_coeff := n0; prc_net := net |} t
  end.

(* elevs.windows(2): (grade, offset_base + curr.offset, res_net_prev + curr.elev - prev.elev) *)
Fixpoint grade_segs (base net_prev : F) (elevs : list (F * F)) : list (F * F * F) :=
  match elevs with
  | (po, pe) :: (((co, ce) :: _) as t) =>
      let grade := (ce - pe) / (co - po) in
      let net := net_prev + ce - pe in
      (grade, base + co, net) :: grade_segs base net t
  | _ => []
  end.

Definition rev_angle : F := nlit 6283185307179586 (-15).          (* uc::REV *)
Definition deg_angle : F := nofZ 5030569068109113 / nofZ (2 ^ 58). (* uc::DEG = 1.7453292519943295e-2 *)
Definition ft_len : F := nlit 3048 (-4).                          (* uc::FT *)
Definition half_rev : F := rev_angle / nofZ 2.
Definition one_degree : F := deg_angle / (ft_len * nofZ 100).

(* f64 [x.rem_euclid(REV)] for x in (-REV, 2 REV):  r = x % REV (sign of the dividend; exact);
   if r < 0 { r + REV } else { r }.
   NOTE: this is the FIXED behaviour (repo_patches/C06-heading-wrap.diff).  The unchanged code uses
   [x % REV] alone, which leaves a heading change below -pi unwrapped (350 deg -> 10 deg counts as
   a 340 deg turn); the C06 check reports that as a violation on the unchanged tree. *)
Definition fmod_rev (x : F) : res F :=
  if x <? rev_angle then
    (if (- rev_angle) <? x then Ok (if x <? n0 then x + rev_angle else x) else Err 1390)
  else if x <? rev_angle + rev_angle then Ok (x - rev_angle) else Err 1390.

(* the curve resistance coefficient of one heading window *)
Definition curve_coeff (tp : TrainParams (F:=F)) (ph ch len : F) : res F :=
  let? m := fmod_rev (ch - ph + half_rev) in
  let curvature := nabs (- rev_angle / nofZ 2 + m) / len in
  Ok (if curvature <? one_degree
      then tp_curve_coeff_0 tp * curvature
      else tp_curve_coeff_0 tp * one_degree
           + tp_curve_coeff_1 tp * (curvature - one_degree)
           + tp_curve_coeff_2 tp * (curvature - one_degree) * (curvature - one_degree)).

Fixpoint curve_segs (tp : TrainParams (F:=F)) (base net_prev : F) (hs : list (F * F))
  : res (list (F * F * F)) :=
  match hs with
  | (po, ph) :: (((co, ch) :: _) as t) =>
      let len := co - po in
      let? rc := curve_coeff tp ph ch len in
      let net := net_prev + rc * len in
      let? rest := curve_segs tp base net t in
      Ok ((rc, base + co, net) :: rest)
  | _ => Ok []
  end.

(* state of the second loop *)
Definition GState : Type := (list PRC * list PRC * list (F * F * F))%type.

Definition extend_prc (v : list PRC) (segs : list (F * F * F)) : res (list PRC) :=
  match split_last v with
  | None => Panic 1318                       (* .last().unwrap() on an empty Vec *)
  | Some (init, lastp) => Ok (init ++ build_prc lastp segs)
  end.

(* one iteration of the second "for link_idx in link_path" *)
Definition geom_step (tp : TrainParams (F:=F)) (st : GState) (link : Link) : res GState :=
  let '(gr, cu, cats) := st in
  match split_last gr, split_last cu with
  | Some (_, glast), Some (_, clast) =>
      let offset_base := prc_offset glast in
      let gsegs := match lk_elevs link with
                   | [] => [(prc_coeff glast, offset_base + lk_length link, prc_net glast)]
                   | es => grade_segs offset_base (prc_net glast) es
                   end in
      let? gr' := extend_prc gr gsegs in
      let? csegs := match lk_headings link with
                    | [] => Ok [(prc_coeff clast, offset_base + lk_length link, prc_net clast)]
                    | hs => curve_segs tp offset_base (prc_net clast) hs
                    end in
      let? cu' := extend_prc cu csegs in
      let cats' := cats ++ map (fun c => match c with (s, e, p) => (offset_base + s, offset_base + e, p) end)
                               (lk_cats link) in
      Ok (gr', cu', cats')
  | _, _ => Panic 1318
  end.

Fixpoint geom_pass (tp : TrainParams (F:=F)) (st : GState) (links : list Link) : res GState :=
  match links with
  | [] => Ok st
  | l :: rest => let? st1 := geom_step tp st l in geom_pass tp st1 rest
  end.

(* "Set initial elevation when first link is added to path" *)
Definition init_elev (net : list Link) (gr : list PRC) (path : list Z) : res (list PRC) :=
  match gr, path with
  | [g0], idx :: _ =>
      match lookup net idx with
      | None => Panic 1310
      | Some link =>
          match lk_elevs link with
          | [] => Ok gr
          | (_, e0) :: _ => Ok [{| prc_offset := prc_offset g0; prc_coeff := prc_coeff g0; prc_net := e0 |}]
          end
      end
  | _, _ => Ok gr
  end.

(* PathTpc::extend(network, link_path).  On Err/Panic the Rust object is left partially
   modified; the model returns only the error (see design/C06.md). *)
Definition extend (net : list Link) (p : Path) (path : list Z) : res Path :=
  let? _ := ensure (negb (Nat.eqb (length (p_link_points p)) 0)) 1301 in
  let? _ := ensure (negb (Nat.eqb (length (p_grades p)) 0)) 1302 in
  let? _ := ensure (negb (Nat.eqb (length (p_curves p)) 0)) 1303 in
  let? _ := ensure (negb (Nat.eqb (length (p_speed_points p)) 0)) 1304 in
  let? gr0 := init_elev net (p_grades p) path in
  let? (ls, links) := link_pass net (p_tp p) (p_link_points p, p_speed_points p) path in
  let? (gr, cu, cats) := geom_pass (p_tp p) (gr0, p_curves p, p_cats p) links in
  Ok {| p_link_points := fst ls; p_grades := gr; p_curves := cu; p_speed_points := snd ls;
        p_cats := cats; p_tp := p_tp p; p_finished := p_finished p |}.

(* several successive extend calls *)
Fixpoint extend_many (net : list Link) (p : Path) (paths : list (list Z)) : res Path :=
  match paths with
  | [] => Ok p
  | a :: rest => let? q := extend net p a in extend_many net q rest
  end.

(* PathTpc::finish *)
Definition finish (p : Path) : res Path :=
  match split_last (p_grades p), split_last (p_curves p) with
  | Some (_, g), Some (_, c) =>
      Ok {| p_link_points := p_link_points p;
            p_grades := p_grades p ++ [{| prc_offset := ninf; prc_coeff := n0; prc_net := prc_net g |}];
            p_curves := p_curves p ++ [{| prc_offset := ninf; prc_coeff := n0; prc_net := prc_net c |}];
            p_speed_points := p_speed_points p; p_cats := p_cats p; p_tp := p_tp p;
            p_finished := true |}
  | _, _ => Panic 1318
  end.

(* PathResCoeff::calc_res_val *)
Definition calc_res_val (c : PRC) (x : F) : F := prc_net c + prc_coeff c * (x - prc_offset c).

(* cumulative value of a PathResCoeff vector at position x: the segment whose start is the last
   offset <= x (the first point when x is before all of them) *)
Fixpoint prc_seg (cur : PRC) (v : list PRC) (x : F) : PRC :=
  match v with
  | [] => cur
  | c :: t => if prc_offset c <=? x then prc_seg c t x else cur
  end.
Definition prc_at (v : list PRC) (x : F) : F :=
  match v with
  | [] => n0
  | c :: t => calc_res_val (prc_seg c t x) x
  end.

(* ------------------------------------------------------------------ ObjState for PathTpc *)
(* the cross-check loop: for every link point (running sums of the counts BEFORE it index the
   grade / curve whose offset must equal the link point's; the sums INCLUDING it must stay in range) *)
Fixpoint counts_loop (gr cu : list PRC) (ncat : nat) (lps : list LinkPoint) (sg sc scat : nat) : bool :=
  match lps with
  | [] => true
  | lp :: rest =>
      let og := match nth_error gr sg with Some g => lp_offset lp =? prc_offset g | None => false end in
      let oc := match nth_error cu sc with Some c => lp_offset lp =? prc_offset c | None => false end in
      let sg' := (sg + lp_grade_count lp)%nat in
      let sc' := (sc + lp_curve_count lp)%nat in
      let scat' := (scat + lp_cat_count lp)%nat in
      og && oc && Nat.ltb sg' (length gr) && Nat.ltb sc' (length cu) && Nat.leb scat' ncat
      && counts_loop gr cu ncat rest sg' sc' scat'
  end.
Definition counts_ok (p : Path) : bool :=
  counts_loop (p_grades p) (p_curves p) (length (p_cats p)) (p_link_points p) 0 0 0.

(* ------------------------------------------------------------------ PathTpc::clear(offset_back)
   Drops the links that lie wholly behind [offset_back]: the link points before the last one whose
   successor still starts before offset_back, and with them exactly as many grades / curves / catenary
   sections as those links contributed (LinkPoint::add_counts accumulates the three counts), and the speed
   points before the new first link point; the first speed point is moved to the new first offset.
   Err 1501 / 1502: offset_back outside [first, last] link offset.  Panic 1503: indexing past the link
   points, 1504: past the speed points, 1505: first_mut().unwrap() on no speed point. *)
Definition add_counts (a b : LinkPoint) : LinkPoint :=
  {| lp_offset := lp_offset a; lp_grade_count := lp_grade_count a + lp_grade_count b;
     lp_curve_count := lp_curve_count a + lp_curve_count b; lp_cat_count := lp_cat_count a + lp_cat_count b;
     lp_link_idx := lp_link_idx a |}.

(* while link_points[idx + 1].offset < offset_back { del.add_counts(&link_points[idx]); idx += 1 } *)
Fixpoint clear_scan (fuel : nat) (lps : list LinkPoint) (x : F) (del : LinkPoint) (idx : nat)
  : res (LinkPoint * nat) :=
  match fuel with
  | O => Panic 1503
  | S f =>
      match nth_error lps (S idx) with
      | None => Panic 1503
      | Some nx =>
          if lp_offset nx <? x then
            match nth_error lps idx with
            | Some cur => clear_scan f lps x (add_counts del cur) (S idx)
            | None => Panic 1503
            end
          else Ok (del, idx)
      end
  end.

(* while speed_points[speed_count].offset < link_points[idx].offset { speed_count += 1 } *)
Fixpoint speed_scan (sps : list (pt (F:=F))) (o : F) (k : nat) : res nat :=
  match sps with
  | [] => Panic 1504
  | q :: t => if fst q <? o then speed_scan t o (S k) else Ok k
  end.

Definition clear (p : Path) (x : F) : res (Path * LinkPoint) :=
  match p_link_points p with
  | [] => Panic 1503
  | first :: _ =>
    let? _ := ensure (lp_offset first <=? x) 1501 in
    let? _ := ensure (x <=? lp_offset (last (p_link_points p) lp_default)) 1502 in
    let? (del, idx) := clear_scan (length (p_link_points p)) (p_link_points p) x lp_default 0 in
    match idx with
    | O => Ok (p, del)
    | S _ =>
      match nth_error (p_link_points p) idx with
      | None => Panic 1503
      | Some nf =>
        let? k := speed_scan (p_speed_points p) (lp_offset nf) 0 in
        match skipn k (p_speed_points p) with
        | [] => Panic 1505
        | q :: t =>
          Ok ({| p_link_points := skipn idx (p_link_points p);
                 p_grades := skipn (lp_grade_count del) (p_grades p);
                 p_curves := skipn (lp_curve_count del) (p_curves p);
                 p_speed_points := (lp_offset nf, snd q) :: t;
                 p_cats := skipn (lp_cat_count del) (p_cats p);
                 p_tp := p_tp p; p_finished := p_finished p |}, del)
        end
      end
    end
  end.

End PathGeom.
