(* MassParams.v -- mass, adhesion coefficient and maximum tractive force parameters (C20).
   Transcribed from
     traits.rs                                      trait Mass, MassSideEffect
     consist/locomotive/powertrain/fuel_converter.rs, generator.rs, reversible_energy_storage.rs
                                                    impl Mass (identical shape: mass, specific value,
                                                    extensive value = pwr_out_max / energy_capacity)
     consist/locomotive/conventional_loco.rs, battery_electric_loco.rs   impl Mass
     consist/locomotive/locomotive_model.rs         impl Mass for Locomotive, the INHERENT
                                                    Locomotive::derived_mass, set_force_max, set_mu,
                                                    check_force_max, force_max, mu
     consist/consist_model.rs                       Mass for Consist (derived_mass), force_max
     train/train_config.rs                          make_train_params / make_train_sim_parts
     utils/mod.rs                                   almost_eq (epsilon None = 1e-8)

   A setter takes `&mut self` and may fail after having assigned some fields; it is modelled as
   returning the object AS THE CALL LEAVES IT together with Ok/Err, so that partially updated
   objects after an Err are visible (and compared with the code). *)
From Coq Require Import List Bool ZArith.
From AltModel Require Import Num.
Import ListNotations.

Inductive MassSE := MS_None | MS_Extensive | MS_Intensive.
Inductive ForceSE := FS_Mass | FS_UpdateMu | FS_SetMuToNone | FS_SetMassToNone | FS_SetMassAndMuToNone.
Inductive MuSE := US_Mass | US_ForceMax | US_SetMassToNone.

Section Mass.
  Context {F : Type} {NO : NumOps F}.
  Local Open Scope num_scope.

  (* utils::almost_eq(val1, val2, None) *)
  Definition eps : F := nlit 1 (-8).
  Definition almost_eq (v1 v2 : F) : bool :=
    (nabs ((v2 - v1) / (v1 + v2)) <? eps) || (nabs (v2 - v1) <? eps).
  (* uc::ACC_GRAV *)
  Definition grav : F := nlit 980154849496314 (-14).

  Definition setter (A : Type) := (A * res unit)%type.

  (* ---------------------------------------------------------------- components *)
  (* FuelConverter / Generator: (mass, specific_pwr, pwr_out_max);
     ReversibleEnergyStorage: (mass, specific_energy, energy_capacity) *)
  Record Comp := { cm_mass : option F; cm_spec : option F; cm_ext : F }.

  Definition comp_derived (c : Comp) : option F :=
    match cm_spec c with Some sp => Some (cm_ext c / sp) | None => None end.

  (* Mass::mass *)
  Definition comp_mass (c : Comp) : res (option F) :=
    match comp_derived c, cm_mass c with
    | Some d, Some m => if almost_eq m d then Ok (cm_mass c) else Err 2001
    | _, _ => Ok (cm_mass c)
    end.

  (* Mass::set_mass *)
  Definition comp_set_mass (c : Comp) (new : option F) (se : MassSE) : setter Comp :=
    match comp_derived c, new with
    | Some d, Some m =>
        if negb (d =? m) then
          match se with
          | MS_Extensive =>
              match cm_spec c with
              | Some sp => ({| cm_mass := new; cm_spec := cm_spec c; cm_ext := sp * m |}, Ok tt)
              | None => (c, Err 2002)
              end
          | MS_Intensive => ({| cm_mass := new; cm_spec := Some (cm_ext c / m); cm_ext := cm_ext c |}, Ok tt)
          | MS_None => ({| cm_mass := new; cm_spec := None; cm_ext := cm_ext c |}, Ok tt)
          end
        else ({| cm_mass := new; cm_spec := cm_spec c; cm_ext := cm_ext c |}, Ok tt)
    | _, None => ({| cm_mass := None; cm_spec := None; cm_ext := cm_ext c |}, Ok tt)
    | None, Some _ => ({| cm_mass := new; cm_spec := cm_spec c; cm_ext := cm_ext c |}, Ok tt)
    end.

  (* Mass::expunge_mass_fields *)
  Definition comp_expunge (c : Comp) : Comp := {| cm_mass := None; cm_spec := None; cm_ext := cm_ext c |}.

  (* ---------------------------------------------------------------- locomotive *)
  Inductive PT := PTConv (fc gen : Comp) | PTBel (res : Comp) | PTDummy.
  Record LocoM := {
    lm_pt : PT; lm_mass : option F; lm_mu : option F;
    lm_ballast : option F; lm_baseline : option F; lm_force : F
  }.
  Definition with_pt (l : LocoM) pt := {| lm_pt := pt; lm_mass := lm_mass l; lm_mu := lm_mu l; lm_ballast := lm_ballast l; lm_baseline := lm_baseline l; lm_force := lm_force l |}.
  Definition with_mass (l : LocoM) m := {| lm_pt := lm_pt l; lm_mass := m; lm_mu := lm_mu l; lm_ballast := lm_ballast l; lm_baseline := lm_baseline l; lm_force := lm_force l |}.
  Definition with_mu (l : LocoM) u := {| lm_pt := lm_pt l; lm_mass := lm_mass l; lm_mu := u; lm_ballast := lm_ballast l; lm_baseline := lm_baseline l; lm_force := lm_force l |}.
  Definition with_force (l : LocoM) f := {| lm_pt := lm_pt l; lm_mass := lm_mass l; lm_mu := lm_mu l; lm_ballast := lm_ballast l; lm_baseline := lm_baseline l; lm_force := f |}.

  (* `Mass::derived_mass` of the trait impl (what `Mass::derived_mass(&loco)` returns):
     ConventionalLoco::mass() = fc.mass(), BatteryElectricLoco::mass() = res.mass() *)
  Definition loco_derived_trait (l : LocoM) : res (option F) :=
    match lm_pt l with
    | PTConv fc _ => comp_mass fc
    | PTBel r => comp_mass r
    | PTDummy => Ok None
    end.

  (* the INHERENT `Locomotive::derived_mass` ("Calculate mass from components"); inside
     `impl Mass for Locomotive` the call `self.derived_mass()` resolves to THIS one *)
  Definition loco_derived (l : LocoM) : res (option F) :=
    match lm_baseline l, lm_ballast l with
    | Some baseline, Some ballast =>
        match lm_pt l with
        | PTConv fc gen =>
            let? mf := comp_mass fc in let? mg := comp_mass gen in
            match mf, mg with
            | Some a, Some b => Ok (Some (a + b + baseline + ballast))
            | _, _ => Err 2011
            end
        | PTBel r =>
            let? mr := comp_mass r in
            match mr with Some a => Ok (Some (a + baseline + ballast)) | None => Err 2011 end
        | PTDummy => Err 2012
        end
    | None, None =>
        match lm_pt l with
        | PTConv fc gen =>
            let? mf := comp_mass fc in
            match mf with
            | None => let? mg := comp_mass gen in
                      match mg with None => Ok None | Some _ => Err 2013 end
            | Some _ => Err 2013   (* `&&` short-circuits: gen.mass() is not evaluated *)
            end
        | PTBel r =>
            let? mr := comp_mass r in
            match mr with None => Ok None | Some _ => Err 2013 end
        | PTDummy => Ok (Some n0)
        end
    | _, _ => Err 2014
    end.

  (* Mass::mass for Locomotive *)
  Definition loco_mass (l : LocoM) : res (option F) :=
    let? d := loco_derived l in
    match d, lm_mass l with
    | Some dm, Some m => if almost_eq m dm then Ok (Some m) else Err 2001
    | None, None => Ok None
    | _, Some m => Ok (Some m)
    | Some dm, None => Ok (Some dm)
    end.

  (* check_force_max *)
  Definition loco_check_force (l : LocoM) : res unit :=
    match lm_mu l, lm_mass l with
    | Some mu, Some m => if almost_eq (lm_force l) (mu * m * grav) then Ok tt else Err 2021
    | _, _ => Ok tt
    end.
  (* force_max() *)
  Definition loco_force_max (l : LocoM) : res F :=
    let? _ := loco_check_force l in Ok (lm_force l).
  (* mu() *)
  Definition loco_mu (l : LocoM) : res (option F) :=
    let? _ := loco_check_force l in Ok (lm_mu l).

  (* Mass::expunge_mass_fields for Locomotive (baseline / ballast are not touched) *)
  Definition loco_expunge (l : LocoM) : LocoM :=
    with_pt l (match lm_pt l with
               | PTConv fc gen => PTConv (comp_expunge fc) (comp_expunge gen)
               | PTBel r => PTBel (comp_expunge r)
               | PTDummy => PTDummy
               end).

  (* Mass::set_mass for Locomotive *)
  Definition loco_set_mass (l : LocoM) (new : option F) (se : MassSE) : setter LocoM :=
    match se with
    | MS_None =>
        match loco_derived l with
        | Err c => (l, Err c) | Panic c => (l, Panic c)
        | Ok d =>
            (* self.mass = match new_mass { .. } *)
            let r1 : res LocoM :=
              match new with
              | Some nm =>
                  let l1 := match d with
                            | Some dm => if negb (dm =? nm) then loco_expunge l else l
                            | None => l
                            end in
                  Ok (with_mass l1 (Some nm))
              | None => match d with Some dm => Ok (with_mass l (Some dm)) | None => Err 2031 end
              end in
            match r1 with
            | Err c => (l, Err c) | Panic c => (l, Panic c)
            | Ok l2 =>
                (* self.force_max = self.mu()?.with_context(..)? * self.mass()?.with_context(..)? * g *)
                match loco_mu l2 with
                | Err c => (l2, Err c) | Panic c => (l2, Panic c)
                | Ok None => (l2, Err 2032)
                | Ok (Some mu) =>
                    match loco_mass l2 with
                    | Err c => (l2, Err c) | Panic c => (l2, Panic c)
                    | Ok None => (l2, Err 2033)
                    | Ok (Some m) => (with_force l2 (mu * m * grav), Ok tt)
                    end
                end
            end
        end
    | _ => (l, Err 2030)
    end.

  (* set_force_max *)
  Definition loco_set_force_max (l : LocoM) (f : F) (se : ForceSE) : setter LocoM :=
    let l1 := with_force l f in
    match se with
    | FS_Mass =>
        match loco_mu l1 with
        | Err c => (l1, Err c) | Panic c => (l1, Panic c)
        | Ok None => (l1, Err 2041)
        | Ok (Some mu) => loco_set_mass l1 (Some (f / (mu * grav))) MS_None
        end
    | FS_UpdateMu =>
        (with_mu l1 (match lm_mass l1 with Some m => Some (f / (m * grav)) | None => None end), Ok tt)
    | FS_SetMuToNone => (with_mu l1 None, Ok tt)
    | FS_SetMassToNone => (with_mass l1 None, Ok tt)
    | FS_SetMassAndMuToNone => (with_mass (with_mu l1 None) None, Ok tt)
    end.

  (* set_mu *)
  Definition loco_set_mu (l : LocoM) (mu : F) (se : MuSE) : setter LocoM :=
    let l1 := with_mu l (Some mu) in
    match se with
    | US_Mass => loco_set_mass l1 (Some (lm_force l1 / (mu * grav))) MS_None
    | US_ForceMax =>
        match loco_mass l1 with
        | Err c => (l1, Err c) | Panic c => (l1, Panic c)
        | Ok None => (l1, Err 2051)
        | Ok (Some m) => (with_force l1 (mu * grav * m), Ok tt)
        end
    | US_SetMassToNone => (with_mass l1 None, Ok tt)
    end.

  (* one public setter call *)
  Inductive LCmd :=
  | LSetMass (new : option F) (se : MassSE)
  | LSetForce (f : F) (se : ForceSE)
  | LSetMu (mu : F) (se : MuSE).
  Definition loco_call (l : LocoM) (c : LCmd) : setter LocoM :=
    match c with
    | LSetMass n se => loco_set_mass l n se
    | LSetForce f se => loco_set_force_max l f se
    | LSetMu u se => loco_set_mu l u se
    end.

  (* ---------------------------------------------------------------- consist *)
  Fixpoint mapM_res {A B} (f : A -> res B) (l : list A) : res (list B) :=
    match l with
    | [] => Ok []
    | x :: t => let? y := f x in let? r := mapM_res f t in Ok (y :: r)
    end.

  Definition is_none {A} (o : option A) : bool := match o with None => true | Some _ => false end.

  (* Mass::derived_mass (= mass) for Consist *)
  Definition consist_mass (ls : list LocoM) : res (option F) :=
    match ls with
    | [] => Err 2061
    | l0 :: _ =>
        let? m0 := loco_mass l0 in
        let init := is_none m0 in
        (* try_fold: all units' masses None, or all Some *)
        let? ms := mapM_res loco_mass ls in
        if forallb (fun m => Bool.eqb (is_none m) init) ms then
          if init then Ok None
          else Ok (Some (fold_left (fun acc m => match m with Some x => x + acc | None => acc end) ms n0))
        else Err 2062
    end.

  (* Consist::force_max *)
  Definition consist_force_max (ls : list LocoM) : res F :=
    let? fs := mapM_res loco_force_max ls in
    Ok (fold_left (fun acc f => f + acc) fs n0).

  (* ---------------------------------------------------------------- train *)
  (* a car type: (mass_static_base, mass_freight, number of cars) *)
  Definition cars_mass (cars : list (F * F * Z)) : F :=
    fold_left (fun acc c => let '(b, fr, k) := c in acc + (b + fr) * nofZ k * n1) cars n0.
  (* make_train_params: towed_mass_static = train_mass override, else the cars;
     make_train_sim_parts: + consist mass (0 when the consist has none) *)
  Definition train_mass_static (override : option F) (cars : list (F * F * Z)) (consist : option F) : F :=
    (match override with Some m => m | None => cars_mass cars end) +
    (match consist with Some m => m | None => n0 end).
End Mass.
