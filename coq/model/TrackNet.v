(* TrackNet.v -- the part of the track network (altrios-core track::Link) that meet-pass planning
   reads: per directed link the successor/predecessor indices, the index of the opposite-direction
   link and the declared lock-outs.  Index 0 is the fake link ("none").  Discrete; shared by the
   estimated-time-network checker (C15) and the dispatch checkers (C04, C05). *)
From Coq Require Import List Bool Arith.
Import ListNotations.

Record link := mkL {
  l_next : nat; l_nexta : nat; l_prev : nat; l_preva : nat; l_flip : nat; l_lock : list nat }.

Definition memb (x : nat) (l : list nat) : bool := existsb (Nat.eqb x) l.

Fixpoint eql (a b : list nat) : bool :=
  match a, b with
  | [], [] => true
  | x :: a', y :: b' => (x =? y) && eql a' b'
  | _, _ => false
  end.

(* b can be entered directly from a: b is a's primary or alternate successor (and is a real link) *)
Definition connected (net : list link) (a b : nat) : bool :=
  match nth_error net a with
  | Some l => negb (b =? 0) && ((l_next l =? b) || (l_nexta l =? b))
  | None => false
  end.

Fixpoint chainb (net : list link) (r : list nat) : bool :=
  match r with
  | a :: ((b :: _) as t) => connected net a b && chainb net t
  | _ => true
  end.

(* indexed forallb *)
Fixpoint forallbi {A} (f : nat -> A -> bool) (i : nat) (l : list A) : bool :=
  match l with
  | [] => true
  | a :: t => f i a && forallbi f (S i) t
  end.

(* declarative counterparts *)
Definition Connected (net : list link) (a b : nat) : Prop :=
  exists l, nth_error net a = Some l /\ b <> 0 /\ (l_next l = b \/ l_nexta l = b).

Fixpoint Chain (net : list link) (r : list nat) : Prop :=
  match r with
  | a :: ((b :: _) as t) => Connected net a b /\ Chain net t
  | _ => True
  end.
