(* EstNet.v -- the estimated-time network returned by make_est_times
   (rust/altrios-core/src/meet_pass/est_times/mod.rs: EstTimeNet.val : Vec<EstTime>) and the
   CERTIFIED CHECKER for property C15.

   [est_checks net origs dests nodes cert] looks at every node / every edge once and returns one
   verdict per conjunct; [cert] is an UNTRUSTED certificate computed by the harness: per node a
   rank (topological numbering), and the route state every walk must have on reaching the node:
   finished?, last link entered by the front, queue of links entered by the front but not yet by
   the tail.  proofs/EstNetP.v proves that a passing check implies the declarative statement for
   EVERY walk of ANY length from node 0.

   Also here: the two [Ord] instances of est_times/update_times.rs that drive the BinaryHeaps.  *)
From Coq Require Import List Bool Arith ZArith.
From AltModel Require Import Num TrackNet.
Import ListNotations.

Section Est.
Context {F : Type} {NO : NumOps F}.

(* n_ty: 0 Arrive, 1 Clear, >= 2 Fake (EstType); index 0 = EST_IDX_NA *)
Record enode := mkN {
  n_ts : F; n_ttn : F; n_dist : F;
  n_next : nat; n_nexta : nat; n_prev : nat; n_preva : nat;
  n_link : nat; n_ty : nat }.

Record ecert := mkC { c_rank : nat; c_fin : bool; c_last : nat; c_q : list nat }.

Definition cget (cert : list ecert) (i : nat) : ecert := nth i cert (mkC 0 false 0 []).

Definition succs (nd : enode) : list nat :=
  (if n_next nd =? 0 then [] else [n_next nd]) ++ (if n_nexta nd =? 0 then [] else [n_nexta nd]).

(* ---- structure ---- *)
Definition ck_shape (nodes : list enode) (cert : list ecert) : bool :=
  (3 <=? length nodes) && (length cert =? length nodes).

Definition ck_ranges (net : list link) (nodes : list enode) : bool :=
  let n := length nodes in
  forallb (fun nd => (n_next nd <? n) && (n_nexta nd <? n) && (n_prev nd <? n) && (n_preva nd <? n)
                     && (n_link nd <? length net)) nodes.

(* nodes 0/1 have no predecessor, every other node has one; every node but the last has a
   successor, the last has none; node 0 is a fake node *)
Definition ck_roles (nodes : list enode) : bool :=
  let n := length nodes in
  forallbi (fun i nd =>
    Bool.eqb (negb (n_prev nd =? 0)) (2 <=? i) && Bool.eqb (negb (n_next nd =? 0)) (S i <? n)
    && ((S i <? n) || (n_nexta nd =? 0)) && (negb (i =? 0) || (2 <=? n_ty nd))) 0 nodes.

Definition links_to (nodes : list enode) (p i : nat) : bool :=
  negb (i =? 0) &&
  match nth_error nodes p with Some np => (n_next np =? i) || (n_nexta np =? i) | None => false end.
Definition links_back (nodes : list enode) (s i : nat) : bool :=
  match nth_error nodes s with Some ns => (n_prev ns =? i) || (n_preva ns =? i) | None => false end.

Definition ck_recip (nodes : list enode) : bool :=
  forallbi (fun i nd =>
    ((n_prev nd =? 0) || links_to nodes (n_prev nd) i)
    && ((n_preva nd =? 0) || links_to nodes (n_preva nd) i)
    && forallb (fun s => links_back nodes s i) (succs nd)) 0 nodes.

Definition ck_ranks (nodes : list enode) (cert : list ecert) : bool :=
  let n := length nodes in
  forallbi (fun i nd =>
    (c_rank (cget cert i) <? n)
    && forallb (fun s => c_rank (cget cert i) <? c_rank (cget cert s)) (succs nd)) 0 nodes.

(* ---- events ---- *)
(* the deterministic effect of an event on (last entered link, uncleared queue); None = not allowed *)
Definition ev_step (net : list link) (origs : list nat) (ty l : nat) (fin : bool) (last : nat) (q : list nat)
  : option (nat * list nat) :=
  match ty with
  | 0 => if negb fin && negb (l =? 0) && (if last =? 0 then memb l origs else connected net last l)
         then Some (l, q ++ [l]) else None
  | 1 => match q with
         | k :: q' => if negb fin && (k =? l) then Some (last, q') else None
         | [] => None
         end
  | _ => Some (last, q)
  end.

(* relation between the certificate at p and at its successor s whose event is (ty, l);
   a fake node may declare the trip finished once the last entered link is a destination *)
Definition ev_ok (net : list link) (origs dests : list nat) (ty l : nat) (p s : ecert) : bool :=
  if (2 <=? ty) && c_fin s then c_fin p || memb (c_last p) dests
  else match ev_step net origs ty l (c_fin p) (c_last p) (c_q p) with
       | Some (l2, q2) => negb (c_fin s) && negb (c_fin p) && (l2 =? c_last s) && eql q2 (c_q s)
       | None => false
       end.

Definition ck_events (net : list link) (origs dests : list nat) (nodes : list enode) (cert : list ecert) : bool :=
  forallbi (fun i nd =>
    forallb (fun s => match nth_error nodes s with
                      | Some ns => ev_ok net origs dests (n_ty ns) (n_link ns) (cget cert i) (cget cert s)
                      | None => false
                      end) (succs nd)) 0 nodes
  && (let c0 := cget cert 0 in
      negb (c_fin c0) && (c_last c0 =? 0) && match c_q c0 with [] => true | _ => false end)
  && c_fin (cget cert (length nodes - 1))
  && negb (memb 0 dests) && negb (memb 0 origs).

(* ---- times ---- *)
Definition finite_ (x : F) : bool := neqb (nsub x x) n0.
Definition ttol (a b : F) : F := nmul (nlit 1 (-9)) (nadd (nadd n1 (nabs a)) (nabs b)).
Definition tclose (a b : F) : bool := nleb (nabs (nsub a b)) (ttol a b).
Definition tle (a b : F) : bool := nleb a (nadd b (ttol a b)).

Definition ck_finite (nodes : list enode) : bool :=
  forallb (fun nd => finite_ (n_ts nd) && finite_ (n_ttn nd) && finite_ (n_dist nd)) nodes.
Definition ck_dur (nodes : list enode) : bool :=
  forallb (fun nd => nleb n0 (n_ttn nd) && nleb n0 (n_dist nd)) nodes.
Definition ck_sched (nodes : list enode) : bool :=
  forallb (fun nd => nleb n0 (n_ts nd)) nodes.

(* s = idx_next p and idx_prev s = p (primary both ways): time_sched s = time_sched p + time_to_next p *)
Definition ck_tprimary (nodes : list enode) : bool :=
  forallbi (fun i nd =>
    (n_next nd =? 0) ||
    match nth_error nodes (n_next nd) with
    | Some ns => negb (n_prev ns =? i) || tclose (n_ts ns) (nadd (n_ts nd) (n_ttn nd))
    | None => false
    end) 0 nodes.

(* no node later than any predecessor allows; an alternate (branch) edge has zero duration *)
Definition ck_tlater (nodes : list enode) : bool :=
  forallbi (fun i nd =>
    ((n_next nd =? 0) ||
     match nth_error nodes (n_next nd) with
     | Some ns => tle (n_ts ns) (nadd (n_ts nd) (n_ttn nd)) | None => false end)
    && ((n_nexta nd =? 0) || (n_nexta nd =? n_next nd) ||
        match nth_error nodes (n_nexta nd) with
        | Some ns => tle (n_ts ns) (n_ts nd) | None => false end)) 0 nodes.

(* the structural conjuncts (everything the walk theorems need) *)
Definition est_struct_ok net origs dests nodes cert : bool :=
  ck_shape nodes cert && ck_ranges net nodes && ck_roles nodes && ck_recip nodes
  && ck_ranks nodes cert && ck_events net origs dests nodes cert.

(* one verdict per conjunct, in the order harness/src/est.rs lists them (EST_LABELS) *)
Definition est_checks net origs dests nodes cert : list bool :=
  let sh := ck_shape nodes cert in
  let base := sh && ck_ranges net nodes in
  [sh; base; base && ck_roles nodes; base && ck_recip nodes; base && ck_ranks nodes cert;
   base && ck_events net origs dests nodes cert; base && ck_finite nodes; base && ck_dur nodes;
   base && ck_sched nodes; base && ck_tprimary nodes; base && ck_tlater nodes].

Definition est_ok net origs dests nodes cert : bool :=
  forallb (fun b => b) (est_checks net origs dests nodes cert).

(* ---- the orderings that drive the BinaryHeaps (update_times.rs) ---- *)
(* f64::partial_cmp(..).unwrap(): Panic when the operands are unordered (NaN) *)
Definition pcmp (a b : F) : res comparison :=
  if nltb a b then Ok Lt else if neqb a b then Ok Eq else if nltb b a then Ok Gt else Panic 1%Z.
Definition cmp_then (c d : comparison) : comparison := match c with Eq => d | _ => c end.

(* impl Ord for EstTimeNext: other.time_next.partial_cmp(&self.time_next).unwrap()
                              .then_with(|| other.est_idx.cmp(&self.est_idx)) *)
Definition cmp_est_next (a b : F * nat) : res comparison :=
  let? c := pcmp (fst b) (fst a) in Ok (cmp_then c (Nat.compare (snd b) (snd a))).

(* #[derive(PartialOrd)] on EstTimePrev {time_prev, time_sub, est_idx} (lexicographic), and
   impl Ord: self.partial_cmp(other).unwrap() *)
Definition cmp_est_prev (a b : F * F * nat) : res comparison :=
  let '(a1, a2, a3) := a in let '(b1, b2, b3) := b in
  let? c1 := pcmp a1 b1 in
  match c1 with
  | Eq => let? c2 := pcmp a2 b2 in Ok (cmp_then c2 (Nat.compare a3 b3))
  | _ => Ok c1
  end.

End Est.
