(* Resist.v -- train state and train resistance
   (rust/altrios-core/src/train/train_state.rs, lin_search_hint.rs,
    train/resistance/kind/{path_res,rolling,davis_b,bearing,aerodynamic}.rs,
    train/resistance/method/strap.rs, track/path_track/path_res_coeff.rs, uc.rs),
   transcribed operation for operation.  Mutation through [&mut] is "return the new value".

   One deliberate difference from the unchanged tree: [strap_update_res] reports the REAR
   grade ([grade_back := grades[idx_back].res_coeff]); the code assigns the front grade
   (repo_patches/C07-grade-back.diff).  The check demonstrates the difference. *)
From Coq Require Import ZArith List Bool.
From AltModel Require Import Num.
Import ListNotations.
Local Open Scope num_scope.

(* lin_search_hint::Dir *)
Inductive Dir := DUnk | DFwd | DBwd.

(* path_res::Strap { idx_front, idx_back } *)
Record SIdx := { si_front : nat; si_back : nat }.
(* the two caches of method::Strap (grade, curve) *)
Record ResCache := { rc_grade : SIdx; rc_curve : SIdx }.

Section Resist.
Context {F : Type} {NO : NumOps F}.

(* ---------------------------------------------------------------- TrainState, in four groups *)
Record Kin := {
  k_time : F; k_i : nat; k_offset : F; k_offset_back : F; k_total_dist : F;
  k_link_idx_front : Z; k_offset_in_link : F;
  k_speed : F; k_speed_limit : F; k_speed_target : F; k_dt : F }.
Record Par := { p_length : F; p_mass_static : F; p_mass_rot : F; p_mass_freight : F }.
Record Rs := {
  r_weight_static : F; r_rolling : F; r_bearing : F; r_davis_b : F; r_aero : F;
  r_grade : F; r_curve : F; r_grade_front : F; r_grade_back : F; r_elev_front : F }.
Record Pw := {
  w_pwr_res : F; w_pwr_accel : F; w_pwr_whl_out : F;
  w_energy_whl_out : F; w_energy_whl_out_pos : F; w_energy_whl_out_neg : F }.
Record TState := { ts_k : Kin; ts_p : Par; ts_r : Rs; ts_w : Pw }.

(* TrainState::res_net : ((((rolling + bearing) + davis_b) + aero) + grade) + curve *)
Definition res_net (r : Rs) : F :=
  r_rolling r + r_bearing r + r_davis_b r + r_aero r + r_grade r + r_curve r.
(* TrainState::mass_compound ([mass()] is [Ok(Some(mass_static))]: it cannot fail) *)
Definition mass_compound (p : Par) : F := p_mass_static p + p_mass_rot p.

(* uc::ACC_GRAV = 9.801_548_494_963_14 ; uc::rho_air() = 1.225 *)
Definition acc_grav : F := nlit 980154849496314 (-14).
Definition rho_air : F := nlit 1225 (-3).

(* ---------------------------------------------------------------- PathResCoeff *)
Record PRC := { prc_offset : F; prc_coeff : F; prc_net : F }.
(* PathResCoeff::calc_res_val *)
Definition prc_val (p : PRC) (x : F) : F := prc_net p + prc_coeff p * (x - prc_offset p).

(* ---------------------------------------------------------------- LinSearchHint::calc_idx
   Err 1101 "Offset in forward direction larger than last slice offset",
   Err 1106 "Offset in reverse direction smaller than first slice offset",
   Panic 1100/1103 [last()/first().unwrap()] on an empty slice, Panic 1102/1104 index out of
   bounds, Panic 1105 [idx -= 1] at 0 (unreachable after the [ensure!], kept as coded),
   Err 1190 = fuel of the forward loop exhausted (never: see ResistP.fwd_scan_fuel). *)
Fixpoint fwd_scan (fuel : nat) (tbl : list PRC) (x : F) (idx : nat) : res nat :=
  match fuel with
  | O => Err 1190
  | S f => match nth_error tbl (idx + 1) with
           | None => Panic 1102
           | Some p => if prc_offset p <? x then fwd_scan f tbl x (idx + 1) else Ok idx
           end
  end.

Fixpoint bwd_scan (tbl : list PRC) (x : F) (idx : nat) {struct idx} : res nat :=
  match nth_error tbl idx with
  | None => Panic 1104
  | Some p => if x <? prc_offset p
              then match idx with O => Panic 1105 | S i => bwd_scan tbl x i end
              else Ok idx
  end.

Definition calc_idx (tbl : list PRC) (x : F) (idx : nat) (dir : Dir) : res nat :=
  match dir with
  | DBwd => match tbl with
            | [] => Panic 1103
            | p0 :: _ => let? _ := ensure (prc_offset p0 <=? x) 1106 in bwd_scan tbl x idx
            end
  | _ => match tbl with
         | [] => Panic 1100
         | p0 :: _ => let? _ := ensure (x <=? prc_offset (last tbl p0)) 1101 in
                      fwd_scan (S (length tbl)) tbl x idx
         end
  end.

(* ---------------------------------------------------------------- path_res::Strap::calc_res
   Panic 1110 = [path_res_coeffs[idx]] out of bounds, Panic 1111 = debug_assert!(length > 0). *)
Definition tbl_get (tbl : list PRC) (i : nat) : res PRC :=
  match nth_error tbl i with Some p => Ok p | None => Panic 1110 end.

Definition calc_res_strap (tbl : list PRC) (ifr ibk : nat) (offset offset_back length : F) : res F :=
  let? _ := passert (n0 <? length) 1111 in
  let? pf := tbl_get tbl ifr in
  let? pb := tbl_get tbl ibk in
  Ok ((prc_val pf offset - prc_val pb offset_back) / length).

Definition strap_calc_res (tbl : list PRC) (c : SIdx) (offset offset_back length weight : F)
    (dir : Dir) : res (SIdx * F) :=
  let? c1 :=
    match dir with
    | DFwd => let? f := calc_idx tbl offset (si_front c) dir in
              Ok {| si_front := f; si_back := si_back c |}
    | DBwd => let? b := calc_idx tbl offset_back (si_back c) dir in
              Ok {| si_front := si_front c; si_back := b |}
    | DUnk => let? f := calc_idx tbl offset (si_front c) dir in
              let? b := calc_idx tbl offset_back (si_back c) dir in
              Ok {| si_front := f; si_back := b |}
    end in
  let? (c2, coeff) :=
    if Nat.eqb (si_front c1) (si_back c1) then
      let? p := tbl_get tbl (si_front c1) in Ok (c1, prc_coeff p)
    else
      let? c2 :=
        match dir with
        | DFwd => let? b := calc_idx tbl offset_back (si_back c1) dir in
                  Ok {| si_front := si_front c1; si_back := b |}
        | DBwd => let? f := calc_idx tbl offset (si_front c1) dir in
                  Ok {| si_front := f; si_back := si_back c1 |}
        | DUnk => Ok c1
        end in
      let? v := calc_res_strap tbl (si_front c2) (si_back c2) offset offset_back length in
      Ok (c2, v) in
  (* calc_res_val: res_coeff * weight_static *)
  Ok (c2, coeff * weight).

(* ---------------------------------------------------------------- method::Strap::update_res *)
Record ResParams := { rp_bearing : F; rp_rolling : F; rp_davis_b : F; rp_cd_area : F }.

Definition strap_update_res (grades curves : list PRC) (rp : ResParams) (st : TState)
    (c : ResCache) (dir : Dir) : res (TState * ResCache) :=
  let k := ts_k st in let p := ts_p st in
  let offset := k_offset k in
  let offset_back := offset - p_length p in
  let weight := p_mass_static p * acc_grav in
  let bearing := rp_bearing rp in
  let rolling := rp_rolling rp * weight in
  let davis := rp_davis_b rp * k_speed k * weight in
  let aero := rp_cd_area rp * rho_air * k_speed k * k_speed k in
  let? (gc, rgrade) := strap_calc_res grades (rc_grade c) offset offset_back (p_length p) weight dir in
  let? (cc, rcurve) := strap_calc_res curves (rc_curve c) offset offset_back (p_length p) weight dir in
  let? pf := tbl_get grades (si_front gc) in
  let? pb := tbl_get grades (si_back gc) in
  Ok ({| ts_k := {| k_time := k_time k; k_i := k_i k; k_offset := offset;
                    k_offset_back := offset_back; k_total_dist := k_total_dist k;
                    k_link_idx_front := k_link_idx_front k; k_offset_in_link := k_offset_in_link k;
                    k_speed := k_speed k; k_speed_limit := k_speed_limit k;
                    k_speed_target := k_speed_target k; k_dt := k_dt k |};
         ts_p := p;
         ts_r := {| r_weight_static := weight; r_rolling := rolling; r_bearing := bearing;
                    r_davis_b := davis; r_aero := aero; r_grade := rgrade; r_curve := rcurve;
                    r_grade_front := prc_coeff pf; r_grade_back := prc_coeff pb;
                    r_elev_front := prc_val pf offset |};
         ts_w := ts_w st |},
      {| rc_grade := gc; rc_curve := cc |}).

(* ---------------------------------------------------------------- TrainSimBuilder::make_train_sim_parts
   (train_config.rs): aggregation of per-car-type data into the train's masses, length, resistance
   coefficients and friction-brake force.  [cars] lists the rail-vehicle types in the order of
   [train_config.rail_vehicles] with the number of cars of each type; the consist's mass is an input. *)
Record Car := {
  car_n : F;                    (* n_cars_by_type[car_type] as f64 *)
  car_length : F; car_axles : F; car_mass_base : F; car_mass_freight : F; car_braking_ratio : F;
  car_mass_rot_per_axle : F; car_bearing_per_axle : F; car_rolling_ratio : F; car_davis_b : F;
  car_cd_area : F }.
Record TrainParts := {
  tp_length : F; tp_towed_mass : F; tp_mass_static : F; tp_mass_rot : F; tp_mass_freight : F;
  tp_fric_force_max : F; tp_rp : ResParams }.

Definition car_mass (c : Car) : F := car_mass_base c + car_mass_freight c.
Definition fsum (f : Car -> F -> F) (cars : list Car) : F := fold_left (fun acc c => f c acc) cars n0.

(* [ov] = TrainConfig.train_mass: when given it REPLACES the summed mass of the cars (make_train_params:
   towed_mass_static = train_mass.unwrap_or(sum)); the locomotives' mass is added to it all the same *)
Definition aggregate_ov (ov : option F) (cars : list Car) (cars_total loco_mass : F) : TrainParts :=
  let towed := match ov with Some m => m | None => fsum (fun c acc => acc + car_mass c * car_n c * n1) cars end in
  let length := fsum (fun c acc => acc + car_length c * car_n c) cars in
  {| tp_length := length; tp_towed_mass := towed; tp_mass_static := towed + loco_mass;
     tp_mass_rot := fsum (fun c acc => acc + car_mass_rot_per_axle c * car_n c * car_axles c) cars;
     tp_mass_freight := fsum (fun c acc => acc + car_mass_freight c * car_n c) cars;
     tp_fric_force_max :=
       acc_grav * towed * fsum (fun c acc => acc + car_braking_ratio c * car_n c) cars / cars_total;
     tp_rp := {| rp_bearing := fsum (fun c acc => acc + car_bearing_per_axle c * car_axles c * car_n c) cars;
                 rp_rolling := fsum (fun c acc => acc + car_rolling_ratio c * car_mass c / towed * car_n c * n1) cars;
                 rp_davis_b := fsum (fun c acc => acc + car_davis_b c * car_mass c / towed * car_n c * n1) cars;
                 rp_cd_area := fsum (fun c acc => acc + car_cd_area c * car_n c) cars |} |}.

Definition aggregate (cars : list Car) (cars_total loco_mass : F) : TrainParts := aggregate_ov None cars cars_total loco_mass.

End Resist.
