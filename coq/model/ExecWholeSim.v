(* ExecWholeSim.v -- binary64 entry point of the end-to-end simulation (WholeSim.v). *)
From Coq Require Import ZArith List Bool Floats.
From AltModel Require Import Num Interp Powertrain Loco Consist Exec SpeedPoints PathGeom ExecTrack Resist Braking TrainStep ExecTrain TrainFull ExecTrainFull WholeSim.
Import ListNotations.

Definition x_sl_whole_sim (fuel_bp fuel_walk : N) (net : list Linkf) (tp : TPf) (route : list Z)
    (rp : ResParams (F:=float)) (fmax : float) (fb : FricBrake (F:=float)) (st : TStatef) (c : ResCache)
    (con : Consistf) : list out :=
  res_outs (sl_whole_sim (N.to_nat fuel_bp) (N.to_nat fuel_walk) net tp route rp fmax fb st c con)
           (fun r => sl_outs (fst r) ++ consist_outs (snd r)).

Definition x_ss_whole_sim (fuel : N) (net : list Linkf) (tp : TPf) (route : list Z) (rp : ResParams (F:=float))
    (fmax : float) (times speeds : list float) (st : TStatef) (c : ResCache) (con : Consistf) : list out :=
  res_outs (ss_whole_sim (N.to_nat fuel) net tp route rp fmax times speeds st c con)
           (fun r => sc_outs (fst r) ++ consist_outs (snd r)).

(* extend_path on a fresh simulation: the braking points (index, count, points) and the speed profile the model
   derives from the network, the train parameters and the route *)
Definition x_sl_prepare (fuel_bp : N) (net : list Linkf) (tp : TPf) (route : list Z) (rp : ResParams (F:=float))
    (fb : FricBrake (F:=float)) (st : TStatef) (c : ResCache) : list out :=
  res_outs (sl_prepare (N.to_nat fuel_bp) net tp route rp fb st c)
           (fun r => match r with (p, pts, idx) =>
              nat_out idx :: nat_out (length pts) :: flat_map bp_outs pts ++ speed_outs p end).

Definition x_sl_timed_walk (fuel_bp fuel_steps : N) (net : list Linkf) (tp : TPf) (tl : list (Z * float))
    (rp : ResParams (F:=float)) (fmax : float) (fb : FricBrake (F:=float)) (st : TStatef) (c : ResCache)
    (con : Consistf) : list out :=
  res_outs (sl_timed_walk (N.to_nat fuel_bp) (N.to_nat fuel_steps) net tp tl rp fmax fb st c con)
           (fun r => sl_outs (fst r) ++ consist_outs (snd r)).
