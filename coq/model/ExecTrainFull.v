(* ExecTrainFull.v -- binary64 entry points of the whole train-simulation step (TrainFull.v). *)
From Coq Require Import ZArith List Bool Floats.
From AltModel Require Import Num Interp Powertrain Loco Consist Exec Resist Braking TrainStep ExecTrain TrainFull.
Import ListNotations.

Definition x_ss_full_step (e : Envf) (times speeds : list float) (fmax : float) (st : TStatef)
    (c : ResCache) (con : Consistf) : list out :=
  res_outs (ss_full_step e times speeds fmax ((st, c), con)) (fun r => sc_outs (fst r) ++ consist_outs (snd r)).

Definition x_sl_full_step (e : Envf) (pts : list BPf) (fmax : float) (s : SLStatef) (con : Consistf) : list out :=
  res_outs (sl_full_step e pts fmax (s, con)) (fun r => sl_outs (fst r) ++ consist_outs (snd r)).

Definition x_ss_full_run (n : N) (e : Envf) (times speeds : list float) (fmax : float) (st : TStatef)
    (c : ResCache) (con : Consistf) : list out :=
  res_outs (ss_full_run (N.to_nat n) e times speeds fmax ((st, c), con)) (fun r => sc_outs (fst r) ++ consist_outs (snd r)).

Definition x_sl_full_run (n : N) (e : Envf) (pts : list BPf) (fmax : float) (s : SLStatef) (con : Consistf) : list out :=
  res_outs (sl_full_run (N.to_nat n) e pts fmax (s, con)) (fun r => sl_outs (fst r) ++ consist_outs (snd r)).

(* the whole walk: end state (and the number of steps taken is visible in k.i) *)
Definition x_sl_full_walk (fuel : N) (e : Envf) (pts : list BPf) (offset_end fmax : float) (s : SLStatef) (con : Consistf) : list out :=
  res_outs (sl_full_walk (N.to_nat fuel) e pts offset_end fmax (s, con)) (fun r => sl_outs (fst r) ++ consist_outs (snd r)).

Definition x_ss_full_walk (fuel : N) (e : Envf) (times speeds : list float) (fmax : float) (st : TStatef)
    (c : ResCache) (con : Consistf) : list out :=
  res_outs (ss_full_walk (N.to_nat fuel) e times speeds fmax ((st, c), con)) (fun r => sc_outs (fst r) ++ consist_outs (snd r)).
