(* Validate.v -- network validation (C16), transcribed clause by clause from
     track/link/link_impl.rs   ObjState for Link, ObjState for [Link], From<LinkOld> for Link
     track/link/elev.rs, heading.rs, cat_power.rs, speed/speed_limit.rs, speed/speed_param.rs,
     speed/speed_set.rs, link_idx.rs, validate.rs (validate_field_real/fake, validate_slice_*,
     si_chk_*, early_err!, early_fake_ok!)

   The validation code only COMPARES numbers; the model is generic over the carrier [F] with its
   [NumOps] (comparisons, zero) and a small record [NumPred] of the three number-class facts the
   code asks about (finite, integral, the constant one revolution), so every theorem holds for the
   binary64 instance that is executed as well as for the reals.

   Rust accumulates error messages and finally returns Err iff the list is non-empty; only
   emptiness matters for the outcome, so a validate function is modelled as a [bool] ("no error was
   pushed"), in the order of the Rust clauses.  Where the Rust code indexes or unwraps (a panic if
   out of range / empty) the model returns [res]: [Panic] is a distinct outcome.

   [fixed = false] is the code as it stands in /repo; [fixed = true] is the repaired behaviour
   (repo_patches/C16-*.diff): (i) catenary sections overlap test not inverted, (ii)+(iii) every
   link reference (flip/next/next_alt/prev/prev_alt and lockout entries) range-checked before the
   cross-link pass indexes by it. *)
From Coq Require Import List Bool ZArith NArith Arith.
From AltModel Require Import Num.
Import ListNotations.

Record NumPred (F : Type) := {
  np_fin : F -> bool;    (* !(x.is_nan() || x.is_infinite()) *)
  np_int : F -> bool;    (* x.trunc() == x *)
  np_rev : F             (* uc::REV, one revolution in radians *)
}.
Arguments np_fin {F}. Arguments np_int {F}. Arguments np_rev {F}.

(* `slice.windows(2).all(|w| r w[0] w[1])` *)
Fixpoint adjb {A} (r : A -> A -> bool) (l : list A) : bool :=
  match l with
  | a :: ((b :: _) as t) => r a b && adjb r t
  | _ => true
  end.

Definition is_nil {A} (l : list A) : bool := match l with [] => true | _ => false end.

(* `.first().unwrap()` / `.last().unwrap()` *)
Definition first_res {A} (l : list A) : res A := match l with [] => Panic 1602 | a :: _ => Ok a end.
Fixpoint last_res {A} (l : list A) : res A :=
  match l with [] => Panic 1602 | [a] => Ok a | _ :: t => last_res t end.

Section Validate.
  Context {F : Type} {NO : NumOps F} (NP : NumPred F).
  Local Open Scope num_scope.

  (* si_chk_num_gez: error iff partial_cmp(x, 0) is None or Less *)
  Definition gez (x : F) : bool := n0 <=? x.
  (* si_chk_num_gtz *)
  Definition gtz (x : F) : bool := n0 <? x.
  (* si_chk_num_eqz: error iff x != 0 *)
  Definition eqz (x : F) : bool := x =? n0.
  (* si_chk_num: error iff x.is_nan() *)
  Definition not_nan (x : F) : bool := x =? x.

  Record Elev := { el_off : F; el_elev : F }.
  Record Heading := { hd_off : F; hd_heading : F }.
  Record SpeedLimit := { sl_start : F; sl_end : F; sl_speed : F }.
  (* limit_type: 3 MassTotal, 4 MassPerBrake, 5 AxleCount; compare_type 1..5 *)
  Record SpeedParam := { sp_val : F; sp_type : Z; sp_cmp : Z }.
  Record SpeedSet := { ss_limits : list SpeedLimit; ss_params : list SpeedParam; ss_head : bool }.
  Record CatLimit := { cp_start : F; cp_end : F; cp_power : F }.
  Record Link := {
    lk_curr : N; lk_flip : N; lk_next : N; lk_next_alt : N; lk_prev : N; lk_prev_alt : N;
    lk_length : F;
    lk_elevs : list Elev;
    lk_headings : list Heading;
    lk_speed_sets : list (Z * SpeedSet);   (* HashMap<TrainType, SpeedSet> as (key, value) pairs *)
    lk_speed_set : option SpeedSet;
    lk_cat : list CatLimit;
    lk_lockout : list N
  }.

  (* ---------------------------------------------------------------- elev.rs *)
  Definition elev_ok (e : Elev) : bool := gez (el_off e) && np_fin NP (el_elev e).
  (* ObjState for [Elev]::validate *)
  Definition elevs_ok (l : list Elev) : bool :=
    if is_nil l then true (* early_fake_ok! *) else
    forallb elev_ok l && (2 <=? length l)%nat && adjb (fun a b => el_off a <? el_off b) l.

  (* ---------------------------------------------------------------- heading.rs *)
  Definition heading_ok (h : Heading) : bool :=
    gez (hd_off h) && gez (hd_heading h) && negb (np_rev NP <=? hd_heading h).
  Definition headings_ok (l : list Heading) : bool :=
    if is_nil l then true else
    forallb heading_ok l && (2 <=? length l)%nat && adjb (fun a b => hd_off a <? hd_off b) l.

  (* ---------------------------------------------------------------- speed_limit.rs *)
  Definition speed_limit_ok (s : SpeedLimit) : bool :=
    gez (sl_start s) && gez (sl_end s) && not_nan (sl_speed s) && negb (sl_end s <? sl_start s).
  (* derived PartialOrd (lexicographic) `a <= b` used by utils::is_sorted *)
  Definition speed_limit_le (a b : SpeedLimit) : bool :=
    if sl_start a <? sl_start b then true
    else if sl_start a =? sl_start b then
      (if sl_end a <? sl_end b then true
       else if sl_end a =? sl_end b then sl_speed a <=? sl_speed b
       else false)
    else false.
  Definition speed_limits_ok (l : list SpeedLimit) : bool :=
    if is_nil l then true else
    if negb (forallb speed_limit_ok l) then false (* early_err! *) else
    adjb (fun a b => negb ((sl_start a =? sl_start b) && (sl_end a =? sl_end b))) l &&
    adjb speed_limit_le l.

  (* ---------------------------------------------------------------- speed_param.rs *)
  Definition speed_param_ok (p : SpeedParam) : bool :=
    (n0 <=? sp_val p) && negb ((sp_type p =? 5)%Z && negb (np_int NP (sp_val p))).
  Definition speed_param_eq (a b : SpeedParam) : bool :=
    (sp_val a =? sp_val b) && (sp_type a =? sp_type b)%Z && (sp_cmp a =? sp_cmp b)%Z.
  Definition speed_params_ok (l : list SpeedParam) : bool :=
    if negb (forallb speed_param_ok l) then false else
    adjb (fun a b => negb (speed_param_eq a b)) l.

  (* ---------------------------------------------------------------- speed_set.rs *)
  Definition speed_set_fake (s : SpeedSet) : bool := is_nil (ss_limits s).
  (* ObjState for SpeedSet::validate *)
  Definition speed_set_ok (s : SpeedSet) : bool :=
    if speed_set_fake s then
      (* validate_field_fake(speed_limits) holds; params must be empty; not head end *)
      is_nil (ss_params s) && negb (ss_head s)
    else
      (* validate_field_real(speed_limits), validate_field_real(speed_params) *)
      speed_limits_ok (ss_limits s) && speed_params_ok (ss_params s).
  (* validate_field_real(speed_set) / an element of validate_slice_real(values) *)
  Definition speed_set_real_ok (s : SpeedSet) : bool := negb (speed_set_fake s) && speed_set_ok s.

  (* ---------------------------------------------------------------- cat_power.rs *)
  Definition cat_ok (c : CatLimit) : bool :=
    gez (cp_start c) && gez (cp_end c) && gez (cp_power c) && negb (cp_end c <? cp_start c).
  (* the pair test of `[CatPowerLimit]::validate`: an error is pushed iff some window satisfies it.
     In /repo: `w[0].offset_end <= w[1].offset_start` (inverted); repaired: `>`. *)
  Definition cat_pair_bad (fixed : bool) (a b : CatLimit) : bool :=
    if fixed then cp_start b <? cp_end a else cp_end a <=? cp_start b.
  Definition cats_ok (fixed : bool) (l : list CatLimit) : bool :=
    if negb (forallb cat_ok l) then false else
    adjb (fun a b => negb (cat_pair_bad fixed a b)) l.

  (* ---------------------------------------------------------------- link_impl.rs: Link *)
  Definition nz (i : N) : bool := negb (i =? 0)%N.       (* LinkIdx::is_real *)
  Definition link_fake (l : Link) : bool := (lk_curr l =? 0)%N.

  (* fake branch of `ObjState for Link::validate` *)
  Definition link_fake_ok (l : Link) : bool :=
    (lk_next l =? 0)%N && (lk_next_alt l =? 0)%N && (lk_prev l =? 0)%N && (lk_prev_alt l =? 0)%N &&
    (lk_curr l =? 0)%N && (lk_flip l =? 0)%N &&
    eqz (lk_length l) &&
    is_nil (lk_elevs l) && is_nil (lk_headings l) && is_nil (lk_speed_sets l) &&
    match lk_speed_set l with
    | None => true
    | Some s => speed_set_fake s && speed_set_ok s
    end &&
    is_nil (lk_cat l).

  (* real branch, up to `early_err!(errors, "Link")` *)
  Definition link_real_a (fixed : bool) (l : Link) : bool :=
    gtz (lk_length l) &&
    (negb (is_nil (lk_elevs l)) && elevs_ok (lk_elevs l)) &&
    (if is_nil (lk_headings l) then true else headings_ok (lk_headings l)) &&
    (if negb (is_nil (lk_speed_sets l)) then
       forallb (fun kv => speed_set_real_ok (snd kv)) (lk_speed_sets l) &&
       match lk_speed_set l with Some _ => false | None => true end
     else match lk_speed_set l with
          | Some s => speed_set_real_ok s
          | None => false
          end) &&
    cats_ok fixed (lk_cat l).

  (* real branch after the early return; the unwraps are evaluated whatever the flags say *)
  Definition link_real_b (l : Link) : res bool :=
    let flip_ok :=
      if nz (lk_flip l) then
        negb (lk_curr l =? lk_flip l)%N && negb (lk_next l =? lk_flip l)%N &&
        negb (lk_next_alt l =? lk_flip l)%N && negb (lk_prev l =? lk_flip l)%N &&
        negb (lk_prev_alt l =? lk_flip l)%N
      else true in
    let alt_ok :=
      negb (nz (lk_next_alt l) && negb (nz (lk_next l))) &&
      negb (nz (lk_prev_alt l) && negb (nz (lk_prev l))) in
    let? e0 := first_res (lk_elevs l) in
    let? e1 := last_res (lk_elevs l) in
    let elev_span := (el_off e0 =? n0) && (el_off e1 =? lk_length l) in
    let? head_span :=
      if is_nil (lk_headings l) then Ok true else
      let? h0 := first_res (lk_headings l) in
      let? h1 := last_res (lk_headings l) in
      Ok ((hd_off h0 =? n0) && (hd_off h1 =? lk_length l)) in
    let? cat_span :=
      if is_nil (lk_cat l) then Ok true else
      let? c0 := first_res (lk_cat l) in
      let? c1 := last_res (lk_cat l) in
      Ok (negb (cp_start c0 <? n0) && negb (lk_length l <? cp_end c1)) in
    Ok (flip_ok && alt_ok && elev_span && head_span && cat_span).

  (* ObjState for Link::validate: Ok true = no error, Ok false = Err(errors) *)
  Definition validate_link (fixed : bool) (l : Link) : res bool :=
    if link_fake l then Ok (link_fake_ok l)
    else if negb (link_real_a fixed l) then Ok false
    else link_real_b l.

  (* ---------------------------------------------------------------- link_impl.rs: [Link] *)
  Definition len_N (n : list Link) : N := N.of_nat (length n).
  (* `&self[i.idx()]` *)
  Definition get (n : list Link) (i : N) : res Link :=
    if (i <? len_N n)%N then
      match nth_error n (N.to_nat i) with Some l => Ok l | None => Panic 1601 end
    else Panic 1601.

  Definition linked_prev (t : Link) (i : N) : bool :=
    (lk_curr t =? 0)%N || (lk_prev t =? i)%N || (lk_prev_alt t =? i)%N.
  Definition linked_next (t : Link) (i : N) : bool :=
    (lk_curr t =? 0)%N || (lk_next t =? i)%N || (lk_next_alt t =? i)%N.

  (* body of the cross-link loop for the link at position idx *)
  Definition cross_link (n : list Link) (idx : nat) (l : Link) : res bool :=
    let c1 := (lk_curr l =? N.of_nat idx)%N in
    let c2 := negb (lk_flip l =? lk_curr l)%N in
    let? c3 :=
      if nz (lk_flip l) then
        let? f := get n (lk_flip l) in Ok (lk_flip f =? lk_curr l)%N
      else Ok true in
    let? c4 :=
      if nz (lk_next l) then
        let? a := get n (lk_next l) in
        let? b := get n (lk_next_alt l) in
        Ok (linked_prev a (lk_curr l) && negb (nz (lk_next_alt l) && nz (lk_prev_alt a)) &&
            linked_prev b (lk_curr l) && negb (nz (lk_next_alt l) && nz (lk_prev_alt b)))
      else Ok (negb (nz (lk_next_alt l))) in
    let? c5 :=
      if nz (lk_prev l) then
        let? a := get n (lk_prev l) in
        let? b := get n (lk_prev_alt l) in
        Ok (linked_next a (lk_curr l) && negb (nz (lk_prev_alt l) && nz (lk_next_alt a)) &&
            linked_next b (lk_curr l) && negb (nz (lk_prev_alt l) && nz (lk_next_alt b)))
      else Ok (negb (nz (lk_prev_alt l))) in
    Ok (c1 && c2 && c3 && c4 && c5).

  (* `for x in xs { .. }` accumulating a flag; a panic aborts *)
  Fixpoint all_res {A} (f : nat -> A -> res bool) (k : nat) (l : list A) : res bool :=
    match l with
    | [] => Ok true
    | x :: t => let? b := f k x in let? r := all_res f (S k) t in Ok (b && r)
    end.

  (* the repaired code's range pre-pass: every reference of every link is inside the vector *)
  Definition refs_in_range (n : list Link) (l : Link) : bool :=
    forallb (fun i => (i <? len_N n)%N)
      ([lk_flip l; lk_next l; lk_next_alt l; lk_prev l; lk_prev_alt l] ++ lk_lockout l).

  Definition ERR_VALIDATION : Z := 1600.

  (* ObjState for [Link]::validate, i.e. Network::init / from_json / from_yaml / from_file *)
  Definition validate_network (fixed : bool) (n : list Link) : res unit :=
    match n with
    | l0 :: ((_ :: _) as rest) =>
        (* validate_slice_fake(&self[..1]) *)
        let? v0 := validate_link fixed l0 in
        let b0 := link_fake l0 && v0 in
        (* validate_slice_real_shift(&self[1..]) *)
        let? br := all_res (fun _ l => let? v := validate_link fixed l in Ok (negb (link_fake l) && v)) 1 rest in
        if negb (b0 && br) then Err ERR_VALIDATION (* early_err!(errors, "Links") *) else
        if fixed && negb (forallb (refs_in_range n) n) then Err ERR_VALIDATION else
        let? bc := all_res (cross_link n) 1 rest in
        if bc then Ok tt else Err ERR_VALIDATION
    | _ => Err ERR_VALIDATION   (* fewer than two links *)
    end.

  (* ---------------------------------------------------------------- legacy layout *)
  (* link_old.rs: speed_sets is a Vec<OldSpeedSet> carrying the train type inside *)
  Record OldSpeedSet := { os_limits : list SpeedLimit; os_params : list SpeedParam; os_type : Z; os_head : bool }.
  Record LinkOld := {
    lo_curr : N; lo_flip : N; lo_next : N; lo_next_alt : N; lo_prev : N; lo_prev_alt : N;
    lo_length : F; lo_elevs : list Elev; lo_headings : list Heading;
    lo_speed_sets : list OldSpeedSet; lo_cat : list CatLimit; lo_lockout : list N
  }.
  (* HashMap::insert on the association list: replace the value of an existing key, else append *)
  Fixpoint map_insert (k : Z) (v : SpeedSet) (m : list (Z * SpeedSet)) : list (Z * SpeedSet) :=
    match m with
    | [] => [(k, v)]
    | (k', v') :: t => if (k' =? k)%Z then (k', v) :: t else (k', v') :: map_insert k v t
    end.
  (* impl From<LinkOld> for Link *)
  Definition convert_link (o : LinkOld) : Link :=
    {| lk_curr := lo_curr o; lk_flip := lo_flip o; lk_next := lo_next o; lk_next_alt := lo_next_alt o;
       lk_prev := lo_prev o; lk_prev_alt := lo_prev_alt o; lk_length := lo_length o;
       lk_elevs := lo_elevs o; lk_headings := lo_headings o;
       lk_speed_sets := fold_left (fun m s => map_insert (os_type s)
                           {| ss_limits := os_limits s; ss_params := os_params s; ss_head := os_head s |} m)
                           (lo_speed_sets o) [];
       lk_speed_set := None; lk_cat := lo_cat o; lk_lockout := lo_lockout o |}.
  Definition convert (o : list LinkOld) : list Link := map convert_link o.
  (* writing a current-layout link in the legacy layout (possible iff speed_set is None) *)
  Definition legacy_of_link (l : Link) : LinkOld :=
    {| lo_curr := lk_curr l; lo_flip := lk_flip l; lo_next := lk_next l; lo_next_alt := lk_next_alt l;
       lo_prev := lk_prev l; lo_prev_alt := lk_prev_alt l; lo_length := lk_length l;
       lo_elevs := lk_elevs l; lo_headings := lk_headings l;
       lo_speed_sets := map (fun kv => {| os_limits := ss_limits (snd kv); os_params := ss_params (snd kv);
                                          os_type := fst kv; os_head := ss_head (snd kv) |}) (lk_speed_sets l);
       lo_cat := lk_cat l; lo_lockout := lk_lockout l |}.
  Definition legacy_of (n : list Link) : list LinkOld := map legacy_of_link n.
End Validate.
