(* WholeSim.v -- the speed-limited simulation END TO END, from what the user supplies:
     network, train parameters, route (list of link indices), resistance parameters, friction brake,
     initial train state, consist
   to the final state of walk():
     PathTpc::new(tp).extend(network, route)          (PathGeom.v / SpeedPoints.v : C02 C06 C13)
     BrakingPoints::recalc                            (Braking.v                  : C03)
     walk(): while <cond> { step() }                  (TrainFull.v: Resist.v C07, TrainStep.v C03 C12,
                                                       Consist.v / Loco.v / Powertrain.v C01 C08 C09 C10 C11)
   = SpeedLimitTrainSim::extend_path(network, route) followed by walk(). *)
From Coq Require Import ZArith List Bool.
From AltModel Require Import Num Interp Powertrain Loco Consist SpeedPoints PathGeom Resist Braking TrainStep TrainFull.
Import ListNotations.
Local Open Scope num_scope.

Section WholeSim.
Context {F : Type} {NO : NumOps F}.

Definition conv_prc (c : PathGeom.PRC (F:=F)) : Resist.PRC (F:=F) :=
  {| Resist.prc_offset := PathGeom.prc_offset c; Resist.prc_coeff := PathGeom.prc_coeff c;
     Resist.prc_net := PathGeom.prc_net c |}.
Definition conv_lp (l : PathGeom.LinkPoint (F:=F)) : TrainStep.LinkPt (F:=F) :=
  {| TrainStep.lp_offset := PathGeom.lp_offset l; TrainStep.lp_link := PathGeom.lp_link_idx l |}.
Definition conv_sp (q : F * F) : Braking.SP (F:=F) := {| sp_offset := fst q; sp_limit := snd q |}.

Definition env_of_path (p : Path (F:=F)) (rp : ResParams (F:=F)) : Env (F:=F) :=
  {| e_grades := map conv_prc (p_grades p); e_curves := map conv_prc (p_curves p);
     e_lps := map conv_lp (p_link_points p); e_rp := rp |}.

(* PathTpc::offset_begin / offset_end: first / last link point *)
Definition path_offset_begin (p : Path (F:=F)) : F :=
  match p_link_points p with l :: _ => PathGeom.lp_offset l | [] => n0 end.
Definition path_offset_end (p : Path (F:=F)) : F :=
  PathGeom.lp_offset (last (p_link_points p) lp_default).

Definition brkenv_of_path (p : Path (F:=F)) (rp : ResParams (F:=F)) (force_max : F) : BrkEnv (F:=F) :=
  {| be_grades := map conv_prc (p_grades p); be_curves := map conv_prc (p_curves p); be_rp := rp;
     be_sps := map conv_sp (p_speed_points p); be_force_max := force_max;
     be_offset_begin := path_offset_begin p; be_fix := true |}.

(* extend_path(network, route) on a fresh simulation: the path and the braking points *)
Definition sl_prepare (fuel_bp : nat) (net : list (Link (F:=F))) (tp : TrainParams (F:=F)) (route : list Z)
    (rp : ResParams (F:=F)) (fb : FricBrake (F:=F)) (st : TState (F:=F)) (cache : ResCache)
  : res (Path (F:=F) * list (BP (F:=F)) * nat) :=
  let? p := extend net (new_path tp) route in
  let? (pts, idx) := recalc fuel_bp (brkenv_of_path p rp (fb_force_max fb)) (path_offset_end p) st cache in
  Ok (p, pts, idx).

Definition sl_whole_sim (fuel_bp fuel_walk : nat) (net : list (Link (F:=F))) (tp : TrainParams (F:=F))
    (route : list Z) (rp : ResParams (F:=F)) (fmax : F) (fb : FricBrake (F:=F)) (st : TState (F:=F))
    (cache : ResCache) (con : Consist (F:=F)) : res (SLState (F:=F) * Consist (F:=F)) :=
  let? (ppi) := sl_prepare fuel_bp net tp route rp fb st cache in
  let '(p, pts, idx) := ppi in
  sl_full_walk fuel_walk (env_of_path p rp) pts (path_offset_end p) fmax
    ({| sl_st := st; sl_cache := cache; sl_fb := fb; sl_idx := idx |}, con).

(* ---------------------------------------------------------------- SpeedLimitTrainSim::walk_timed_path
   The simulation of a DISPATCHED train: the timed link path (link, time the train may enter it) is fed to the
   simulation piecewise - the path is extended by the links whose time has come (extend_path: PathTpc::extend +
   BrakingPoints::recalc), the train steps until the clock reaches the time of the last link supplied, and so on;
   the last entry of the timed path is never supplied (it only carries the end time); finally walk().
   [tl] = timed path as (link index, time).  Fuel: Err 1399 when a loop bound is exhausted. *)
Record TimedSim := { tw_path : Path (F:=F); tw_pts : list (BP (F:=F)); tw_x : SLState (F:=F) * Consist (F:=F) }.

(* while idx_next + 1 < n - 1 && timed_path[idx_next].time < state.time { idx_next += 1 } *)
Fixpoint tw_advance (fuel : nat) (times : list F) (n idx_next : nat) (t : F) : nat :=
  match fuel with
  | O => idx_next
  | S f => if Nat.ltb (S idx_next) (n - 1) && (nth idx_next times n0 <? t)
           then tw_advance f times n (S idx_next) t else idx_next
  end.

(* while self.state.time < time_extend { self.step()? } *)
Fixpoint tw_steps (fuel : nat) (e : Env (F:=F)) (pts : list (BP (F:=F))) (fmax time_extend : F)
    (x : SLState (F:=F) * Consist (F:=F)) : res (SLState (F:=F) * Consist (F:=F)) :=
  if k_time (ts_k (sl_st (fst x))) <? time_extend then
    match fuel with
    | O => Err 1399
    | S f => let? x' := sl_full_step e pts fmax x in tw_steps f e pts fmax time_extend x'
    end
  else Ok x.

(* extend_path(network, links): the path grows, the braking points are rebuilt from the CURRENT state and the
   braking index restarts at the last point; the train state and its caches are untouched *)
Definition tw_extend (fuel_bp : nat) (net : list (Link (F:=F))) (rp : ResParams (F:=F)) (links : list Z)
    (w : TimedSim) : res TimedSim :=
  let? p := extend net (tw_path w) links in
  let s := fst (tw_x w) in
  let? (pts, idx) := recalc fuel_bp (brkenv_of_path p rp (fb_force_max (sl_fb s))) (path_offset_end p) (sl_st s) (sl_cache s) in
  Ok {| tw_path := p; tw_pts := pts;
        tw_x := ({| sl_st := sl_st s; sl_cache := sl_cache s; sl_fb := sl_fb s; sl_idx := idx |}, snd (tw_x w)) |}.

Fixpoint tw_outer (fuel fuel_bp fuel_steps : nat) (net : list (Link (F:=F))) (rp : ResParams (F:=F)) (fmax : F)
    (tl : list (Z * F)) (idx_prev : nat) (w : TimedSim) : res TimedSim :=
  let n := length tl in
  if Nat.eqb idx_prev (n - 1) then Ok w
  else match fuel with
  | O => Err 1399
  | S f =>
      let times := map snd tl in
      let idx_next := tw_advance n times n (S idx_prev) (k_time (ts_k (sl_st (fst (tw_x w))))) in
      let time_extend := nth (idx_next - 1) times n0 in
      let links := map fst (firstn (idx_next - idx_prev) (skipn idx_prev tl)) in
      let? w1 := tw_extend fuel_bp net rp links w in
      let? x' := tw_steps fuel_steps (env_of_path (tw_path w1) rp) (tw_pts w1) fmax time_extend (tw_x w1) in
      tw_outer f fuel_bp fuel_steps net rp fmax tl idx_next
        {| tw_path := tw_path w1; tw_pts := tw_pts w1; tw_x := x' |}
  end.

(* Err 1601 = "Timed path cannot be empty!" *)
Definition sl_timed_walk (fuel_bp fuel_steps : nat) (net : list (Link (F:=F))) (tp : TrainParams (F:=F))
    (tl : list (Z * F)) (rp : ResParams (F:=F)) (fmax : F) (fb : FricBrake (F:=F)) (st : TState (F:=F))
    (cache : ResCache) (con : Consist (F:=F)) : res (SLState (F:=F) * Consist (F:=F)) :=
  match tl with
  | [] => Err 1601
  | _ =>
    let w0 := {| tw_path := new_path tp; tw_pts := [];
                 tw_x := ({| sl_st := st; sl_cache := cache; sl_fb := fb; sl_idx := 0 |}, con) |} in
    let? w := tw_outer (length tl) fuel_bp fuel_steps net rp fmax tl 0 w0 in
    sl_full_walk fuel_steps (env_of_path (tw_path w) rp) (tw_pts w) (path_offset_end (tw_path w)) fmax (tw_x w)
  end.

(* TrainSimBuilder::make_set_speed_train_sim(network, route, trace) followed by walk() *)
Definition ss_whole_sim (fuel : nat) (net : list (Link (F:=F))) (tp : TrainParams (F:=F)) (route : list Z)
    (rp : ResParams (F:=F)) (fmax : F) (times speeds : list F) (st : TState (F:=F)) (cache : ResCache)
    (con : Consist (F:=F)) : res ((TState (F:=F) * ResCache) * Consist (F:=F)) :=
  let? p := extend net (new_path tp) route in
  ss_full_walk fuel (env_of_path p rp) times speeds fmax ((st, cache), con).

End WholeSim.
