(* WholeSim.v -- the speed-limited simulation END TO END, from what the user supplies:
     network, train parameters, route (list of link indices), resistance parameters, friction brake,
     initial train state, consist
   to the final state of walk():
     PathTpc::new(tp).extend(network, route)          (PathGeom.v / SpeedPoints.v : C02 C06 C13)
     BrakingPoints::recalc                            (Braking.v                  : C03)
     walk(): while <cond> { step() }                  (TrainFull.v: Resist.v C07, TrainStep.v C03 C12,
                                                       Consist.v / Loco.v / Powertrain.v C01 C08 C09 C10 C11)
   = SpeedLimitTrainSim::extend_path(network, route) followed by walk(). *)
From Coq Require Import ZArith List Bool.
From AltModel Require Import Num Interp Powertrain Loco Consist SpeedPoints PathGeom Resist Braking TrainStep TrainFull.
Import ListNotations.
Local Open Scope num_scope.

Section WholeSim.
Context {F : Type} {NO : NumOps F}.

Definition conv_prc (c : PathGeom.PRC (F:=F)) : Resist.PRC (F:=F) :=
  {| Resist.prc_offset := PathGeom.prc_offset c; Resist.prc_coeff := PathGeom.prc_coeff c;
     Resist.prc_net := PathGeom.prc_net c |}.
Definition conv_lp (l : PathGeom.LinkPoint (F:=F)) : TrainStep.LinkPt (F:=F) :=
  {| TrainStep.lp_offset := PathGeom.lp_offset l; TrainStep.lp_link := PathGeom.lp_link_idx l |}.
Definition conv_sp (q : F * F) : Braking.SP (F:=F) := {| sp_offset := fst q; sp_limit := snd q |}.

Definition env_of_path (p : Path (F:=F)) (rp : ResParams (F:=F)) : Env (F:=F) :=
  {| e_grades := map conv_prc (p_grades p); e_curves := map conv_prc (p_curves p);
     e_lps := map conv_lp (p_link_points p); e_rp := rp |}.

(* PathTpc::offset_begin / offset_end: first / last link point *)
Definition path_offset_begin (p : Path (F:=F)) : F :=
  match p_link_points p with l :: _ => PathGeom.lp_offset l | [] => n0 end.
Definition path_offset_end (p : Path (F:=F)) : F :=
  PathGeom.lp_offset (last (p_link_points p) lp_default).

Definition brkenv_of_path (p : Path (F:=F)) (rp : ResParams (F:=F)) (force_max : F) : BrkEnv (F:=F) :=
  {| be_grades := map conv_prc (p_grades p); be_curves := map conv_prc (p_curves p); be_rp := rp;
     be_sps := map conv_sp (p_speed_points p); be_force_max := force_max;
     be_offset_begin := path_offset_begin p; be_fix := true |}.

(* extend_path(network, route) on a fresh simulation: the path and the braking points *)
Definition sl_prepare (fuel_bp : nat) (net : list (Link (F:=F))) (tp : TrainParams (F:=F)) (route : list Z)
    (rp : ResParams (F:=F)) (fb : FricBrake (F:=F)) (st : TState (F:=F)) (cache : ResCache)
  : res (Path (F:=F) * list (BP (F:=F)) * nat) :=
  let? p := extend net (new_path tp) route in
  let? (pts, idx) := recalc fuel_bp (brkenv_of_path p rp (fb_force_max fb)) (path_offset_end p) st cache in
  Ok (p, pts, idx).

Definition sl_whole_sim (fuel_bp fuel_walk : nat) (net : list (Link (F:=F))) (tp : TrainParams (F:=F))
    (route : list Z) (rp : ResParams (F:=F)) (fmax : F) (fb : FricBrake (F:=F)) (st : TState (F:=F))
    (cache : ResCache) (con : Consist (F:=F)) : res (SLState (F:=F) * Consist (F:=F)) :=
  let? (ppi) := sl_prepare fuel_bp net tp route rp fb st cache in
  let '(p, pts, idx) := ppi in
  sl_full_walk fuel_walk (env_of_path p rp) pts (path_offset_end p) fmax
    ({| sl_st := st; sl_cache := cache; sl_fb := fb; sl_idx := idx |}, con).

(* TrainSimBuilder::make_set_speed_train_sim(network, route, trace) followed by walk() *)
Definition ss_whole_sim (fuel : nat) (net : list (Link (F:=F))) (tp : TrainParams (F:=F)) (route : list Z)
    (rp : ResParams (F:=F)) (fmax : F) (times speeds : list F) (st : TState (F:=F)) (cache : ResCache)
    (con : Consist (F:=F)) : res ((TState (F:=F) * ResCache) * Consist (F:=F)) :=
  let? p := extend net (new_path tp) route in
  ss_full_walk fuel (env_of_path p rp) times speeds fmax ((st, cache), con).

End WholeSim.
