(* SpeedPoints.v -- the enforced speed-limit profile of a path
   (rust/altrios-core/src/track/path_track/speed_point.rs  InsertSpeed::insert_speed,
    path_tpc.rs  PathTpc::add_speeds,  train_params.rs  TrainParams::speed_set_applies,
    link/speed/speed_limit.rs  min_speed,  link/speed/speed_param.rs  CompareType::applies).

   A profile is a non-empty list of (offset, speed) points sorted by offset; it denotes the step
   function "speed of the last point with offset <= x".

   [insert_speed] is the code's insertion routine with its early-outs un-fused into four
   structurally recursive passes:
     add_bp a   the code's "speed starts at an offset not already in speeds": a point at [a]
                carrying the speed in force there;
     add_bp b   the code's "insert the old speed at offset end";
     lower      the code's update loop: [min_speed] on every point with offset in [a,b);
     canon      the code's two merge steps ("self[idx-1].speed == speed_new => remove",
                "check and remove last speed point"): drop a point whose speed equals its
                predecessor's.
   The code performs the same four things with index arithmetic and skips a pass when it can see
   that the pass would be undone by the merge.  On a profile without equal-valued neighbours both
   produce the canonical representation of the lowered step function, which is unique, so the
   lists coincide; the correspondence check (harness/src/c13.rs) tests exactly that equality of
   lists on every generated route.  Where the unchanged code does NOT produce that list
   (restriction strictly inside one segment; zero-length restriction strictly inside a segment)
   the check reports it: see design/C13.md. *)
From Coq Require Import ZArith List Bool.
From AltModel Require Import Num.
Import ListNotations.
Local Open Scope num_scope.

Section SpeedPoints.
Context {F : Type} {NO : NumOps F}.

(* SpeedLimitPoint { offset, speed_limit } *)
Definition pt : Type := (F * F)%type.

(* value of the step function at [x]; [d] is the value in force before the list *)
Fixpoint eval (d : F) (pts : list pt) (x : F) : F :=
  match pts with
  | [] => d
  | (o, s) :: t => if o <=? x then eval s t x else d
  end.

(* the enforced limit at [x] (for x at or after the first point) *)
Definition eval_speed (pts : list pt) (x : F) : F :=
  match pts with [] => n0 | (_, s0) :: t => eval s0 t x end.

(* f64::is_sign_positive for non-NaN values: +0.0 is positive, -0.0 is not *)
Definition sign_pos (x : F) : bool := (n0 <? x) || ((x =? n0) && (n0 <? n1 / x)).

(* min_speed(speed_old, speed_new) *)
Definition min_speed (old new : F) : F :=
  if sign_pos old && sign_pos new then nmin old new
  else - (nmin (nabs old) (nabs new)).

(* a point at [o] carrying the speed in force there; no change if [o] is already a breakpoint *)
Fixpoint add_bp (d : F) (pts : list pt) (o : F) : list pt :=
  match pts with
  | [] => [(o, d)]
  | (o', s) :: t => if o <? o' then (o, d) :: (o', s) :: t
                    else if o =? o' then (o', s) :: t
                    else (o', s) :: add_bp s t o
  end.

Definition inwin (a b o : F) : bool := (a <=? o) && (o <? b).
Definition low1 (a b v : F) (p : pt) : pt :=
  if inwin a b (fst p) then (fst p, min_speed (snd p) v) else p.
Definition lower (a b v : F) (pts : list pt) : list pt := map (low1 a b v) pts.

(* drop points whose speed equals the one already in force *)
Fixpoint canon (d : F) (pts : list pt) : list pt :=
  match pts with
  | [] => []
  | (o, s) :: t => if s =? d then canon d t else (o, s) :: canon s t
  end.

(* Vec<SpeedLimitPoint>::insert_speed(&SpeedLimit{offset_start = a, offset_end = b, speed = v}).
   The empty profile is excluded by PathTpc::extend's ensure! (Err 1304) before any insertion
   and insertion never empties a profile, so the first case is unreachable from [extend]. *)
Definition insert_speed (pts : list pt) (a b v : F) : list pt :=
  match pts with
  | [] => []
  | (_, s0) :: _ =>
      (* [s0] is only a placeholder for "the speed before the first point"; it is never used
         because the first point's offset is <= a (the code's debug_assert) *)
      match lower a b v (add_bp s0 (add_bp s0 pts a) b) with
      | [] => []
      | (o, s) :: t' => (o, s) :: canon s t'
      end
  end.

(* ---------------------------------------------------------------- speed sets *)
Record SpeedLimit := { sl_start : F; sl_end : F; sl_speed : F }.

Inductive Cmp := CEq | CGt | CLt | CGe | CLe.   (* CompareType 1..5 *)

(* SpeedParam: limit_type MassTotal / MassPerBrake compare masses ([limit_val * uc::KG], a
   multiplication by 1.0); AxleCount compares u32 values, [limit_val as u32] -- that cast is done
   by the harness (Rust's own [as]) and the result handed to the model as an integer. *)
Inductive SpeedParam :=
| SPMassTotal (c : Cmp) (lim : F)
| SPMassPerBrake (c : Cmp) (lim : F)
| SPAxleCount (c : Cmp) (lim : Z).

Record SpeedSet := { ss_limits : list SpeedLimit; ss_params : list SpeedParam; ss_head : bool }.

Record TrainParams := {
  tp_length : F; tp_speed_max : F; tp_mass_static : F; tp_mass_per_brake : F;
  tp_axle_count : Z; tp_train_type : Z;
  tp_curve_coeff_0 : F; tp_curve_coeff_1 : F; tp_curve_coeff_2 : F }.

(* CompareType::applies(train_param, limit_param) *)
Definition cmp_F (c : Cmp) (t l : F) : bool :=
  match c with
  | CEq => t =? l | CGt => l <? t | CLt => t <? l | CGe => l <=? t | CLe => t <=? l
  end.
Definition cmp_Z (c : Cmp) (t l : Z) : bool :=
  match c with
  | CEq => Z.eqb t l | CGt => Z.ltb l t | CLt => Z.ltb t l | CGe => Z.leb l t | CLe => Z.leb t l
  end.

Definition param_applies (tp : TrainParams) (p : SpeedParam) : bool :=
  match p with
  | SPMassTotal c l => cmp_F c (tp_mass_static tp) l
  | SPMassPerBrake c l => cmp_F c (tp_mass_per_brake tp) l
  | SPAxleCount c l => cmp_Z c (tp_axle_count tp) l
  end.

(* TrainParams::speed_set_applies *)
Definition speed_set_applies (tp : TrainParams) (ss : SpeedSet) : bool :=
  forallb (param_applies tp) (ss_params ss).

(* tail-end sets keep applying until the whole train has passed *)
Definition length_add (tp : TrainParams) (ss : SpeedSet) : F :=
  if ss_head ss then n0 else tp_length tp.

(* one iteration of the loop of PathTpc::add_speeds *)
Definition add_speed1 (tp : TrainParams) (ext base : F) (pts : list pt) (sl : SpeedLimit) : list pt :=
  if sl_speed sl <? tp_speed_max tp
  then insert_speed pts (sl_start sl + base) (sl_end sl + base + ext) (sl_speed sl)
  else pts.

(* PathTpc::add_speeds(speed_points, train_params, speed_set, offset_base) *)
Definition add_speeds (pts : list pt) (tp : TrainParams) (ss : SpeedSet) (base : F) : list pt :=
  if speed_set_applies tp ss
  then fold_left (add_speed1 tp (length_add tp ss) base) (ss_limits ss) pts
  else pts.

(* The speed part of the link loop of PathTpc::extend: each link contributes its (already
   extracted) speed set at the running base offset, which then advances by the link length
   ([link.length + offset_base]). *)
Definition speeds_step (tp : TrainParams) (st : list pt * F) (l : SpeedSet * F) : list pt * F :=
  (add_speeds (fst st) tp (fst l) (snd st), snd l + snd st).
Definition extend_speeds (tp : TrainParams) (st : list pt * F) (sets : list (SpeedSet * F))
  : list pt * F := fold_left (speeds_step tp) sets st.

(* PathTpc::new: the profile of an empty path *)
Definition speeds_init (tp : TrainParams) : list pt * F := ([(n0, tp_speed_max tp)], n0).

(* ---------------------------------------------------------------- certified comparison (C02) *)
(* [profile_le p q]: both lists sorted, same first offset, and p <= q at every breakpoint of
   either list.  Soundness (SpeedPointsP.profile_le_sound): then p <= q at EVERY position at or
   after the first point.  Used to check the implementation's stored profile against the model's
   without requiring the two lists to be equal. *)
Fixpoint sortedb_from (lo : F) (pts : list pt) : bool :=
  match pts with [] => true | (o, _) :: t => (lo <=? o) && sortedb_from o t end.
Definition sortedb (pts : list pt) : bool :=
  match pts with [] => true | (o, _) :: t => sortedb_from o t end.
Definition profile_le (p q : list pt) : bool :=
  match p, q with
  | (op, _) :: _, (oq, _) :: _ =>
      (op =? oq) && sortedb p && sortedb q
      && forallb (fun o => eval_speed p o <=? eval_speed q o) (map fst p ++ map fst q)
  | _, _ => false
  end.

End SpeedPoints.
