(* CodecSchema.v -- the concrete schemas of the stateful structs (C17), read off the Rust sources
   field by field, IN DECLARATION ORDER, with the serialized (renamed) names:
     powertrain/{fuel_converter,generator,electric_drivetrain,reversible_energy_storage}.rs,
     locomotive_model.rs, conventional_loco.rs, battery_electric_loco.rs, consist_model.rs,
     consist_utils.rs, track/path_track/{path_tpc,link_point,path_res_coeff,speed_point,train_params}.rs,
     track/link/{link_impl,heading,cat_power}.rs, train/{set_speed_train_sim,speed_limit_train_sim,
     friction_brakes,train_state,train_config}.rs.
   The harness compares every table with the real derive output on every run (field names, order,
   which fields were skipped, the EqDefault decision) -- see ExecCodec.v [x_shape].

   Second half: the typed embedding of the powertrain/locomotive model records of Powertrain.v /
   Loco.v into value trees ([*_to_val] / [*_of_val]), which yields typed [encode]/[decode]. Fields
   of the Rust structs that the numeric model does not carry (mass, specific power, save_interval,
   history, force_max, pwr_cat_max) are embedded at their `None`/empty/zero value. *)
From Coq Require Import ZArith List Bool String.
From AltModel Require Import Num Interp Powertrain Loco Consist Codec.
Import ListNotations.
Local Open Scope string_scope.

Section Schemas.
Context {F : Type} {NO : NumOps F}.
Notation ty := (Codec.ty F).
Notation val := (Codec.val F).
Notation fattr := (Codec.fattr F).

Definition fnum (n : string) : fattr * ty := fld n TNum.
Definition fint (n : string) : fattr * ty := fld n TInt.
Definition fnums (n : string) : fattr * ty := fld n (TSeq TNum).
Definition z0 : val := vnum n0.

(* ---------------------------------------------------------------- state structs *)
Definition fcstate_fields : list (fattr * ty) :=
  [fint "i"; fnum "pwr_out_max"; fnum "eta"; fnum "pwr_brake"; fnum "pwr_fuel"; fnum "pwr_loss";
   fnum "pwr_idle_fuel"; fnum "energy_brake"; fnum "energy_fuel"; fnum "energy_loss";
   fnum "energy_idle_fuel"; fld "engine_on" TBool].
Definition sch_fcstate : ty := TRec fcstate_fields.
(* impl Default for FuelConverterState: i = 1, engine_on = true, the rest zero *)
Definition fcstate_default : val :=
  VRec [vz 1; z0; z0; z0; z0; z0; z0; z0; z0; z0; z0; VBool true].

Definition genstate_fields : list (fattr * ty) :=
  [fint "i"; fnum "eta"; fnum "pwr_elec_prop_out_max"; fnum "pwr_elec_out_max"; fnum "pwr_rate_out_max";
   fnum "pwr_mech_in"; fnum "pwr_elec_prop_out"; fnum "pwr_elec_aux"; fnum "pwr_loss";
   fnum "energy_mech_in"; fnum "energy_elec_prop_out"; fnum "energy_elec_aux"; fnum "energy_loss"].
Definition sch_genstate : ty := TRec genstate_fields.
Definition genstate_default : val := VRec [vz 1; z0; z0; z0; z0; z0; z0; z0; z0; z0; z0; z0; z0].

Definition edrvstate_fields : list (fattr * ty) :=
  [fint "i"; fnum "eta"; fnum "pwr_mech_out_max"; fnum "pwr_mech_regen_max"; fnum "pwr_rate_out_max";
   fnum "pwr_out_req"; fnum "pwr_elec_prop_in"; fnum "pwr_mech_prop_out"; fnum "pwr_mech_dyn_brake";
   fnum "pwr_elec_dyn_brake"; fnum "pwr_loss"; fnum "energy_elec_prop_in"; fnum "energy_mech_prop_out";
   fnum "energy_mech_dyn_brake"; fnum "energy_elec_dyn_brake"; fnum "energy_loss"].
Definition sch_edrvstate : ty := TRec edrvstate_fields.
Definition edrvstate_default : val :=
  VRec [vz 1; z0; z0; z0; z0; z0; z0; z0; z0; z0; z0; z0; z0; z0; z0; z0].

Definition resstate_fields : list (fattr * ty) :=
  [fnum "pwr_cat_max"; fnum "pwr_prop_out_max"; fnum "pwr_regen_out_max"; fnum "pwr_disch_max";
   fnum "pwr_charge_max"; fint "i"; fnum "soc"; fnum "eta"; fnum "soh"; fnum "pwr_out_electrical";
   fnum "pwr_out_propulsion"; fnum "pwr_aux"; fnum "pwr_loss"; fnum "pwr_out_chemical";
   fnum "energy_out_electrical"; fnum "energy_out_propulsion"; fnum "energy_aux"; fnum "energy_loss";
   fnum "energy_out_chemical"; fnum "max_soc"; fnum "soc_hi_ramp_start"; fnum "min_soc";
   fnum "soc_lo_ramp_start"; fnum "temperature_celsius"].
Definition sch_resstate : ty := TRec resstate_fields.
(* impl Default for ReversibleEnergyStorageState: i = 1, soc = 0.95, soh = 1, max_soc = soc_hi = 1,
   min_soc = soc_lo = 0, temperature = 45, the rest zero *)
Definition resstate_default : val :=
  VRec [z0; z0; z0; z0; z0; vz 1; vnum (nlit 95 (-2)); z0; vnum n1; z0; z0; z0; z0; z0; z0; z0; z0; z0; z0;
        vnum n1; vnum n1; z0; z0; vnum (nofZ 45)].

Definition locostate_fields : list (fattr * ty) :=
  [fint "i"; fnum "pwr_out_max"; fnum "pwr_rate_out_max"; fnum "pwr_regen_max"; fnum "pwr_out";
   fnum "pwr_aux"; fnum "energy_out"; fnum "energy_aux"].
Definition sch_locostate : ty := TRec locostate_fields.
Definition locostate_default : val := VRec [vz 1; z0; z0; z0; z0; z0; z0; z0].

Definition consiststate_fields : list (fattr * ty) :=
  [fint "i"; fnum "pwr_out_max"; fnum "pwr_rate_out_max"; fnum "pwr_regen_max"; fnum "pwr_out_max_reves";
   fnum "pwr_out_deficit"; fnum "pwr_out_max_non_reves"; fnum "pwr_regen_deficit"; fnum "pwr_dyn_brake_max";
   fnum "pwr_out_req"; fnum "pwr_cat_lim"; fnum "pwr_out"; fnum "pwr_reves"; fnum "pwr_fuel";
   fnum "energy_out"; fnum "energy_out_pos"; fnum "energy_out_neg"; fnum "energy_res"; fnum "energy_fuel"].
Definition sch_consiststate : ty := TRec consiststate_fields.
Definition consiststate_default : val :=
  VRec [vz 1; z0; z0; z0; z0; z0; z0; z0; z0; z0; z0; z0; z0; z0; z0; z0; z0; z0; z0].

Definition fricbrakestate_fields : list (fattr * ty) := [fint "i"; fnum "force"; fnum "force_max_curr"].
Definition sch_fricbrakestate : ty := TRec fricbrakestate_fields.
Definition fricbrakestate_default : val := VRec [vz 1; z0; z0].

(* ---------------------------------------------------------------- components *)
Definition sch_fc : ty := TRec
  [fld_skip_default "state" sch_fcstate fcstate_default;
   fld_default "mass" (TOpt TNum) VNull;
   fld_opt "specific_pwr" TNum;
   fnum "pwr_out_max_watts";
   fld_default "pwr_out_max_init" TNum z0;
   fnum "pwr_ramp_lag_seconds";
   fnums "pwr_out_frac_interp"; fnums "eta_interp";
   fnum "pwr_idle_fuel_watts";
   fld_opt "save_interval" TInt;
   fld_default "history" (hist_ty sch_fcstate) (hist_empty sch_fcstate)].

Definition sch_gen : ty := TRec
  [fld_skip_default "state" sch_genstate genstate_default;
   fld_default "mass" (TOpt TNum) VNull;
   fld_opt "specific_pwr" TNum;
   fnums "pwr_out_frac_interp"; fnums "eta_interp";
   fld_serde_skip "pwr_in_frac_interp" (TSeq TNum) (VSeq []);
   fnum "pwr_out_max_watts";
   fld_opt "save_interval" TInt;
   fld_default "history" (hist_ty sch_genstate) (hist_empty sch_genstate)].

Definition sch_edrv : ty := TRec
  [fld_skip_default "state" sch_edrvstate edrvstate_default;
   fnums "pwr_out_frac_interp"; fnums "eta_interp";
   fld_serde_skip "pwr_in_frac_interp" (TSeq TNum) (VSeq []);
   fnum "pwr_out_max_watts";
   fld_opt "save_interval" TInt;
   fld_default "history" (hist_ty sch_edrvstate) (hist_empty sch_edrvstate)].

Definition sch_res : ty := TRec
  [fld_skip_default "state" sch_resstate resstate_default;
   fld_default "mass" (TOpt TNum) VNull;
   fld_default "volume" (TOpt TNum) VNull;
   fld_opt "specific_energy" TNum;
   fld_opt "energy_density" TNum;
   fld "eta_interp_grid" (TSeq (TSeq TNum));
   fld "eta_interp_values" (TSeq (TSeq (TSeq TNum)));
   fnum "pwr_out_max_watts"; fnum "energy_capacity_joules"; fnum "min_soc"; fnum "max_soc";
   fld_opt "soc_hi_ramp_start" TNum; fld_opt "soc_lo_ramp_start" TNum;
   fld_opt "save_interval" TInt;
   fld_default "history" (hist_ty sch_resstate) (hist_empty sch_resstate)].

Definition sch_conv : ty := TRec [fld "fc" sch_fc; fld "gen" sch_gen; fld "edrv" sch_edrv].
Definition sch_bel : ty := TRec [fld "res" sch_res; fld "edrv" sch_edrv].
(* enum PowertrainType { ConventionalLoco, HybridLoco, BatteryElectricLoco, DummyLoco }:
   HybridLoco is outside the model (placeholder payload), DummyLoco is a unit struct *)
Definition sch_ptype : ty := TEnum
  [("ConventionalLoco", sch_conv); ("HybridLoco", TStr); ("BatteryElectricLoco", sch_bel); ("DummyLoco", TUnit)].

Definition sch_loco : ty := TRec
  [fld "loco_type" sch_ptype;
   fld_skip_default "state" sch_locostate locostate_default;
   fld_default "mass" (TOpt TNum) VNull;
   fld_opt "mu" TNum; fld_opt "ballast_mass" TNum; fld_opt "baseline_mass" TNum;
   fld_opt "save_interval" TInt;
   fld_default "history" (hist_ty sch_locostate) (hist_empty sch_locostate);
   fld_default "assert_limits" TBool (VBool true);
   fnum "pwr_aux_offset"; fnum "pwr_aux_traction_coeff"; fnum "force_max"].

(* enum PowerDistributionControlType { RESGreedy, Proportional, GoldenSectionSearch, FrontAndBack } *)
Definition sch_pdct : ty := TEnum
  [("RESGreedy", TUnit); ("Proportional", TUnit); ("GoldenSectionSearch", TStr); ("FrontAndBack", TUnit)].

Definition sch_consist : ty := TRec
  [fld "loco_vec" (TSeq sch_loco);
   fld "pdct" sch_pdct;
   fld_default "assert_limits" TBool (VBool true);
   fld_skip_default "state" sch_consiststate consiststate_default;
   fld "history" (hist_ty sch_consiststate);
   fld_opt "save_interval" TInt;
   fld_serde_skip "n_res_equipped" (TOpt TInt) VNull].

Definition sch_powertrace : ty := TRec
  [fnums "time_seconds"; fnums "pwr_watts"; fld "engine_on" (TSeq (TOpt TBool))].
Definition sch_locosim : ty := TRec [fld "loco_unit" sch_loco; fld "power_trace" sch_powertrace; fint "i"].
Definition sch_consistsim : ty := TRec [fld "loco_con" sch_consist; fld "power_trace" sch_powertrace; fint "i"].

(* ---------------------------------------------------------------- path profile *)
Definition sch_linkpoint : ty := TRec
  [fnum "offset"; fint "grade_count"; fint "curve_count"; fint "cat_power_count"; fint "link_idx"].
Definition sch_pathrescoeff : ty := TRec [fnum "offset"; fnum "res_coeff"; fnum "res_net"].
Definition sch_speedlimitpoint : ty := TRec [fnum "offset"; fnum "speed_limit"].
Definition sch_catpowerlimit : ty := TRec
  [fnum "offset_start"; fnum "offset_end"; fnum "power_limit"; fld_opt "district_id" TStr].
Definition sch_traintype : ty := TEnum
  [("None", TUnit); ("Freight", TUnit); ("Passenger", TUnit); ("Intermodal", TUnit);
   ("HighSpeedPassenger", TUnit); ("TiltTrain", TUnit); ("Commuter", TUnit)].
Definition sch_trainparams : ty := TRec
  [fnum "length"; fnum "speed_max"; fnum "towed_mass_static"; fnum "mass_per_brake"; fint "axle_count";
   fld "train_type" sch_traintype; fnum "curve_coeff_0"; fnum "curve_coeff_1"; fnum "curve_coeff_2"].
Definition sch_pathtpc : ty := TRec
  [fld "link_points" (TSeq sch_linkpoint); fld "grades" (TSeq sch_pathrescoeff);
   fld "curves" (TSeq sch_pathrescoeff); fld "speed_points" (TSeq sch_speedlimitpoint);
   fld "cat_power_limits" (TSeq sch_catpowerlimit); fld "train_params" sch_trainparams;
   fld "is_finished" TBool].

(* ---------------------------------------------------------------- structs whose nested types are not
   modelled: only the attribute table is used (by [x_shape]); the payload type is a placeholder *)
Definition opaque : ty := TStr.
Definition sch_heading : ty := TRec
  [fnum "offset"; fnum "heading"; fld_skip_none "Lat" TNum; fld_skip_none "Lon" TNum].
Definition sch_link_shape : ty := TRec
  [fint "idx_curr"; fint "idx_flip"; fint "idx_next"; fint "idx_next_alt"; fint "idx_prev"; fint "idx_prev_alt";
   fld_skip_none "osm_id" TStr; fnum "length"; fld "elevs" opaque;
   fld_default "headings" (TSeq sch_heading) (VSeq []);
   fld_default "speed_sets" opaque (VStr ""); fld_opt "speed_set" opaque;
   fld_default "cat_power_limits" (TSeq sch_catpowerlimit) (VSeq []);
   fld_default "link_idxs_lockout" (TSeq TInt) (VSeq [])].
Definition sch_fricbrake : ty := TRec
  [fnum "force_max"; fnum "ramp_up_time"; fnum "ramp_up_coeff";
   fld_skip_default "state" sch_fricbrakestate fricbrakestate_default;
   fld_default "history" (hist_ty sch_fricbrakestate) (hist_empty sch_fricbrakestate);
   fld_opt "save_interval" TInt].
Definition sch_setspeed_shape : ty := TRec
  [fld "loco_con" sch_consist; fld_skip_default "state" opaque (VStr ""); fld "speed_trace" opaque;
   fld "train_res" opaque; fld "path_tpc" sch_pathtpc; fld_default "history" opaque (VStr "");
   fld_opt "save_interval" TInt].
Definition sch_slts_shape : ty := TRec
  [fld "train_id" TStr; fld "origs" opaque; fld "dests" opaque; fld "loco_con" sch_consist;
   fld_skip_default "state" opaque (VStr ""); fld "train_res" opaque; fld "path_tpc" sch_pathtpc;
   fld "braking_points" opaque; fld "fric_brake" sch_fricbrake; fld_default "history" opaque (VStr "");
   fld_opt "save_interval" TInt; fld_opt "simulation_days" TInt; fld_opt "scenario_year" TInt].
Definition sch_trainconfig_shape : ty := TRec
  [fld "rail_vehicles" opaque; fld "n_cars_by_type" opaque; fld "train_type" sch_traintype;
   fld_opt "train_length" TNum; fld_opt "train_mass" TNum; fld_skip_none "cd_area_vec" (TSeq TNum)].

(* ---------------------------------------------------------------- typed embedding *)
Definition gnum (v : val) : F := match v with VNum (NFin x) => x | _ => n0 end.
Definition gint (v : val) : Z := match v with VInt z => z | _ => 0%Z end.
Definition gbool (v : val) : bool := match v with VBool b => b | _ => false end.
Definition gseqF (v : val) : list F := match v with VSeq l => map gnum l | _ => [] end.
Definition gfld (v : val) (i : nat) : val := match v with VRec l => nth i l VNull | _ => VNull end.
Definition gseq (v : val) : list val := match v with VSeq l => l | _ => [] end.
Definition goptF (v : val) : option F := match v with VNum (NFin x) => Some x | _ => None end.
Definition voptF (o : option F) : val := match o with Some x => vnum x | None => VNull end.

Definition fcstate_to_val (s : FCState (F:=F)) : val :=
  VRec [vz (fcs_i s); vnum (fcs_pwr_out_max s); vnum (fcs_eta s); vnum (fcs_pwr_brake s);
        vnum (fcs_pwr_fuel s); vnum (fcs_pwr_loss s); vnum (fcs_pwr_idle_fuel s);
        vnum (fcs_energy_brake s); vnum (fcs_energy_fuel s); vnum (fcs_energy_loss s);
        vnum (fcs_energy_idle_fuel s); VBool (fcs_engine_on s)].
Definition fcstate_of_val (v : val) : FCState (F:=F) :=
  {| fcs_i := gint (gfld v 0); fcs_pwr_out_max := gnum (gfld v 1); fcs_eta := gnum (gfld v 2);
     fcs_pwr_brake := gnum (gfld v 3); fcs_pwr_fuel := gnum (gfld v 4); fcs_pwr_loss := gnum (gfld v 5);
     fcs_pwr_idle_fuel := gnum (gfld v 6); fcs_energy_brake := gnum (gfld v 7);
     fcs_energy_fuel := gnum (gfld v 8); fcs_energy_loss := gnum (gfld v 9);
     fcs_energy_idle_fuel := gnum (gfld v 10); fcs_engine_on := gbool (gfld v 11) |}.

Definition fc_to_val (c : FC (F:=F)) : val :=
  VRec [fcstate_to_val (fc_state c); VNull; VNull; vnum (fc_pwr_out_max c); vnum (fc_pwr_out_max_init c);
        vnum (fc_pwr_ramp_lag c); vseqF (fc_frac c); vseqF (fc_eta_interp c); vnum (fc_pwr_idle_fuel c);
        VNull; hist_empty sch_fcstate].
Definition fc_of_val (v : val) : FC (F:=F) :=
  {| fc_state := fcstate_of_val (gfld v 0); fc_pwr_out_max := gnum (gfld v 3);
     fc_pwr_out_max_init := gnum (gfld v 4); fc_pwr_ramp_lag := gnum (gfld v 5);
     fc_frac := gseqF (gfld v 6); fc_eta_interp := gseqF (gfld v 7); fc_pwr_idle_fuel := gnum (gfld v 8) |}.

Definition genstate_to_val (s : GenState (F:=F)) : val :=
  VRec [vz (gs_i s); vnum (gs_eta s); vnum (gs_pwr_elec_prop_out_max s); vnum (gs_pwr_elec_out_max s);
        vnum (gs_pwr_rate_out_max s); vnum (gs_pwr_mech_in s); vnum (gs_pwr_elec_prop_out s);
        vnum (gs_pwr_elec_aux s); vnum (gs_pwr_loss s); vnum (gs_energy_mech_in s);
        vnum (gs_energy_elec_prop_out s); vnum (gs_energy_elec_aux s); vnum (gs_energy_loss s)].
Definition genstate_of_val (v : val) : GenState (F:=F) :=
  {| gs_i := gint (gfld v 0); gs_eta := gnum (gfld v 1); gs_pwr_elec_prop_out_max := gnum (gfld v 2);
     gs_pwr_elec_out_max := gnum (gfld v 3); gs_pwr_rate_out_max := gnum (gfld v 4);
     gs_pwr_mech_in := gnum (gfld v 5); gs_pwr_elec_prop_out := gnum (gfld v 6);
     gs_pwr_elec_aux := gnum (gfld v 7); gs_pwr_loss := gnum (gfld v 8);
     gs_energy_mech_in := gnum (gfld v 9); gs_energy_elec_prop_out := gnum (gfld v 10);
     gs_energy_elec_aux := gnum (gfld v 11); gs_energy_loss := gnum (gfld v 12) |}.
Definition gen_to_val (g : Gen (F:=F)) : val :=
  VRec [genstate_to_val (gen_state g); VNull; VNull; vseqF (gen_frac g); vseqF (gen_eta_interp g);
        vseqF (gen_in_frac g); vnum (gen_pwr_out_max g); VNull; hist_empty sch_genstate].
Definition gen_of_val (v : val) : Gen (F:=F) :=
  {| gen_state := genstate_of_val (gfld v 0); gen_frac := gseqF (gfld v 3);
     gen_eta_interp := gseqF (gfld v 4); gen_in_frac := gseqF (gfld v 5); gen_pwr_out_max := gnum (gfld v 6) |}.

Definition edrvstate_to_val (s : EdrvState (F:=F)) : val :=
  VRec [vz (es_i s); vnum (es_eta s); vnum (es_pwr_mech_out_max s); vnum (es_pwr_mech_regen_max s);
        vnum (es_pwr_rate_out_max s); vnum (es_pwr_out_req s); vnum (es_pwr_elec_prop_in s);
        vnum (es_pwr_mech_prop_out s); vnum (es_pwr_mech_dyn_brake s); vnum (es_pwr_elec_dyn_brake s);
        vnum (es_pwr_loss s); vnum (es_energy_elec_prop_in s); vnum (es_energy_mech_prop_out s);
        vnum (es_energy_mech_dyn_brake s); vnum (es_energy_elec_dyn_brake s); vnum (es_energy_loss s)].
Definition edrvstate_of_val (v : val) : EdrvState (F:=F) :=
  {| es_i := gint (gfld v 0); es_eta := gnum (gfld v 1); es_pwr_mech_out_max := gnum (gfld v 2);
     es_pwr_mech_regen_max := gnum (gfld v 3); es_pwr_rate_out_max := gnum (gfld v 4);
     es_pwr_out_req := gnum (gfld v 5); es_pwr_elec_prop_in := gnum (gfld v 6);
     es_pwr_mech_prop_out := gnum (gfld v 7); es_pwr_mech_dyn_brake := gnum (gfld v 8);
     es_pwr_elec_dyn_brake := gnum (gfld v 9); es_pwr_loss := gnum (gfld v 10);
     es_energy_elec_prop_in := gnum (gfld v 11); es_energy_mech_prop_out := gnum (gfld v 12);
     es_energy_mech_dyn_brake := gnum (gfld v 13); es_energy_elec_dyn_brake := gnum (gfld v 14);
     es_energy_loss := gnum (gfld v 15) |}.
Definition edrv_to_val (e : Edrv (F:=F)) : val :=
  VRec [edrvstate_to_val (edrv_state e); vseqF (edrv_frac e); vseqF (edrv_eta_interp e);
        vseqF (edrv_in_frac e); vnum (edrv_pwr_out_max e); VNull; hist_empty sch_edrvstate].
Definition edrv_of_val (v : val) : Edrv (F:=F) :=
  {| edrv_state := edrvstate_of_val (gfld v 0); edrv_frac := gseqF (gfld v 1);
     edrv_eta_interp := gseqF (gfld v 2); edrv_in_frac := gseqF (gfld v 3); edrv_pwr_out_max := gnum (gfld v 4) |}.

(* ReversibleEnergyStorageState: the Rust field order differs from the model record's; pwr_cat_max
   is not in the model (embedded as 0) *)
Definition resstate_to_val (s : ResState (F:=F)) : val :=
  VRec [z0; vnum (rs_pwr_prop_out_max s); vnum (rs_pwr_regen_out_max s); vnum (rs_pwr_disch_max s);
        vnum (rs_pwr_charge_max s); vz (rs_i s); vnum (rs_soc s); vnum (rs_eta s); vnum (rs_soh s);
        vnum (rs_pwr_out_electrical s); vnum (rs_pwr_out_propulsion s); vnum (rs_pwr_aux s);
        vnum (rs_pwr_loss s); vnum (rs_pwr_out_chemical s); vnum (rs_energy_out_electrical s);
        vnum (rs_energy_out_propulsion s); vnum (rs_energy_aux s); vnum (rs_energy_loss s);
        vnum (rs_energy_out_chemical s); vnum (rs_max_soc s); vnum (rs_soc_hi_ramp_start s);
        vnum (rs_min_soc s); vnum (rs_soc_lo_ramp_start s); vnum (rs_temperature s)].
Definition resstate_of_val (v : val) : ResState (F:=F) :=
  {| rs_i := gint (gfld v 5); rs_pwr_prop_out_max := gnum (gfld v 1); rs_pwr_regen_out_max := gnum (gfld v 2);
     rs_pwr_disch_max := gnum (gfld v 3); rs_pwr_charge_max := gnum (gfld v 4);
     rs_pwr_out_electrical := gnum (gfld v 9); rs_pwr_out_propulsion := gnum (gfld v 10);
     rs_pwr_aux := gnum (gfld v 11); rs_pwr_loss := gnum (gfld v 12); rs_pwr_out_chemical := gnum (gfld v 13);
     rs_energy_out_electrical := gnum (gfld v 14); rs_energy_out_propulsion := gnum (gfld v 15);
     rs_energy_aux := gnum (gfld v 16); rs_energy_loss := gnum (gfld v 17);
     rs_energy_out_chemical := gnum (gfld v 18); rs_max_soc := gnum (gfld v 19);
     rs_soc_hi_ramp_start := gnum (gfld v 20); rs_min_soc := gnum (gfld v 21);
     rs_soc_lo_ramp_start := gnum (gfld v 22); rs_soc := gnum (gfld v 6); rs_eta := gnum (gfld v 7);
     rs_soh := gnum (gfld v 8); rs_temperature := gnum (gfld v 23) |}.
Definition res_to_val (r : Res (F:=F)) : val :=
  VRec [resstate_to_val (res_state r); VNull; VNull; VNull; VNull;
        VSeq [vseqF (res_grid_t r); vseqF (res_grid_soc r); vseqF (res_grid_c r)];
        VSeq (map (fun p => VSeq (map vseqF p)) (res_eta_vals r));
        vnum (res_pwr_out_max r); vnum (res_energy_capacity r); vnum (res_min_soc r); vnum (res_max_soc r);
        voptF (res_soc_hi_ramp_start r); voptF (res_soc_lo_ramp_start r); VNull; hist_empty sch_resstate].
Definition res_of_val (v : val) : Res (F:=F) :=
  let g := gseq (gfld v 5) in
  {| res_state := resstate_of_val (gfld v 0);
     res_grid_t := gseqF (nth 0 g VNull); res_grid_soc := gseqF (nth 1 g VNull); res_grid_c := gseqF (nth 2 g VNull);
     res_eta_vals := map (fun p => map gseqF (gseq p)) (gseq (gfld v 6));
     res_pwr_out_max := gnum (gfld v 7); res_energy_capacity := gnum (gfld v 8);
     res_min_soc := gnum (gfld v 9); res_max_soc := gnum (gfld v 10);
     res_soc_hi_ramp_start := goptF (gfld v 11); res_soc_lo_ramp_start := goptF (gfld v 12) |}.

Definition conv_to_val (c : Conv (F:=F)) : val :=
  VRec [fc_to_val (cv_fc c); gen_to_val (cv_gen c); edrv_to_val (cv_edrv c)].
Definition conv_of_val (v : val) : Conv (F:=F) :=
  {| cv_fc := fc_of_val (gfld v 0); cv_gen := gen_of_val (gfld v 1); cv_edrv := edrv_of_val (gfld v 2) |}.
Definition bel_to_val (b : Bel (F:=F)) : val := VRec [res_to_val (bl_res b); edrv_to_val (bl_edrv b)].
Definition bel_of_val (v : val) : Bel (F:=F) :=
  {| bl_res := res_of_val (gfld v 0); bl_edrv := edrv_of_val (gfld v 1) |}.
Definition ptype_to_val (t : Ptype (F:=F)) : val :=
  match t with
  | PConv c => VVar "ConventionalLoco" (conv_to_val c)
  | PBel b => VVar "BatteryElectricLoco" (bel_to_val b)
  end.
Definition ptype_of_val (v : val) : Ptype (F:=F) :=
  match v with
  | VVar tag x => if String.eqb tag "BatteryElectricLoco" then PBel (bel_of_val x) else PConv (conv_of_val x)
  | _ => PConv (conv_of_val VNull)
  end.

Definition locostate_to_val (s : LocoState (F:=F)) : val :=
  VRec [vz (ls_i s); vnum (ls_pwr_out_max s); vnum (ls_pwr_rate_out_max s); vnum (ls_pwr_regen_max s);
        vnum (ls_pwr_out s); vnum (ls_pwr_aux s); vnum (ls_energy_out s); vnum (ls_energy_aux s)].
Definition locostate_of_val (v : val) : LocoState (F:=F) :=
  {| ls_i := gint (gfld v 0); ls_pwr_out_max := gnum (gfld v 1); ls_pwr_rate_out_max := gnum (gfld v 2);
     ls_pwr_regen_max := gnum (gfld v 3); ls_pwr_out := gnum (gfld v 4); ls_pwr_aux := gnum (gfld v 5);
     ls_energy_out := gnum (gfld v 6); ls_energy_aux := gnum (gfld v 7) |}.
Definition loco_to_val (l : Loco (F:=F)) : val :=
  VRec [ptype_to_val (lc_type l); locostate_to_val (lc_state l); VNull; VNull; VNull; VNull; VNull;
        hist_empty sch_locostate; VBool (lc_assert_limits l); vnum (lc_pwr_aux_offset l);
        vnum (lc_pwr_aux_traction_coeff l); z0].
Definition loco_of_val (v : val) : Loco (F:=F) :=
  {| lc_type := ptype_of_val (gfld v 0); lc_state := locostate_of_val (gfld v 1);
     lc_assert_limits := gbool (gfld v 8); lc_pwr_aux_offset := gnum (gfld v 9);
     lc_pwr_aux_traction_coeff := gnum (gfld v 10) |}.

(* typed save / load of a locomotive.  `Locomotive::init` = mass consistency check (the mass
   fields are outside the numeric model, embedded as None: the check passes) followed by the
   components' `init`, which only call `state.init()` (a no-op). *)
Definition loco_encode (l : Loco (F:=F)) : val := enc sch_loco (loco_to_val l).
Definition loco_decode (e : val) : res (Loco (F:=F)) := let? v := dec sch_loco e in Ok (loco_of_val v).
Definition loco_encode_pos (l : Loco (F:=F)) : list (atom F) := encp sch_loco (loco_to_val l).
Definition loco_decode_pos (s : list (atom F)) : res (Loco (F:=F)) :=
  let? vs := decp sch_loco s in Ok (loco_of_val (fst vs)).

(* what a reload returns: the lazily rebuilt input-fraction maps are empty again *)
Definition gen_clear (g : Gen (F:=F)) : Gen (F:=F) :=
  {| gen_state := gen_state g; gen_frac := gen_frac g; gen_eta_interp := gen_eta_interp g;
     gen_in_frac := []; gen_pwr_out_max := gen_pwr_out_max g |}.
Definition edrv_clear (e : Edrv (F:=F)) : Edrv (F:=F) :=
  {| edrv_state := edrv_state e; edrv_frac := edrv_frac e; edrv_eta_interp := edrv_eta_interp e;
     edrv_in_frac := []; edrv_pwr_out_max := edrv_pwr_out_max e |}.
Definition ptype_normalize (t : Ptype (F:=F)) : Ptype (F:=F) :=
  match t with
  | PConv c => PConv {| cv_fc := cv_fc c; cv_gen := gen_clear (cv_gen c); cv_edrv := edrv_clear (cv_edrv c) |}
  | PBel b => PBel {| bl_res := bl_res b; bl_edrv := edrv_clear (bl_edrv b) |}
  end.
Definition loco_normalize (l : Loco (F:=F)) : Loco (F:=F) :=
  {| lc_type := ptype_normalize (lc_type l); lc_state := lc_state l; lc_assert_limits := lc_assert_limits l;
     lc_pwr_aux_offset := lc_pwr_aux_offset l; lc_pwr_aux_traction_coeff := lc_pwr_aux_traction_coeff l |}.

(* ---------------------------------------------------------------- typed embedding of a Consist (Consist.v)
   loco_vec as the sequence of its units' trees, pdct as a unit variant, the state field by field; history empty,
   save_interval None, n_res_equipped (serde(skip)) at its default - the numeric model does not carry them. *)
Definition consiststate_to_val (s : ConsistState (F:=F)) : val :=
  VRec [vz (cs_i s); vnum (cs_pwr_out_max s); vnum (cs_pwr_rate_out_max s); vnum (cs_pwr_regen_max s);
        vnum (cs_pwr_out_max_reves s); vnum (cs_pwr_out_deficit s); vnum (cs_pwr_out_max_non_reves s);
        vnum (cs_pwr_regen_deficit s); vnum (cs_pwr_dyn_brake_max s); vnum (cs_pwr_out_req s); vnum (cs_pwr_cat_lim s);
        vnum (cs_pwr_out s); vnum (cs_pwr_reves s); vnum (cs_pwr_fuel s); vnum (cs_energy_out s);
        vnum (cs_energy_out_pos s); vnum (cs_energy_out_neg s); vnum (cs_energy_res s); vnum (cs_energy_fuel s)].
Definition consiststate_of_val (v : val) : ConsistState (F:=F) :=
  {| cs_i := gint (gfld v 0); cs_pwr_out_max := gnum (gfld v 1); cs_pwr_rate_out_max := gnum (gfld v 2);
     cs_pwr_regen_max := gnum (gfld v 3); cs_pwr_out_max_reves := gnum (gfld v 4); cs_pwr_out_deficit := gnum (gfld v 5);
     cs_pwr_out_max_non_reves := gnum (gfld v 6); cs_pwr_regen_deficit := gnum (gfld v 7);
     cs_pwr_dyn_brake_max := gnum (gfld v 8); cs_pwr_out_req := gnum (gfld v 9); cs_pwr_cat_lim := gnum (gfld v 10);
     cs_pwr_out := gnum (gfld v 11); cs_pwr_reves := gnum (gfld v 12); cs_pwr_fuel := gnum (gfld v 13);
     cs_energy_out := gnum (gfld v 14); cs_energy_out_pos := gnum (gfld v 15); cs_energy_out_neg := gnum (gfld v 16);
     cs_energy_res := gnum (gfld v 17); cs_energy_fuel := gnum (gfld v 18) |}.
Definition pdct_to_val (p : Pdct) : val :=
  match p with Proportional => VVar "Proportional" VNull | RESGreedy => VVar "RESGreedy" VNull end.
Definition pdct_of_val (v : val) : Pdct :=
  match v with VVar tag _ => if String.eqb tag "RESGreedy" then RESGreedy else Proportional | _ => Proportional end.
Definition consist_to_val (c : Consist (F:=F)) : val :=
  VRec [VSeq (map loco_to_val (cn_locos c)); pdct_to_val (cn_pdct c); VBool (cn_assert_limits c);
        consiststate_to_val (cn_state c); hist_empty sch_consiststate; VNull; VNull].
Definition consist_of_val (v : val) : Consist (F:=F) :=
  {| cn_locos := map loco_of_val (gseq (gfld v 0)); cn_pdct := pdct_of_val (gfld v 1);
     cn_assert_limits := gbool (gfld v 2); cn_state := consiststate_of_val (gfld v 3) |}.
Definition consist_encode (c : Consist (F:=F)) : val := enc sch_consist (consist_to_val c).
Definition consist_decode (e : val) : res (Consist (F:=F)) := let? v := dec sch_consist e in Ok (consist_of_val v).
Definition consist_encode_pos (c : Consist (F:=F)) : list (atom F) := encp sch_consist (consist_to_val c).
Definition consist_decode_pos (s : list (atom F)) : res (Consist (F:=F)) :=
  let? vs := decp sch_consist s in Ok (consist_of_val (fst vs)).
Definition consist_normalize (c : Consist (F:=F)) : Consist (F:=F) :=
  {| cn_locos := map loco_normalize (cn_locos c); cn_pdct := cn_pdct c; cn_assert_limits := cn_assert_limits c;
     cn_state := cn_state c |}.

End Schemas.
