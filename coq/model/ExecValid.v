(* ExecValid.v -- binary64 entry points of the validation model (C16) for the correspondence check. *)
From Coq Require Import ZArith NArith List Bool Floats Uint63.
From AltModel Require Import Num Validate.
Import ListNotations.

Definition two52 : float := PrimFloat.of_uint63 4503599627370496%uint63.
(* f64: !(x.is_nan() || x.is_infinite()) *)
Definition f_fin (x : float) : bool := PrimFloat.ltb (PrimFloat.abs x) PrimFloat.infinity.
(* f64: x.trunc() == x.  Below 2^52, adding and subtracting 2^52 rounds to the nearest integer,
   which equals |x| exactly when |x| is integral; from 2^52 on every double is integral. *)
Definition f_int (x : float) : bool :=
  if PrimFloat.is_nan x then false else
  if PrimFloat.is_infinity x then true else
  let a := PrimFloat.abs x in
  if PrimFloat.leb two52 a then true
  else PrimFloat.eqb (PrimFloat.sub (PrimFloat.add a two52) two52) a.
(* uc::REV = 6.283_185_307_179_586 rad *)
Definition f_rev : float := Fp 7074237752028440 2051.

Definition fNP : NumPred float := {| np_fin := f_fin; np_int := f_int; np_rev := f_rev |}.

Notation Linkf := (Link (F:=float)).
Notation LinkOldf := (LinkOld (F:=float)).

(* Network::from_json / from_yaml / from_file / init: outcome only *)
Definition x_validate (n : list Linkf) : list out :=
  res_outs (validate_network fNP true n) (fun _ => []).
(* the code as it stands in /repo (inverted catenary test, unchecked indexing) *)
Definition x_validate_current (n : list Linkf) : list out :=
  res_outs (validate_network fNP false n) (fun _ => []).
(* legacy layout: NetworkOld -> Network, then init *)
Definition x_validate_legacy (o : list LinkOldf) : list out :=
  res_outs (validate_network fNP true (convert o)) (fun _ => []).
(* ObjState for Link::validate on one link *)
Definition x_validate_link (l : Linkf) : list out :=
  res_outs (let? b := validate_link fNP true l in if b then Ok tt else Err ERR_VALIDATION) (fun _ => []).
