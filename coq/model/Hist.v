(* Hist.v -- step counters, save intervals and histories of the simulation object tree (C19).

   Purely discrete.  Every object that owns a `state` with a counter `i`, a `history` and a
   `save_interval` is a [node]: the counter, the interval and the list of the counter values
   at which a state was pushed (= the `i` column of its `*HistoryVec`, oldest first).

   Transcribed from
     altrios-proc-macros/src/hm_derive.rs       derive(HistoryMethods): step / save_state
     consist/locomotive/locomotive_model.rs     Locomotive::{step, save_state, set_save_interval}
     consist/consist_model.rs                   Consist::{step, save_state, set_save_interval}
     consist/locomotive/loco_sim.rs             LocomotiveSimulation::{new, step, walk}
     consist/consist_sim.rs                     ConsistSimulation::{new, step, walk}
     train/set_speed_train_sim.rs               SetSpeedTrainSim::{step, save_state, walk, set_save_interval}
     train/speed_limit_train_sim.rs             SpeedLimitTrainSim::{step, save_state, walk, walk_timed_path,
                                                set_save_interval}; FricBrake is derive(HistoryMethods)

   The numeric content of a step is irrelevant to this property: `solve_step` is represented by
   its outcome (a boolean input: accepted / returned Err), which the correspondence takes from the
   implementation.  A Rust `i % 0` is a panic: [Panic 1900]. *)
From Coq Require Import List Bool Arith ZArith.
From AltModel Require Import Num.
Import ListNotations.

Record node := { nd_i : nat; nd_si : option nat; nd_hist : list nat }.

(* `self.state.i += 1` *)
Definition node_step (x : node) : node :=
  {| nd_i := S (nd_i x); nd_si := nd_si x; nd_hist := nd_hist x |}.
(* `self.history.push(self.state)` *)
Definition node_push (x : node) : node :=
  {| nd_i := nd_i x; nd_si := nd_si x; nd_hist := nd_hist x ++ [nd_i x] |}.
Definition node_set_si (si : option nat) (x : node) : node :=
  {| nd_i := nd_i x; nd_si := si; nd_hist := nd_hist x |}.

(* `if let Some(interval) = self.save_interval { if self.state.i % interval == 0 {..} }`:
   Ok true = body runs, Ok false = skipped, Panic = remainder by zero *)
Definition gate (x : node) : res bool :=
  match nd_si x with
  | None => Ok false
  | Some n => match n with
              | 0 => Panic 1900
              | _ => Ok (Nat.eqb (Nat.modulo (nd_i x) n) 0)
              end
  end.

(* save_state of a leaf component (FuelConverter, Generator, ElectricDrivetrain,
   ReversibleEnergyStorage, FricBrake): struct has `state` and `save_interval`, no #[has_state] *)
Definition node_save (x : node) : res node :=
  let? g := gate x in Ok (if g then node_push x else x).

(* sequential `for x in xs.iter_mut() { f(x) }` where f may panic *)
Fixpoint mapM {A} (f : A -> res A) (l : list A) : res (list A) :=
  match l with
  | [] => Ok []
  | x :: t => let? x' := f x in let? t' := mapM f t in Ok (x' :: t')
  end.

(* A locomotive: its own state/history/interval and the components of its powertrain, in
   field order (ConventionalLoco: fc, gen, edrv; BatteryElectricLoco: res, edrv; HybridLoco:
   fc, gen, res, edrv; DummyLoco: none).  ConventionalLoco / BatteryElectricLoco / HybridLoco
   have neither `state` nor `save_interval`: their derived step()/save_state() just forward to
   every #[has_state] field, unconditionally. *)
Record loco := { lc_comps : list node; lc_nd : node }.

(* Locomotive::step: `self.loco_type.step(); self.state.i += 1;` *)
Definition loco_step (l : loco) : loco :=
  {| lc_comps := map node_step (lc_comps l); lc_nd := node_step (lc_nd l) |}.
(* Locomotive::save_state: `self.loco_type.save_state();` then the locomotive's own gate *)
Definition loco_save (l : loco) : res loco :=
  let? cs := mapM node_save (lc_comps l) in
  let? g := gate (lc_nd l) in
  Ok {| lc_comps := cs; lc_nd := if g then node_push (lc_nd l) else lc_nd l |}.
Definition loco_set_si (si : option nat) (l : loco) : loco :=
  {| lc_comps := map (node_set_si si) (lc_comps l); lc_nd := node_set_si si (lc_nd l) |}.

Record consist := { cn_locos : list loco; cn_nd : node }.

(* Consist::step: every locomotive, then `self.state.i += 1` *)
Definition consist_step (c : consist) : consist :=
  {| cn_locos := map loco_step (cn_locos c); cn_nd := node_step (cn_nd c) |}.
(* Consist::save_state: the locomotives are saved INSIDE the consist's own gate *)
Definition consist_save (c : consist) : res consist :=
  let? g := gate (cn_nd c) in
  if g then
    let? ls := mapM loco_save (cn_locos c) in
    Ok {| cn_locos := ls; cn_nd := node_push (cn_nd c) |}
  else Ok c.
Definition consist_set_si (si : option nat) (c : consist) : consist :=
  {| cn_locos := map (loco_set_si si) (cn_locos c); cn_nd := node_set_si si (cn_nd c) |}.

(* ------------------------------------------------------------------ simulations *)
(* LocomotiveSimulation { loco_unit, i }  (the simulation's own counter has no history) *)
Record lsim := { ls_loco : loco; ls_i : nat }.
(* ConsistSimulation { loco_con, i } *)
Record csim := { cs_con : consist; cs_i : nat }.
(* SetSpeedTrainSim { loco_con, state, history, save_interval } *)
Record ssim := { ss_con : consist; ss_nd : node }.
(* SpeedLimitTrainSim { loco_con, fric_brake, state, history, save_interval } *)
Record tsim := { ts_con : consist; ts_fric : node; ts_nd : node }.

(* one public call on a simulation object *)
Inductive cmd :=
| CSave                  (* the `self.save_state()` with which walk()/walk_timed_path() start *)
| CStep (ok : bool)      (* step(); ok = solve_step returned Ok *)
| CSetSI (si : option nat). (* set_save_interval(si) *)

(* Result of a call through `&mut self`: the object as the call leaves it, and what the call
   returned.  [None] = returned normally / Ok(()); [Some (Err c)] = returned Err; a panic is
   [Some (Panic c)] (the object is then whatever the model had reached; it is never used). *)
Definition call (A : Type) := (A * option (res unit))%type.
Definition ret {A} (a : A) : call A := (a, None).
Definition of_res {A} (old : A) (r : res A) : call A :=
  match r with
  | Ok a => (a, None)
  | Err c => (old, Some (Err c))
  | Panic c => (old, Some (Panic c))
  end.

(* step(): `self.solve_step()?; self.save_state(); self.i += 1; self.loco_unit.step();`
   A failing solve_step returns before anything that touches a counter or a history. *)
Definition lsim_save (s : lsim) : res lsim :=
  let? l := loco_save (ls_loco s) in Ok {| ls_loco := l; ls_i := ls_i s |}.
Definition lsim_cmd (s : lsim) (c : cmd) : call lsim :=
  match c with
  | CSave => of_res s (lsim_save s)
  | CStep false => (s, Some (Err 1901))
  | CStep true =>
      of_res s (let? s1 := lsim_save s in
                Ok {| ls_loco := loco_step (ls_loco s1); ls_i := S (ls_i s1) |})
  | CSetSI si => ret {| ls_loco := loco_set_si si (ls_loco s); ls_i := ls_i s |}
  end.

Definition csim_save (s : csim) : res csim :=
  let? c := consist_save (cs_con s) in Ok {| cs_con := c; cs_i := cs_i s |}.
Definition csim_cmd (s : csim) (c : cmd) : call csim :=
  match c with
  | CSave => of_res s (csim_save s)
  | CStep false => (s, Some (Err 1901))
  | CStep true =>
      of_res s (let? s1 := csim_save s in
                Ok {| cs_con := consist_step (cs_con s1); cs_i := S (cs_i s1) |})
  | CSetSI si => ret {| cs_con := consist_set_si si (cs_con s); cs_i := cs_i s |}
  end.

(* SetSpeedTrainSim::save_state: own gate; inside it push and `self.loco_con.save_state()` *)
Definition ssim_save (s : ssim) : res ssim :=
  let? g := gate (ss_nd s) in
  if g then
    let? c := consist_save (ss_con s) in
    Ok {| ss_con := c; ss_nd := node_push (ss_nd s) |}
  else Ok s.
(* step(): solve_step()?; save_state(); loco_con.step(); state.i += 1 *)
Definition ssim_cmd (s : ssim) (c : cmd) : call ssim :=
  match c with
  | CSave => of_res s (ssim_save s)
  | CStep false => (s, Some (Err 1901))
  | CStep true =>
      of_res s (let? s1 := ssim_save s in
                Ok {| ss_con := consist_step (ss_con s1); ss_nd := node_step (ss_nd s1) |})
  | CSetSI si => ret {| ss_con := consist_set_si si (ss_con s); ss_nd := node_set_si si (ss_nd s) |}
  end.

(* SpeedLimitTrainSim::save_state: own gate; inside it push, loco_con.save_state(),
   fric_brake.save_state() *)
Definition tsim_save (s : tsim) : res tsim :=
  let? g := gate (ts_nd s) in
  if g then
    let? c := consist_save (ts_con s) in
    let? f := node_save (ts_fric s) in
    Ok {| ts_con := c; ts_fric := f; ts_nd := node_push (ts_nd s) |}
  else Ok s.
(* step(): solve_step()?; save_state(); loco_con.step(); fric_brake.step(); state.i += 1 *)
Definition tsim_cmd (s : tsim) (c : cmd) : call tsim :=
  match c with
  | CSave => of_res s (tsim_save s)
  | CStep false => (s, Some (Err 1901))
  | CStep true =>
      of_res s (let? s1 := tsim_save s in
                Ok {| ts_con := consist_step (ts_con s1); ts_fric := node_step (ts_fric s1);
                      ts_nd := node_step (ts_nd s1) |})
  | CSetSI si => ret {| ts_con := consist_set_si si (ts_con s);
                        ts_fric := node_set_si si (ts_fric s);
                        ts_nd := node_set_si si (ts_nd s) |}
  end.

(* A sequence of calls; stops at the first call that does not return normally (a caller using
   `?`, e.g. the `while .. { self.step()? }` loops of walk / walk_timed_path). *)
Section Calls.
  Context {A : Type} (f : A -> cmd -> call A).
  Fixpoint calls (s : A) (cs : list cmd) : call A :=
    match cs with
    | [] => (s, None)
    | c :: t => match f s c with
                | (s', None) => calls s' t
                | (s', Some e) => (s', Some e)
                end
    end.
End Calls.

(* walk() with the solve outcomes [oks]: initial save, then one step per element *)
Definition walk_cmds (oks : list bool) : list cmd := CSave :: map CStep oks.

(* ------------------------------------------------------------------ fresh objects *)
(* every `*State::default()` has i = 1; every history starts empty *)
Definition fresh_node (si : option nat) : node := {| nd_i := 1; nd_si := si; nd_hist := [] |}.
Definition fresh_loco (si : option nat) (ncomp : nat) : loco :=
  {| lc_comps := repeat (fresh_node si) ncomp; lc_nd := fresh_node si |}.
(* a consist described by the number of components of each unit (3 conventional, 2 battery
   electric, 4 hybrid, 0 dummy) *)
Definition fresh_consist (si : option nat) (shape : list nat) : consist :=
  {| cn_locos := map (fresh_loco si) shape; cn_nd := fresh_node si |}.
