(* TrainStep.v -- set_link_and_offset, SetSpeedTrainSim::{solve_step, solve_required_pwr, step, walk},
   FricBrake::set_cur_force_max_out, SpeedLimitTrainSim::{solve_step, solve_required_pwr, step,
   walk_internal}  (rust/altrios-core/src/train/{train_state,set_speed_train_sim,
   speed_limit_train_sim,friction_brakes}.rs), transcribed operation for operation.

   The locomotive consist is an INPUT of the train step: the limits it publishes for the step
   ([ConLim]: state.pwr_out_max, state.pwr_rate_out_max, state.pwr_dyn_brake_max after
   set_cur_pwr_max_out, and force_max()) are parameters; its own bookkeeping is Consist.v.
   An error raised inside the consist calls is outside this model (the harness separates them).

   Two deliberate differences from the unchanged tree: (repo_patches/C12-offset-back.diff) after the
   position update both simulations refresh [offset_back := offset - length]; the unchanged code
   leaves the rear position of the PREVIOUS step in the saved row; (repo_patches/
   C14-negative-first-sample.diff) SetSpeedTrainSim also rejects a negative PREVIOUS sample, the
   unchanged code never looks at the sign of the trace's first sample. *)
From Coq Require Import ZArith List Bool.
From AltModel Require Import Num Interp Resist Braking.
Import ListNotations.
Local Open Scope num_scope.

Section TrainStep.
Context {F : Type} {NO : NumOps F}.

(* ---------------------------------------------------------------- set_link_and_offset *)
Record LinkPt := { lp_offset : F; lp_link : Z }.

(* link_points.iter().position(|lp| lp.offset >= offset) *)
Fixpoint lp_position (lps : list LinkPt) (x : F) (i : nat) : option nat :=
  match lps with
  | [] => None
  | p :: t => if x <=? lp_offset p then Some i else lp_position t x (S i)
  end.

(* Panic 1210 = [position - 1] with position = 0 (usize underflow; with overflow checks off the
   wrapped index makes [get] return None, i.e. Err 1211); Err 1211 = [.get(idx)] is None.
   Returns (link_idx_front, offset_in_link). *)
Definition set_link_and_offset (lps : list LinkPt) (offset : F) : res (Z * F) :=
  let pos := match lp_position lps offset 0 with Some p => p | None => length lps end in
  match pos with
  | O => Panic 1210
  | S idx => match nth_error lps idx with
             | None => Err 1211
             | Some p => Ok (lp_link p, offset - lp_offset p)
             end
  end.

(* ---------------------------------------------------------------- the route and train as seen by a step *)
Record Env := {
  e_grades : list (PRC (F:=F)); e_curves : list (PRC (F:=F)); e_lps : list LinkPt;
  e_rp : ResParams (F:=F) }.

(* limits published by the consist for this step *)
Record ConLim := { cl_pwr_out_max : F; cl_pwr_rate_out_max : F; cl_pwr_dyn_brake_max : F;
                   cl_force_max : F }.

Definition two : F := nofZ 2.
Definition four : F := nofZ 4.

(* pwr_out_max.min(ZERO.max(pwr_whl_out + pwr_rate_out_max * state.dt)) -- note: [dt_prev] is the
   step size stored in the state, i.e. the PREVIOUS step's dt in SetSpeedTrainSim *)
Definition pwr_pos_max_of (cl : ConLim) (whl_prev dt_prev : F) : F :=
  nmin (cl_pwr_out_max cl) (nmax n0 (whl_prev + cl_pwr_rate_out_max cl * dt_prev)).
Definition pwr_neg_max_of (cl : ConLim) : F := nmax (cl_pwr_dyn_brake_max cl) n0.
(* x.max(-neg).min(pos) *)
Definition clip (x neg pos : F) : F := nmin (nmax x (- neg)) pos.

Definition mk_pw (pres pacc whl dt : F) (w : Pw (F:=F)) : Pw :=
  {| w_pwr_res := pres; w_pwr_accel := pacc; w_pwr_whl_out := whl;
     w_energy_whl_out := w_energy_whl_out w + whl * dt;
     w_energy_whl_out_pos := if n0 <=? whl then w_energy_whl_out_pos w + whl * dt
                             else w_energy_whl_out_pos w;
     w_energy_whl_out_neg := if n0 <=? whl then w_energy_whl_out_neg w
                             else w_energy_whl_out_neg w - whl * dt |}.

(* ---------------------------------------------------------------- SetSpeedTrainSim::solve_step
   Panic 1201 speed[i] out of bounds, Err 1202 negative trace speed (sample i, and -- the fix --
   sample i-1), Panic 1203 time[i] out of bounds, Panic 1204 [i - 1] at i = 0,
   Err 1205 ensure!(pwr_pos_max >= 0). *)
Definition ss_solve_step (e : Env) (times speeds : list F) (cl : ConLim)
    (st : TState (F:=F)) (c : ResCache) : res (TState (F:=F) * ResCache) :=
  let i := k_i (ts_k st) in
  match nth_error speeds i with
  | None => Panic 1201
  | Some v_i =>
    let? _ := ensure (n0 <=? v_i) 1202 in
    match i with
    | O => Panic 1204
    | S im1 =>
      match nth_error speeds im1 with
      | None => Panic 1201
      | Some v_p =>
        (* the fix (repo_patches/C14-negative-first-sample.diff): the previous sample is checked too,
           so that the first sample of the trace cannot be negative *)
        let? _ := ensure (n0 <=? v_p) 1202 in
        match nth_error times i, nth_error times im1 with
        | Some t_i, Some t_p =>
          let dt_i := t_i - t_p in
          let? (st1, c1) := strap_update_res (e_grades e) (e_curves e) (e_rp e) st c DFwd in
          let k := ts_k st1 in let p := ts_p st1 in let w := ts_w st1 in
          (* solve_required_pwr *)
          let pwr_pos_max := pwr_pos_max_of cl (w_pwr_whl_out w) (k_dt k) in
          let pwr_neg_max := pwr_neg_max_of cl in
          let? _ := ensure (n0 <=? pwr_pos_max) 1205 in
          let mean := half * (v_i + v_p) in
          let pres := res_net (ts_r st1) * mean in
          let pacc := mass_compound p / (two * dt_i) * (v_i * v_i - v_p * v_p) in
          let whl := clip (pacc + pres) pwr_neg_max pwr_pos_max in
          (* solve_step, after the consist *)
          let offset' := k_offset k + mean * dt_i in
          let? (lnk, oil) := set_link_and_offset (e_lps e) offset' in
          Ok ({| ts_k := {| k_time := t_i; k_i := k_i k; k_offset := offset';
                            k_offset_back := offset' - p_length p;
                            k_total_dist := k_total_dist k + nabs (mean * dt_i);
                            k_link_idx_front := lnk; k_offset_in_link := oil;
                            k_speed := v_i; k_speed_limit := k_speed_limit k;
                            k_speed_target := k_speed_target k; k_dt := dt_i |};
                 ts_p := p; ts_r := ts_r st1; ts_w := mk_pw pres pacc whl dt_i w |}, c1)
        | _, _ => Panic 1203
        end
      end
    end
  end.

Definition bump_i (st : TState (F:=F)) : TState :=
  let k := ts_k st in
  {| ts_k := {| k_time := k_time k; k_i := S (k_i k); k_offset := k_offset k;
                k_offset_back := k_offset_back k; k_total_dist := k_total_dist k;
                k_link_idx_front := k_link_idx_front k; k_offset_in_link := k_offset_in_link k;
                k_speed := k_speed k; k_speed_limit := k_speed_limit k;
                k_speed_target := k_speed_target k; k_dt := k_dt k |};
     ts_p := ts_p st; ts_r := ts_r st; ts_w := ts_w st |}.

(* SetSpeedTrainSim::step: solve_step; save_state; state.i += 1.  The row pushed to the history
   is the state BEFORE the increment: it is the first component of the result. *)
Definition ss_step (e : Env) (times speeds : list F) (cl : ConLim)
    (sc : TState (F:=F) * ResCache) : res (TState (F:=F) * ResCache) :=
  let? (st', c') := ss_solve_step e times speeds cl (fst sc) (snd sc) in
  Ok (bump_i st', c').

(* ---------------------------------------------------------------- FricBrake *)
Record FricBrake := { fb_force_max : F; fb_ramp_up_time : F; fb_ramp_up_coeff : F;
                      fb_force : F; fb_force_max_curr : F }.

(* ---------------------------------------------------------------- SpeedLimitTrainSim::solve_step
   Err 1301 "Insufficient braking force", Err 1205 ensure!(pwr_pos_max >= 0),
   Err 1302 "Train does not have sufficient power to move!",
   Err 1303 "Too much force requested from friction brake!",
   Err 1304 "Power wheel out is larger than max positive power!",
   Err 1305 "Power wheel out is larger than max negative power!";
   Panics: only through [calc_speeds]. *)
Definition eps7 : F := nlit 1 (-7).
Definition mph_tenth : F := nlit 44704 (-5) * nlit 1 (-1).

Record SLState := { sl_st : TState (F:=F); sl_cache : ResCache; sl_fb : FricBrake; sl_idx : nat }.

(* the un-snapped new speed, exposed for the kinematic theorems *)
Record SLAux := { ax_speed_raw : F; ax_vel_avg : F; ax_f_applied : F; ax_f_target : F;
                  ax_f_pos_max : F; ax_f_brake_avail : F; ax_res_net : F }.

Definition sl_solve_step_aux (e : Env) (pts : list (BP (F:=F))) (cl : ConLim) (s : SLState)
  : res (SLState * SLAux) :=
  let fb := sl_fb s in
  let? (st1, c1) := strap_update_res (e_grades e) (e_curves e) (e_rp e) (sl_st s) (sl_cache s) DFwd in
  let k := ts_k st1 in let p := ts_p st1 in let w := ts_w st1 in
  let rn := res_net (ts_r st1) in
  let? _ := ensure (n0 <? fb_force_max fb + rn) 1301 in
  let? (ic, speed_limit, speed_target) :=
    calc_speeds pts (sl_idx s) (k_offset k) (k_speed k) (fb_ramp_up_time fb * fb_ramp_up_coeff fb) in
  let dt := k_dt k in
  let mc := mass_compound p in
  let f_applied_target := rn + mc * (speed_target - k_speed k) / dt in
  let pwr_pos_max := pwr_pos_max_of cl (w_pwr_whl_out w) dt in
  let pwr_neg_max := pwr_neg_max_of cl in
  let? _ := ensure (n0 <=? pwr_pos_max) 1205 in
  let tpm := dt / mc in
  let a := k_speed k - rn * tpm in
  let v_max := half * (a + nsqrt (a * a + four * tpm * pwr_pos_max)) in
  let f_pos_max := nmin (cl_force_max cl) (pwr_pos_max / nmin speed_target v_max) in
  (* /repo fix: ... or the train would be pushed backwards within this step (the speed after it would be negative) *)
  let? _ := ensure (negb (((k_speed k <? mph_tenth) && (f_pos_max <=? rn)) || (k_speed k + tpm * (f_pos_max - rn) <? n0))) 1302 in
  (* fric_brake.set_cur_force_max_out(dt) *)
  let fmc := nmin (fb_force fb + fb_force_max fb / fb_ramp_up_time fb * dt) (fb_force_max fb) in
  let v_neg_trac_lim := cl_pwr_dyn_brake_max cl / cl_force_max cl in
  let f_regen_dyn := if v_neg_trac_lim <? k_speed k then cl_pwr_dyn_brake_max cl / v_max
                     else cl_force_max cl in
  let f_applied := nmin f_pos_max (nmax f_applied_target (- fmc - f_regen_dyn)) in
  let vel_change := tpm * (f_applied - rn) in
  let vel_avg := k_speed k + half * vel_change in
  let pres := rn * vel_avg in
  let pacc := mc / (two * dt) * ((k_speed k + vel_change) * (k_speed k + vel_change)
                                 - k_speed k * k_speed k) in
  let time' := k_time k + dt in
  let offset' := k_offset k + dt * vel_avg in
  let dist' := k_total_dist k + nabs (dt * vel_avg) in
  let speed_raw := k_speed k + vel_change in
  let speed' := if almost_eq speed_raw speed_target eps8 then speed_target else speed_raw in
  let? (f_consist, fb_force') :=
    if n0 <=? f_applied then Ok (f_applied, n0)
    else
      let fc := f_applied + fb_force fb in
      if n0 <=? fc then Ok (n0, fb_force fb)
      else if n0 <=? fc + f_regen_dyn then Ok (fc, fb_force fb)
      else
        let ff := - (f_applied + f_regen_dyn) in
        let? _ := ensure (almost_le ff fmc eps8) 1303 in
        Ok (- f_regen_dyn, ff) in
  let whl0 := f_consist * speed' in
  let? _ := ensure (almost_le whl0 pwr_pos_max eps7) 1304 in
  let? _ := ensure (almost_le (- whl0) pwr_neg_max eps7) 1305 in
  let whl := clip whl0 pwr_neg_max pwr_pos_max in
  let? (lnk, oil) := set_link_and_offset (e_lps e) offset' in
  Ok ({| sl_st :=
           {| ts_k := {| k_time := time'; k_i := k_i k; k_offset := offset';
                         k_offset_back := offset' - p_length p; k_total_dist := dist';
                         k_link_idx_front := lnk; k_offset_in_link := oil;
                         k_speed := speed'; k_speed_limit := speed_limit;
                         k_speed_target := speed_target; k_dt := dt |};
              ts_p := p; ts_r := ts_r st1; ts_w := mk_pw pres pacc whl dt w |};
         sl_cache := c1;
         sl_fb := {| fb_force_max := fb_force_max fb; fb_ramp_up_time := fb_ramp_up_time fb;
                     fb_ramp_up_coeff := fb_ramp_up_coeff fb; fb_force := fb_force';
                     fb_force_max_curr := fmc |};
         sl_idx := ic |},
      {| ax_speed_raw := speed_raw; ax_vel_avg := vel_avg; ax_f_applied := f_applied;
         ax_f_target := f_applied_target; ax_f_pos_max := f_pos_max;
         ax_f_brake_avail := fmc + f_regen_dyn; ax_res_net := rn |}).

Definition sl_solve_step (e : Env) (pts : list (BP (F:=F))) (cl : ConLim) (s : SLState) : res SLState :=
  let? (s', _) := sl_solve_step_aux e pts cl s in Ok s'.

Definition sl_bump (s : SLState) : SLState :=
  {| sl_st := bump_i (sl_st s); sl_cache := sl_cache s; sl_fb := sl_fb s; sl_idx := sl_idx s |}.

Definition sl_step (e : Env) (pts : list (BP (F:=F))) (cl : ConLim) (s : SLState) : res SLState :=
  let? s' := sl_solve_step e pts cl s in Ok (sl_bump s').

(* ---------------------------------------------------------------- walk_internal
   while offset < offset_end - 1000 ft || (offset < offset_end && speed != 0) { step()? }
   The consist's limits may differ at every step: [cls] supplies them ([cls k] for the k-th
   iteration).  Err 1399 = fuel exhausted (the loop has no bound in the code). *)
Definition ft1000 : F := nofZ 1000 * nlit 3048 (-4).

Definition walk_cond (offset_end : F) (s : SLState) : bool :=
  let k := ts_k (sl_st s) in
  (k_offset k <? offset_end - ft1000)
  || ((k_offset k <? offset_end) && negb (k_speed k =? n0)).

(* the fix (repo_patches/C03-walk-terminates.diff): a train at rest with a zero target outside the
   stopping window can never leave the loop; the patched loop reports it (Err 1306) *)
Definition walk_stuck (offset_end : F) (s : SLState) : bool :=
  let k := ts_k (sl_st s) in
  Nat.ltb 1 (k_i k) && (k_speed k =? n0) && (k_speed_target k =? n0)
  && (k_offset k <? offset_end - ft1000).

Fixpoint sl_walk (fuel : nat) (e : Env) (pts : list (BP (F:=F))) (offset_end : F)
    (cls : nat -> ConLim) (n : nat) (s : SLState) : res SLState :=
  if walk_cond offset_end s then
    match fuel with
    | O => Err 1399
    | S f => let? _ := ensure (negb (walk_stuck offset_end s)) 1306 in
             let? s' := sl_step e pts (cls n) s in sl_walk f e pts offset_end cls (S n) s'
    end
  else Ok s.

(* ---------------------------------------------------------------- TrainState::new
   The state a simulation starts from (row 0 of its history): the front is at max(initial offset, length)
   (an unset initial offset is NaN and f64::max then yields the length), the rear one train length behind. *)
Definition ts_new (length mass_static mass_rot mass_freight : F) (t0 : F) (offset0 : option F) (v0 : F)
  : TState (F:=F) :=
  let offset := match offset0 with Some o => nmax o length | None => length end in
  {| ts_k := {| k_time := t0; k_i := 1; k_offset := offset; k_offset_back := offset - length;
                k_total_dist := n0; k_link_idx_front := 0%Z; k_offset_in_link := n0;
                k_speed := v0; k_speed_limit := v0; k_speed_target := n0; k_dt := n1 |};
     ts_p := {| p_length := length; p_mass_static := mass_static; p_mass_rot := mass_rot;
                p_mass_freight := mass_freight |};
     ts_r := {| r_weight_static := n0; r_rolling := n0; r_bearing := n0; r_davis_b := n0; r_aero := n0;
                r_grade := n0; r_curve := n0; r_grade_front := n0; r_grade_back := n0; r_elev_front := n0 |};
     ts_w := {| w_pwr_res := n0; w_pwr_accel := n0; w_pwr_whl_out := n0; w_energy_whl_out := n0;
                w_energy_whl_out_pos := n0; w_energy_whl_out_neg := n0 |} |}.

End TrainStep.
