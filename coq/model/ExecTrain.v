(* ExecTrain.v -- binary64 entry points of the train-level model (Resist, Braking, TrainStep) for
   the correspondence checks of C03, C07, C12, C14.  Every entry point returns [list out]; the first
   element is the outcome tag (0 Ok / 1 Err code / 2 Panic code).  Field orders are the orders in
   which harness/src/train.rs lists the implementation's fields. *)
From Coq Require Import ZArith List Bool Floats.
From AltModel Require Import Num Interp Resist Braking TrainStep.
Import ListNotations.

Notation TStatef := (TState (F:=float)).
Notation Envf := (Env (F:=float)).
Notation ConLimf := (ConLim (F:=float)).
Notation PRCf := (PRC (F:=float)).
Notation BPf := (BP (F:=float)).
Notation SLStatef := (SLState (F:=float)).

Definition nat_out (n : nat) : out := OZ (Z.of_nat n).

(* all of TrainState, in the order of the Rust struct *)
Definition ts_outs (s : TStatef) : list out :=
  let k := ts_k s in let p := ts_p s in let r := ts_r s in let w := ts_w s in
  [OF (k_time k); nat_out (k_i k); OF (k_offset k); OF (k_offset_back k); OF (k_total_dist k);
   OZ (k_link_idx_front k); OF (k_offset_in_link k); OF (k_speed k); OF (k_speed_limit k);
   OF (k_speed_target k); OF (k_dt k);
   OF (p_length p); OF (p_mass_static p); OF (p_mass_rot p); OF (p_mass_freight p);
   OF (r_weight_static r); OF (r_rolling r); OF (r_bearing r); OF (r_davis_b r); OF (r_aero r);
   OF (r_grade r); OF (r_curve r); OF (r_grade_front r); OF (r_grade_back r); OF (r_elev_front r);
   OF (w_pwr_res w); OF (w_pwr_accel w); OF (w_pwr_whl_out w); OF (w_energy_whl_out w);
   OF (w_energy_whl_out_pos w); OF (w_energy_whl_out_neg w)].

Definition cache_outs (c : ResCache) : list out :=
  [nat_out (si_front (rc_grade c)); nat_out (si_back (rc_grade c));
   nat_out (si_front (rc_curve c)); nat_out (si_back (rc_curve c))].

Definition sc_outs (sc : TStatef * ResCache) : list out := ts_outs (fst sc) ++ cache_outs (snd sc).

Definition sl_outs (s : SLStatef) : list out :=
  ts_outs (sl_st s) ++ cache_outs (sl_cache s) ++
  [OF (fb_force (sl_fb s)); OF (fb_force_max_curr (sl_fb s)); nat_out (sl_idx s)].

Definition bp_outs (p : BPf) : list out := [OF (bp_offset p); OF (bp_limit p); OF (bp_target p)].

(* ---- entry points ---- *)
Definition x_calc_idx (tbl : list PRCf) (x : float) (idx : nat) (dir : Dir) : list out :=
  res_outs (calc_idx tbl x idx dir) (fun i => [nat_out i]).

Definition x_set_link (lps : list (LinkPt (F:=float))) (offset : float) : list out :=
  res_outs (set_link_and_offset lps offset) (fun r => [OZ (fst r); OF (snd r)]).

Definition x_update_res (grades curves : list PRCf) (rp : ResParams (F:=float)) (st : TStatef)
    (c : ResCache) (dir : Dir) : list out :=
  res_outs (strap_update_res grades curves rp st c dir) sc_outs.

Definition x_ss_step (e : Envf) (times speeds : list float) (cl : ConLimf) (st : TStatef)
    (c : ResCache) : list out :=
  res_outs (ss_step e times speeds cl (st, c)) sc_outs.

Definition x_sl_step (e : Envf) (pts : list BPf) (cl : ConLimf) (s : SLStatef) : list out :=
  res_outs (sl_step e pts cl s) sl_outs.

Definition x_calc_speeds (pts : list BPf) (idx : nat) (offset speed adj : float) : list out :=
  res_outs (calc_speeds pts idx offset speed adj)
           (fun r => [nat_out (fst (fst r)); OF (snd (fst r)); OF (snd r)]).

Definition x_recalc (fuel : N) (e : BrkEnv (F:=float)) (offset_end : float) (st : TStatef)
    (c : ResCache) : list out :=
  res_outs (recalc (N.to_nat fuel) e offset_end st c)
           (fun r => nat_out (snd r) :: nat_out (length (fst r)) :: flat_map bp_outs (fst r)).

Definition x_aggregate (cars : list (Car (F:=float))) (total loco_mass : float) : list out :=
  let t := aggregate cars total loco_mass in
  [OZ 0; OF (tp_length t); OF (tp_mass_static t); OF (tp_mass_rot t); OF (tp_mass_freight t);
   OF (tp_fric_force_max t); OF (rp_bearing (tp_rp t)); OF (rp_rolling (tp_rp t));
   OF (rp_davis_b (tp_rp t)); OF (rp_cd_area (tp_rp t))].

Definition x_aggregate_ov (ov : option float) (cars : list (Car (F:=float))) (total loco_mass : float) : list out :=
  let t := aggregate_ov ov cars total loco_mass in
  [OZ 0; OF (tp_length t); OF (tp_mass_static t); OF (tp_mass_rot t); OF (tp_mass_freight t);
   OF (tp_fric_force_max t); OF (rp_bearing (tp_rp t)); OF (rp_rolling (tp_rp t));
   OF (rp_davis_b (tp_rp t)); OF (rp_cd_area (tp_rp t))].

(* certified-checker style evaluation of the braking-curve claim on the implementation's own
   point list (C03): every point has target <= limit *)
Definition x_bp_target_le_limit (pts : list BPf) : list out :=
  [OZ 0; OB (forallb (fun p => PrimFloat.leb (bp_target p) (bp_limit p)) pts)].

Definition x_ts_new (length ms mr mf t0 : float) (offset0 : option float) (v0 : float) : list out :=
  OZ 0 :: ts_outs (ts_new length ms mr mf t0 offset0 v0).
