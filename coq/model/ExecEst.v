(* ExecEst.v -- binary64 entry point of the estimated-time-network checker (C15). *)
From Coq Require Import ZArith List Bool Floats.
From AltModel Require Import Num TrackNet EstNet EstUpdate.
Import ListNotations.

Notation enodef := (enode (F:=float)).

(* outcome tag 0, then one boolean per conjunct of [est_checks] *)
Definition x_est_ok (net : list link) (origs dests : list nat) (nodes : list enodef) (cert : list ecert)
  : list out := OZ 0 :: map OB (est_checks net origs dests nodes cert).

(* the two shortest-path passes on the node array make_est_times hands them (hook H3): per node the scheduled
   time, the duration and distance to the next node and the four links, after both passes *)
Definition x_update_times (fuel : N) (nodes : list enodef) (set : list bool) (t0 : float) : list out :=
  res_outs (update_times (N.to_nat fuel) nodes set t0)
    (fun ns => OZ (Z.of_nat (length ns)) ::
       flat_map (fun n => [OF (n_ts n); OF (n_ttn n); OF (n_dist n); OZ (Z.of_nat (n_next n)); OZ (Z.of_nat (n_nexta n));
                           OZ (Z.of_nat (n_prev n)); OZ (Z.of_nat (n_preva n))]) ns).
