(* ExecEst.v -- binary64 entry point of the estimated-time-network checker (C15). *)
From Coq Require Import ZArith List Bool Floats.
From AltModel Require Import Num TrackNet EstNet.
Import ListNotations.

Notation enodef := (enode (F:=float)).

(* outcome tag 0, then one boolean per conjunct of [est_checks] *)
Definition x_est_ok (net : list link) (origs dests : list nat) (nodes : list enodef) (cert : list ecert)
  : list out := OZ 0 :: map OB (est_checks net origs dests nodes cert).
