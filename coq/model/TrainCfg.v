(* TrainCfg.v -- TrainConfig::make_train_params: the train-level parameters PathTpc::new receives,
   computed from the rail-vehicle types and the number of cars of each type.  In particular the
   train's own maximum speed is the minimum over the vehicle types PRESENT in the train (C02's
   "never higher than the train's own maximum speed").
   Panic 1401 = rail_vehicles.first().unwrap() on an empty vehicle list. *)
From Coq Require Import ZArith List Bool.
From AltModel Require Import Num SpeedPoints.
Import ListNotations.
Local Open Scope num_scope.

Section TrainCfg.
Context {F : Type} {NO : NumOps F}.

Record RV := {
  rv_n : Z;                       (* n_cars_by_type[car_type] *)
  rv_length : F; rv_speed_max : F; rv_mass_base : F; rv_mass_freight : F;
  rv_mass_rot_per_axle : F; rv_axles : Z; rv_brakes : Z;
  rv_cc0 : F; rv_cc1 : F; rv_cc2 : F }.

(* fold(INFINITY, |acc, rv| if n > 0 { acc.min(rv.speed_max) } else { acc }); None = still +infinity *)
Definition speed_fold (acc : option F) (rv : RV) : option F :=
  if (0 <? rv_n rv)%Z then
    match acc with None => Some (rv_speed_max rv) | Some a => Some (nmin a (rv_speed_max rv)) end
  else acc.
Definition cfg_speed_max_opt (rvs : list RV) : option F := fold_left speed_fold rvs None.
Definition cfg_speed_max (rvs : list RV) : F := match cfg_speed_max_opt rvs with Some v => v | None => ninf end.

Definition cfg_towed (rvs : list RV) : F :=
  fold_left (fun acc rv => acc + (rv_mass_base rv + rv_mass_freight rv) * nofZ (rv_n rv) * n1) rvs n0.
Definition cfg_length (rvs : list RV) : F :=
  fold_left (fun acc rv => acc + rv_length rv * nofZ (rv_n rv)) rvs n0.
Definition cfg_mass_rot (rvs : list RV) : F :=
  fold_left (fun acc rv => acc + rv_mass_rot_per_axle rv * nofZ (rv_n rv) * nofZ (rv_axles rv)) rvs n0.
Definition cfg_brakes (rvs : list RV) : Z := fold_left (fun acc rv => (acc + rv_brakes rv * rv_n rv)%Z) rvs 0%Z.
Definition cfg_axles (rvs : list RV) : Z := fold_left (fun acc rv => (acc + rv_axles rv * rv_n rv)%Z) rvs 0%Z.

Definition make_train_params (rvs : list RV) (train_type : Z) (train_mass train_length : option F)
  : res (TrainParams (F:=F)) :=
  match rvs with
  | [] => Panic 1401
  | rv0 :: _ =>
    let towed := match train_mass with Some m => m | None => cfg_towed rvs end in
    Ok {| tp_length := match train_length with Some l => l | None => cfg_length rvs end;
          tp_speed_max := cfg_speed_max rvs;
          tp_mass_static := towed;
          tp_mass_per_brake := (towed + cfg_mass_rot rvs) / nofZ (cfg_brakes rvs);
          tp_axle_count := cfg_axles rvs;
          tp_train_type := train_type;
          tp_curve_coeff_0 := rv_cc0 rv0; tp_curve_coeff_1 := rv_cc1 rv0; tp_curve_coeff_2 := rv_cc2 rv0 |}
  end.

End TrainCfg.
