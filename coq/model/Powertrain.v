(* Powertrain.v -- FuelConverter, Generator, ElectricDrivetrain, ReversibleEnergyStorage
   (rust/altrios-core/src/consist/locomotive/powertrain/*.rs).
   Each Rust method that mutates [self] is a function returning the new component.
   Efficiency look-ups are factored out ([*_eta] argument) so that the ledger theorems
   can quantify over arbitrary efficiencies; the composed functions ([fc_solve], ...)
   compute the efficiency with [interp1d]/[interp3d] exactly as the code does. *)
From Coq Require Import ZArith List Bool.
From AltModel Require Import Num Interp.
Import ListNotations.
Local Open Scope num_scope.

Section Powertrain.
Context {F : Type} {NO : NumOps F}.

(* ---------------------------------------------------------------- FuelConverter *)
Record FCState := {
  fcs_i : Z;
  fcs_pwr_out_max : F; fcs_eta : F; fcs_pwr_brake : F; fcs_pwr_fuel : F; fcs_pwr_loss : F;
  fcs_pwr_idle_fuel : F;
  fcs_energy_brake : F; fcs_energy_fuel : F; fcs_energy_loss : F; fcs_energy_idle_fuel : F;
  fcs_engine_on : bool }.

Record FC := {
  fc_state : FCState;
  fc_pwr_out_max : F; fc_pwr_out_max_init : F; fc_pwr_ramp_lag : F;
  fc_frac : list F; fc_eta_interp : list F; fc_pwr_idle_fuel : F }.

Definition fc_with_state (c : FC) (s : FCState) : FC :=
  {| fc_state := s; fc_pwr_out_max := fc_pwr_out_max c; fc_pwr_out_max_init := fc_pwr_out_max_init c;
     fc_pwr_ramp_lag := fc_pwr_ramp_lag c; fc_frac := fc_frac c; fc_eta_interp := fc_eta_interp c;
     fc_pwr_idle_fuel := fc_pwr_idle_fuel c |}.

(* FuelConverter::set_cur_pwr_out_max ; Err 201 = dt must be > 0 *)
Definition fc_set_cur_pwr_out_max (c : FC) (dt : F) : res FC :=
  let? _ := ensure (n0 <? dt) 201 in
  let init' := nmax (fc_pwr_out_max_init c) (fc_pwr_out_max c / nofZ 10) in
  let s := fc_state c in
  let pmax := nmax (nmin (fcs_pwr_brake s + (fc_pwr_out_max c / fc_pwr_ramp_lag c) * dt)
                         (fc_pwr_out_max c)) init' in
  Ok {| fc_state := {| fcs_i := fcs_i s; fcs_pwr_out_max := pmax; fcs_eta := fcs_eta s;
                       fcs_pwr_brake := fcs_pwr_brake s; fcs_pwr_fuel := fcs_pwr_fuel s;
                       fcs_pwr_loss := fcs_pwr_loss s; fcs_pwr_idle_fuel := fcs_pwr_idle_fuel s;
                       fcs_energy_brake := fcs_energy_brake s; fcs_energy_fuel := fcs_energy_fuel s;
                       fcs_energy_loss := fcs_energy_loss s;
                       fcs_energy_idle_fuel := fcs_energy_idle_fuel s;
                       fcs_engine_on := fcs_engine_on s |};
        fc_pwr_out_max := fc_pwr_out_max c; fc_pwr_out_max_init := init';
        fc_pwr_ramp_lag := fc_pwr_ramp_lag c; fc_frac := fc_frac c;
        fc_eta_interp := fc_eta_interp c; fc_pwr_idle_fuel := fc_pwr_idle_fuel c |}.

(* FuelConverter::solve_energy_consumption with the efficiency given.
   Err 202 static limit, 203 transient limit, 204 negative request, 205 eta range (vacuous
   condition, as written), 206 engine off with non-zero request, 207 negative energy loss.
   [idle_used] is the idle-fuel term the fuel line adds: the code as fixed uses the state's
   value ([fcs_pwr_idle_fuel], zero when the engine is off). *)
Definition fc_solve_eta (c : FC) (req dt : F) (engine_on assert_limits : bool) (eta : F) : res FC :=
  let s := fc_state c in
  let? _ := ensure (negb assert_limits || almost_le req (fc_pwr_out_max c) eps3) 202 in
  let? _ := ensure (negb assert_limits || almost_le req (fcs_pwr_out_max s) eps3) 203 in
  let? _ := ensure (n0 <=? req) 204 in
  let? _ := ensure ((n0 <=? eta) || (eta <=? n1)) 205 in
  let idle := if engine_on then fc_pwr_idle_fuel c else n0 in
  let? _ := ensure (engine_on || (req =? n0)) 206 in
  let fuel := req / eta + idle in
  let loss := fuel - req in
  let e_loss := fcs_energy_loss s + loss * dt in
  let? _ := ensure (n0 <=? e_loss) 207 in
  Ok (fc_with_state c
        {| fcs_i := fcs_i s; fcs_pwr_out_max := fcs_pwr_out_max s; fcs_eta := eta;
           fcs_pwr_brake := req; fcs_pwr_fuel := fuel; fcs_pwr_loss := loss;
           fcs_pwr_idle_fuel := idle;
           fcs_energy_brake := fcs_energy_brake s + req * dt;
           fcs_energy_fuel := fcs_energy_fuel s + fuel * dt;
           fcs_energy_loss := e_loss;
           fcs_energy_idle_fuel := fcs_energy_idle_fuel s + idle * dt;
           fcs_engine_on := engine_on |}).

Definition fc_solve (c : FC) (req dt : F) (engine_on assert_limits : bool) : res FC :=
  let s := fc_state c in
  (* the limit and sign checks precede the interpolation in the code *)
  let? _ := ensure (negb assert_limits || almost_le req (fc_pwr_out_max c) eps3) 202 in
  let? _ := ensure (negb assert_limits || almost_le req (fcs_pwr_out_max s) eps3) 203 in
  let? _ := ensure (n0 <=? req) 204 in
  let? eta := interp1d (req / fc_pwr_out_max c) (fc_frac c) (fc_eta_interp c) false in
  fc_solve_eta c req dt engine_on assert_limits (n1 * eta).

(* ---------------------------------------------------------------- Generator *)
Record GenState := {
  gs_i : Z; gs_eta : F; gs_pwr_elec_prop_out_max : F; gs_pwr_elec_out_max : F;
  gs_pwr_rate_out_max : F; gs_pwr_mech_in : F; gs_pwr_elec_prop_out : F; gs_pwr_elec_aux : F;
  gs_pwr_loss : F;
  gs_energy_mech_in : F; gs_energy_elec_prop_out : F; gs_energy_elec_aux : F; gs_energy_loss : F }.

Record Gen := {
  gen_state : GenState;
  gen_frac : list F; gen_eta_interp : list F; gen_in_frac : list F; gen_pwr_out_max : F }.

Definition gen_with_state (g : Gen) (s : GenState) : Gen :=
  {| gen_state := s; gen_frac := gen_frac g; gen_eta_interp := gen_eta_interp g;
     gen_in_frac := gen_in_frac g; gen_pwr_out_max := gen_pwr_out_max g |}.

Fixpoint zip_div (xs ys : list F) : list F :=
  match xs, ys with
  | x :: xt, y :: yt => (x / y) :: zip_div xt yt
  | _, _ => []
  end.
Fixpoint strictly_increasing (l : list F) : bool :=
  match l with
  | a :: ((b :: _) as t) => (a <? b) && strictly_increasing t
  | _ => true
  end.

(* set_pwr_in_frac_interp ; Err 301 = not monotonically increasing *)
Definition mk_in_frac (frac eta : list F) : res (list F) :=
  let l := zip_div frac eta in
  let? _ := ensure (strictly_increasing l) 301 in Ok l.

(* Generator::set_pwr_in_req ; Err 302 negative propulsion power, 303 exceeds static max, 304 eta *)
Definition gen_set_pwr_in_req_eta (g : Gen) (prop aux dt eta : F) : res Gen :=
  let s := gen_state g in
  let? _ := ensure ((n0 <=? eta) || (eta <=? n1)) 304 in
  let mech := (prop + aux) / eta in
  let loss := mech - (prop + aux) in
  Ok (gen_with_state g
        {| gs_i := gs_i s; gs_eta := eta;
           gs_pwr_elec_prop_out_max := gs_pwr_elec_prop_out_max s;
           gs_pwr_elec_out_max := gs_pwr_elec_out_max s;
           gs_pwr_rate_out_max := gs_pwr_rate_out_max s;
           gs_pwr_mech_in := mech; gs_pwr_elec_prop_out := prop; gs_pwr_elec_aux := aux;
           gs_pwr_loss := loss;
           gs_energy_mech_in := gs_energy_mech_in s + mech * dt;
           gs_energy_elec_prop_out := gs_energy_elec_prop_out s + prop * dt;
           gs_energy_elec_aux := gs_energy_elec_aux s + aux * dt;
           gs_energy_loss := gs_energy_loss s + loss * dt |}).

Definition gen_set_pwr_in_req (g : Gen) (prop aux dt : F) : res Gen :=
  let? _ := ensure (n0 <=? prop) 302 in
  let? _ := ensure (prop + aux <=? gen_pwr_out_max g) 303 in
  let? eta := interp1d (nabs (prop / gen_pwr_out_max g)) (gen_frac g) (gen_eta_interp g) false in
  gen_set_pwr_in_req_eta g prop aux dt (n1 * eta).

(* ElectricMachine::set_cur_pwr_max_out for Generator (pwr_aux is always Some here) *)
Definition gen_set_cur_pwr_max_out (g : Gen) (pwr_in_max aux : F) : res Gen :=
  let? infrac := match gen_in_frac g with
                 | [] => mk_in_frac (gen_frac g) (gen_eta_interp g)
                 | l => Ok l end in
  let? eta := interp1d (nabs (pwr_in_max / gen_pwr_out_max g)) infrac (gen_eta_interp g) false in
  let s := gen_state g in
  let out_max := nmin (pwr_in_max * (n1 * eta)) (gen_pwr_out_max g) in
  Ok {| gen_state :=
          {| gs_i := gs_i s; gs_eta := gs_eta s;
             gs_pwr_elec_prop_out_max := out_max - aux;
             gs_pwr_elec_out_max := out_max;
             gs_pwr_rate_out_max := gs_pwr_rate_out_max s;
             gs_pwr_mech_in := gs_pwr_mech_in s; gs_pwr_elec_prop_out := gs_pwr_elec_prop_out s;
             gs_pwr_elec_aux := gs_pwr_elec_aux s; gs_pwr_loss := gs_pwr_loss s;
             gs_energy_mech_in := gs_energy_mech_in s;
             gs_energy_elec_prop_out := gs_energy_elec_prop_out s;
             gs_energy_elec_aux := gs_energy_elec_aux s; gs_energy_loss := gs_energy_loss s |};
        gen_frac := gen_frac g; gen_eta_interp := gen_eta_interp g; gen_in_frac := infrac;
        gen_pwr_out_max := gen_pwr_out_max g |}.

Definition gen_set_pwr_rate_out_max (g : Gen) (rate_in : F) : Gen :=
  let s := gen_state g in
  gen_with_state g
    {| gs_i := gs_i s; gs_eta := gs_eta s;
       gs_pwr_elec_prop_out_max := gs_pwr_elec_prop_out_max s;
       gs_pwr_elec_out_max := gs_pwr_elec_out_max s;
       gs_pwr_rate_out_max := rate_in * (if n0 <? gs_eta s then gs_eta s else n1 * n1);
       gs_pwr_mech_in := gs_pwr_mech_in s; gs_pwr_elec_prop_out := gs_pwr_elec_prop_out s;
       gs_pwr_elec_aux := gs_pwr_elec_aux s; gs_pwr_loss := gs_pwr_loss s;
       gs_energy_mech_in := gs_energy_mech_in s;
       gs_energy_elec_prop_out := gs_energy_elec_prop_out s;
       gs_energy_elec_aux := gs_energy_elec_aux s; gs_energy_loss := gs_energy_loss s |}.

(* ---------------------------------------------------------------- ElectricDrivetrain *)
Record EdrvState := {
  es_i : Z; es_eta : F; es_pwr_mech_out_max : F; es_pwr_mech_regen_max : F;
  es_pwr_rate_out_max : F; es_pwr_out_req : F; es_pwr_elec_prop_in : F; es_pwr_mech_prop_out : F;
  es_pwr_mech_dyn_brake : F; es_pwr_elec_dyn_brake : F; es_pwr_loss : F;
  es_energy_elec_prop_in : F; es_energy_mech_prop_out : F; es_energy_mech_dyn_brake : F;
  es_energy_elec_dyn_brake : F; es_energy_loss : F }.

Record Edrv := {
  edrv_state : EdrvState;
  edrv_frac : list F; edrv_eta_interp : list F; edrv_in_frac : list F; edrv_pwr_out_max : F }.

Definition edrv_with_state (e : Edrv) (s : EdrvState) : Edrv :=
  {| edrv_state := s; edrv_frac := edrv_frac e; edrv_eta_interp := edrv_eta_interp e;
     edrv_in_frac := edrv_in_frac e; edrv_pwr_out_max := edrv_pwr_out_max e |}.

(* ElectricDrivetrain::set_pwr_in_req ; Err 401 exceeds static max, 402 eta, 403 dyn brake < 0 *)
Definition edrv_set_pwr_in_req_eta (e : Edrv) (req dt eta : F) : res Edrv :=
  let s := edrv_state e in
  let? _ := ensure ((n0 <=? eta) || (eta <=? n1)) 402 in
  let prop := nmax req (- es_pwr_mech_regen_max s) in
  let dyn := - (req - prop) in
  let? _ := ensure (n0 <=? dyn) 403 in
  let elec_in := if n0 <? req then prop / eta else prop * eta in
  let elec_dyn := dyn * eta in
  let loss := nabs (prop - elec_in) in
  Ok (edrv_with_state e
        {| es_i := es_i s; es_eta := eta; es_pwr_mech_out_max := es_pwr_mech_out_max s;
           es_pwr_mech_regen_max := es_pwr_mech_regen_max s;
           es_pwr_rate_out_max := es_pwr_rate_out_max s;
           es_pwr_out_req := req; es_pwr_elec_prop_in := elec_in; es_pwr_mech_prop_out := prop;
           es_pwr_mech_dyn_brake := dyn; es_pwr_elec_dyn_brake := elec_dyn; es_pwr_loss := loss;
           es_energy_elec_prop_in := es_energy_elec_prop_in s + elec_in * dt;
           es_energy_mech_prop_out := es_energy_mech_prop_out s + prop * dt;
           es_energy_mech_dyn_brake := es_energy_mech_dyn_brake s + dyn * dt;
           es_energy_elec_dyn_brake := es_energy_elec_dyn_brake s + elec_dyn * dt;
           es_energy_loss := es_energy_loss s + loss * dt |}).

Definition edrv_set_pwr_in_req (e : Edrv) (req dt : F) : res Edrv :=
  let? _ := ensure (req <=? edrv_pwr_out_max e) 401 in
  let? eta := interp1d (nabs (req / edrv_pwr_out_max e)) (edrv_frac e) (edrv_eta_interp e) false in
  edrv_set_pwr_in_req_eta e req dt (n1 * eta).

Definition edrv_upd_limits (e : Edrv) (infrac : list F) (out_max regen_max rate : F) : Edrv :=
  let s := edrv_state e in
  {| edrv_state :=
       {| es_i := es_i s; es_eta := es_eta s; es_pwr_mech_out_max := out_max;
          es_pwr_mech_regen_max := regen_max; es_pwr_rate_out_max := rate;
          es_pwr_out_req := es_pwr_out_req s; es_pwr_elec_prop_in := es_pwr_elec_prop_in s;
          es_pwr_mech_prop_out := es_pwr_mech_prop_out s;
          es_pwr_mech_dyn_brake := es_pwr_mech_dyn_brake s;
          es_pwr_elec_dyn_brake := es_pwr_elec_dyn_brake s; es_pwr_loss := es_pwr_loss s;
          es_energy_elec_prop_in := es_energy_elec_prop_in s;
          es_energy_mech_prop_out := es_energy_mech_prop_out s;
          es_energy_mech_dyn_brake := es_energy_mech_dyn_brake s;
          es_energy_elec_dyn_brake := es_energy_elec_dyn_brake s;
          es_energy_loss := es_energy_loss s |};
     edrv_frac := edrv_frac e; edrv_eta_interp := edrv_eta_interp e; edrv_in_frac := infrac;
     edrv_pwr_out_max := edrv_pwr_out_max e |}.

Definition edrv_in_frac_or_build (e : Edrv) : res (list F) :=
  match edrv_in_frac e with
  | [] => mk_in_frac (edrv_frac e) (edrv_eta_interp e)
  | l => Ok l end.

(* ElectricMachine::set_cur_pwr_max_out for ElectricDrivetrain (pwr_aux = None) *)
Definition edrv_set_cur_pwr_max_out (e : Edrv) (pwr_in_max : F) : res Edrv :=
  let? infrac := edrv_in_frac_or_build e in
  let? eta := interp1d (nabs (pwr_in_max / edrv_pwr_out_max e)) infrac (edrv_eta_interp e) false in
  let s := edrv_state e in
  Ok (edrv_upd_limits e infrac (nmin (edrv_pwr_out_max e) (pwr_in_max * (n1 * eta)))
        (es_pwr_mech_regen_max s) (es_pwr_rate_out_max s)).

(* ElectricDrivetrain::set_cur_pwr_regen_max ; Err 404 = regen max negative *)
Definition edrv_set_cur_pwr_regen_max (e : Edrv) (pwr_max_regen_in : F) : res Edrv :=
  let? infrac := edrv_in_frac_or_build e in
  let? eta := interp1d (nabs (pwr_max_regen_in / edrv_pwr_out_max e))
                       (edrv_frac e) (edrv_eta_interp e) false in
  let s := edrv_state e in
  let rm := nmin (pwr_max_regen_in * (n1 * eta)) (edrv_pwr_out_max e) in
  let? _ := ensure (n0 <=? rm) 404 in
  Ok (edrv_upd_limits e infrac (es_pwr_mech_out_max s) rm (es_pwr_rate_out_max s)).

Definition edrv_set_pwr_rate_out_max (e : Edrv) (rate_in : F) : Edrv :=
  let s := edrv_state e in
  edrv_upd_limits e (edrv_in_frac e) (es_pwr_mech_out_max s) (es_pwr_mech_regen_max s)
    (rate_in * (if n0 <? es_eta s then es_eta s else n1 * n1)).

(* ---------------------------------------------------------------- ReversibleEnergyStorage *)
Record ResState := {
  rs_i : Z;
  rs_pwr_prop_out_max : F; rs_pwr_regen_out_max : F; rs_pwr_disch_max : F; rs_pwr_charge_max : F;
  rs_pwr_out_electrical : F; rs_pwr_out_propulsion : F; rs_pwr_aux : F; rs_pwr_loss : F;
  rs_pwr_out_chemical : F;
  rs_energy_out_electrical : F; rs_energy_out_propulsion : F; rs_energy_aux : F;
  rs_energy_loss : F; rs_energy_out_chemical : F;
  rs_max_soc : F; rs_soc_hi_ramp_start : F; rs_min_soc : F; rs_soc_lo_ramp_start : F;
  rs_soc : F; rs_eta : F; rs_soh : F; rs_temperature : F }.

Record Res := {
  res_state : ResState;
  res_grid_t : list F; res_grid_soc : list F; res_grid_c : list F;
  res_eta_vals : list (list (list F));
  res_pwr_out_max : F; res_energy_capacity : F; res_min_soc : F; res_max_soc : F;
  res_soc_hi_ramp_start : option F; res_soc_lo_ramp_start : option F }.

Definition res_with (r : Res) (s : ResState) (hi lo : option F) : Res :=
  {| res_state := s; res_grid_t := res_grid_t r; res_grid_soc := res_grid_soc r;
     res_grid_c := res_grid_c r; res_eta_vals := res_eta_vals r;
     res_pwr_out_max := res_pwr_out_max r; res_energy_capacity := res_energy_capacity r;
     res_min_soc := res_min_soc r; res_max_soc := res_max_soc r;
     res_soc_hi_ramp_start := hi; res_soc_lo_ramp_start := lo |}.

Definition opt_or {A} (o : option A) (d : A) : A := match o with Some a => a | None => d end.

(* ReversibleEnergyStorage::set_cur_pwr_out_max (buffers: None = zero) *)
Definition res_set_cur_pwr_out_max (r : Res) (aux : F) (charge_buffer discharge_buffer : option F)
  : res Res :=
  let s := res_state r in
  let hi := opt_or (res_soc_hi_ramp_start r) (res_max_soc r - nlit 5 (-2) * n1) in
  let lo := opt_or (res_soc_lo_ramp_start r) (res_min_soc r + nlit 5 (-2) * n1) in
  let cb := opt_or charge_buffer n0 / res_energy_capacity r in
  let db := opt_or discharge_buffer n0 / res_energy_capacity r in
  let s_lo := nmin (lo + cb) (res_max_soc r) in
  let s_min := nmin (res_min_soc r + cb) (res_max_soc r) in
  let s_hi := nmax (hi - db) (res_min_soc r) in
  let s_max := nmax (res_max_soc r - db) (res_min_soc r) in
  let? disch := interp1d (rs_soc s) [s_min; s_lo] [n0; res_pwr_out_max r] false in
  let? charge := interp1d (rs_soc s) [s_hi; s_max] [res_pwr_out_max r; n0] false in
  let disch := n1 * disch in let charge := n1 * charge in
  Ok (res_with r
        {| rs_i := rs_i s;
           rs_pwr_prop_out_max := disch - aux; rs_pwr_regen_out_max := charge + aux;
           rs_pwr_disch_max := disch; rs_pwr_charge_max := charge;
           rs_pwr_out_electrical := rs_pwr_out_electrical s;
           rs_pwr_out_propulsion := rs_pwr_out_propulsion s; rs_pwr_aux := rs_pwr_aux s;
           rs_pwr_loss := rs_pwr_loss s; rs_pwr_out_chemical := rs_pwr_out_chemical s;
           rs_energy_out_electrical := rs_energy_out_electrical s;
           rs_energy_out_propulsion := rs_energy_out_propulsion s;
           rs_energy_aux := rs_energy_aux s; rs_energy_loss := rs_energy_loss s;
           rs_energy_out_chemical := rs_energy_out_chemical s;
           rs_max_soc := s_max; rs_soc_hi_ramp_start := s_hi; rs_min_soc := s_min;
           rs_soc_lo_ramp_start := s_lo;
           rs_soc := rs_soc s; rs_eta := rs_eta s; rs_soh := rs_soh s;
           rs_temperature := rs_temperature s |} (Some hi) (Some lo)).

(* the limit checks of ReversibleEnergyStorage::solve_energy_consumption
   Err 501 soc over max while charging, 502 soc under min while discharging,
   503/504 static/transient discharge limit, 505/506 static/transient charge limit *)
Definition res_limit_checks (r : Res) (prop aux : F) : res unit :=
  let s := res_state r in
  let? _ := ensure ((rs_soc s <=? rs_max_soc s) || (n0 <=? prop)) 501 in
  let? _ := ensure ((rs_min_soc s <=? rs_soc s) || (prop <=? n0)) 502 in
  if n0 <=? prop + aux then
    let? _ := ensure (almost_le (prop + aux) (res_pwr_out_max r) eps3) 503 in
    ensure (almost_le (prop + aux) (rs_pwr_disch_max s) eps3) 504
  else
    let? _ := ensure (almost_ge (prop + aux) (- res_pwr_out_max r) eps3) 505 in
    ensure (almost_ge (prop + aux) (- rs_pwr_charge_max s) eps3) 506.

(* Err 507 = eta range (vacuous as written) *)
Definition res_solve_eta (r : Res) (prop aux dt eta : F) : res Res :=
  let s := res_state r in
  let? _ := res_limit_checks r prop aux in
  let elec := prop + aux in
  let? _ := ensure ((n0 <=? n1 * eta) || (n1 * eta <=? n1)) 507 in
  let chem := if n0 <? elec then elec / eta else elec * eta in
  let loss := nabs (chem - elec) in
  Ok (res_with r
        {| rs_i := rs_i s;
           rs_pwr_prop_out_max := rs_pwr_prop_out_max s;
           rs_pwr_regen_out_max := rs_pwr_regen_out_max s;
           rs_pwr_disch_max := rs_pwr_disch_max s; rs_pwr_charge_max := rs_pwr_charge_max s;
           rs_pwr_out_electrical := elec; rs_pwr_out_propulsion := prop; rs_pwr_aux := aux;
           rs_pwr_loss := loss; rs_pwr_out_chemical := chem;
           rs_energy_out_electrical := rs_energy_out_electrical s + elec * dt;
           rs_energy_out_propulsion := rs_energy_out_propulsion s + prop * dt;
           rs_energy_aux := rs_energy_aux s + aux * dt;
           rs_energy_loss := rs_energy_loss s + loss * dt;
           rs_energy_out_chemical := rs_energy_out_chemical s + chem * dt;
           rs_max_soc := rs_max_soc s; rs_soc_hi_ramp_start := rs_soc_hi_ramp_start s;
           rs_min_soc := rs_min_soc s; rs_soc_lo_ramp_start := rs_soc_lo_ramp_start s;
           rs_soc := rs_soc s - chem * dt / res_energy_capacity r;
           rs_eta := n1 * eta; rs_soh := rs_soh s; rs_temperature := rs_temperature s |}
        (res_soc_hi_ramp_start r) (res_soc_lo_ramp_start r)).

(* interp3d(...).unwrap(): an Err from the interpolation is a panic (508) *)
Definition res_solve (r : Res) (prop aux dt : F) : res Res :=
  let s := res_state r in
  let? _ := res_limit_checks r prop aux in
  let elec := prop + aux in
  (* energy_capacity.get::<si::watt_hour>() *)
  let c_rate := elec / (res_energy_capacity r / nofZ 3600) in
  match interp3d (rs_temperature s, rs_soc s, c_rate)
                 (res_grid_t r) (res_grid_soc r) (res_grid_c r) (res_eta_vals r) with
  | Ok eta => res_solve_eta r prop aux dt eta
  | Err _ => Panic 508
  | Panic c => Panic c
  end.

End Powertrain.
