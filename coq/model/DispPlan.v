(* DispPlan.v -- dispatch plans (run_dispatch, rust/altrios-core/src/meet_pass/dispatch.rs and
   train_disp/*.rs): the CERTIFIED CHECKERS of C04 (no conflicting occupancy) and C05 (complete,
   valid plan or an explicit error), and the abstract authority ledger whose guarded operations
   preserve the no-conflict invariant.  Times are compared only (NumOps F); "still held" / "not yet
   happened" is [None] (the Rust code stores +infinity). *)
From Coq Require Import List Bool Arith ZArith.
From AltModel Require Import Num TrackNet EstNet.
Import ListNotations.

Section Plan.
Context {F : Type} {NO : NumOps F}.

(* ---------------------------------------------------------------- optional times *)
Definition leo (a : option F) (b : F) : bool := match a with Some x => nleb x b | None => false end.
(* a <= b where None = +infinity *)
Definition leoo (a b : option F) : bool :=
  match a, b with
  | Some x, Some y => nleb x y
  | _, None => true
  | None, Some _ => false
  end.

(* ---------------------------------------------------------------- occupancy *)
(* one event of a train's own dispatch path: e_ty 0 = Arrive (front passes the entry point of e_link),
   otherwise Clear (tail passes the entry point of e_link, i.e. leaves the link before it) *)
Record ev := mkE { e_ty : nat; e_link : nat; e_t : F }.

(* a train holds o_link from o_in (front enters) to o_out (tail leaves); o_ce: tail passes the entry
   point; o_ax: front leaves *)
Record occ := mkO { o_link : nat; o_in : F; o_ce : option F; o_ax : option F; o_out : option F }.

Definition set_ce (o : occ) (t : F) := mkO (o_link o) (o_in o) (Some t) (o_ax o) (o_out o).
Definition set_ax (o : occ) (t : F) := mkO (o_link o) (o_in o) (o_ce o) (Some t) (o_out o).
Definition set_out (o : occ) (t : F) := mkO (o_link o) (o_in o) (o_ce o) (o_ax o) (Some t).

(* the tail enters link l at t: everything behind l is released at t *)
Fixpoint close_until (l : nat) (t : F) (open : list occ) : option (list occ * list occ) :=
  match open with
  | [] => None
  | o :: rest =>
      if o_link o =? l then Some ([], set_ce o t :: rest)
      else match close_until l t rest with
           | Some (rel, op) => Some (set_out o t :: rel, op)
           | None => None
           end
  end.

Fixpoint set_last_ax (open : list occ) (t : F) : list occ :=
  match open with
  | [] => []
  | [o] => [set_ax o t]
  | o :: rest => o :: set_last_ax rest t
  end.

Fixpoint occ_run (evs : list ev) (open closed : list occ) : option (list occ * list occ) :=
  match evs with
  | [] => Some (open, closed)
  | e :: rest =>
      match e_ty e with
      | 0 => occ_run rest (set_last_ax open (e_t e) ++ [mkO (e_link e) (e_t e) None None None]) closed
      | _ => match close_until (e_link e) (e_t e) open with
             | Some (rel, op) => occ_run rest op (closed ++ rel)
             | None => None
             end
      end
  end.

(* when the train has left the model at t_end everything still held is released then *)
Definition close_at (t_end : option F) (o : occ) : occ :=
  match t_end with
  | None => o
  | Some t => mkO (o_link o) (o_in o) (match o_ce o with None => Some t | c => c end)
                  (match o_ax o with None => Some t | c => c end) (Some t)
  end.

(* None: the event list is not a train movement (a Clear of a link the front never entered) *)
Definition occ_of (evs : list ev) (t_end : option F) : option (list occ) :=
  match occ_run evs [] [] with
  | Some (open, closed) => Some (closed ++ map (close_at t_end) open)
  | None => None
  end.

(* ---------------------------------------------------------------- C04: no conflicting occupancy *)
(* l and m exclude each other: opposite directions of one segment, or declared lock-out (either way);
   symmetric by construction *)
Definition exclb (net : list link) (l m : nat) : bool :=
  match nth_error net l, nth_error net m with
  | Some ll, Some lm => (l_flip ll =? m) || (l_flip lm =? l) || memb m (l_lock ll) || memb l (l_lock lm)
  | _, _ => false
  end.

(* non-strict: touching at equal endpoints is allowed *)
Definition disjointb (x y : occ) : bool := leo (o_out x) (o_in y) || leo (o_out y) (o_in x).

(* x (train a) enters the common link before y (train b) *)
Definition beforeb (a b : nat) (x y : occ) : bool :=
  nltb (o_in x) (o_in y) || (neqb (o_in x) (o_in y) && (a <? b)).

Definition headwayb (h : F) (x y : occ) : bool :=
  match o_ce x with Some c => nleb (nadd c h) (o_in y) | None => false end.
(* exit end: once the follower's front has really left the link (strictly before its own release --
   a holding closed because the train left the model has ax = out), the leader's tail had left it at
   least the headway earlier *)
Definition exit_headwayb (h : F) (x y : occ) : bool :=
  match o_ax y with
  | None => true
  | Some ya =>
      if (match o_out y with Some yo => nltb ya yo | None => true end)
      then (match o_out x with Some u => nleb (nadd u h) ya | None => false end)
      else true
  end.
Definition orderb (x y : occ) : bool :=
  leoo (o_ax x) (o_ax y) && leoo (o_ce x) (o_ce y) && leoo (o_out x) (o_out y).

(* some third train z holds an excluded link entirely between x's release and y's entry *)
Definition opposing_betweenb (net : list link) (occs : list (list occ)) (a b : nat) (x y : occ) : bool :=
  negb (forallbi (fun c oc => (c =? a) || (c =? b) ||
        forallb (fun z => negb (exclb net (o_link x) (o_link z) && leo (o_out x) (o_in z) && leo (o_out z) (o_in y))) oc) 0 occs).

Definition pair_okb (net : list link) (h : F) (occs : list (list occ)) (a b : nat) (x y : occ) : bool :=
  (negb (exclb net (o_link x) (o_link y)) || disjointb x y)
  && (negb ((o_link x =? o_link y) && beforeb a b x y)
      || ((opposing_betweenb net occs a b x y || (headwayb h x y && exit_headwayb h x y)) && orderb x y)).

(* quadratic, sort-free *)
Definition plan_ok (net : list link) (h : F) (occs : list (list occ)) : bool :=
  forallbi (fun a oa => forallbi (fun b ob =>
      (a =? b) || forallb (fun x => forallb (fun y => pair_okb net h occs a b x y) ob) oa) 0 occs) 0 occs.

(* the whole C04 check of one dispatch state: derive every train's occupancy from its own event
   list (with its end time, None while under way), then check all pairs *)
Fixpoint occs_of (trains : list (list ev * option F)) : option (list (list occ)) :=
  match trains with
  | [] => Some []
  | (evs, te) :: rest =>
      match occ_of evs te, occs_of rest with
      | Some o, Some os => Some (o :: os)
      | _, _ => None
      end
  end.
Definition state_ok (net : list link) (h : F) (trains : list (list ev * option F)) : bool :=
  match occs_of trains with Some occs => plan_ok net h occs | None => false end.

(* black-box variant on the returned timed link paths: the front holds a link from its arrival to
   its arrival at the next link (last link: the instant of arrival) -- a necessary condition *)
Fixpoint front_occs (plan : list (nat * F)) : list occ :=
  match plan with
  | [] => []
  | (l, t) :: rest =>
      let t2 := match rest with (_, t') :: _ => t' | [] => t end in
      mkO l t None (Some t2) (Some t2) :: front_occs rest
  end.
Definition front_pair_okb (net : list link) (x y : occ) : bool :=
  negb (exclb net (o_link x) (o_link y)) || disjointb x y.
Definition fronts_ok (net : list link) (plans : list (list (nat * F))) : bool :=
  let occs := map front_occs plans in
  forallbi (fun a oa => forallbi (fun b ob =>
      (a =? b) || forallb (fun x => forallb (fun y => front_pair_okb net x y) ob) oa) 0 occs) 0 occs.

(* ---------------------------------------------------------------- the abstract authority ledger *)
(* per directed link the stack of authorities, oldest first; an authority is an [occ] (its link is
   the stack's index) tagged with the train *)
Definition ledger := list (list (nat * occ)).

Definition stack (led : ledger) (l : nat) : list (nat * occ) := nth l led [].
Fixpoint upd {A} (v : list A) (i : nat) (f : A -> A) : list A :=
  match v, i with
  | [], _ => []
  | a :: t, 0 => f a :: t
  | a :: t, S k => a :: upd t k f
  end.

Inductive lop :=
| Enter (l tr : nat) (t : F)          (* push a fresh authority *)
| FrontExit (l k : nat) (t : F)       (* arrive_exit of authority k on l *)
| TailEnter (l k : nat) (t : F)       (* clear_entry *)
| TailExit (l k : nat) (t : F)        (* clear_exit *)
| Pop (l : nat).                      (* rewind: drop the newest authority of l *)

Definition lastopt {A} (l : list A) : option A := match rev l with x :: _ => Some x | [] => None end.

(* every authority on every link excluded with l has been released by t *)
Definition excl_released (net : list link) (led : ledger) (l : nat) (t : F) : bool :=
  forallbi (fun m st => negb (exclb net l m) || forallb (fun b => leo (o_out (snd b)) t) st) 0 led.

Definition prev_of (st : list (nat * occ)) (k : nat) : option occ :=
  match k with 0 => None | S j => option_map snd (nth_error st j) end.
Definition next_of (st : list (nat * occ)) (k : nat) : option occ := option_map snd (nth_error st (S k)).

Definition is_none {A} (o : option A) : bool := match o with None => true | Some _ => false end.

Definition lop_apply (net : list link) (h : F) (led : ledger) (op : lop) : res ledger :=
  match op with
  | Enter l tr t =>
      let st := stack led l in
      let? _ := ensure (l <? length led) 1 in
      let? _ := ensure (excl_released net led l t) 2 in
      let? _ := ensure (match lastopt st with
                        | None => true
                        | Some (_, p) => nleb (o_in p) t && (headwayb h p (mkO l t None None None) || leo (o_out p) t)
                        end) 3 in
      Ok (upd led l (fun s => s ++ [(tr, mkO l t None None None)]))
  | FrontExit l k t =>
      let st := stack led l in
      match nth_error st k with
      | None => Err 4
      | Some (tr, a) =>
          let? _ := ensure (is_none (o_ax a) && nleb (o_in a) t && leoo (Some t) (o_out a)) 5 in
          let? _ := ensure (match prev_of st k with
                            | None => true
                            | Some p => leoo (o_ax p) (Some t) && leo (option_map (fun u => nadd u h) (o_out p)) t
                            end) 6 in
          let? _ := ensure (match next_of st k with None => true | Some s => leoo (Some t) (o_ax s) end) 7 in
          Ok (upd led l (fun s => upd s k (fun x => (fst x, set_ax (snd x) t))))
      end
  | TailEnter l k t =>
      let st := stack led l in
      match nth_error st k with
      | None => Err 4
      | Some (tr, a) =>
          let? _ := ensure (is_none (o_ce a) && nleb (o_in a) t && leoo (Some t) (o_out a) && (S k =? length st)) 8 in
          let? _ := ensure (match prev_of st k with None => true | Some p => leoo (o_ce p) (Some t) end) 9 in
          Ok (upd led l (fun s => upd s k (fun x => (fst x, set_ce (snd x) t))))
      end
  | TailExit l k t =>
      let st := stack led l in
      match nth_error st k with
      | None => Err 4
      | Some (tr, a) =>
          let? _ := ensure (is_none (o_out a) && nleb (o_in a) t && leo (o_ce a) t && leo (o_ax a) t) 10 in
          let? _ := ensure (match prev_of st k with None => true | Some p => leoo (o_out p) (Some t) end) 11 in
          let? _ := ensure (match next_of st k with
                            | None => true
                            | Some s => leoo (Some t) (o_out s) && (headwayb h a s || nleb t (o_in s))
                                        && (match o_ax s with None => true | Some x => nleb (nadd t h) x end)
                            end) 12 in
          Ok (upd led l (fun s => upd s k (fun x => (fst x, set_out (snd x) t))))
      end
  | Pop l =>
      let? _ := ensure (l <? length led) 1 in
      Ok (upd led l (fun s => removelast s))
  end.

(* ---------------------------------------------------------------- C05: the returned result *)
(* what the result checker reads of an EstTime node *)
Record rnode := mkR { r_ttn : F; r_next : nat; r_nexta : nat; r_link : nat; r_ty : nat }.
Record tspec := mkT { t_origs : list nat; t_dests : list nat; t_depart : F; t_est : list rnode }.

Definition rtol (a b : F) : F := nmul (nlit 1 (-9)) (nadd (nadd n1 (nabs a)) (nabs b)).

Fixpoint nondecr (ts : list F) : bool :=
  match ts with
  | a :: ((b :: _) as rest) => nleb a b && nondecr rest
  | _ => true
  end.

(* duration of the step i -> j of the estimated-time network: time_to_next along idx_next, zero along
   an alternate edge; None if j is not a successor of i *)
Definition step_dur (est : list rnode) (i j : nat) : option F :=
  match nth_error est i with
  | Some ni => if negb (j =? 0) && (r_next ni =? j) then Some (r_ttn ni)
               else if negb (j =? 0) && (r_nexta ni =? j) then Some n0
               else None
  | None => None
  end.

(* a timed walk (node, time): every step follows an edge and takes at least its free-running duration *)
Fixpoint timed_walk_ok (est : list rnode) (i : nat) (ti : F) (w : list (nat * F)) : bool :=
  match w with
  | [] => i =? length est - 1
  | (j, tj) :: rest =>
      match step_dur est i j with
      | Some d => nleb (nadd ti d) (nadd tj (rtol tj (nadd ti d))) && timed_walk_ok est j tj rest
      | None => false
      end
  end.

(* the (link, time) of the Arrive nodes met on a timed walk *)
Definition arrivals (est : list rnode) (w : list (nat * F)) : list (nat * F) :=
  flat_map (fun p => match nth_error est (fst p) with
                     | Some nd => if r_ty nd =? 0 then [(r_link nd, snd p)] else []
                     | None => [] end) w.

Fixpoint plan_eqb (a b : list (nat * F)) : bool :=
  match a, b with
  | [], [] => true
  | (l, t) :: a', (m, u) :: b' => (l =? m) && neqb t u && plan_eqb a' b'
  | _, _ => false
  end.

(* one train: its returned timed link path [plan] and an untrusted timed walk [w] of its own
   estimated-time network starting at node 0 at time t0 *)
Definition train_checks (net : list link) (t : tspec) (plan : list (nat * F)) (t0 : F) (w : list (nat * F)) : list bool :=
  let route := map fst plan in
  let times := map snd plan in
  [ negb (match plan with [] => true | _ => false end);
    match route with l :: _ => memb l (t_origs t) | [] => false end;
    match times with u :: _ => nleb (t_depart t) u | [] => false end;
    memb (last route 0) (t_dests t) && negb (memb 0 (t_dests t));
    chainb net route;
    nondecr times;
    forallb (fun u => neqb (nsub u u) n0) times;      (* every arrival time is a finite number *)
    timed_walk_ok (t_est t) 0 t0 w;
    plan_eqb (arrivals (t_est t) w) plan ].

Definition train_ok net t plan t0 w : bool := forallb (fun b => b) (train_checks net t plan t0 w).

Fixpoint result_ok (net : list link) (ts : list tspec) (plans : list (list (nat * F))) (cert : list (F * list (nat * F))) : bool :=
  match ts, plans, cert with
  | [], [], [] => true
  | t :: ts', p :: ps', (t0, w) :: cs' => train_ok net t p t0 w && result_ok net ts' ps' cs'
  | _, _, _ => false
  end.

(* impl Ord for TrainDispNext (dispatch.rs): other.time.partial_cmp(&self.time).unwrap()
     .then_with(|| other.train_idx.cmp(&self.train_idx)); train_idx: Option<NonZeroU16>, None = 0 *)
Definition cmp_disp_next (a b : F * nat) : res comparison :=
  let? c := pcmp (fst b) (fst a) in Ok (cmp_then c (Nat.compare (snd b) (snd a))).

End Plan.

(* the stuck-trains error names a non-empty set of distinct train indices in 1..n *)
Fixpoint nodupb (l : list nat) : bool :=
  match l with [] => true | x :: t => negb (memb x t) && nodupb t end.
Definition stuck_ok (n : nat) (ids : list nat) : bool :=
  negb (match ids with [] => true | _ => false end) && forallb (fun i => (1 <=? i) && (i <=? n)) ids && nodupb ids.
