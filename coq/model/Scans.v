(* Scans.v -- the three `unsafe` sentinel scans of
   rust/altrios-core/src/meet_pass/train_disp/free_path.rs, modelled with CHECKED access:
   a `get_unchecked` / `get_unchecked_mut` outside the buffer is the distinct outcome [Panic OOB]
   (undefined behaviour in the real code); an `assert!` that fails is [Panic ASSERTF]; a checked
   index (`v[i]`) outside the buffer is [Panic INDEXF].  No fuel: the scans recurse structurally on
   the remaining suffix of the buffer, running off its end IS the out-of-bounds read.
   proofs/ScansP.v: OOB is unreachable, the scans stop at/before the sentinel, the overwritten
   sentinel is restored. *)
From Coq Require Import List ZArith Bool Arith.
From AltModel Require Import Num.
Import ListNotations.

Definition OOB : Z := 99%Z.
Definition ASSERTF : Z := 1%Z.
Definition INDEXF : Z := 2%Z.

(* v.get_unchecked(i) *)
Definition get_unchecked {A} (v : list A) (i : nat) : res A :=
  match nth_error v i with Some x => Ok x | None => Panic OOB end.
(* v[i] *)
Definition get_checked {A} (v : list A) (i : nat) : res A :=
  match nth_error v i with Some x => Ok x | None => Panic INDEXF end.

Fixpoint set_nth {A} (v : list A) (i : nat) (x : A) : list A :=
  match v, i with
  | [], _ => []
  | _ :: t, 0 => x :: t
  | a :: t, S k => a :: set_nth t k x
  end.
(* v.get_unchecked_mut(i) := x *)
Definition set_unchecked {A} (v : list A) (i : nat) (x : A) : res (list A) :=
  if i <? length v then Ok (set_nth v i x) else Panic OOB.

(* `while !p(v.get_unchecked(i)) { i += 1 }` started at i with remaining suffix l *)
Fixpoint find_from {A} (p : A -> bool) (l : list A) (i : nat) : res nat :=
  match l with
  | [] => Panic OOB
  | x :: t => if p x then Ok i else find_from p t (S i)
  end.
Definition scan_until {A} (p : A -> bool) (v : list A) (start : nat) : res nat :=
  find_from p (skipn start v) start.

(* ---------------------------------------------------------------- calc_idx_sentinels *)
(* a DivergeNode is (train_idx, disp_node_idx); 0 = None *)
Fixpoint skip_while_checked (p : nat * nat -> bool) (l : list (nat * nat)) (i : nat) : res nat :=
  match l with
  | [] => Panic INDEXF            (* div_nodes[div_idx] past the end: checked index panics *)
  | x :: t => if p x then skip_while_checked p t (S i) else Ok i
  end.

Definition calc_idx_sentinels (div_idx tsent : nat) (dn : list (nat * nat)) : res (nat * nat) :=
  let? _ := passert (div_idx <? length dn) ASSERTF in
  let? _ := passert (match dn with [] => false | _ => fst (last dn (0, 0)) =? tsent end) ASSERTF in
  let? i := scan_until (fun x => fst x =? tsent) dn div_idx in
  let? nd := get_unchecked dn i in
  let dsent := snd nd in
  let j := S i in
  let? j' := if j <? length dn then skip_while_checked (fun x => snd x =? dsent) (skipn j dn) j else Ok j in
  Ok (dsent, j').

(* ---------------------------------------------------------------- find_train_intersect *)
Inductive link_opt := LSingle (c : Z) | LRange (mn df : Z) | LCheck.

Definition two64 : Z := (2 ^ 64)%Z.
Definition two32 : Z := (2 ^ 32)%Z.
(* a.wrapping_sub(b) on usize *)
Definition wrapping_sub (a b : Z) : Z := ((a - b) mod two64)%Z.

(* links_blocked[l.idx()].is_some() *)
Definition blocked_at (blocked : list nat) (l : Z) : res bool :=
  match nth_error blocked (Z.to_nat l) with Some b => Ok (negb (b =? 0)) | None => Panic INDEXF end.

Fixpoint range_scan (mn df : Z) (sentinel : nat) (blocked : list nat) (l : list Z) (i : nat) : res nat :=
  match l with
  | [] => Panic OOB
  | x :: t =>
      if (wrapping_sub x mn >? df)%Z then range_scan mn df sentinel blocked t (S i)
      else if i =? sentinel then Ok i
      else let? b := blocked_at blocked x in
           if b then Ok i else range_scan mn df sentinel blocked t (S i)
  end.

Fixpoint check_scan (path : list Z) (blocked : list nat) (k i : nat) : res nat :=
  match k with
  | 0 => Ok i
  | S k' => let? x := get_unchecked path i in
            let? b := blocked_at blocked x in
            if b then Ok i else check_scan path blocked k' (S i)
  end.

(* returns the index and the path buffer as it is left behind *)
Definition find_train_intersect (idx_split idx_sentinel : nat) (opt : link_opt) (path : list Z) (blocked : list nat)
  : res (nat * list Z) :=
  if idx_sentinel <=? idx_split then Ok (idx_split, path) else
  let? _ := passert (idx_sentinel <? length path) ASSERTF in
  match opt with
  | LSingle c =>
      let? save := get_unchecked path idx_sentinel in
      let? p1 := set_unchecked path idx_sentinel c in
      let? i := scan_until (fun x => (x =? c)%Z) p1 idx_split in
      let? p2 := set_unchecked p1 idx_sentinel save in
      Ok (i, p2)
  | LRange mn df =>
      let? save := get_unchecked path idx_sentinel in
      let? p1 := set_unchecked path idx_sentinel (mn mod two32)%Z in     (* LinkIdx::new(min as u32) *)
      let? i := range_scan mn df idx_sentinel blocked (skipn idx_split p1) idx_split in
      let? p2 := set_unchecked p1 idx_sentinel save in
      Ok (i, p2)
  | LCheck =>
      let? i := check_scan path blocked (idx_sentinel - idx_split) idx_split in
      Ok (i, path)
  end.

(* ---------------------------------------------------------------- add_blocking_trains *)
(* a TrainIdxsView is (idx_begin, idx_end); trains are nat with 0 = None *)
Fixpoint add_loop (e b : nat) (idxs : list nat) (tb : list nat) : res (list nat) :=
  match idxs with
  | [] => Ok tb
  | idx_add :: rest =>
      let? train_add := get_checked tb idx_add in
      let? tb1 := set_unchecked tb e train_add in
      let? i := scan_until (fun x => x =? train_add) tb1 b in
      add_loop e b rest (if i =? e then tb1 ++ [train_add] else tb1)
  end.

Definition add_blocking_trains (tb : list nat) (base add : nat * nat) : res (list nat * (nat * nat)) :=
  let '(b, e) := base in let '(ab, ae) := add in
  let? _ := passert (b <=? e) ASSERTF in
  let? _ := passert (length tb =? e) ASSERTF in
  let tb0 := tb ++ [0] in
  let? tb1 := add_loop e b (seq ab (ae - ab)) tb0 in
  let train_save := last tb1 0 in
  let tb2 := removelast tb1 in
  let tb3 := if e <? length tb2 then set_nth tb2 e train_save else tb2 in
  Ok (tb3, (b, length tb3)).
