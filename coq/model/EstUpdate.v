(* EstUpdate.v -- the two shortest-path passes that schedule an estimated-time network
   (rust/altrios-core/src/meet_pass/est_times/update_times.rs):
     update_times_forward  (sets time_sched along primary links, re-links join nodes so that the
                            earliest arrival is the primary predecessor),
     update_times_backward (re-links split nodes, shifts the scheduled times of later branches).
   The node array is the one EstNet.v checks; "time_sched is NaN" (= not scheduled yet) is carried as an explicit
   flag array [set] so that the model is meaningful over R too.  The BinaryHeaps are lists from which the maximum
   under the Ord instances of EstNet.v is removed (equal elements are identical, so the choice is unique).
   Panic 1701: index outside the array; 1702..1709: the assert!s of the Rust code in order of appearance;
   Panic 1 (from pcmp): comparison of unordered floats; Err 1799: fuel exhausted (the loops have no bound). *)
From Coq Require Import List Bool Arith ZArith.
From AltModel Require Import Num TrackNet EstNet.
Import ListNotations.
Local Open Scope num_scope.

Section EstUpdate.
Context {F : Type} {NO : NumOps F}.

Definition getn (ns : list (enode (F:=F))) (i : nat) : res (enode (F:=F)) :=
  match nth_error ns i with Some x => Ok x | None => Panic 1701 end.
Definition getb (bs : list bool) (i : nat) : res bool :=
  match nth_error bs i with Some x => Ok x | None => Panic 1701 end.
Fixpoint updl {A} (v : list A) (i : nat) (f : A -> A) : list A :=
  match v, i with
  | [], _ => []
  | a :: t, O => f a :: t
  | a :: t, S k => a :: updl t k f
  end.
Definition set_ts (t : F) (n : enode (F:=F)) : enode := mkN t (n_ttn n) (n_dist n) (n_next n) (n_nexta n) (n_prev n) (n_preva n) (n_link n) (n_ty n).
Definition set_next (j : nat) (n : enode (F:=F)) : enode := mkN (n_ts n) (n_ttn n) (n_dist n) j (n_nexta n) (n_prev n) (n_preva n) (n_link n) (n_ty n).
Definition set_prev (j : nat) (n : enode (F:=F)) : enode := mkN (n_ts n) (n_ttn n) (n_dist n) (n_next n) (n_nexta n) j (n_preva n) (n_link n) (n_ty n).
Definition set_ttn_dist (t d : F) (n : enode (F:=F)) : enode := mkN (n_ts n) t d (n_next n) (n_nexta n) (n_prev n) (n_preva n) (n_link n) (n_ty n).
Definition is_fake (n : enode (F:=F)) : bool := Nat.leb 2 (n_ty n).
Definition ts_next (n : enode (F:=F)) : F := n_ts n + n_ttn n.

(* remove the maximum of a non-empty list under a (partial) comparison *)
Fixpoint pop_max {A} (cmp : A -> A -> res comparison) (best : A) (rest acc : list A) : res (A * list A) :=
  match rest with
  | [] => Ok (best, acc)
  | x :: t => let? c := cmp x best in
              match c with
              | Gt => pop_max cmp x t (best :: acc)
              | _ => pop_max cmp best t (x :: acc)
              end
  end.

(* ---------------------------------------------------------------- forward *)
(* while est_next is Fake && next-of-next not scheduled && next-of-next is not the last node: follow idx_next *)
Fixpoint fwd_skip (fuel : nat) (ns : list enode) (set : list bool) (idx_next : nat) : res nat :=
  match fuel with
  | O => Err 1799
  | S f =>
      let? en := getn ns idx_next in
      let? snn := getb set (n_next en) in
      if is_fake en && negb snn && negb (Nat.eqb (n_next en) (length ns - 1)%nat)
      then fwd_skip f ns set (n_next en) else Ok idx_next
  end.

(* the inner loop: schedule along primary links until a join node or a fake node is next *)
Fixpoint fwd_run (fuel : nat) (ns : list enode) (set : list bool) (q : list (F * nat)) (idx_curr idx_next : nat)
  : res (list enode * list bool * list (F * nat) * nat * nat) :=
  match fuel with
  | O => Err 1799
  | S f =>
      let? ec := getn ns idx_curr in
      let alt := n_nexta ec in
      let? st1 :=
        if Nat.eqb alt 0 then Ok (ns, set, q)
        else let? ea := getn ns alt in
             let ea' := set_ts (n_ts ec) ea in
             Ok (updl ns alt (fun _ => ea'), updl set alt (fun _ => true), (ts_next ea', alt) :: q) in
      let '(ns1, set1, q1) := st1 in
      let? sn := getb set1 idx_next in
      let? _ := passert (negb sn) 1704 in
      let? ec1 := getn ns1 idx_curr in
      let? en := getn ns1 idx_next in
      let ns2 := updl ns1 idx_next (fun _ => set_ts (ts_next ec1) en) in
      let set2 := updl set1 idx_next (fun _ => true) in
      let idx_curr' := idx_next in
      let idx_next' := n_next en in
      let? enn := getn ns2 idx_next' in
      if negb (Nat.eqb (n_preva enn) 0) || is_fake enn then Ok (ns2, set2, q1, idx_curr', idx_next')
      else fwd_run f ns2 set2 q1 idx_curr' idx_next'
  end.

Fixpoint fwd_outer (fuel : nat) (ns : list enode) (set : list bool) (q : list (F * nat)) : res (list enode * list bool) :=
  match q with
  | [] => Ok (ns, set)
  | x :: rest =>
    match fuel with
    | O => Err 1799
    | S f =>
      let? pm := pop_max cmp_est_next x rest [] in
      let '((_, idx_curr), q0) := pm in
      let? ec := getn ns idx_curr in
      let idx_next := n_next ec in
      let? sc := getb set idx_curr in let? _ := passert sc 1702 in
      let? sn := getb set idx_next in let? _ := passert (negb sn) 1703 in
      (* find and swap join nodes *)
      let idx_save := idx_next in
      let? idx_next := fwd_skip (length ns) ns set idx_next in
      let? ns1 :=
        if Nat.eqb idx_save idx_next then Ok ns
        else let? en := getn ns idx_next in
             let idx_base := n_prev en in
             let? _ := getn ns idx_base in let? _ := getn ns idx_save in
             Ok (updl (updl (updl (updl ns idx_curr (set_next idx_next)) idx_base (set_next idx_save))
                        idx_save (set_prev idx_base)) idx_next (set_prev idx_curr)) in
      let? r := fwd_run (length ns) ns1 set q0 idx_curr idx_next in
      let '(ns2, set2, q2, idx_curr2, idx_next2) := r in
      let? sn2 := getb set2 idx_next2 in
      let? ec2 := getn ns2 idx_curr2 in
      let? en2 := getn ns2 idx_next2 in
      if negb sn2 then
        if Nat.eqb (n_next en2) 0
        then fwd_outer f (updl ns2 idx_next2 (set_ts (n_ts ec2))) (updl set2 idx_next2 (fun _ => true)) q2
        else let? _ := passert (negb (is_fake ec2)) 1705 in
             fwd_outer f ns2 set2 ((ts_next ec2, idx_curr2) :: q2)
      else
        let? _ := passert (is_fake ec2) 1706 in
        let? _ := passert (Nat.eqb idx_curr2 (n_preva en2)) 1707 in
        fwd_outer f ns2 set2 q2
    end
  end.

Definition update_times_forward (fuel : nat) (ns : list enode) (set : list bool) (t0 : F) : res (list enode * list bool) :=
  let? _ := getn ns 1 in
  let ns0 := updl (updl ns 0 (set_ts t0)) 1 (set_ts t0) in
  let set0 := updl (updl set 0 (fun _ => true)) 1 (fun _ => true) in
  fwd_outer fuel ns0 set0 [(t0, 1)].

(* ---------------------------------------------------------------- backward *)
(* while est_prev is Fake && prev-of-prev not passed && prev-of-prev != NA: follow idx_prev *)
Fixpoint bwd_skip (fuel : nat) (ns : list enode) (passed : list bool) (idx_prev : nat) : res nat :=
  match fuel with
  | O => Err 1799
  | S f =>
      let? ep := getn ns idx_prev in
      let? spp := getb passed (n_prev ep) in
      if is_fake ep && negb spp && negb (Nat.eqb (n_prev ep) 0)
      then bwd_skip f ns passed (n_prev ep) else Ok idx_prev
  end.

Fixpoint bwd_run (fuel : nat) (ns : list enode) (passed : list bool) (q : list (F * F * nat)) (time_sub : F)
    (idx_curr idx_prev : nat) : res (list enode * list bool * list (F * F * nat) * nat * nat) :=
  match fuel with
  | O => Err 1799
  | S f =>
      let? ec := getn ns idx_curr in
      let alt := n_preva ec in
      let? st1 :=
        if Nat.eqb alt 0 then Ok (ns, passed, q)
        else let? ea := getn ns alt in
             let ts := n_ts ec in
             let sub_alt := n_ts ea - ts in
             Ok (updl ns alt (set_ts ts), updl passed alt (fun _ => true), (ts, sub_alt, alt) :: q) in
      let '(ns1, p1, q1) := st1 in
      let? sp := getb p1 idx_prev in
      let? _ := passert (negb sp) 1712 in
      let? ep := getn ns1 idx_prev in
      let ns2 := updl ns1 idx_prev (set_ts (n_ts ep - time_sub)) in
      let p2 := updl p1 idx_prev (fun _ => true) in
      let idx_curr' := idx_prev in
      let idx_prev' := n_prev ep in
      let? epp := getn ns2 idx_prev' in
      if negb (Nat.eqb (n_nexta epp) 0) || is_fake epp then Ok (ns2, p2, q1, idx_curr', idx_prev')
      else bwd_run f ns2 p2 q1 time_sub idx_curr' idx_prev'
  end.

Fixpoint bwd_outer (fuel : nat) (ns : list enode) (passed : list bool) (q : list (F * F * nat)) : res (list enode) :=
  match q with
  | [] => Ok ns
  | x :: rest =>
    match fuel with
    | O => Err 1799
    | S f =>
      let? pm := pop_max cmp_est_prev x rest [] in
      let '((_, time_sub, idx_curr), q0) := pm in
      let? ec := getn ns idx_curr in
      let idx_prev := n_prev ec in
      let? sc := getb passed idx_curr in let? _ := passert sc 1710 in
      let? sp := getb passed idx_prev in let? _ := passert (negb sp) 1711 in
      let idx_save := idx_prev in
      let? idx_prev := bwd_skip (length ns) ns passed idx_prev in
      let? ns1 :=
        if Nat.eqb idx_save idx_prev then Ok ns
        else let? ep := getn ns idx_prev in
             let idx_base := n_next ep in
             let? _ := getn ns idx_base in
             let? es := getn ns idx_save in
             let nsa := updl (updl (updl (updl ns idx_curr (set_prev idx_prev)) idx_base (set_prev idx_save))
                              idx_save (set_next idx_base)) idx_prev (set_next idx_curr) in
             (* swap time_to_next and dist_to_next of idx_save and idx_prev *)
             Ok (updl (updl nsa idx_save (set_ttn_dist (n_ttn ep) (n_dist ep))) idx_prev (set_ttn_dist (n_ttn es) (n_dist es))) in
      let? r := bwd_run (length ns) ns1 passed q0 time_sub idx_curr idx_prev in
      let '(ns2, p2, q2, idx_curr2, idx_prev2) := r in
      let? sp2 := getb p2 idx_prev2 in
      let? ec2 := getn ns2 idx_curr2 in
      let? ep2 := getn ns2 idx_prev2 in
      if negb sp2 then
        if Nat.eqb (n_prev ep2) 0
        then bwd_outer f (updl (updl ns2 idx_prev2 (set_ts (n_ts ec2))) 0 (set_ts (n_ts ec2)))
                       (updl (updl p2 idx_prev2 (fun _ => true)) 0 (fun _ => true)) q2
        else let? _ := passert (negb (is_fake ec2)) 1713 in
             bwd_outer f ns2 p2 ((n_ts ec2 - n_ttn ep2, time_sub, idx_curr2) :: q2)
      else
        let? _ := passert (is_fake ec2) 1714 in
        let? _ := passert (Nat.eqb idx_curr2 (n_nexta ep2)) 1715 in
        bwd_outer f ns2 p2 q2
    end
  end.

Definition update_times_backward (fuel : nat) (ns : list enode) : res (list enode) :=
  let n := length ns in
  let passed := updl (updl (repeat false n) (n - 1)%nat (fun _ => true)) (n - 2)%nat (fun _ => true) in
  let? _ := getn ns (n - 2)%nat in
  bwd_outer fuel ns passed [(n0, n0, (n - 2)%nat)].

(* both passes, as make_est_times runs them *)
Definition update_times (fuel : nat) (ns : list enode) (set : list bool) (t0 : F) : res (list enode) :=
  let? r := update_times_forward fuel ns set t0 in
  update_times_backward fuel (fst r).

End EstUpdate.
