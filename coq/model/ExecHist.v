(* ExecHist.v -- entry points of the history/counter model (C19) for the correspondence check.
   Output layout (mirrors harness/src/c19.rs):
     tag 0; ret (0 = the last call returned normally, else the Err code);
     [sim counter]                         (LocomotiveSimulation / ConsistSimulation only)
     then per node, in tree order: i, interval (-1 = None), history length, the saved indices.
   A panic (interval 0) is tag 2. *)
From Coq Require Import ZArith List Bool.
From AltModel Require Import Num Hist.
Import ListNotations.

Definition zn (n : nat) : out := OZ (Z.of_nat n).
Definition node_outs (x : node) : list out :=
  [zn (nd_i x); OZ (match nd_si x with None => (-1)%Z | Some n => Z.of_nat n end);
   zn (length (nd_hist x))] ++ map zn (nd_hist x).
Definition loco_outs_h (l : loco) : list out := node_outs (lc_nd l) ++ flat_map node_outs (lc_comps l).
Definition consist_outs_h (c : consist) : list out :=
  node_outs (cn_nd c) ++ flat_map loco_outs_h (cn_locos c).

Definition call_outs {A} (f : A -> list out) (r : call A) : list out :=
  match r with
  | (a, None) => OZ 0 :: OZ 0 :: f a
  | (a, Some (Err c)) => OZ 0 :: OZ c :: f a
  | (a, Some (Panic c)) => [OZ 2; OZ c]
  | (a, Some (Ok _)) => [OZ 2; OZ (-1)]
  end.

Definition x_hist_lsim (s : lsim) (cs : list cmd) : list out :=
  call_outs (fun s => zn (ls_i s) :: loco_outs_h (ls_loco s)) (calls lsim_cmd s cs).
Definition x_hist_csim (s : csim) (cs : list cmd) : list out :=
  call_outs (fun s => zn (cs_i s) :: consist_outs_h (cs_con s)) (calls csim_cmd s cs).
Definition x_hist_ssim (s : ssim) (cs : list cmd) : list out :=
  call_outs (fun s => node_outs (ss_nd s) ++ consist_outs_h (ss_con s)) (calls ssim_cmd s cs).
Definition x_hist_tsim (s : tsim) (cs : list cmd) : list out :=
  call_outs (fun s => node_outs (ts_nd s) ++ node_outs (ts_fric s) ++ consist_outs_h (ts_con s))
            (calls tsim_cmd s cs).

(* compact command lists: k accepted steps *)
Definition steps (k : nat) : list cmd := repeat (CStep true) k.
