(* Codec.v -- what altrios-core itself contributes to save/load (C17): the SCHEMA.

   The byte formats are third-party code (serde_yaml, serde_json, bincode, ryu) and are not
   modelled.  What the repository's own source decides, through `#[derive(Serialize,
   Deserialize)]` attributes and `SerdeAPI::init`, is
     - which fields are written at all          (#[serde(skip)]: never; rebuilt lazily),
     - which are left out when equal to Default (#[serde(skip_serializing_if = "EqDefault::eq_default")],
                                                  "Option::is_none"),
     - which may be absent on load              (#[serde(default)], Option-typed fields),
     - which fields can hold non-finite sentinels.
   This file models exactly that, generically: a value tree, a schema type [ty] carrying the
   attributes, and schema-directed
     [enc]/[dec]    for a SELF-DESCRIBING format (YAML, JSON: a struct is a map of the present
                    fields; an absent field takes its default),
     [jsonify]      JSON's  non-finite => null,
     [encp]/[decp]  for a POSITIONAL format (bincode: no field names; the derived Deserialize
                    reads every non-#[serde(skip)] field in declaration order, so a field the
                    serializer skipped shifts everything after it).
   The concrete schemas of the stateful structs are in the second half (read off the Rust
   sources line by line; the harness checks them against the real derive output on every run). *)
From Coq Require Import ZArith List Bool String.
From AltModel Require Import Num.
Import ListNotations.
Local Open Scope num_scope.

Section Codec.
Context {F : Type} {NO : NumOps F}.

(* an f64 as the formats see it *)
Inductive num := NFin (x : F) | NPosInf | NNegInf | NNan.
Definition num_finite (n : num) : bool := match n with NFin _ => true | _ => false end.
(* f64::eq : NaN is not equal to itself *)
Definition num_eqb (a b : num) : bool :=
  match a, b with
  | NFin x, NFin y => x =? y
  | NPosInf, NPosInf => true
  | NNegInf, NNegInf => true
  | _, _ => false
  end.

Inductive val :=
| VNull                              (* None / unit / JSON null *)
| VBool (b : bool)
| VInt (z : Z)
| VNum (n : num)
| VStr (s : string)
| VSeq (l : list val)
| VRec (l : list val)                (* a struct in memory: ALL fields, declaration order *)
| VMap (l : list (string * val))     (* a struct as written by a self-describing format: the PRESENT fields *)
| VVar (tag : string) (v : val).     (* enum variant (externally tagged) *)

Definition is_null (v : val) : bool := match v with VNull => true | _ => false end.

(* PartialEq on values *)
Fixpoint val_eqb (a b : val) {struct a} : bool :=
  match a, b with
  | VNull, VNull => true
  | VBool x, VBool y => Bool.eqb x y
  | VInt x, VInt y => Z.eqb x y
  | VNum x, VNum y => num_eqb x y
  | VStr x, VStr y => String.eqb x y
  | VSeq x, VSeq y =>
      (fix go (x y : list val) : bool :=
         match x, y with
         | [], [] => true
         | p :: x', q :: y' => val_eqb p q && go x' y'
         | _, _ => false
         end) x y
  | VRec x, VRec y =>
      (fix go (x y : list val) : bool :=
         match x, y with
         | [], [] => true
         | p :: x', q :: y' => val_eqb p q && go x' y'
         | _, _ => false
         end) x y
  | VMap x, VMap y =>
      (fix go (x y : list (string * val)) : bool :=
         match x, y with
         | [], [] => true
         | (k, p) :: x', (k', q) :: y' => String.eqb k k' && val_eqb p q && go x' y'
         | _, _ => false
         end) x y
  | VVar t x, VVar t' y => String.eqb t t' && val_eqb x y
  | _, _ => false
  end.

(* ---------------------------------------------------------------- schema *)
Inductive skipcond :=
| NoSkip
| SkipIfDefault      (* skip_serializing_if = "EqDefault::eq_default" *)
| SkipIfNone.        (* skip_serializing_if = "Option::is_none" *)

Record fattr := {
  f_name : string;
  f_skip_if : skipcond;
  f_serde_skip : bool;          (* #[serde(skip)]: neither written nor read; Default::default() after load *)
  f_has_default : bool;         (* may be absent on load: #[serde(default)], default = "fn", Option-typed *)
  f_dflt : val                  (* the value used then; also the comparand of EqDefault and the
                                   post-load value of a #[serde(skip)] field *)
}.

Inductive ty :=
| TUnit | TBool | TInt | TNum | TStr
| TOpt (t : ty)
| TSeq (t : ty)
| TRec (fs : list (fattr * ty))
| TEnum (vs : list (string * ty)).

Definition skipped (a : fattr) (v : val) : bool :=
  match f_skip_if a with
  | NoSkip => false
  | SkipIfDefault => val_eqb v (f_dflt a)
  | SkipIfNone => is_null v
  end.
(* not present in the written data *)
Definition absent (a : fattr) (v : val) : bool := f_serde_skip a || skipped a v.

Fixpoint lookup (k : string) (m : list (string * val)) : option val :=
  match m with
  | [] => None
  | (k', v) :: m' => if String.eqb k k' then Some v else lookup k m'
  end.

Fixpoint map_res' {A B} (f : A -> res B) (l : list A) : res (list B) :=
  match l with
  | [] => Ok []
  | x :: t => let? y := f x in let? ys := map_res' f t in Ok (y :: ys)
  end.

(* ---------------------------------------------------------------- self-describing format *)
(* Serialize as derived: a struct is the map of its present fields *)
Fixpoint enc (t : ty) (v : val) {struct t} : val :=
  match t, v with
  | TOpt _, VNull => VNull
  | TOpt t', v => enc t' v
  | TSeq t', VSeq l => VSeq (map (enc t') l)
  | TRec fs, VRec l =>
      VMap ((fix go (fs : list (fattr * ty)) (l : list val) : list (string * val) :=
               match fs, l with
               | (a, t') :: fs', v' :: l' =>
                   if absent a v' then go fs' l' else (f_name a, enc t' v') :: go fs' l'
               | _, _ => []
               end) fs l)
  | TEnum vs, VVar tag v' =>
      (fix pick (vs : list (string * ty)) : val :=
         match vs with
         | [] => VNull
         | (n, t') :: vs' => if String.eqb tag n then VVar tag (enc t' v') else pick vs'
         end) vs
  | _, v => v
  end.

(* Deserialize as derived (unknown keys are ignored, as serde does without deny_unknown_fields).
   Err 1701 = null where a number is expected (serde_json: "invalid type: null, expected f64"),
   Err 1702 = missing field, Err 1703 = invalid type, Err 1704 = unknown variant. *)
Fixpoint dec (t : ty) (e : val) {struct t} : res val :=
  match t with
  | TUnit => match e with VNull => Ok VNull | _ => Err 1703 end
  | TBool => match e with VBool b => Ok (VBool b) | _ => Err 1703 end
  | TInt => match e with VInt z => Ok (VInt z) | _ => Err 1703 end
  | TNum => match e with VNum n => Ok (VNum n) | VNull => Err 1701 | _ => Err 1703 end
  | TStr => match e with VStr s => Ok (VStr s) | _ => Err 1703 end
  | TOpt t' => match e with VNull => Ok VNull | _ => dec t' e end
  | TSeq t' => match e with
               | VSeq l => let? l' := map_res' (dec t') l in Ok (VSeq l')
               | _ => Err 1703 end
  | TRec fs =>
      match e with
      | VMap m =>
          let? l := (fix go (fs : list (fattr * ty)) : res (list val) :=
                       match fs with
                       | [] => Ok []
                       | (a, t') :: fs' =>
                           let? v := (if f_serde_skip a then Ok (f_dflt a)
                                      else match lookup (f_name a) m with
                                           | Some e' => dec t' e'
                                           | None => if f_has_default a then Ok (f_dflt a) else Err 1702
                                           end) in
                           let? r := go fs' in Ok (v :: r)
                       end) fs in
          Ok (VRec l)
      | _ => Err 1703
      end
  | TEnum vs =>
      match e with
      | VVar tag e' =>
          (fix pick (vs : list (string * ty)) : res val :=
             match vs with
             | [] => Err 1704
             | (n, t') :: vs' => if String.eqb tag n then (let? v := dec t' e' in Ok (VVar tag v)) else pick vs'
             end) vs
      | _ => Err 1703
      end
  end.

(* what a reload can at best return: the object with its #[serde(skip)] caches cleared *)
Fixpoint clear (t : ty) (v : val) {struct t} : val :=
  match t, v with
  | TOpt _, VNull => VNull
  | TOpt t', v => clear t' v
  | TSeq t', VSeq l => VSeq (map (clear t') l)
  | TRec fs, VRec l =>
      VRec ((fix go (fs : list (fattr * ty)) (l : list val) : list val :=
               match fs, l with
               | (a, t') :: fs', v' :: l' =>
                   (if f_serde_skip a then f_dflt a else clear t' v') :: go fs' l'
               | _, _ => []
               end) fs l)
  | TEnum vs, VVar tag v' =>
      (fix pick (vs : list (string * ty)) : val :=
         match vs with
         | [] => VVar tag v'
         | (n, t') :: vs' => if String.eqb tag n then VVar tag (clear t' v') else pick vs'
         end) vs
  | _, v => v
  end.

(* JSON: serde_json writes every non-finite f64 as null *)
Fixpoint jsonify (e : val) : val :=
  match e with
  | VNum n => if num_finite n then e else VNull
  | VSeq l => VSeq (map jsonify l)
  | VRec l => VRec (map jsonify l)
  | VMap m => VMap (map (fun kv => (fst kv, jsonify (snd kv))) m)
  | VVar t v => VVar t (jsonify v)
  | _ => e
  end.

Fixpoint all_finite (e : val) : bool :=
  match e with
  | VNum n => num_finite n
  | VSeq l => forallb all_finite l
  | VRec l => forallb all_finite l
  | VMap m => forallb (fun kv => all_finite (snd kv)) m
  | VVar _ v => all_finite v
  | _ => true
  end.

(* ---------------------------------------------------------------- positional format *)
Inductive atom :=
| ABool (b : bool) | AInt (z : Z) | ANum (n : num) | AStr (s : string)
| ATag (k : nat).   (* Option tag 0/1, enum variant index, sequence length *)

Fixpoint index_of (tag : string) (vs : list (string * ty)) (k : nat) : option (nat * ty) :=
  match vs with
  | [] => None
  | (n, t) :: vs' => if String.eqb tag n then Some (k, t) else index_of tag vs' (S k)
  end.

Fixpoint encp (t : ty) (v : val) {struct t} : list atom :=
  match t, v with
  | TBool, VBool b => [ABool b]
  | TInt, VInt z => [AInt z]
  | TNum, VNum n => [ANum n]
  | TStr, VStr s => [AStr s]
  | TOpt _, VNull => [ATag 0]
  | TOpt t', v => ATag 1 :: encp t' v
  | TSeq t', VSeq l => ATag (List.length l) :: flat_map (encp t') l
  | TRec fs, VRec l =>
      (fix go (fs : list (fattr * ty)) (l : list val) : list atom :=
         match fs, l with
         | (a, t') :: fs', v' :: l' =>
             if absent a v' then go fs' l' else encp t' v' ++ go fs' l'
         | _, _ => []
         end) fs l
  | TEnum vs, VVar tag v' =>
      (fix pick (vs : list (string * ty)) (k : nat) : list atom :=
         match vs with
         | [] => []
         | (n, t') :: vs' => if String.eqb tag n then ATag k :: encp t' v' else pick vs' (S k)
         end) vs O
  | _, _ => []
  end.

(* Err 1710 = unexpected end of input, 1711 = wrong kind of datum at this position
   (bincode, being untyped, reports e.g. "invalid u8 while decoding bool" or silently
   misreads; the model's typed atoms make every misalignment an error),
   1712 = invalid Option/enum tag *)
Fixpoint decp (t : ty) (s : list atom) {struct t} : res (val * list atom) :=
  match t with
  | TUnit => Ok (VNull, s)
  | TBool => match s with ABool b :: s' => Ok (VBool b, s') | [] => Err 1710 | _ => Err 1711 end
  | TInt => match s with AInt z :: s' => Ok (VInt z, s') | [] => Err 1710 | _ => Err 1711 end
  | TNum => match s with ANum n :: s' => Ok (VNum n, s') | [] => Err 1710 | _ => Err 1711 end
  | TStr => match s with AStr x :: s' => Ok (VStr x, s') | [] => Err 1710 | _ => Err 1711 end
  | TOpt t' =>
      match s with
      | ATag 0 :: s' => Ok (VNull, s')
      | ATag 1 :: s' => decp t' s'
      | ATag _ :: _ => Err 1712
      | [] => Err 1710
      | _ => Err 1711
      end
  | TSeq t' =>
      match s with
      | ATag n :: s' =>
          let? r := (fix rep (n : nat) (s : list atom) : res (list val * list atom) :=
                       match n with
                       | O => Ok ([], s)
                       | S n' => let? vs1 := decp t' s in
                                 let? r := rep n' (snd vs1) in Ok (fst vs1 :: fst r, snd r)
                       end) n s' in
          Ok (VSeq (fst r), snd r)
      | [] => Err 1710
      | _ => Err 1711
      end
  | TRec fs =>
      let? r := (fix go (fs : list (fattr * ty)) (s : list atom) : res (list val * list atom) :=
                   match fs with
                   | [] => Ok ([], s)
                   | (a, t') :: fs' =>
                       if f_serde_skip a
                       then (let? r := go fs' s in Ok (f_dflt a :: fst r, snd r))
                       else (let? vs1 := decp t' s in
                             let? r := go fs' (snd vs1) in Ok (fst vs1 :: fst r, snd r))
                   end) fs s in
      Ok (VRec (fst r), snd r)
  | TEnum vs =>
      match s with
      | ATag k :: s' =>
          (fix pick (vs : list (string * ty)) (j : nat) : res (val * list atom) :=
             match vs with
             | [] => Err 1712
             | (n, t') :: vs' =>
                 if Nat.eqb j k then (let? vs1 := decp t' s' in Ok (VVar n (fst vs1), snd vs1))
                 else pick vs' (S j)
             end) vs O
      | [] => Err 1710
      | _ => Err 1711
      end
  end.

(* no field of the object (recursively) was left out by skip_serializing_if *)
Fixpoint no_skip (t : ty) (v : val) {struct t} : bool :=
  match t, v with
  | TOpt _, VNull => true
  | TOpt t', v => no_skip t' v
  | TSeq t', VSeq l => forallb (no_skip t') l
  | TRec fs, VRec l =>
      (fix go (fs : list (fattr * ty)) (l : list val) : bool :=
         match fs, l with
         | (a, t') :: fs', v' :: l' =>
             (f_serde_skip a || (negb (skipped a v') && no_skip t' v')) && go fs' l'
         | _, _ => true
         end) fs l
  | TEnum vs, VVar tag v' =>
      (fix pick (vs : list (string * ty)) : bool :=
         match vs with
         | [] => true
         | (n, t') :: vs' => if String.eqb tag n then no_skip t' v' else pick vs'
         end) vs
  | _, _ => true
  end.

(* ---------------------------------------------------------------- typing (bool, executable) *)
Fixpoint has_tyb (t : ty) (v : val) {struct t} : bool :=
  match t, v with
  | TUnit, VNull => true
  | TBool, VBool _ => true
  | TInt, VInt _ => true
  | TNum, VNum _ => true
  | TStr, VStr _ => true
  | TOpt _, VNull => true
  | TOpt t', v => has_tyb t' v
  | TSeq t', VSeq l => forallb (has_tyb t') l
  | TRec fs, VRec l =>
      (fix go (fs : list (fattr * ty)) (l : list val) : bool :=
         match fs, l with
         | [], [] => true
         | (a, t') :: fs', v' :: l' => has_tyb t' v' && go fs' l'
         | _, _ => false
         end) fs l
  | TEnum vs, VVar tag v' =>
      (fix pick (vs : list (string * ty)) : bool :=
         match vs with
         | [] => false
         | (n, t') :: vs' => if String.eqb tag n then has_tyb t' v' else pick vs'
         end) vs
  | _, _ => false
  end.

(* ---------------------------------------------------------------- schema construction helpers *)
Definition fld (n : string) (t : ty) : fattr * ty :=
  ({| f_name := n; f_skip_if := NoSkip; f_serde_skip := false; f_has_default := false; f_dflt := VNull |}, t).
(* #[serde(default)] *)
Definition fld_default (n : string) (t : ty) (d : val) : fattr * ty :=
  ({| f_name := n; f_skip_if := NoSkip; f_serde_skip := false; f_has_default := true; f_dflt := d |}, t).
(* Option-typed field: serde treats a missing Option field as None *)
Definition fld_opt (n : string) (t : ty) : fattr * ty :=
  ({| f_name := n; f_skip_if := NoSkip; f_serde_skip := false; f_has_default := true; f_dflt := VNull |}, TOpt t).
(* #[serde(default)] #[serde(skip_serializing_if = "EqDefault::eq_default")] *)
Definition fld_skip_default (n : string) (t : ty) (d : val) : fattr * ty :=
  ({| f_name := n; f_skip_if := SkipIfDefault; f_serde_skip := false; f_has_default := true; f_dflt := d |}, t).
(* #[serde(skip_serializing_if = "Option::is_none")] on an Option *)
Definition fld_skip_none (n : string) (t : ty) : fattr * ty :=
  ({| f_name := n; f_skip_if := SkipIfNone; f_serde_skip := false; f_has_default := true; f_dflt := VNull |}, TOpt t).
(* #[serde(skip)] *)
Definition fld_serde_skip (n : string) (t : ty) (d : val) : fattr * ty :=
  ({| f_name := n; f_skip_if := NoSkip; f_serde_skip := true; f_has_default := true; f_dflt := d |}, t).

Definition vnum (x : F) : val := VNum (NFin x).
Definition vz (z : Z) : val := VInt z.
Definition vseqF (l : list F) : val := VSeq (map vnum l).

(* `derive(HistoryVec)`: one Vec per state field *)
Definition hist_ty (state : ty) : ty :=
  match state with
  | TRec fs => TRec (map (fun ft => fld (f_name (fst ft)) (TSeq (snd ft))) fs)
  | t => t
  end.
Definition hist_empty (state : ty) : val :=
  match state with
  | TRec fs => VRec (map (fun _ => VSeq []) fs)
  | _ => VNull
  end.

End Codec.

Arguments num F : clear implicits.
Arguments val F : clear implicits.
Arguments ty F : clear implicits.
Arguments fattr F : clear implicits.
Arguments atom F : clear implicits.
