(* ExecTrack.v -- binary64 entry points of the track model (SpeedPoints.v, PathGeom.v) for the
   correspondence checks of C13 / C02 / C06.  Every entry point returns [list out]; the first
   element is the outcome tag (0 Ok / 1 Err code / 2 Panic code).  The field order of every
   [*_outs] function is the order in which harness/src/trk.rs lists the implementation's fields. *)
From Coq Require Import ZArith List Bool Floats.
From AltModel Require Import Num SpeedPoints PathGeom TrainCfg.
Import ListNotations.

Notation SLf := (SpeedLimit (F:=float)).
Notation SSf := (SpeedSet (F:=float)).
Notation TPf := (TrainParams (F:=float)).
Notation Linkf := (Link (F:=float)).
Notation Pathf := (Path (F:=float)).

(* speed_points(): count, then (offset, speed_limit) per point *)
Definition speed_outs (p : Pathf) : list out :=
  OZ (Z.of_nat (length (p_speed_points p)))
  :: flat_map (fun q => [OF (fst q); OF (snd q)]) (p_speed_points p).

Definition prc_outs (v : list (PRC (F:=float))) : list out :=
  OZ (Z.of_nat (length v))
  :: flat_map (fun c => [OF (prc_offset c); OF (prc_coeff c); OF (prc_net c)]) v.

(* link_points(), grades(), curves(), cat_power_limits(), then the ObjState cross-check *)
Definition geom_outs (p : Pathf) : list out :=
  (OZ (Z.of_nat (length (p_link_points p)))
   :: flat_map (fun l => [OF (lp_offset l); OZ (Z.of_nat (lp_grade_count l)); OZ (Z.of_nat (lp_curve_count l));
                          OZ (Z.of_nat (lp_cat_count l)); OZ (lp_link_idx l)]) (p_link_points p))
  ++ prc_outs (p_grades p) ++ prc_outs (p_curves p)
  ++ (OZ (Z.of_nat (length (p_cats p)))
      :: flat_map (fun c => match c with (s, e, w) => [OF s; OF e; OF w] end) (p_cats p))
  ++ [OB (counts_ok p); OB (p_finished p)].

(* ---- entry points ---- *)
(* PathTpc::new(tp) followed by one extend call per element of [paths] *)
Definition x_speed_profile (net : list Linkf) (tp : TPf) (paths : list (list Z)) : list out :=
  res_outs (extend_many net (new_path tp) paths) speed_outs.

Definition x_path_geom (net : list Linkf) (tp : TPf) (paths : list (list Z)) (fin : bool) : list out :=
  res_outs (bind (extend_many net (new_path tp) paths) (fun p => if fin then finish p else Ok p)) geom_outs.

(* the insertion routine alone on an explicit profile (used for small literal examples) *)
Definition x_insert_speed (pts : list (float * float)) (a b v : float) : list out :=
  let r := insert_speed pts a b v in
  OZ 0 :: OZ (Z.of_nat (length r)) :: flat_map (fun q => [OF (fst q); OF (snd q)]) r.

(* C02: is the implementation's stored profile [impl] below the model's profile everywhere?
   (certified comparison, see SpeedPoints.profile_le) *)
Definition x_speed_le (net : list Linkf) (tp : TPf) (paths : list (list Z)) (impl : list (float * float))
  : list out :=
  res_outs (extend_many net (new_path tp) paths) (fun p => [OB (profile_le impl (p_speed_points p))]).

(* TrainConfig::make_train_params: all nine fields of the resulting TrainParams *)
Definition x_make_train_params (rvs : list (RV (F:=float))) (ttype : Z) (tm tl : option float) : list out :=
  res_outs (make_train_params rvs ttype tm tl)
    (fun t => [OF (tp_length t); OF (tp_speed_max t); OF (tp_mass_static t); OF (tp_mass_per_brake t);
               OZ (tp_axle_count t); OZ (tp_train_type t);
               OF (tp_curve_coeff_0 t); OF (tp_curve_coeff_1 t); OF (tp_curve_coeff_2 t)]).
(* the same configuration, then the path: is the implementation's stored profile below the model's? *)
Definition x_speed_le_cfg (net : list Linkf) (rvs : list (RV (F:=float))) (ttype : Z) (tm tl : option float)
    (paths : list (list Z)) (impl : list (float * float)) : list out :=
  res_outs (bind (make_train_params rvs ttype tm tl) (fun tp => extend_many net (new_path tp) paths))
           (fun p => [OB (profile_le impl (p_speed_points p))]).

(* extend calls, then PathTpc::clear(offset_back): the remaining path (geometry + speed profile) and the counts
   of what was dropped *)
Definition x_clear (net : list Linkf) (tp : TPf) (paths : list (list Z)) (x : float) : list out :=
  res_outs (bind (extend_many net (new_path tp) paths) (fun p => clear p x))
    (fun r => geom_outs (fst r) ++ speed_outs (fst r)
              ++ [OZ (Z.of_nat (lp_grade_count (snd r))); OZ (Z.of_nat (lp_curve_count (snd r))); OZ (Z.of_nat (lp_cat_count (snd r)))]).
