(* ExecCodec.v -- entry points of the save/load model (C17) for the correspondence check.

   [x_shape]  compares a schema table of CodecSchema.v with what the REAL derive-generated
              serializer reported for one struct value: the names of the fields it wrote (in order),
              the names it skipped (`SerializeStruct::skip_field`), and the independently computed
              "field == Default::default()" / "is None" flags.
   [x_codec]  runs the model's decoder on the tree the REAL serializer emitted for an object and
              predicts, per format, whether the real round trip succeeds:
                self-describing: dec must succeed and re-encode to the same tree;
                JSON: dec of the jsonified tree (non-finite => null);
                positional: decp (encp v) must return the cleared object and consume everything. *)
From Coq Require Import ZArith List Bool Floats String.
From AltModel Require Import Num Interp Powertrain Loco Consist Codec CodecSchema.
Import ListNotations.
Export String.

Notation valf := (val float).
Notation tyf := (ty float).

Definition smem (s : string) (l : list string) : bool := existsb (String.eqb s) l.
Fixpoint slist_eqb (a b : list string) : bool :=
  match a, b with
  | [], [] => true
  | x :: a', y :: b' => String.eqb x y && slist_eqb a' b'
  | _, _ => false
  end.
Fixpoint sassoc (k : string) (l : list (string * bool)) : option bool :=
  match l with
  | [] => None
  | (k', b) :: l' => if String.eqb k k' then Some b else sassoc k l'
  end.

Definition x_shape (t : tyf) (present skipped : list string) (flags : list (string * bool)) : list out :=
  match t with
  | TRec fs =>
      let vis := filter (fun ft => negb (f_serde_skip (fst ft))) fs in
      let names := map (fun ft => f_name (fst ft)) vis in
      let names_ok := slist_eqb (filter (fun n => negb (smem n skipped)) names) present
                      && forallb (fun n => smem n names) skipped in
      let attr_ok := forallb (fun ft => match f_skip_if (fst ft) with
                                        | NoSkip => negb (smem (f_name (fst ft)) skipped)
                                        | _ => true end) vis in
      (* the model's skip decision from the independently computed flags *)
      let decision_ok := forallb (fun ft => match f_skip_if (fst ft) with
                                            | NoSkip => true
                                            | _ => match sassoc (f_name (fst ft)) flags with
                                                   | Some b => Bool.eqb b (smem (f_name (fst ft)) skipped)
                                                   | None => false
                                                   end
                                            end) vis in
      [OZ 0; OB names_ok; OB attr_ok; OB decision_ok; OZ (Z.of_nat (List.length names))]
  | _ => [OZ 2; OZ 1790]
  end.

Definition pos_ok (t : tyf) (v : valf) : bool :=
  match decp t (encp t v) with
  | Ok (v', []) => val_eqb v' (clear t v)
  | _ => false
  end.
Definition json_ok (t : tyf) (e : valf) : bool :=
  match dec t (jsonify e) with Ok _ => true | _ => false end.

Definition x_codec (t : tyf) (e : valf) : list out :=
  res_outs (dec t e)
    (fun v => [OB (has_tyb t v); OB (val_eqb (enc t v) e); OB (json_ok t e); OB (pos_ok t v);
               OB (no_skip t v); OB (all_finite e)]).

(* the TYPED layer against the real serializer: the tree the real serializer emitted for a locomotive / consist is decoded
   with the schema and projected into the numeric model's record ([*_of_val]); the result must be the record the harness
   printed from the object's fields directly (modulo the cleared caches) - this ties the field positions used by
   [loco_to_val] / [consist_to_val] (the embedding the typed round-trip theorems are about) to the real field names *)
Definition x_loco_embed (l : Loco (F:=float)) (e : valf) : list out :=
  res_outs (dec sch_loco e) (fun v => [OB (val_eqb (loco_to_val (loco_of_val v)) (loco_to_val (loco_normalize l)))]).
Definition x_consist_embed (c : Consist (F:=float)) (e : valf) : list out :=
  res_outs (dec sch_consist e)
    (fun v => [OB (val_eqb (consist_to_val (consist_of_val v)) (consist_to_val (consist_normalize c)))]).

(* schema handles (the harness names them) *)
Definition s_fc : tyf := sch_fc.
Definition s_fcstate : tyf := sch_fcstate.
Definition s_gen : tyf := sch_gen.
Definition s_genstate : tyf := sch_genstate.
Definition s_edrv : tyf := sch_edrv.
Definition s_edrvstate : tyf := sch_edrvstate.
Definition s_res : tyf := sch_res.
Definition s_resstate : tyf := sch_resstate.
Definition s_conv : tyf := sch_conv.
Definition s_bel : tyf := sch_bel.
Definition s_loco : tyf := sch_loco.
Definition s_locostate : tyf := sch_locostate.
Definition s_consist : tyf := sch_consist.
Definition s_consiststate : tyf := sch_consiststate.
Definition s_powertrace : tyf := sch_powertrace.
Definition s_locosim : tyf := sch_locosim.
Definition s_consistsim : tyf := sch_consistsim.
Definition s_pathtpc : tyf := sch_pathtpc.
Definition s_trainparams : tyf := sch_trainparams.
Definition s_linkpoint : tyf := sch_linkpoint.
Definition s_pathrescoeff : tyf := sch_pathrescoeff.
Definition s_speedlimitpoint : tyf := sch_speedlimitpoint.
Definition s_catpowerlimit : tyf := sch_catpowerlimit.
Definition s_heading : tyf := sch_heading.
Definition s_link : tyf := sch_link_shape.
Definition s_fricbrake : tyf := sch_fricbrake.
Definition s_fricbrakestate : tyf := sch_fricbrakestate.
Definition s_setspeed : tyf := sch_setspeed_shape.
Definition s_slts : tyf := sch_slts_shape.
Definition s_trainconfig : tyf := sch_trainconfig_shape.
Definition s_hist (t : tyf) : tyf := hist_ty t.
