(* Consist.v -- Consist, power-distribution policies, ConsistSimulation::solve_step
   (consist_model.rs, consist_utils.rs, consist_sim.rs).  Policies modelled: Proportional and
   RESGreedy (GoldenSectionSearch / FrontAndBack are todo!() in the code). *)
From Coq Require Import ZArith List Bool.
From AltModel Require Import Num Interp Powertrain Loco.
Import ListNotations.
Local Open Scope num_scope.

Section Consist.
Context {F : Type} {NO : NumOps F}.

Inductive Pdct := Proportional | RESGreedy.

Record ConsistState := {
  cs_i : Z;
  cs_pwr_out_max : F; cs_pwr_rate_out_max : F; cs_pwr_regen_max : F;
  cs_pwr_out_max_reves : F; cs_pwr_out_deficit : F; cs_pwr_out_max_non_reves : F;
  cs_pwr_regen_deficit : F; cs_pwr_dyn_brake_max : F; cs_pwr_out_req : F; cs_pwr_cat_lim : F;
  cs_pwr_out : F; cs_pwr_reves : F; cs_pwr_fuel : F;
  cs_energy_out : F; cs_energy_out_pos : F; cs_energy_out_neg : F; cs_energy_res : F;
  cs_energy_fuel : F }.

Record Consist := {
  cn_locos : list (Loco (F:=F)); cn_pdct : Pdct; cn_assert_limits : bool; cn_state : ConsistState }.

Definition is_bel (l : Loco (F:=F)) : bool := match lc_type l with PBel _ => true | PConv _ => false end.
Definition sumf {A} (f : A -> F) (l : list A) : F := fold_left (fun acc x => acc + f x) l n0.

Definition loco_edrv_max (l : Loco (F:=F)) : F := edrv_pwr_out_max (loco_edrv l).
Definition loco_fuel (l : Loco (F:=F)) : F :=
  match lc_type l with PConv c => fcs_pwr_fuel (fc_state (cv_fc c)) | PBel _ => n0 end.
Definition loco_reves (l : Loco (F:=F)) : F :=
  match lc_type l with PConv _ => n0 | PBel b => rs_pwr_out_chemical (res_state (bl_res b)) end.

(* map a fallible function over the locomotives, stopping at the first failure *)
Fixpoint map_res {A B} (f : A -> res B) (l : list A) : res (list B) :=
  match l with
  | [] => Ok []
  | x :: t => let? y := f x in let? ys := map_res f t in Ok (y :: ys)
  end.

(* Consist::set_pwr_aux *)
Definition consist_set_pwr_aux (c : Consist) (engine_on : bool) : Consist :=
  {| cn_locos := map (fun l => loco_set_pwr_aux l engine_on) (cn_locos c); cn_pdct := cn_pdct c;
     cn_assert_limits := cn_assert_limits c; cn_state := cn_state c |}.

(* LocoTrait::set_cur_pwr_max_out for Consist *)
Definition consist_set_cur_pwr_max_out (c : Consist) (dt : F) : res Consist :=
  let? ls := map_res (fun l => loco_set_cur_pwr_max_out l dt) (cn_locos c) in
  let s := cn_state c in
  let out_max := sumf (fun l => ls_pwr_out_max (lc_state l)) ls in
  let reves := sumf (fun l => if is_bel l then ls_pwr_out_max (lc_state l) else n0) ls in
  Ok {| cn_locos := ls; cn_pdct := cn_pdct c; cn_assert_limits := cn_assert_limits c;
        cn_state :=
          {| cs_i := cs_i s; cs_pwr_out_max := out_max;
             cs_pwr_rate_out_max := sumf (fun l => ls_pwr_rate_out_max (lc_state l)) ls;
             cs_pwr_regen_max := sumf (fun l => ls_pwr_regen_max (lc_state l)) ls;
             cs_pwr_out_max_reves := reves; cs_pwr_out_deficit := cs_pwr_out_deficit s;
             cs_pwr_out_max_non_reves := out_max - reves;
             cs_pwr_regen_deficit := cs_pwr_regen_deficit s;
             cs_pwr_dyn_brake_max := cs_pwr_dyn_brake_max s; cs_pwr_out_req := cs_pwr_out_req s;
             cs_pwr_cat_lim := cs_pwr_cat_lim s; cs_pwr_out := cs_pwr_out s;
             cs_pwr_reves := cs_pwr_reves s; cs_pwr_fuel := cs_pwr_fuel s;
             cs_energy_out := cs_energy_out s; cs_energy_out_pos := cs_energy_out_pos s;
             cs_energy_out_neg := cs_energy_out_neg s; cs_energy_res := cs_energy_res s;
             cs_energy_fuel := cs_energy_fuel s |} |}.

(* ---- the split (consist_utils.rs); the state passed in already holds req and deficits ---- *)
Definition split_positive (p : Pdct) (ls : list (Loco (F:=F))) (s : ConsistState) : res (list F) :=
  match p with
  | Proportional =>
      Ok (map (fun l => ls_pwr_out_max (lc_state l) / cs_pwr_out_max s * cs_pwr_out_req s) ls)
  | RESGreedy =>
      let v :=
        if cs_pwr_out_deficit s =? n0 then
          map (fun l => if is_bel l
                        then ls_pwr_out_max (lc_state l) / cs_pwr_out_max_reves s * cs_pwr_out_req s
                        else n0) ls
        else
          map (fun l => if is_bel l then ls_pwr_out_max (lc_state l)
                        else ls_pwr_out_max (lc_state l) / cs_pwr_out_max_non_reves s
                             * cs_pwr_out_deficit s) ls in
      (* utils::assert_almost_eq_uom(sum, pwr_out_req): a panic (901), not an error value *)
      let? _ := passert (almost_eq (sumf (fun x => x) v) (cs_pwr_out_req s) eps8) 901 in
      Ok v
  end.

Definition regen_vec (ls : list (Loco (F:=F))) (frac : F) : list F :=
  map (fun l => if is_bel l then ls_pwr_regen_max (lc_state l) * frac else n0) ls.

(* Err 902 = surplus_frac outside [0,1] *)
Definition split_negative (ls : list (Loco (F:=F))) (s : ConsistState) : res (list F) :=
  let brake := - cs_pwr_out_req s in
  let frac := if cs_pwr_regen_max s =? n0 then n0 else nmin (brake / cs_pwr_regen_max s) (n1 * n1) in
  let rv := regen_vec ls frac in
  let? out :=
    if cs_pwr_regen_deficit s =? n0 then Ok rv
    else
      let surplus := map (fun '(l, r) => loco_edrv_max l - r) (combine ls rv) in
      let ssum := sumf (fun x => x) surplus in
      let sfrac := cs_pwr_regen_deficit s / ssum in
      let? _ := ensure ((n0 <=? sfrac) && (sfrac <=? n1)) 902 in
      Ok (map (fun '(sp, r) => sp * sfrac + r) (combine surplus rv)) in
  Ok (map (fun x => - x) out).

Fixpoint solve_locos (ls : list (Loco (F:=F))) (ps : list F) (dt : F) (on : bool)
  : res (list (Loco (F:=F))) :=
  match ls, ps with
  | l :: lt, p :: pt =>
      let? l' := loco_solve l p dt on in
      let? lt' := solve_locos lt pt dt on in Ok (l' :: lt')
  | _, _ => Ok []
  end.

(* Consist::solve_energy_consumption ; Err 903 braking exceeds dyn-brake max, 904 exceeds max power,
   905 sum of shares is not the request *)
Definition consist_solve (c : Consist) (req dt : F) (on : bool) : res Consist :=
  let s := cn_state c in
  let lim := cn_assert_limits c in
  let? _ := ensure (negb lim || (- req <=? cs_pwr_dyn_brake_max s)) 903 in
  let? _ := ensure (negb lim || (req <=? cs_pwr_out_max s)) 904 in
  let deficit := nmax (req - cs_pwr_out_max_reves s) n0 in
  let rdeficit := nmax (- req - cs_pwr_regen_max s) n0 in
  let dbmax := sumf loco_edrv_max (cn_locos c) in
  let s1 := {| cs_i := cs_i s; cs_pwr_out_max := cs_pwr_out_max s;
               cs_pwr_rate_out_max := cs_pwr_rate_out_max s; cs_pwr_regen_max := cs_pwr_regen_max s;
               cs_pwr_out_max_reves := cs_pwr_out_max_reves s; cs_pwr_out_deficit := deficit;
               cs_pwr_out_max_non_reves := cs_pwr_out_max_non_reves s;
               cs_pwr_regen_deficit := rdeficit; cs_pwr_dyn_brake_max := dbmax;
               cs_pwr_out_req := req; cs_pwr_cat_lim := cs_pwr_cat_lim s;
               cs_pwr_out := cs_pwr_out s; cs_pwr_reves := cs_pwr_reves s;
               cs_pwr_fuel := cs_pwr_fuel s; cs_energy_out := cs_energy_out s;
               cs_energy_out_pos := cs_energy_out_pos s; cs_energy_out_neg := cs_energy_out_neg s;
               cs_energy_res := cs_energy_res s; cs_energy_fuel := cs_energy_fuel s |} in
  let? shares :=
    if n0 <? req then split_positive (cn_pdct c) (cn_locos c) s1
    else if req <? n0 then split_negative (cn_locos c) s1
    else Ok (map (fun _ => n0) (cn_locos c)) in
  let out := sumf (fun x => x) shares in
  let? _ := ensure (negb lim || almost_eq req out eps8) 905 in
  let? ls := solve_locos (cn_locos c) shares dt on in
  let fuel := sumf loco_fuel ls in
  let reves := sumf loco_reves ls in
  Ok {| cn_locos := ls; cn_pdct := cn_pdct c; cn_assert_limits := lim;
        cn_state :=
          {| cs_i := cs_i s; cs_pwr_out_max := cs_pwr_out_max s;
             cs_pwr_rate_out_max := cs_pwr_rate_out_max s; cs_pwr_regen_max := cs_pwr_regen_max s;
             cs_pwr_out_max_reves := cs_pwr_out_max_reves s; cs_pwr_out_deficit := deficit;
             cs_pwr_out_max_non_reves := cs_pwr_out_max_non_reves s;
             cs_pwr_regen_deficit := rdeficit; cs_pwr_dyn_brake_max := dbmax;
             cs_pwr_out_req := req; cs_pwr_cat_lim := cs_pwr_cat_lim s;
             cs_pwr_out := out; cs_pwr_reves := reves; cs_pwr_fuel := fuel;
             cs_energy_out := cs_energy_out s + out * dt;
             cs_energy_out_pos := if n0 <=? out then cs_energy_out_pos s + out * dt
                                  else cs_energy_out_pos s;
             cs_energy_out_neg := if n0 <=? out then cs_energy_out_neg s
                                  else cs_energy_out_neg s - out * dt;
             cs_energy_res := cs_energy_res s + reves * dt;
             cs_energy_fuel := cs_energy_fuel s + fuel * dt |} |}.

(* ConsistSimulation::solve_step for one trace entry (engine always on) *)
Definition consist_sim_solve_step (c : Consist) (pwr dt : F) : res Consist :=
  let c := consist_set_pwr_aux c true in
  let? c := consist_set_cur_pwr_max_out c dt in
  consist_solve c pwr dt true.

End Consist.
