(* TrainFull.v -- the WHOLE train-simulation step: SetSpeedTrainSim::step and
   SpeedLimitTrainSim::step including their consist (publish limits -> train model chooses the
   wheel power under those limits -> consist solves that power -> position bookkeeping), composed
   from TrainStep.v (train level) and Consist.v (consist, locomotives, components).
   [fmax] = Consist::force_max(), a static parameter.  The consist limits handed to the train model
   are read from the consist state AFTER set_cur_pwr_max_out, exactly as the Rust code reads
   self.loco_con.state.*.  Error precedence: the Rust code runs set_link_and_offset after the consist
   solve; here a failure of the former is reported first (only matters when both fail). *)
From Coq Require Import ZArith List Bool.
From AltModel Require Import Num Interp Powertrain Loco Consist Resist Braking TrainStep.
Import ListNotations.
Local Open Scope num_scope.

Section TrainFull.
Context {F : Type} {NO : NumOps F}.

Definition cl_of (c : Consist (F:=F)) (fmax : F) : ConLim (F:=F) :=
  {| cl_pwr_out_max := cs_pwr_out_max (cn_state c);
     cl_pwr_rate_out_max := cs_pwr_rate_out_max (cn_state c);
     cl_pwr_dyn_brake_max := cs_pwr_dyn_brake_max (cn_state c);
     cl_force_max := fmax |}.

(* SetSpeedTrainSim::step with its consist; Panic 1203/1204 as in ss_solve_step *)
Definition ss_full_step (e : Env (F:=F)) (times speeds : list F) (fmax : F)
    (x : (TState (F:=F) * ResCache) * Consist (F:=F))
  : res ((TState (F:=F) * ResCache) * Consist (F:=F)) :=
  let '((st, cache), c) := x in
  match k_i (ts_k st) with
  | O => Panic 1204
  | S im1 =>
    match nth_error times (S im1), nth_error times im1 with
    | Some t_i, Some t_p =>
      let dt_i := t_i - t_p in
      let c1 := consist_set_pwr_aux c true in
      let? c2 := consist_set_cur_pwr_max_out c1 dt_i in
      let? (st', cache') := ss_solve_step e times speeds (cl_of c2 fmax) st cache in
      let? c' := consist_solve c2 (w_pwr_whl_out (ts_w st')) dt_i true in
      Ok ((bump_i st', cache'), c')
    | _, _ => Panic 1203
    end
  end.

(* SpeedLimitTrainSim::step with its consist *)
Definition sl_full_step (e : Env (F:=F)) (pts : list (BP (F:=F))) (fmax : F)
    (x : SLState (F:=F) * Consist (F:=F)) : res (SLState (F:=F) * Consist (F:=F)) :=
  let '(s, c) := x in
  let dt := k_dt (ts_k (sl_st s)) in
  let c1 := consist_set_pwr_aux c true in
  let? c2 := consist_set_cur_pwr_max_out c1 dt in
  let? s' := sl_solve_step e pts (cl_of c2 fmax) s in
  let? c' := consist_solve c2 (w_pwr_whl_out (ts_w (sl_st s'))) dt true in
  Ok (sl_bump s', c').

(* n consecutive steps (SetSpeedTrainSim::walk without the history) *)
Fixpoint ss_full_run (n : nat) (e : Env (F:=F)) (times speeds : list F) (fmax : F)
    (x : (TState (F:=F) * ResCache) * Consist (F:=F)) : res ((TState (F:=F) * ResCache) * Consist (F:=F)) :=
  match n with
  | O => Ok x
  | S k => let? x' := ss_full_step e times speeds fmax x in ss_full_run k e times speeds fmax x'
  end.

Fixpoint sl_full_run (n : nat) (e : Env (F:=F)) (pts : list (BP (F:=F))) (fmax : F)
    (x : SLState (F:=F) * Consist (F:=F)) : res (SLState (F:=F) * Consist (F:=F)) :=
  match n with
  | O => Ok x
  | S k => let? x' := sl_full_step e pts fmax x in sl_full_run k e pts fmax x'
  end.

(* SpeedLimitTrainSim::walk_internal with its consist: the loop of TrainStep.sl_walk, but the limits of
   every step are the ones the consist itself publishes.  Err 1399 = fuel exhausted (the code's loop has
   no bound), Err 1306 = the train came to rest outside the stopping window with a zero target. *)
Fixpoint sl_full_walk (fuel : nat) (e : Env (F:=F)) (pts : list (BP (F:=F))) (offset_end fmax : F)
    (x : SLState (F:=F) * Consist (F:=F)) : res (SLState (F:=F) * Consist (F:=F)) :=
  if walk_cond offset_end (fst x) then
    match fuel with
    | O => Err 1399
    | S f => let? _ := ensure (negb (walk_stuck offset_end (fst x))) 1306 in
             let? x' := sl_full_step e pts fmax x in sl_full_walk f e pts offset_end fmax x'
    end
  else Ok x.

(* SetSpeedTrainSim::walk: while i < speed_trace.len() { step()? }  (len = number of time stamps) *)
Fixpoint ss_full_walk (fuel : nat) (e : Env (F:=F)) (times speeds : list F) (fmax : F)
    (x : (TState (F:=F) * ResCache) * Consist (F:=F)) : res ((TState (F:=F) * ResCache) * Consist (F:=F)) :=
  if Nat.ltb (k_i (ts_k (fst (fst x)))) (length times) then
    match fuel with
    | O => Err 1399
    | S f => let? x' := ss_full_step e times speeds fmax x in ss_full_walk f e times speeds fmax x'
    end
  else Ok x.

End TrainFull.
