(* Braking.v -- BrakingPoints::calc_speeds and BrakingPoints::recalc
   (rust/altrios-core/src/train/braking_point.rs), transcribed operation for operation.
   The point vector is kept in the code's order: index 0 is the point at the END of the path
   (largest offset), the last element is the most recently pushed (smallest offset). *)
From Coq Require Import ZArith List Bool.
From AltModel Require Import Num Resist.
Import ListNotations.
Local Open Scope num_scope.

Section Braking.
Context {F : Type} {NO : NumOps F}.

Record BP := { bp_offset : F; bp_limit : F; bp_target : F }.
(* SpeedLimitPoint *)
Record SP := { sp_offset : F; sp_limit : F }.

(* ---------------------------------------------------------------- calc_speeds
   Panic 1301 = assert!(speed <= limit) "Speed limit violated!",
   Panic 1310 = [idx_curr - 1] with idx_curr = 0 (usize underflow),
   Panic 1311/1312/1314 = index out of bounds, Panic 1313 = first().unwrap() on no points. *)
(* while self.points[self.idx_curr - 1].offset <= offset { self.idx_curr -= 1 } *)
Fixpoint cs_idx (pts : list BP) (offset : F) (idx : nat) {struct idx} : res nat :=
  match idx with
  | O => Panic 1310
  | S j => match nth_error pts j with
           | None => Panic 1311
           | Some p => if bp_offset p <=? offset then cs_idx pts offset j else Ok (S j)
           end
  end.

(* while idx >= 1 && self.points[idx - 1].offset <= offset_far { min; idx -= 1 } *)
Fixpoint cs_target (pts : list BP) (offset_far : F) (idx : nat) (tgt : F) {struct idx} : res F :=
  match idx with
  | O => Ok tgt
  | S j => match nth_error pts j with
           | None => Panic 1312
           | Some p => if bp_offset p <=? offset_far
                       then cs_target pts offset_far j (nmin tgt (bp_target p))
                       else Ok tgt
           end
  end.

(* returns (idx_curr', speed_limit, speed_target) *)
Definition calc_speeds (pts : list BP) (idx_curr : nat) (offset speed adj_ramp_up_time : F)
  : res (nat * F * F) :=
  match pts with
  | [] => Panic 1313
  | p0 :: _ =>
    let? ic := if bp_offset p0 <=? offset then Ok O else cs_idx pts offset idx_curr in
    match nth_error pts ic with
    | None => Panic 1314
    | Some pc =>
      let? _ := passert (speed <=? bp_limit pc) 1301 in
      let offset_far := offset + speed * adj_ramp_up_time in
      let? tgt := cs_target pts offset_far ic (bp_target pc) in
      Ok (ic, bp_limit pc, tgt)
    end
  end.

(* ---------------------------------------------------------------- recalc
   The accumulator [acc] is the point vector REVERSED (head = points.last()).
   Err 1320 = ensure!(fric_brake.force_max + res_net > 0),
   Panic 1331 = [idx -= 1] at idx = 0 in the unguarded inner while (usize underflow),
   Panic 1330/1332/1333 = index out of bounds / last().unwrap() on no points (unreachable),
   Err 1390 = fuel of the inner [loop] exhausted, Err 1391 = fuel of the outer while exhausted
   (both excluded by hypothesis in the theorems; the outer one is never reached with
   fuel >= number of speed points). *)
(* while bp_curr.offset <= speed_points[idx].offset { idx -= 1 } *)
Fixpoint sp_back (sps : list SP) (x : F) (idx : nat) {struct idx} : res nat :=
  match nth_error sps idx with
  | None => Panic 1330
  | Some s => if x <=? sp_offset s
              then match idx with O => Panic 1331 | S j => sp_back sps x j end
              else Ok idx
  end.

Definition ts_at (st : TState (F:=F)) (offset speed : F) : TState :=
  let k := ts_k st in
  {| ts_k := {| k_time := k_time k; k_i := k_i k; k_offset := offset;
                k_offset_back := k_offset_back k; k_total_dist := k_total_dist k;
                k_link_idx_front := k_link_idx_front k; k_offset_in_link := k_offset_in_link k;
                k_speed := speed; k_speed_limit := k_speed_limit k;
                k_speed_target := k_speed_target k; k_dt := k_dt k |};
     ts_p := ts_p st; ts_r := ts_r st; ts_w := ts_w st |}.

Record BrkEnv := {
  be_grades : list (PRC (F:=F)); be_curves : list (PRC (F:=F)); be_rp : ResParams (F:=F);
  be_sps : list SP; be_force_max : F; be_offset_begin : F;
  (* false: the code as it is (the capped point inherits the previous point's target even when the
     adopted profile limit is lower); true: repo_patches/C03-target-le-limit.diff (target := min) *)
  be_fix : bool }.

Definition half : F := nlit 5 (-1).

Fixpoint brake_loop (fuel : nat) (e : BrkEnv) (st : TState (F:=F)) (c : ResCache)
    (acc : list BP) (idx : nat) : res (list BP * nat * TState (F:=F) * ResCache) :=
  match fuel with
  | O => Err 1390
  | S f =>
    match acc with
    | [] => Panic 1332
    | bp :: _ =>
      let? idx1 := sp_back (be_sps e) (bp_offset bp) idx in
      match nth_error (be_sps e) idx1 with
      | None => Panic 1333
      | Some s =>
        let speed_limit := nabs (sp_limit s) in
        let? (st2, c2) := strap_update_res (be_grades e) (be_curves e) (be_rp e)
                             (ts_at st (bp_offset bp) (bp_limit bp)) c DBwd in
        let rn := res_net (ts_r st2) in
        let? _ := ensure (n0 <? be_force_max e + rn) 1320 in
        let dt := k_dt (ts_k st2) in
        let vc := dt * (be_force_max e + rn) / mass_compound (ts_p st2) in
        if speed_limit <? bp_limit bp + vc then
          let nb := {| bp_offset := bp_offset bp - dt * speed_limit; bp_limit := speed_limit;
                       bp_target := if be_fix e then nmin (bp_target bp) speed_limit
                                    else bp_target bp |} in
          if bp_limit bp =? speed_limit then Ok (nb :: acc, idx1, st2, c2)
          else if bp_offset nb <? be_offset_begin e then Ok (nb :: acc, idx1, st2, c2)
          else brake_loop f e st2 c2 (nb :: acc) idx1
        else
          let nb := {| bp_offset := bp_offset bp - dt * (bp_limit bp + half * vc);
                       bp_limit := bp_limit bp + vc; bp_target := bp_target bp |} in
          if bp_offset nb <? be_offset_begin e then Ok (nb :: acc, idx1, st2, c2)
          else brake_loop f e st2 c2 (nb :: acc) idx1
      end
    end
  end.

Fixpoint recalc_outer (fuel_out fuel_in : nat) (e : BrkEnv) (st : TState (F:=F)) (c : ResCache)
    (acc : list BP) (idx : nat) : res (list BP) :=
  match idx with
  | O => Ok acc
  | S j =>
    match fuel_out with
    | O => Err 1391
    | S fo =>
      match nth_error (be_sps e) j, acc with
      | Some s, lastp :: _ =>
        let? (acc1, j1, st1, c1) :=
          if bp_limit lastp <? nabs (sp_limit s)
          then brake_loop fuel_in e st c acc j
          else Ok (acc, j, st, c) in
        match nth_error (be_sps e) j1 with
        | None => Panic 1333
        | Some s1 =>
          recalc_outer fo fuel_in e st1 c1
            ({| bp_offset := sp_offset s1; bp_limit := nabs (sp_limit s1);
                bp_target := nabs (sp_limit s1) |} :: acc1) j1
        end
      | None, _ => Panic 1333
      | _, [] => Panic 1332
      end
    end
  end.

(* returns the point vector in the code's order and idx_curr = len - 1 *)
Definition recalc (fuel_in : nat) (e : BrkEnv) (offset_end : F) (st : TState (F:=F)) (c : ResCache)
  : res (list BP * nat) :=
  let p0 := {| bp_offset := offset_end; bp_limit := n0; bp_target := n0 |} in
  let? (st1, c1) := strap_update_res (be_grades e) (be_curves e) (be_rp e)
                       (ts_at st offset_end n0) c DUnk in
  let? acc := recalc_outer (length (be_sps e)) fuel_in e st1 c1 [p0] (length (be_sps e)) in
  Ok (rev acc, (length acc - 1)%nat).

End Braking.
