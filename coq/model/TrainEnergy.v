(* TrainEnergy.v -- the bookkeeping that ties the train level to the consist level (C11):
   SetSpeedTrainSim::solve_step / SpeedLimitTrainSim::solve_step publish the consist limits, choose a
   wheel power [p] (how it is chosen is the business of C03/C12/C14 and is an INPUT here),
   accumulate the train-level wheel energies with it, and hand it to
   Consist::solve_energy_consumption.  Trip-level getters scale totals by the annualisation factor. *)
From Coq Require Import ZArith List Bool.
From AltModel Require Import Num Interp Powertrain Loco Consist.
Import ListNotations.
Local Open Scope num_scope.

Section TrainEnergy.
Context {F : Type} {NO : NumOps F}.

Record TrainEnergy := {
  te_pwr_whl_out : F; te_energy_whl_out : F; te_energy_whl_out_pos : F; te_energy_whl_out_neg : F }.

(* the accumulation lines of solve_required_pwr (both simulations) *)
Definition train_acc (t : TrainEnergy) (p dt : F) : TrainEnergy :=
  {| te_pwr_whl_out := p;
     te_energy_whl_out := te_energy_whl_out t + p * dt;
     te_energy_whl_out_pos := if n0 <=? p then te_energy_whl_out_pos t + p * dt else te_energy_whl_out_pos t;
     te_energy_whl_out_neg := if n0 <=? p then te_energy_whl_out_neg t else te_energy_whl_out_neg t - p * dt |}.

Definition train_consist_step (tc : TrainEnergy * Consist (F:=F)) (p dt : F)
  : res (TrainEnergy * Consist (F:=F)) :=
  let '(t, c) := tc in
  let c1 := consist_set_pwr_aux c true in
  let? c2 := consist_set_cur_pwr_max_out c1 dt in
  let t' := train_acc t p dt in
  let? c' := consist_solve c2 p dt true in
  Ok (t', c').

(* get_scaling_factor: 365.25 / simulation_days when annualising *)
Definition scaling_factor (annualize : bool) (days : option F) : F :=
  if annualize then match days with Some d => nlit 36525 (-2) / d | None => nlit 36525 (-2) end else n1.

(* Consist::get_energy_fuel / get_net_energy_res *)
Definition consist_energy_fuel (c : Consist (F:=F)) : F :=
  sumf (fun l => match lc_type l with PConv cv => fcs_energy_fuel (fc_state (cv_fc cv)) | PBel _ => n0 end) (cn_locos c).
Definition consist_net_energy_res (c : Consist (F:=F)) : F :=
  sumf (fun l => match lc_type l with PConv _ => n0 | PBel b => rs_energy_out_chemical (res_state (bl_res b)) end) (cn_locos c).
Definition trip_energy_fuel (c : Consist (F:=F)) (annualize : bool) (days : option F) : F :=
  consist_energy_fuel c * scaling_factor annualize days.
Definition trip_net_energy_res (c : Consist (F:=F)) (annualize : bool) (days : option F) : F :=
  consist_net_energy_res c * scaling_factor annualize days.

End TrainEnergy.
