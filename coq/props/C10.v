(* C10 -- consist power split conserves demand and honours each unit's capability.
   Pinned statements only; proofs in proofs/ConsistP.v and proofs/C10P.v. *)
From Coq Require Import Reals List Bool.
From AltModel Require Import Num Interp Powertrain Loco Consist Resist Braking TrainStep TrainFull SpeedPoints PathGeom TrainEnergy WholeSim.
From AltProofs Require Import NumR ConsistP C10P TrainFullP WholeSplitP SpeedPointsP PathGeomP TimedTraceP.
Import ListNotations.
Open Scope R_scope.

(* One accepted ConsistSimulation step of a well-formed consist with limit checking on, whose
   published per-unit traction limits are non-negative: the shares sum to the request; in traction
   every share is within [0, published limit]; in braking within [-drivetrain rating, 0]; a zero
   request gives zero shares; when regeneration covers the request only battery units are asked and
   within their published regeneration limit; under the battery-first policy fuel-burning units carry
   exactly the deficit (zero when the battery units can cover the request, and otherwise the
   battery units run at their limit). *)
Theorem C10_step : forall (c c' : ConsistR) req dt,
  consist_wf c -> cn_assert_limits c = true -> consist_sim_solve_step c req dt = Ok c' ->
  limits_nonneg c' -> consist_wf c' /\ split_ok (cn_pdct c) req c'.
Proof. intros c c' req dt Hw Ha H Hl. exact (consist_step_split c c' req dt Hw Ha H Hl). Qed.

(* ... for every step of every accepted run (any history leading to any transient limits) *)
Theorem C10_every_step_of_every_run : forall c pre i post c',
  cinv c -> run cstep c (pre ++ i :: post) = Ok c' ->
  exists m m', run cstep c pre = Ok m /\ cstep m i = Ok m' /\ cinv m /\ cinv m' /\
               (limits_nonneg m' -> split_ok (cn_pdct c) (fst i) m').
Proof. exact run_every_step_split. Qed.

(* achieved regeneration never exceeds the published regeneration limit; none without a battery *)
Theorem C10_regen_within_limit : forall (l l' : LocoR) p dt on, loco_solve l p dt on = Ok l' ->
  - es_pwr_mech_prop_out (edrv_state (loco_edrv l')) <= es_pwr_mech_regen_max (edrv_state (loco_edrv l)) /\
  (es_pwr_mech_regen_max (edrv_state (loco_edrv l)) = 0 -> 0 <= p ->
     es_pwr_mech_prop_out (edrv_state (loco_edrv l')) = p).
Proof. exact regen_within_limit. Qed.

(* The hypothesis [limits_nonneg] cannot be dropped: with a negative published limit the proportional
   policy assigns that unit negative traction while the consist pushes (known finding C10/1). *)
Theorem C10_sign_agreement_refuted : forall (l0 : LocoR) (s : ConsistState (F:=R)),
  cs_pwr_out_max s = 2 -> cs_pwr_out_req s = 1 ->
  let ls := [with_lim l0 (-1); with_lim l0 3] in
  cs_pwr_out_max s = sumR lim ls /\ 0 < cs_pwr_out_req s <= cs_pwr_out_max s /\
  exists shares p, split_positive Proportional ls s = Ok shares /\ In p shares /\ p < 0.
Proof. exact sign_agreement_refuted. Qed.

(* ---- the WHOLE train simulations (coq/model/TrainFull.v; tied to the real step()/walk() by check C11): the consist
   transition inside a whole step is one ConsistSimulation step whose request is the wheel power the TRAIN model chose,
   so the split statement holds for every step of every accepted whole run (cinv = well-formed consist with limit
   checking on; sl_pwr / ss_pwr = the wheel power saved in the train state after the step) ---- *)
Theorem C10_whole_speed_limit_step : forall (e : Env (F:=R)) pts fmax (x x' : SLStateR * ConsistR),
  sl_full_step e pts fmax x = Ok x' -> cinv (snd x) ->
  cinv (snd x') /\ cn_pdct (snd x') = cn_pdct (snd x) /\
  (limits_nonneg (snd x') -> split_ok (cn_pdct (snd x)) (sl_pwr x') (snd x')).
Proof. exact sl_full_step_split. Qed.

Theorem C10_whole_set_speed_step : forall (e : Env (F:=R)) times speeds fmax (x x' : (TStateR * ResCache) * ConsistR),
  ss_full_step e times speeds fmax x = Ok x' -> cinv (snd x) ->
  cinv (snd x') /\ cn_pdct (snd x') = cn_pdct (snd x) /\
  (limits_nonneg (snd x') -> split_ok (cn_pdct (snd x)) (ss_pwr x') (snd x')).
Proof. exact ss_full_step_split. Qed.

Theorem C10_whole_speed_limit_run : forall (e : Env (F:=R)) pts fmax n x x',
  cinv (snd x) -> sl_full_run n e pts fmax x = Ok x' ->
  cinv (snd x') /\ cn_pdct (snd x') = cn_pdct (snd x) /\
  forall k y y', (k < n)%nat -> sl_full_run k e pts fmax x = Ok y -> sl_full_step e pts fmax y = Ok y' ->
    cinv (snd y) /\ (limits_nonneg (snd y') -> split_ok (cn_pdct (snd x)) (sl_pwr y') (snd y')).
Proof. exact sl_full_run_split. Qed.

Theorem C10_whole_set_speed_run : forall (e : Env (F:=R)) times speeds fmax n x x',
  cinv (snd x) -> ss_full_run n e times speeds fmax x = Ok x' ->
  cinv (snd x') /\ cn_pdct (snd x') = cn_pdct (snd x) /\
  forall k y y', (k < n)%nat -> ss_full_run k e times speeds fmax x = Ok y -> ss_full_step e times speeds fmax y = Ok y' ->
    cinv (snd y) /\ (limits_nonneg (snd y') -> split_ok (cn_pdct (snd x)) (ss_pwr y') (snd y')).
Proof. exact ss_full_run_split. Qed.

(* ---- the simulation of a DISPATCHED train (SpeedLimitTrainSim::walk_timed_path, model WholeSim.sl_timed_walk, tied to
   the real function end to end by check C11): it consists of whole steps and re-computations of the braking points
   only (tw_trace, proofs/TimedTraceP.v), and at EVERY step the consist request is split lawfully ---- *)
Theorem C10_dispatched_train : forall fuel_bp fuel_steps (net : list LinkR) (tp : TPR) tl rp fmax fb st cache (con : ConsistR) x',
  sl_timed_walk fuel_bp fuel_steps net tp tl rp fmax fb st cache con = Ok x' -> cinv con ->
  cinv (snd x') /\ cn_pdct (snd x') = cn_pdct con /\
  tw_trace fmax any_pts (split_step (cn_pdct con)) ({| sl_st := st; sl_cache := cache; sl_fb := fb; sl_idx := 0 |}, con) x'.
Proof. exact sl_timed_walk_split. Qed.
