(* C10 -- consist power split conserves demand and honours each unit's capability.
   Pinned statements only; proofs in proofs/ConsistP.v and proofs/C10P.v. *)
From Coq Require Import Reals List Bool.
From AltModel Require Import Num Interp Powertrain Loco Consist.
From AltProofs Require Import NumR ConsistP C10P.
Import ListNotations.
Open Scope R_scope.

(* One accepted ConsistSimulation step of a well-formed consist with limit checking on, whose
   published per-unit traction limits are non-negative: the shares sum to the request; in traction
   every share is within [0, published limit]; in braking within [-drivetrain rating, 0]; a zero
   request gives zero shares; when regeneration covers the request only battery units are asked and
   within their published regeneration limit; under the battery-first policy fuel-burning units carry
   exactly the deficit (zero when the battery units can cover the request, and otherwise the
   battery units run at their limit). *)
Theorem C10_step : forall (c c' : ConsistR) req dt,
  consist_wf c -> cn_assert_limits c = true -> consist_sim_solve_step c req dt = Ok c' ->
  limits_nonneg c' -> consist_wf c' /\ split_ok (cn_pdct c) req c'.
Proof. intros c c' req dt Hw Ha H Hl. exact (consist_step_split c c' req dt Hw Ha H Hl). Qed.

(* ... for every step of every accepted run (any history leading to any transient limits) *)
Theorem C10_every_step_of_every_run : forall c pre i post c',
  cinv c -> run cstep c (pre ++ i :: post) = Ok c' ->
  exists m m', run cstep c pre = Ok m /\ cstep m i = Ok m' /\ cinv m /\ cinv m' /\
               (limits_nonneg m' -> split_ok (cn_pdct c) (fst i) m').
Proof. exact run_every_step_split. Qed.

(* achieved regeneration never exceeds the published regeneration limit; none without a battery *)
Theorem C10_regen_within_limit : forall (l l' : LocoR) p dt on, loco_solve l p dt on = Ok l' ->
  - es_pwr_mech_prop_out (edrv_state (loco_edrv l')) <= es_pwr_mech_regen_max (edrv_state (loco_edrv l)) /\
  (es_pwr_mech_regen_max (edrv_state (loco_edrv l)) = 0 -> 0 <= p ->
     es_pwr_mech_prop_out (edrv_state (loco_edrv l')) = p).
Proof. exact regen_within_limit. Qed.

(* The hypothesis [limits_nonneg] cannot be dropped: with a negative published limit the proportional
   policy assigns that unit negative traction while the consist pushes (known finding C10/1). *)
Theorem C10_sign_agreement_refuted : forall (l0 : LocoR) (s : ConsistState (F:=R)),
  cs_pwr_out_max s = 2 -> cs_pwr_out_req s = 1 ->
  let ls := [with_lim l0 (-1); with_lim l0 3] in
  cs_pwr_out_max s = sumR lim ls /\ 0 < cs_pwr_out_req s <= cs_pwr_out_max s /\
  exists shares p, split_positive Proportional ls s = Ok shares /\ In p shares /\ p < 0.
Proof. exact sign_agreement_refuted. Qed.
