(* C12 -- time, position and distance bookkeeping is kinematically consistent.
   This file holds only the pinned statements; the proofs are in proofs/TrainStepP.v.
   All statements are about the model of the FIXED code (offset_back refreshed after the position
   update, repo_patches/C12-offset-back.diff); on the unchanged tree the check reports the saved
   rear position as a violation. *)
From Coq Require Import Reals List Bool ZArith Lra.
From AltModel Require Import Num Interp Powertrain Loco Consist Resist Braking TrainStep TrainFull.
From AltProofs Require Import NumR ResistP TrainStepP ConsistP TrainFullP.
Import ListNotations.
Open Scope R_scope.

(* the step law between two saved rows s, s' ([raw] = the speed the position was integrated with):
     time' = time + dt'            offset' = offset + dt' * (speed + raw) / 2
     total_dist' = total_dist + |offset' - offset|      offset_back' = offset' - length
     and (offset' not beyond the last link point) the reported front segment and in-segment offset
     locate offset': base(idx) + offset_in_link = offset', 0 < offset_in_link <= length(idx) *)
Check kin_law : list (LinkPt (F:=R)) -> TState (F:=R) -> TState (F:=R) -> R -> Prop.

(* locate_exact: for every table with >= 2 link points and every position with
   first < offset <= last the call returns Ok and the result locates the position -- however many
   boundaries lie between the previous and the new position *)
Theorem C12_locate_exact : forall (lps : list (LinkPt (F:=R))) (x : R),
  (2 <= length lps)%nat -> lpo lps 0 < x <= lpo lps (length lps - 1) ->
  exists lnk oil, set_link_and_offset lps x = Ok (lnk, oil) /\ located lps x lnk oil.
Proof. exact locate_exact. Qed.

(* ... and on a sorted table it is THE segment with base < offset <= base + length *)
Theorem C12_located_unique : forall (lps : list (LinkPt (F:=R))) x lnk oil j pj,
  lps_sorted lps -> located lps x lnk oil ->
  nth_error lps j = Some pj -> (S j < length lps)%nat -> lp_offset pj < x <= lpo lps (S j) ->
  lnk = lp_link pj /\ oil = x - lp_offset pj.
Proof. exact located_unique. Qed.

(* the usize underflow of `position(..) - 1`, as it is: a front at or before the first link point
   (or an empty table) is a panic, not an error value *)
Theorem C12_locate_underflow : forall (lps : list (LinkPt (F:=R))) (x : R) p0 t,
  lps = p0 :: t -> x <= lp_offset p0 -> set_link_and_offset lps x = Panic 1210.
Proof. exact locate_underflow. Qed.

(* SetSpeedTrainSim, one accepted step from a state in step with the trace *)
Theorem C12_ss_step : forall (e : Env (F:=R)) times speeds cl st c st' c',
  ss_sync times speeds st ->
  ss_solve_step e times speeds cl st c = Ok (st', c') ->
  kin_law (e_lps e) st st' (k_speed (ts_k st')) /\ ss_sync times speeds (bump_i st').
Proof. exact ss_step_kin. Qed.

(* ... every step of every accepted run, every prefix, any limits the consist publishes *)
Theorem C12_ss_every_step_of_every_run : forall (e : Env (F:=R)) times speeds pre cl post sc sc',
  ss_sync times speeds (fst sc) ->
  run (ss_run_step e times speeds) sc (pre ++ cl :: post) = Ok sc' ->
  exists m m', run (ss_run_step e times speeds) sc pre = Ok m /\
    ss_run_step e times speeds m cl = Ok m' /\
    kin_law (e_lps e) (fst m) (fst m') (k_speed (ts_k (fst m'))) /\
    k_time (ts_k (fst m')) = nthR times (k_i (ts_k (fst m))) /\
    k_speed (ts_k (fst m')) = nthR speeds (k_i (ts_k (fst m))).
Proof. exact ss_every_step_kin. Qed.

(* SpeedLimitTrainSim, one accepted step (no hypothesis): the law holds for the un-snapped speed
   [raw]; the saved speed is [raw] or the target it was snapped to under almost_eq(1e-8) *)
Theorem C12_sl_step : forall (e : Env (F:=R)) pts cl (s s' : SLState (F:=R)),
  sl_solve_step e pts cl s = Ok s' ->
  exists raw, kin_law (e_lps e) (sl_st s) (sl_st s') raw /\
    (k_speed (ts_k (sl_st s')) = raw \/
     (k_speed (ts_k (sl_st s')) = k_speed_target (ts_k (sl_st s')) /\
      almost_eq raw (k_speed_target (ts_k (sl_st s'))) eps8 = true)).
Proof. exact sl_step_kin. Qed.

(* the position law stated with the SAVED speed: off by at most dt/2 * 1e-8 * max(1, raw + saved) *)
Theorem C12_sl_offset_saved_speed : forall (e : Env (F:=R)) pts cl (s s' : SLState (F:=R)),
  sl_solve_step e pts cl s = Ok s' -> 0 <= k_dt (ts_k (sl_st s')) ->
  exists raw, kin_law (e_lps e) (sl_st s) (sl_st s') raw /\
    let k := ts_k (sl_st s) in let k' := ts_k (sl_st s') in
    (0 <= raw -> 0 <= k_speed_target k' ->
     Rabs (k_offset k' - (k_offset k + k_dt k' * (k_speed k + k_speed k') / 2))
       <= k_dt k' / 2 * (/ 100000000 * Rmax 1 (raw + k_speed k'))).
Proof. exact sl_offset_saved_speed. Qed.

(* ... every step of every accepted run, across path extensions (route, braking points and consist
   limits are per-step inputs) *)
Theorem C12_sl_every_step_of_every_run : forall pre inp post (s s' : SLState (F:=R)),
  run sl_run_step s (pre ++ inp :: post) = Ok s' ->
  exists m m', run sl_run_step s pre = Ok m /\ sl_run_step m inp = Ok m' /\ sl_row_law m inp m'.
Proof. exact sl_every_step_kin. Qed.

(* the hypotheses are satisfiable: a two-segment table and a position in it; a fresh state in step
   with a trace *)
Example C12_locate_domain : exists (lps : list (LinkPt (F:=R))) x,
  (2 <= length lps)%nat /\ lpo lps 0 < x <= lpo lps (length lps - 1).
Proof.
  exists [ {| lp_offset := 0; lp_link := 1%Z |}; {| lp_offset := 100; lp_link := 2%Z |};
           {| lp_offset := 250; lp_link := 0%Z |} ], 100.
  unfold lpo. cbn. split; [auto|lra].
Qed.

(* the state every simulation starts from (TrainState::new, row 0 of the history): the rear is one train length
   behind the front, the front at or beyond one train length and at or beyond the requested initial offset *)
Theorem C12_initial_state : forall (length ms mr mf t0 : R) offset0 v0,
  let st := ts_new length ms mr mf t0 offset0 v0 in
  k_offset_back (ts_k st) = k_offset (ts_k st) - p_length (ts_p st) /\
  length <= k_offset (ts_k st) /\ (forall o, offset0 = Some o -> o <= k_offset (ts_k st)) /\
  k_total_dist (ts_k st) = 0 /\ k_i (ts_k st) = 1%nat /\ 0 <= k_offset_back (ts_k st).
Proof. exact ts_new_rear. Qed.

(* ---- the WHOLE speed-limit simulation step (coq/model/TrainFull.v: the consist inside; tied to the real step()
   in check C11): the bookkeeping law holds, the saved speed is the integrated one or the target it was snapped
   to, the step counter advances by one ---- *)
Theorem C12_whole_step : forall (e : Env (F:=R)) pts fmax (s s'' : SLState (F:=R)) (c c' : ConsistR),
  sl_full_step e pts fmax (s, c) = Ok (s'', c') ->
  exists raw, kin_law (e_lps e) (sl_st s) (sl_st s'') raw /\
    (k_speed (ts_k (sl_st s'')) = raw \/
     (k_speed (ts_k (sl_st s'')) = k_speed_target (ts_k (sl_st s'')) /\
      almost_eq raw (k_speed_target (ts_k (sl_st s''))) eps8 = true)) /\
    k_i (ts_k (sl_st s'')) = S (k_i (ts_k (sl_st s))).
Proof. exact sl_full_step_kin. Qed.

(* along every whole run: the step size is constant, the clock advances by n * dt, the step counter by n, the rear
   stays one train length behind the front, the train's parameters never change *)
Theorem C12_whole_run_clock : forall (e : Env (F:=R)) pts fmax n x x',
  sl_full_run n e pts fmax x = Ok x' ->
  let k := ts_k (sl_st (fst x)) in let k' := ts_k (sl_st (fst x')) in
  k_dt k' = k_dt k /\ k_time k' = k_time k + INR n * k_dt k /\ k_i k' = (k_i k + n)%nat /\
  ((1 <= n)%nat -> k_offset_back k' = k_offset k' - p_length (ts_p (sl_st (fst x')))) /\
  ts_p (sl_st (fst x')) = ts_p (sl_st (fst x)).
Proof. exact sl_full_run_clock. Qed.

(* (imported here, after the statements above, because PathGeom's field names shadow TrainStep's link pointers) *)
From AltModel Require Import SpeedPoints PathGeom TrainEnergy WholeSim.
From AltProofs Require Import SpeedPointsP PathGeomP WholeSplitP TimedTraceP.

(* ---- the simulation of a DISPATCHED train (walk_timed_path; proofs/TimedTraceP.v): EVERY step obeys the kinematic
   bookkeeping law on the path in force at that moment, the counter advances by one per step, and neither the step size
   nor the train's parameters ever change - across all path extensions ---- *)
Theorem C12_dispatched_train : forall fuel_bp fuel_steps (net : list LinkR) (tp : TPR) tl rp fmax fb st cache (con : ConsistR) x',
  sl_timed_walk fuel_bp fuel_steps net tp tl rp fmax fb st cache con = Ok x' ->
  tw_trace fmax any_pts kin_step ({| sl_st := st; sl_cache := cache; sl_fb := fb; sl_idx := 0 |}, con) x' /\
  k_dt (ts_k (sl_st (fst x'))) = k_dt (ts_k st) /\ ts_p (sl_st (fst x')) = ts_p st.
Proof. exact sl_timed_walk_kin. Qed.
