(* C09 -- accepted steps respect ratings, transient limits, ramp rate and the SOC window.
   Pinned statements only; proofs in proofs/C09P.v (and ConsistP.v). tau = 1e-3 is the code's own
   tolerance constant (relative or absolute, as `almost_le` / `almost_ge` are written). *)
From Coq Require Import Reals List Bool.
From AltModel Require Import Num Interp Powertrain Loco Consist Resist Braking TrainStep TrainFull SpeedPoints PathGeom TrainEnergy WholeSim.
From AltProofs Require Import NumR PowertrainP LocoP C08P ConsistP C09P C10P TrainFullP WholeSplitP SpeedPointsP PathGeomP TimedTraceP.
Import ListNotations.
Open Scope R_scope.

(* One accepted LocomotiveSimulation step with limit checking on.  [l1] is the locomotive after the
   limits for this step were published.  Conventional unit: ramp law of the published engine limit
   (never above max(rating, floor), never above previous shaft power + rating/lag * dt unless the
   floor applies), shaft power >= 0 and within rating and within the published limit, generator
   output + auxiliary <= generator rating, published generator/drivetrain limits <= ratings,
   tractive request <= drivetrain rating.  Battery unit: electrical power within rating and within
   the published SOC-dependent discharge / charge limit, published propulsion limits = limits -/+
   auxiliary load, regeneration limit in [0, drivetrain rating], achieved regeneration within it. *)
Theorem C09_step : forall (l l' : Loco (F:=R)) pwr dt on,
  lc_assert_limits l = true -> loco_sim_solve_step l pwr dt on = Ok l' ->
  exists l1, loco_pre_step l dt on = Ok l1 /\ loco_limits_ok l l1 l' pwr dt on.
Proof. exact loco_step_limits. Qed.

Theorem C09_every_step_of_every_run : forall l pre i post l',
  lc_assert_limits l = true -> run lstep l (pre ++ i :: post) = Ok l' ->
  exists m m1 m', run lstep l pre = Ok m /\ lstep m i = Ok m' /\
    loco_pre_step m (snd (fst i)) (snd i) = Ok m1 /\
    loco_limits_ok m m1 m' (fst (fst i)) (snd (fst i)) (snd i).
Proof. exact run_every_step_limits. Qed.

(* the same inside a consist: each unit goes through exactly these two stages (ConsistP.solved /
   C01P.stepped), and the consist-level request is within the published consist limits *)
Theorem C09_consist_within : forall (c c' : ConsistR) req dt on,
  cn_assert_limits c = true -> consist_solve c req dt on = Ok c' ->
  req <= cs_pwr_out_max (cn_state c) /\ - req <= cs_pwr_dyn_brake_max (cn_state c) /\
  cs_pwr_out_max (cn_state c') = cs_pwr_out_max (cn_state c) /\
  cs_pwr_regen_max (cn_state c') = cs_pwr_regen_max (cn_state c).
Proof. exact consist_accepted_within. Qed.

(* the published SOC-dependent battery limits in closed form: in [0, rating], zero at the window edge *)
Theorem C09_battery_limits_published : forall (r r' : Res (F:=R)) aux cb db,
  res_set_cur_pwr_out_max r aux cb db = Ok r' ->
  let s' := res_state r' in
  rs_min_soc s' < rs_soc_lo_ramp_start s' -> rs_soc_hi_ramp_start s' < rs_max_soc s' ->
  0 <= res_pwr_out_max r ->
  let soc := rs_soc (res_state r) in let pmax := res_pwr_out_max r in
  rs_soc s' = soc /\ res_pwr_out_max r' = pmax /\ res_energy_capacity r' = res_energy_capacity r /\
  rs_pwr_disch_max s' =
    (if Rltb soc (rs_min_soc s') then 0 else if Rltb (rs_soc_lo_ramp_start s') soc then pmax
     else 0 + (pmax - 0) / (rs_soc_lo_ramp_start s' - rs_min_soc s') * (soc - rs_min_soc s')) /\
  rs_pwr_charge_max s' =
    (if Rltb soc (rs_soc_hi_ramp_start s') then pmax else if Rltb (rs_max_soc s') soc then 0
     else pmax + (0 - pmax) / (rs_max_soc s' - rs_soc_hi_ramp_start s') * (soc - rs_soc_hi_ramp_start s')) /\
  0 <= rs_pwr_disch_max s' <= pmax /\ 0 <= rs_pwr_charge_max s' <= pmax /\
  rs_pwr_prop_out_max s' = rs_pwr_disch_max s' - aux /\
  rs_pwr_regen_out_max s' = rs_pwr_charge_max s' + aux.
Proof. exact res_published. Qed.

(* SOC stays inside the window (up to the absolute tolerance term) for time steps up to the bound
   dt <= capacity * eta_lo * ramp_width / (rating * (1 + tau))  (about 130 s for the shipped battery) *)
Theorem C09_soc_window : forall (r r' : Res (F:=R)) prop aux dt eta eta_lo,
  res_solve_eta r prop aux dt eta = Ok r' ->
  let s := res_state r in let cap := res_energy_capacity r in let pmax := res_pwr_out_max r in
  0 < dt -> 0 < cap -> 0 <= pmax -> 0 < eta_lo <= eta -> eta <= 1 ->
  rs_min_soc s <= rs_soc s <= rs_max_soc s ->
  rs_min_soc s < rs_soc_lo_ramp_start s -> rs_soc_hi_ramp_start s < rs_max_soc s ->
  0 <= rs_pwr_disch_max s <= pmax * (rs_soc s - rs_min_soc s) / (rs_soc_lo_ramp_start s - rs_min_soc s) ->
  0 <= rs_pwr_charge_max s <= pmax * (rs_max_soc s - rs_soc s) / (rs_max_soc s - rs_soc_hi_ramp_start s) ->
  pmax * (1 + /1000) * dt <= cap * eta_lo * (rs_soc_lo_ramp_start s - rs_min_soc s) ->
  pmax * (1 + /1000) * dt <= cap * (rs_max_soc s - rs_soc_hi_ramp_start s) ->
  rs_min_soc s - /1000 * dt / (eta_lo * cap) < rs_soc (res_state r') /\
  rs_soc (res_state r') < rs_max_soc s + /1000 * dt / cap.
Proof. exact soc_window. Qed.

(* the step-size bound is necessary: a concrete accepted step beyond it leaves the window *)
Theorem C09_soc_window_refuted_beyond_bound : exists r', res_solve_eta res_w 1000 0 1 1 = Ok r' /\
  rs_min_soc rs_w <= rs_soc rs_w <= rs_max_soc rs_w /\ rs_soc (res_state r') < rs_min_soc rs_w - / 2.
Proof. exact soc_window_refuted. Qed.

(* tractive power is within the limit the locomotive published for the step (the code's own almost_le, 1e-8) - also
   for a locomotive simulated on its own (since the /repo fix that checks the demand at locomotive level) *)
Theorem C09_tractive_power_within_published_limit : forall (l l' : Loco (F:=R)) pwr dt on,
  lc_assert_limits l = true -> loco_sim_solve_step l pwr dt on = Ok l' ->
  exists l1, loco_pre_step l dt on = Ok l1 /\
    (pwr < ls_pwr_out_max (lc_state l1) * (1 + / 100000000) \/ pwr < ls_pwr_out_max (lc_state l1) + / 100000000).
Proof. exact loco_step_within_published. Qed.

(* ---- the WHOLE train simulations (coq/model/TrainFull.v; tied to the real step()/walk() by check C11): with limit
   checking on, the wheel power the train model asks of its consist in an accepted whole step lies inside the traction
   and dynamic-braking limits the consist published for that very step (c2 = the consist after set_pwr_aux /
   set_cur_pwr_max_out, the state the train model read its limits from) ---- *)
Theorem C09_whole_speed_limit_step_request_within : forall (e : Env (F:=R)) pts fmax (x x' : SLStateR * ConsistR),
  sl_full_step e pts fmax x = Ok x' -> cn_assert_limits (snd x) = true ->
  exists c2, consist_set_cur_pwr_max_out (consist_set_pwr_aux (snd x) true) (k_dt (ts_k (sl_st (fst x)))) = Ok c2 /\
    sl_pwr x' <= cs_pwr_out_max (cn_state c2) /\ - sl_pwr x' <= cs_pwr_dyn_brake_max (cn_state c2).
Proof. exact sl_full_step_request_within. Qed.

Theorem C09_whole_set_speed_step_request_within : forall (e : Env (F:=R)) times speeds fmax (x x' : (TStateR * ResCache) * ConsistR),
  ss_full_step e times speeds fmax x = Ok x' -> cn_assert_limits (snd x) = true ->
  exists c2 dt, consist_set_cur_pwr_max_out (consist_set_pwr_aux (snd x) true) dt = Ok c2 /\
    ss_pwr x' <= cs_pwr_out_max (cn_state c2) /\ - ss_pwr x' <= cs_pwr_dyn_brake_max (cn_state c2).
Proof. exact ss_full_step_request_within. Qed.

(* ---- the simulation of a DISPATCHED train (walk_timed_path; proofs/TimedTraceP.v): at EVERY step the wheel power asked
   of the consist lies inside the limits the consist published for that step ---- *)
Theorem C09_dispatched_train_request_within : forall fuel_bp fuel_steps (net : list LinkR) (tp : TPR) tl rp fmax fb st cache (con : ConsistR) x',
  sl_timed_walk fuel_bp fuel_steps net tp tl rp fmax fb st cache con = Ok x' -> cinv con ->
  tw_trace fmax any_pts within_step ({| sl_st := st; sl_cache := cache; sl_fb := fb; sl_idx := 0 |}, con) x'.
Proof. exact sl_timed_walk_request_within. Qed.
