(* C14 -- a set-speed run follows its trace; wheel power is inertia plus resistance, clipped.
   This file holds only the pinned statements; the proofs are in proofs/TrainStepP.v.
   The statements are about the model of the FIXED code: SetSpeedTrainSim also rejects a negative
   PREVIOUS sample (repo_patches/C14-negative-first-sample.diff); the unchanged tree never checks the
   sign of the trace's first sample and the check reports that as a violation. *)
From Coq Require Import Reals List Bool ZArith Lra.
From AltModel Require Import Num Interp Powertrain Loco Consist Resist Braking TrainStep TrainFull.
From AltProofs Require Import NumR ResistP TrainStepP ConsistP TrainFullP.
Import ListNotations.
Open Scope R_scope.

(* ss_row_law times speeds cl st st' rn -- the row saved by step i = st.i:
     0 <= speed[i], 0 <= speed[i-1],
     time' = time[i], speed' = speed[i], dt' = time[i] - time[i-1],
     pwr_res'   = rn * (speed[i] + speed[i-1]) / 2           (rn = res_net of this step's update_res)
     pwr_accel' = mass_compound / (2 dt') * (speed[i]^2 - speed[i-1]^2)
     pwr_whl_out' = min (max (pwr_accel' + pwr_res') (- max dyn_brake_max 0))
                        (min pwr_out_max (max 0 (pwr_whl_out + pwr_rate_out_max * dt)))
                    -- the ramp term uses the dt STORED IN THE STATE, i.e. the previous step's dt
     energy_whl_out' = energy_whl_out + pwr_whl_out' * dt'   (the trace's own step), pos/neg likewise *)
Check ss_row_law : list R -> list R -> ConLim (F:=R) -> TState (F:=R) -> TState (F:=R) -> R -> Prop.

Theorem C14_step : forall (e : Env (F:=R)) times speeds cl st c st' c',
  ss_solve_step e times speeds cl st c = Ok (st', c') ->
  exists st1 c1, strap_update_res (e_grades e) (e_curves e) (e_rp e) st c DFwd = Ok (st1, c1) /\
    ts_r st' = ts_r st1 /\ ss_row_law times speeds cl st st' (res_net (ts_r st1)).
Proof. exact ss_step_row. Qed.

(* follows_trace + whl_power + energy_uses_trace_dt for every step of every accepted run, every
   prefix, whatever limits the consist publishes: the row saved by step number (length pre + 1) is
   sample i0 + length pre of the trace *)
Theorem C14_every_step_of_every_run : forall (e : Env (F:=R)) times speeds pre cl post sc sc',
  run (ss_run_step e times speeds) sc (pre ++ cl :: post) = Ok sc' ->
  exists m m' rn, run (ss_run_step e times speeds) sc pre = Ok m /\
    ss_run_step e times speeds m cl = Ok m' /\
    k_i (ts_k (fst m)) = (k_i (ts_k (fst sc)) + length pre)%nat /\
    ss_row_law times speeds cl (fst m) (fst m') rn /\
    k_time (ts_k (fst m')) = nthR times (k_i (ts_k (fst sc)) + length pre) /\
    k_speed (ts_k (fst m')) = nthR speeds (k_i (ts_k (fst sc)) + length pre).
Proof. exact ss_every_step_row. Qed.

(* the clip: below the band the floor, inside it the demand unchanged, above it the ceiling *)
Theorem C14_clip_spec : forall x neg pos : R, - neg <= pos ->
  (x < - neg -> clip x neg pos = - neg) /\
  (- neg <= x <= pos -> clip x neg pos = x) /\
  (pos < x -> clip x neg pos = pos) /\
  - neg <= clip x neg pos <= pos.
Proof. exact clip_spec. Qed.

(* the inertia term is d/dt of the kinetic energy of the compound (static + rotating) mass *)
Theorem C14_accel_is_kinetic_rate : forall mc dt v_i v_p : R, dt <> 0 ->
  mc / (2 * dt) * (v_i * v_i - v_p * v_p) = (mc * (v_i * v_i) / 2 - mc * (v_p * v_p) / 2) / dt.
Proof. exact accel_is_kinetic_rate. Qed.

(* a negative sample is rejected with an error value before anything is computed *)
Theorem C14_negative_speed_rejected : forall (e : Env (F:=R)) times speeds cl st c,
  let i := k_i (ts_k st) in
  (i < length speeds)%nat -> (1 <= i)%nat -> (nthR speeds i < 0 \/ nthR speeds (i - 1) < 0) ->
  ss_solve_step e times speeds cl st c = Err 1202.
Proof. exact ss_negative_rejected. Qed.

(* the ceiling of step n+1 uses the dt of step n *)
Theorem C14_ramp_uses_previous_dt : forall (e : Env (F:=R)) times speeds cl1 cl2 st c st1 c1 st2 c2,
  ss_solve_step e times speeds cl1 st c = Ok (st1, c1) ->
  ss_solve_step e times speeds cl2 (bump_i st1) c1 = Ok (st2, c2) ->
  let i := k_i (ts_k st) in
  exists rn, ss_row_law times speeds cl2 (bump_i st1) st2 rn /\
    k_dt (ts_k (bump_i st1)) = nthR times i - nthR times (i - 1) /\
    k_dt (ts_k st2) = nthR times (S i) - nthR times i.
Proof. exact ss_ramp_uses_previous_dt. Qed.

(* ---- the WHOLE SetSpeedTrainSim::walk() (coq/model/TrainFull.v ss_full_walk: the loop over the trace with the
   consist inside every step; tied to the real walk() end to end in check C11, kind ss_full_walk): an
   accepted walk is a run of exactly (number of samples - starting counter) whole steps - it consumes the
   whole trace, no sample skipped or repeated; each of those steps contains an accepted train-level step
   (C14_step_row above) under the limits the consist itself published ---- *)
Theorem C14_whole_walk_consumes_trace : forall (e : Env (F:=R)) times speeds fmax fuel x x',
  ss_full_walk fuel e times speeds fmax x = Ok x' ->
  exists n, (n <= fuel)%nat /\ ss_full_run n e times speeds fmax x = Ok x' /\
    (length times <= k_i (ts_k (fst (fst x'))))%nat /\
    k_i (ts_k (fst (fst x'))) = (k_i (ts_k (fst (fst x))) + n)%nat /\
    (1 <= n -> k_i (ts_k (fst (fst x'))) = length times)%nat.
Proof. exact ss_full_walk_is_run. Qed.

Theorem C14_whole_step_contains_row : forall (e : Env (F:=R)) times speeds fmax st cache (c c' : ConsistR) st'' cache',
  ss_full_step e times speeds fmax ((st, cache), c) = Ok ((st'', cache'), c') ->
  exists st' c2 t_i t_p,
    nth_error times (k_i (ts_k st)) = Some t_i /\ nth_error times (pred (k_i (ts_k st))) = Some t_p /\
    consist_set_cur_pwr_max_out (consist_set_pwr_aux c true) (t_i - t_p) = Ok c2 /\
    ss_solve_step e times speeds (cl_of c2 fmax) st cache = Ok (st', cache') /\
    st'' = bump_i st' /\
    consist_solve c2 (w_pwr_whl_out (ts_w st')) (t_i - t_p) true = Ok c' /\
    consist_sim_solve_step c (w_pwr_whl_out (ts_w st')) (t_i - t_p) = Ok c'.
Proof. exact ss_full_step_decomposes. Qed.

(* after n + 1 whole steps from counter i0 the state shows sample i0 + n of the trace (time and speed), whatever
   the consist did on the way *)
Theorem C14_whole_run_follows_trace : forall (e : Env (F:=R)) times speeds fmax n x x',
  ss_full_run (S n) e times speeds fmax x = Ok x' ->
  let i := (k_i (ts_k (fst (fst x))) + n)%nat in
  k_time (ts_k (fst (fst x'))) = nthR times i /\ k_speed (ts_k (fst (fst x'))) = nthR speeds i /\
  k_i (ts_k (fst (fst x'))) = S i.
Proof. exact ss_full_run_follows_trace. Qed.
