(* C18 -- results are deterministic and independent of thread scheduling.
   PARTIAL: rayon's scheduler, std's RandomState and the OS are runtime behaviour, validated per run
   by the harness (separate processes, thread pools 1..16), not proved.  Proved here, for ALL batches,
   ALL schedules and ALL iteration orders, is the logic the repository's own code contributes:
   batch elements share no state, and the folds over hash containers are order-independent.
   This file holds only the pinned statements; the proofs are in proofs/SchedP.v. *)
From Coq Require Import Reals List Bool ZArith Permutation Arith.
From AltModel Require Import Num Interp Powertrain Loco Sched.
From AltProofs Require Import NumR InterpP PowertrainP LocoP C08P SchedP.
Import ListNotations.
Open Scope nat_scope.

Section AnyStep.
Context {St Inp : Type} (step : St -> Inp -> res St).

(* after ANY schedule (a list of element indices, one worker step each) element k has received
   exactly count(k) of its own steps: nothing else about the schedule or the other elements matters *)
Theorem C18_schedule_only_counts : forall (sched : list nat) (b : list (elem St Inp)) k,
  nth_error (run_sched step sched b) k =
  option_map (Nat.iter (count_occ Nat.eq_dec sched k) (step_elem step)) (nth_error b k).
Proof. exact (run_sched_nth step). Qed.

(* every COMPLETE schedule gives, for every element, exactly its serial walk -- state or error *)
Theorem C18_sched_independent : forall (sched : list nat) (b : list (elem St Inp)),
  complete sched b -> run_sched step sched b = map (walk_elem step) b.
Proof. exact (sched_independent step). Qed.

(* an INCOMPLETE schedule (rayon stops handing out work after another element's error): whoever
   received all its steps equals its isolated walk *)
Theorem C18_sched_partial : forall sched (b : list (elem St Inp)) k e,
  nth_error b k = Some e -> remaining e <= count_occ Nat.eq_dec sched k ->
  nth_error (run_sched step sched b) k = Some (walk_elem step e).
Proof. exact (sched_partial step). Qed.

(* error isolation: replacing element j by any other (failing) element changes nothing for k <> j,
   and nobody's inputs are ever modified *)
Theorem C18_error_isolated : forall sched (b : list (elem St Inp)) j k (e' : elem St Inp),
  k <> j -> nth_error (run_sched step sched (update j (fun _ => e') b)) k = nth_error (run_sched step sched b) k.
Proof. exact (error_isolated step). Qed.
Theorem C18_inputs_untouched : forall sched (b : list (elem St Inp)) k e e0,
  nth_error b k = Some e0 -> nth_error (run_sched step sched b) k = Some e -> e_trace e = e_trace e0.
Proof. exact (inputs_untouched step). Qed.

(* the serial batch (try_for_each): all elements walked if none fails; otherwise exactly the
   elements up to and including the first failing one *)
Theorem C18_serial_all_ok : forall b : list (elem St Inp),
  (forall e, In e b -> failed (walk_elem step e) = false) -> walk_serial step b = map (walk_elem step) b.
Proof. exact (walk_serial_all_ok step). Qed.
Theorem C18_serial_first_failure : forall (pre : list (elem St Inp)) e post,
  (forall x, In x pre -> failed (walk_elem step x) = false) -> failed (walk_elem step e) = true ->
  walk_serial step (pre ++ e :: post) = map (walk_elem step) pre ++ walk_elem step e :: post.
Proof. exact (walk_serial_first_failure step). Qed.

(* an element's walk is the generic [run] (NumR.v) over its remaining trace: the error it carries is
   its own *)
Theorem C18_walk_is_run : forall (e : elem St Inp) s,
  e_state e = Ok s -> e_pos e <= length (e_trace e) ->
  e_state (walk_elem step e) = run step s (skipn (e_pos e) (e_trace e)).
Proof. exact (walk_elem_state step). Qed.
End AnyStep.

(* instance: a batch of locomotive simulations (LocomotiveSimulationVec::walk), [lstep] = one
   LocomotiveSimulation step of the numeric model *)
Theorem C18_loco_batch : forall sched (b : list (elem (Loco (F:=R)) (R * R * bool))),
  complete sched b -> run_sched lstep sched b = map (walk_elem lstep) b.
Proof. exact (sched_independent lstep). Qed.

(* --- folds over hash containers: another iteration order = a permutation of the entries *)
(* extract_speed_set / every map.get(key): key-unique association list *)
Theorem C18_find_key_perm : forall (K V : Type) (eqb : K -> K -> bool),
  (forall a b, eqb a b = true <-> a = b) ->
  forall k (l l' : list (K * V)), NoDup (map fst l) -> Permutation l l' -> find_key eqb k l = find_key eqb k l'.
Proof. exact (@find_key_perm). Qed.
(* TrainConfig::cars_total: the u32 sum, and whether it overflows, are order independent *)
Theorem C18_cars_total_perm : forall l l' : list Z,
  Forall (fun n => 0 <= n)%Z l -> Permutation l l' -> cars_total l = cars_total l'.
Proof. exact cars_total_perm. Qed.
(* perform_speed_join over the candidates pushed by add_new_join_paths: order independent when no
   two candidates tie exactly ... *)
Theorem C18_join_choice_perm : forall (thr : R) (l l' : list (nat * R)),
  NoDup (map snd l) -> Permutation l l' -> join_choice (F:=R) thr l = join_choice thr l'.
Proof. exact join_choice_perm. Qed.
(* ... and NOT otherwise: exact ties are resolved by position *)
Theorem C18_join_choice_tie_refuted :
  exists (thr : R) l l', Permutation l l' /\ join_choice (F:=R) thr l <> join_choice thr l'.
Proof. exact join_choice_tie_refuted. Qed.

Check @C18_sched_independent : forall (St Inp : Type) (step : St -> Inp -> res St)
  (sched : list nat) (b : list (elem St Inp)),
  complete sched b -> run_sched step sched b = map (walk_elem step) b.
