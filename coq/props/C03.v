(* C03 -- a speed-limited train never overspeeds, never reverses, stops inside its path.  PARTIAL.
   This file holds only the pinned statements; the proofs are in proofs/BrakingP.v.

   What is proved for all inputs: the braking-point construction of the FIXED code
   (repo_patches/C03-target-le-limit.diff) yields 0 <= target <= limit for every profile, route and
   train, hence calc_speeds never hands the controller a target above the limit in force; the
   construction of the code AS IT IS does not (..._refuted, witness replayed on the real code: the run
   aborts with the assert "Speed limit violated!"); one controller step keeps the speed <= target
   under BrakeAdequate and >= 0 under TractionAdequate; the loop of walk() exits only at rest inside
   the stopping window or at/after the path end, and the fixed loop
   (repo_patches/C03-walk-terminates.diff) reports a train that is stuck at rest outside the window.
   What is NOT proved: that the two adequacy hypotheses hold along every run of every accepted
   route and train (the closed loop of the discretised controller).  They are evaluated on every
   implementation step by the check and their failure rate is reported. *)
From Coq Require Import Reals List Bool ZArith Lra Floats.
From AltModel Require Import Num Interp Powertrain Loco Consist Resist Braking TrainStep TrainFull.
From AltProofs Require Import NumR ResistP TrainStepP BrakingP ConsistP TrainFullP StepReverseWitness.
Import ListNotations.
Open Scope R_scope.

(* pt_ok p := 0 <= target p <= limit p *)
Theorem C03_bp_target_le_limit_fixed : forall fuel (e : BrkEnv (F:=R)) offset_end st c pts idx,
  be_fix e = true -> 0 <= k_dt (ts_k st) -> 0 < mass_compound (ts_p st) ->
  recalc fuel e offset_end st c = Ok (pts, idx) -> Forall pt_ok pts.
Proof. exact bp_target_le_limit_fixed. Qed.

(* the obligation FAILS for the code as it is: a slow section (limit 1/2), a faster window of length
   1 (limit 5), a medium section (limit 1): the braking curve down to the medium section runs through
   the window into the slow section, adopts its limit 1/2 and keeps the target 1 *)
Theorem C03_bp_target_le_limit_refuted :
  exists pts idx, recalc 3 (WE false) 14 W_st C0 = Ok (pts, idx) /\
    exists p, In p pts /\ bp_limit p < bp_target p.
Proof. exact bp_target_le_limit_refuted. Qed.

(* calc_speeds: if every point has 0 <= target <= limit then 0 <= speed_target <= speed_limit, the
   limit is the limit of the point in force, and an accepted call means speed <= that limit
   (otherwise the call is the assert!'s panic) *)
Theorem C03_calc_speeds_target_le_limit : forall (pts : list (BP (F:=R))) idx offset speed adj ic lim tgt,
  Forall pt_ok pts -> calc_speeds pts idx offset speed adj = Ok (ic, lim, tgt) ->
  0 <= tgt <= lim /\ speed <= lim /\ exists p, nth_error pts ic = Some p /\ lim = bp_limit p.
Proof. exact calc_speeds_target_le_limit. Qed.

Theorem C03_target_le_limit_fixed : forall fuel (e : BrkEnv (F:=R)) offset_end st c pts idx i offset speed adj ic lim tgt,
  be_fix e = true -> 0 <= k_dt (ts_k st) -> 0 < mass_compound (ts_p st) ->
  recalc fuel e offset_end st c = Ok (pts, idx) ->
  calc_speeds pts i offset speed adj = Ok (ic, lim, tgt) -> 0 <= tgt <= lim.
Proof. exact target_le_limit_fixed. Qed.

(* BrakeAdequate ax    := - (friction force available this step + dynamic/regenerative force) <= force the target asks for
   TractionAdequate .. := res_net - f_pos_max <= mass_compound * speed / dt *)
Theorem C03_step_speed_le_target : forall (e : Env (F:=R)) pts cl (s s' : SLState (F:=R)) ax,
  sl_solve_step_aux e pts cl s = Ok (s', ax) ->
  0 < k_dt (ts_k (sl_st s)) -> 0 < mass_compound (ts_p (sl_st s)) ->
  BrakeAdequate ax ->
  k_speed (ts_k (sl_st s')) <= k_speed_target (ts_k (sl_st s')).
Proof. exact step_speed_le_target. Qed.

Theorem C03_step_speed_nonneg : forall (e : Env (F:=R)) pts cl (s s' : SLState (F:=R)) ax,
  sl_solve_step_aux e pts cl s = Ok (s', ax) ->
  0 < k_dt (ts_k (sl_st s)) -> 0 < mass_compound (ts_p (sl_st s)) ->
  0 <= k_speed (ts_k (sl_st s)) -> 0 <= k_speed_target (ts_k (sl_st s')) ->
  TractionAdequate (mass_compound (ts_p (sl_st s))) (k_speed (ts_k (sl_st s))) (k_dt (ts_k (sl_st s))) ax ->
  0 <= k_speed (ts_k (sl_st s')) /\ 0 <= ax_speed_raw ax.
Proof. exact step_speed_nonneg. Qed.

(* the row's limit and target: 0 <= target <= limit, and the speed the step started from is <= limit *)
Theorem C03_step_limit_target : forall (e : Env (F:=R)) pts cl (s s' : SLState (F:=R)) ax,
  Forall pt_ok pts -> sl_solve_step_aux e pts cl s = Ok (s', ax) ->
  let k' := ts_k (sl_st s') in
  0 <= k_speed_target k' <= k_speed_limit k' /\ k_speed (ts_k (sl_st s)) <= k_speed_limit k'.
Proof. exact step_limit_target. Qed.

(* walk_stops_inside, the part the loop itself guarantees (1000 ft = 304.8 m) *)
Theorem C03_walk_exit_partial : forall fuel (e : Env (F:=R)) pts offset_end cls n s s',
  sl_walk fuel e pts offset_end cls n s = Ok s' ->
  let k := ts_k (sl_st s') in
  offset_end - 3048 / 10 <= k_offset k /\ (k_speed k = 0 \/ offset_end <= k_offset k).
Proof. exact walk_exit. Qed.

(* the fixed loop reports a train at rest with a zero target outside the window instead of stepping forever *)
Theorem C03_walk_reports_stuck : forall fuel (e : Env (F:=R)) pts offset_end cls n s,
  walk_cond offset_end s = true -> walk_stuck offset_end s = true ->
  sl_walk (S fuel) e pts offset_end cls n s = Err 1306.
Proof. exact walk_reports_stuck. Qed.

(* step_outcome_total: with cached indices in range, a train of positive length and the braking index
   in range, a step ends in Ok, in an enumerated error value (1101 front beyond the supplied path,
   1301 insufficient braking force, 1205, 1302 not enough power to move, 1303 friction brake
   over-requested, 1304/1305 wheel power beyond the consist's limits) or in a panic that is the
   assert! of calc_speeds (1301) or the usize underflow of set_link_and_offset (1210, new front at
   or before the first link point) -- nothing else *)
Theorem C03_step_outcome_total : forall (e : Env (F:=R)) pts cl (s : SLState (F:=R)),
  step_pre e pts s -> allowed (sl_solve_step e pts cl s).
Proof. exact step_outcome_total. Qed.
Check (eq_refl : ERRS = [1101; 1301; 1205; 1302; 1303; 1304; 1305]%Z).
Check (eq_refl : PANS = [1301; 1210]%Z).

(* ---- the WHOLE simulation (coq/model/TrainFull.v): walk() with the consist inside the loop, the limits of
   every step being the ones the consist itself publishes.  Tied to the real walk() end to end (check C11,
   kind sl_full_walk: same number of steps, bit-equal final train, brake and consist state). ---- *)

(* an accepted walk is a run of n whole steps that ends exactly when the loop condition fails, and in
   every state before that the loop condition held and the train was not stuck *)
Theorem C03_whole_walk_is_run : forall (e : Env (F:=R)) pts offset_end fmax fuel x x',
  sl_full_walk fuel e pts offset_end fmax x = Ok x' ->
  exists n, (n <= fuel)%nat /\ sl_full_run n e pts fmax x = Ok x' /\
    walk_cond offset_end (fst x') = false /\
    (forall k y, (k < n)%nat -> sl_full_run k e pts fmax x = Ok y ->
       walk_cond offset_end (fst y) = true /\ walk_stuck offset_end (fst y) = false).
Proof. exact sl_full_walk_is_run. Qed.

(* it ends inside the stopping window at rest, or at / beyond the end of the path *)
Theorem C03_whole_walk_ends_in_window : forall (e : Env (F:=R)) pts offset_end fmax fuel x x',
  sl_full_walk fuel e pts offset_end fmax x = Ok x' ->
  let k := ts_k (sl_st (fst x')) in
  offset_end - ft1000 <= k_offset k /\ (offset_end <= k_offset k \/ k_speed k = 0).
Proof. exact sl_full_walk_end. Qed.

(* every whole step: 0 <= target <= limit in the saved row and the speed it started from is <= that limit *)
Theorem C03_whole_step_limit_target : forall (e : Env (F:=R)) pts fmax (s s'' : SLState (F:=R)) (c c' : ConsistR),
  Forall pt_ok pts -> sl_full_step e pts fmax (s, c) = Ok (s'', c') ->
  let k' := ts_k (sl_st s'') in
  0 <= k_speed_target k' <= k_speed_limit k' /\ k_speed (ts_k (sl_st s)) <= k_speed_limit k'.
Proof. exact sl_full_step_limit_target. Qed.

(* every whole step ends at or below its target when the braking force available in that step (friction
   ramp + what the consist publishes) covers what the target asks for *)
Theorem C03_whole_step_speed_le_target : forall (e : Env (F:=R)) pts fmax (s s'' : SLState (F:=R)) (c c' : ConsistR),
  sl_full_step e pts fmax (s, c) = Ok (s'', c') ->
  0 < k_dt (ts_k (sl_st s)) -> 0 < mass_compound (ts_p (sl_st s)) ->
  exists c2 ax, consist_set_cur_pwr_max_out (consist_set_pwr_aux c true) (k_dt (ts_k (sl_st s))) = Ok c2 /\
    (exists s', sl_solve_step_aux e pts (cl_of c2 fmax) s = Ok (s', ax) /\ s'' = sl_bump s') /\
    (BrakeAdequate ax -> k_speed (ts_k (sl_st s'')) <= k_speed_target (ts_k (sl_st s''))).
Proof. exact sl_full_step_speed_le_target. Qed.

(* finding C03/2, REPAIRED in /repo (fix: the "sufficient power to move" guard also refuses a step that would end with a
   negative speed): every accepted step has adequate traction, so "never reverses" holds of every accepted step with no
   hypothesis on the traction left ... *)
Theorem C03_step_never_reverses : forall (e : Env (F:=R)) pts cl (s s' : SLState (F:=R)) ax,
  sl_solve_step_aux e pts cl s = Ok (s', ax) ->
  0 < k_dt (ts_k (sl_st s)) -> 0 < mass_compound (ts_p (sl_st s)) ->
  0 <= k_speed (ts_k (sl_st s)) -> 0 <= k_speed_target (ts_k (sl_st s')) ->
  0 <= k_speed (ts_k (sl_st s')) /\ 0 <= ax_speed_raw ax.
Proof. exact step_never_reverses. Qed.

(* ... and the input that was its witness (positive speed, time step and mass; harness case sl_step/sl18/334 of VERIF_SEED
   20268920, on which the unrepaired step() ended at -0.0144 m/s) is now refused with error 1302, at binary64, evaluated
   by the kernel (proofs/StepReverseWitness.v) *)
Theorem C03_former_reversal_now_rejected :
  StepReverseWitness.pre_ok StepReverseWitness.rw_s = true /\
  sl_step StepReverseWitness.rw_env StepReverseWitness.rw_pts StepReverseWitness.rw_cl StepReverseWitness.rw_s = Err 1302.
Proof. exact StepReverseWitness.former_reversal_now_rejected. Qed.

(* (imported here, after the statements above, to keep their name resolution unchanged) *)
From AltModel Require Import SpeedPoints PathGeom TrainEnergy WholeSim.
From AltProofs Require Import SpeedPointsP PathGeomP WholeSplitP TimedTraceP.

(* ---- the simulation of a DISPATCHED train (SpeedLimitTrainSim::walk_timed_path, model WholeSim.sl_timed_walk, tied to
   the real function end to end by check C11; proofs/TimedTraceP.v): it consists of whole steps and braking-point
   re-computations only, the braking points every step runs under (produced by extend_path's recalc from the state at
   that moment) all have 0 <= target <= limit, and so at EVERY step the saved row has 0 <= target <= limit and the
   speed the step started from is <= that limit; the walk ends in the stopping window of the path supplied
   (C11_dispatched_train_simulation).  Hypotheses: non-negative step size and positive mass at the start. ---- *)
Theorem C03_dispatched_train : forall fuel_bp fuel_steps (net : list LinkR) (tp : TPR) tl rp fmax fb st cache (con : ConsistR) x',
  sl_timed_walk fuel_bp fuel_steps net tp tl rp fmax fb st cache con = Ok x' ->
  0 <= k_dt (ts_k st) -> 0 < mass_compound (ts_p st) ->
  tw_trace fmax (Forall pt_ok) limit_step ({| sl_st := st; sl_cache := cache; sl_fb := fb; sl_idx := 0 |}, con) x'.
Proof. exact sl_timed_walk_limits. Qed.

(* "never reverses" for whole steps, whole runs and a dispatched train (proofs/TimedTraceP.v): from a non-negative speed,
   with a positive step size and mass and braking points with 0 <= target <= limit, every state of every accepted whole
   run has a non-negative speed; every state on the trace of walk_timed_path too *)
Theorem C03_whole_step_never_reverses : forall (e : Env (F:=R)) pts fmax (x x' : SLStateR * ConsistR),
  Forall pt_ok pts -> sl_full_step e pts fmax x = Ok x' ->
  0 < k_dt (ts_k (sl_st (fst x))) -> 0 < mass_compound (ts_p (sl_st (fst x))) ->
  0 <= k_speed (ts_k (sl_st (fst x))) -> 0 <= k_speed (ts_k (sl_st (fst x'))).
Proof. exact sl_full_step_never_reverses. Qed.

Theorem C03_whole_run_never_reverses : forall (e : Env (F:=R)) pts fmax, Forall pt_ok pts -> forall k x y,
  0 < k_dt (ts_k (sl_st (fst x))) -> 0 < mass_compound (ts_p (sl_st (fst x))) -> 0 <= k_speed (ts_k (sl_st (fst x))) ->
  sl_full_run k e pts fmax x = Ok y -> 0 <= k_speed (ts_k (sl_st (fst y))).
Proof. exact sl_full_run_never_reverses. Qed.

Theorem C03_dispatched_train_never_reverses :
  forall fuel_bp fuel_steps (net : list LinkR) (tp : TPR) tl rp fmax fb st cache (con : ConsistR) x',
  sl_timed_walk fuel_bp fuel_steps net tp tl rp fmax fb st cache con = Ok x' ->
  0 < k_dt (ts_k st) -> 0 < mass_compound (ts_p st) -> 0 <= k_speed (ts_k st) ->
  tw_trace fmax (Forall pt_ok) nonneg_step ({| sl_st := st; sl_cache := cache; sl_fb := fb; sl_idx := 0 |}, con) x' /\
  0 <= k_speed (ts_k (sl_st (fst x'))).
Proof. exact sl_timed_walk_never_reverses. Qed.

Theorem C03_whole_walk_never_reverses : forall (e : Env (F:=R)) pts offset_end fmax fuel x x',
  Forall pt_ok pts -> sl_full_walk fuel e pts offset_end fmax x = Ok x' ->
  0 < k_dt (ts_k (sl_st (fst x))) -> 0 < mass_compound (ts_p (sl_st (fst x))) -> 0 <= k_speed (ts_k (sl_st (fst x))) ->
  0 <= k_speed (ts_k (sl_st (fst x'))) /\
  exists n, sl_full_run n e pts fmax x = Ok x' /\
    forall k y, sl_full_run k e pts fmax x = Ok y -> 0 <= k_speed (ts_k (sl_st (fst y))).
Proof. exact sl_full_walk_never_reverses. Qed.
