(* C08 -- every component obeys the second law; a switched-off engine burns nothing.
   This file holds only the pinned statements; the proofs are in proofs/. *)
From Coq Require Import Reals List Bool.
From AltModel Require Import Num Interp Powertrain Loco Consist Resist Braking TrainStep TrainFull.
From AltProofs Require Import NumR InterpP PowertrainP LocoP C08P ExampleP ConsistP C01P WholeSimP.
Import ListNotations.
Open Scope R_scope.

(* interpolation never leaves the value range of its table (hence eta stays in (0,1]) *)
Theorem C08_interp1d_range : forall (x : R) (xs ys : list R) (v m M : R),
  adjacent_distinct xs -> length xs = length ys -> (0 < length ys)%nat ->
  lbound ys m -> ubound ys M -> interp1d x xs ys false = Ok v -> m <= v <= M.
Proof. exact interp1d_range. Qed.

Theorem C08_interp3d_range : forall x y z gx gy gz vals v m M,
  lbound3 vals m -> ubound3 vals M -> interp3d (x, y, z) gx gy gz vals = Ok v -> m <= v <= M.
Proof. exact interp3d_range. Qed.

(* one accepted simulation step of a well-formed locomotive: efficiencies in (0,1], losses >= 0,
   out <= in in the direction of flow, no dynamic braking unless braking is demanded,
   engine off => no fuel, no idle fuel, no auxiliary power; cumulative energies do not decrease *)
Theorem C08_step : forall (l l' : Loco (F:=R)) pwr dt on,
  loco_ok l -> 0 < dt -> loco_sim_solve_step l pwr dt on = Ok l' ->
  loco_ok l' /\ second_law_step l l' pwr on /\ cum_le l l'.
Proof. exact loco_step_second_law. Qed.

(* every step of every accepted run, every trace, every prefix *)
Theorem C08_every_step_of_every_run : forall l pre i post l',
  loco_ok l -> Forall dt_pos (pre ++ i :: post) -> run lstep l (pre ++ i :: post) = Ok l' ->
  exists m m', run lstep l pre = Ok m /\ lstep m i = Ok m' /\
               second_law_step m m' (fst (fst i)) (snd i) /\ cum_le m m' /\ cum_le l m.
Proof. exact run_every_step. Qed.

Theorem C08_cumulative_monotone : forall l trace l',
  loco_ok l -> Forall dt_pos trace -> run lstep l trace = Ok l' -> loco_ok l' /\ cum_le l l'.
Proof. exact run_cum_monotone. Qed.

(* the guarantee does not rest on the in-code range checks: they are vacuous *)
Theorem C08_eta_check_vacuous : forall eta : R, (Rleb 0 eta || Rleb eta 1)%bool = true.
Proof. exact eta_check_always_true. Qed.

Check C08_step : forall (l l' : Loco (F:=R)) pwr dt on,
  loco_ok l -> 0 < dt -> loco_sim_solve_step l pwr dt on = Ok l' ->
  loco_ok l' /\ second_law_step l l' pwr on /\ cum_le l l'.

(* non-vacuity: a concrete well-formed locomotive, and an engine step that is accepted *)
Example C08_hypotheses_satisfiable : loco_ok loco0.
Proof. exact loco0_ok. Qed.
Example C08_engine_step_accepted : exists c', fc_solve fc1 100 1 true true = Ok c'.
Proof. exact fc1_step_accepted. Qed.

(* ---- the WHOLE train simulation (TrainFull.v: route, train dynamics, consist, locomotives) ----
   [unit_laws l p l'] = C08's per-step statement (second_law_step, cum_le, loco_ok kept) together with
   C01's (power ledger, energy ledger kept, SOC relation, delivered = share) for one unit.  In every
   accepted whole step of either simulation every unit of the consist obeys them, and along every
   whole run no unit's cumulative loss / fuel / braking energy ever decreases. *)
Theorem C08_whole_set_speed_step : forall (e : Env (F:=R)) times speeds fmax st cache (c c' : ConsistR) st'' cache',
  ss_full_step e times speeds fmax ((st, cache), c) = Ok ((st'', cache'), c') ->
  (forall i t_i t_p, nth_error times (S i) = Some t_i -> nth_error times i = Some t_p -> t_p < t_i) ->
  Forall loco_ok (cn_locos c) ->
  exists shares, Forall3 unit_laws (cn_locos c) shares (cn_locos c') /\
    Forall loco_ok (cn_locos c') /\ Forall2 cum_le (cn_locos c) (cn_locos c') /\
    cs_pwr_out (cn_state c') = ConsistP.sumR (fun x => x) shares.
Proof. exact ss_full_step_units. Qed.

Theorem C08_whole_speed_limit_step : forall (e : Env (F:=R)) pts fmax (s s'' : SLState (F:=R)) (c c' : ConsistR),
  sl_full_step e pts fmax (s, c) = Ok (s'', c') -> 0 < k_dt (ts_k (sl_st s)) ->
  Forall loco_ok (cn_locos c) ->
  exists shares, Forall3 unit_laws (cn_locos c) shares (cn_locos c') /\
    Forall loco_ok (cn_locos c') /\ Forall2 cum_le (cn_locos c) (cn_locos c') /\
    cs_pwr_out (cn_state c') = ConsistP.sumR (fun x => x) shares /\
    k_dt (ts_k (sl_st s'')) = k_dt (ts_k (sl_st s)).
Proof. exact sl_full_step_units. Qed.

Theorem C08_whole_set_speed_run : forall (e : Env (F:=R)) times speeds fmax,
  (forall i t_i t_p, nth_error times (S i) = Some t_i -> nth_error times i = Some t_p -> t_p < t_i) ->
  forall n x x', Forall loco_ok (cn_locos (snd x)) -> ss_full_run n e times speeds fmax x = Ok x' ->
  Forall loco_ok (cn_locos (snd x')) /\ Forall2 cum_le (cn_locos (snd x)) (cn_locos (snd x')).
Proof. exact ss_full_run_units. Qed.

Theorem C08_whole_speed_limit_run : forall (e : Env (F:=R)) pts fmax n x x',
  0 < k_dt (ts_k (sl_st (fst x))) -> Forall loco_ok (cn_locos (snd x)) ->
  sl_full_run n e pts fmax x = Ok x' ->
  Forall loco_ok (cn_locos (snd x')) /\ Forall2 cum_le (cn_locos (snd x)) (cn_locos (snd x')).
Proof. exact sl_full_run_units. Qed.

(* (imported here, after the statements above, to keep their name resolution unchanged) *)
From AltModel Require Import SpeedPoints PathGeom Resist Braking TrainStep TrainEnergy TrainFull WholeSim.
From AltProofs Require Import SpeedPointsP PathGeomP TrainFullP WholeSimP WholeSplitP TimedTraceP.

(* ---- the simulation of a DISPATCHED train (SpeedLimitTrainSim::walk_timed_path; proofs/TimedTraceP.v): it consists of
   whole steps and braking-point re-computations only, and at EVERY step every unit of the consist obeys the per-unit laws
   (second law in every component, no output without input, cumulative energies monotone), the consist's delivered power is the sum of the shares, and no unit's cumulative loss / fuel / braking energy
   decreases.  Hypotheses: positive step size, well-formed units at the start. ---- *)
Theorem C08_dispatched_train : forall fuel_bp fuel_steps (net : list LinkR) (tp : TPR) tl rp fmax fb st cache (con : ConsistR) x',
  sl_timed_walk fuel_bp fuel_steps net tp tl rp fmax fb st cache con = Ok x' ->
  0 < k_dt (ts_k st) -> Forall loco_ok (cn_locos con) ->
  tw_trace fmax any_pts units_step ({| sl_st := st; sl_cache := cache; sl_fb := fb; sl_idx := 0 |}, con) x' /\
  Forall loco_ok (cn_locos (snd x')).
Proof. exact sl_timed_walk_units. Qed.
