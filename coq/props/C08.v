(* C08 -- every component obeys the second law; a switched-off engine burns nothing.
   This file holds only the pinned statements; the proofs are in proofs/. *)
From Coq Require Import Reals List Bool.
From AltModel Require Import Num Interp Powertrain Loco.
From AltProofs Require Import NumR InterpP PowertrainP LocoP C08P ExampleP.
Import ListNotations.
Open Scope R_scope.

(* interpolation never leaves the value range of its table (hence eta stays in (0,1]) *)
Theorem C08_interp1d_range : forall (x : R) (xs ys : list R) (v m M : R),
  adjacent_distinct xs -> length xs = length ys -> (0 < length ys)%nat ->
  lbound ys m -> ubound ys M -> interp1d x xs ys false = Ok v -> m <= v <= M.
Proof. exact interp1d_range. Qed.

Theorem C08_interp3d_range : forall x y z gx gy gz vals v m M,
  lbound3 vals m -> ubound3 vals M -> interp3d (x, y, z) gx gy gz vals = Ok v -> m <= v <= M.
Proof. exact interp3d_range. Qed.

(* one accepted simulation step of a well-formed locomotive: efficiencies in (0,1], losses >= 0,
   out <= in in the direction of flow, no dynamic braking unless braking is demanded,
   engine off => no fuel, no idle fuel, no auxiliary power; cumulative energies do not decrease *)
Theorem C08_step : forall (l l' : Loco (F:=R)) pwr dt on,
  loco_ok l -> 0 < dt -> loco_sim_solve_step l pwr dt on = Ok l' ->
  loco_ok l' /\ second_law_step l l' pwr on /\ cum_le l l'.
Proof. exact loco_step_second_law. Qed.

(* every step of every accepted run, every trace, every prefix *)
Theorem C08_every_step_of_every_run : forall l pre i post l',
  loco_ok l -> Forall dt_pos (pre ++ i :: post) -> run lstep l (pre ++ i :: post) = Ok l' ->
  exists m m', run lstep l pre = Ok m /\ lstep m i = Ok m' /\
               second_law_step m m' (fst (fst i)) (snd i) /\ cum_le m m' /\ cum_le l m.
Proof. exact run_every_step. Qed.

Theorem C08_cumulative_monotone : forall l trace l',
  loco_ok l -> Forall dt_pos trace -> run lstep l trace = Ok l' -> loco_ok l' /\ cum_le l l'.
Proof. exact run_cum_monotone. Qed.

(* the guarantee does not rest on the in-code range checks: they are vacuous *)
Theorem C08_eta_check_vacuous : forall eta : R, (Rleb 0 eta || Rleb eta 1)%bool = true.
Proof. exact eta_check_always_true. Qed.

Check C08_step : forall (l l' : Loco (F:=R)) pwr dt on,
  loco_ok l -> 0 < dt -> loco_sim_solve_step l pwr dt on = Ok l' ->
  loco_ok l' /\ second_law_step l l' pwr on /\ cum_le l l'.

(* non-vacuity: a concrete well-formed locomotive, and an engine step that is accepted *)
Example C08_hypotheses_satisfiable : loco_ok loco0.
Proof. exact loco0_ok. Qed.
Example C08_engine_step_accepted : exists c', fc_solve fc1 100 1 true true = Ok c'.
Proof. exact fc1_step_accepted. Qed.
