(* C01 -- locomotive and consist energy ledger closes.  Pinned statements only. *)
From Coq Require Import Reals List Bool.
From AltModel Require Import Num Interp Powertrain Loco Consist.
From AltProofs Require Import NumR PowertrainP LocoP C08P ConsistP C10P C01P ExampleP.
Import ListNotations.
Open Scope R_scope.

(* One accepted LocomotiveSimulation step of a well-formed conventional or battery-electric
   locomotive: every hand-off and every component balance holds between the published powers
   (engine shaft = generator input, generator output = drivetrain input, battery electrical output =
   propulsion + auxiliary, chemical = electrical + loss, fuel = shaft + loss, ...), the whole ledger
   fuel|chemical = wheel + dynamic braking + auxiliary + all component losses closes, the same
   equations between the cumulative energies are preserved, the SOC moves by exactly the chemical
   energy over capacity, and the wheel power delivered is the power requested. *)
Theorem C01_step : forall (l l' : Loco (F:=R)) pwr dt on,
  loco_ok l -> loco_sim_solve_step l pwr dt on = Ok l' ->
  power_ledger l' /\ (energy_ledger l -> energy_ledger l') /\ soc_rel l l' /\ ls_pwr_out (lc_state l') = pwr.
Proof. exact loco_step_ledger. Qed.

(* ... cumulatively, for every trace and every prefix of it *)
Theorem C01_every_prefix : forall l trace l',
  ledger_state l -> Forall dt_pos trace -> run lstep l trace = Ok l' -> ledger_state l' /\ soc_rel l l'.
Proof. exact run_ledger. Qed.

Theorem C01_every_step_of_every_run : forall l pre i post l',
  ledger_state l -> Forall dt_pos (pre ++ i :: post) -> run lstep l (pre ++ i :: post) = Ok l' ->
  exists m m', run lstep l pre = Ok m /\ lstep m i = Ok m' /\
               ledger_state m /\ power_ledger m' /\ ledger_state m' /\ soc_rel l m' /\
               ls_pwr_out (lc_state m') = fst (fst i).
Proof. exact run_every_step_ledger. Qed.

(* consist-level fuel, battery and wheel powers are the sums over its locomotives in every accepted
   step (any composition, both policies), and the cumulative roll-up is an invariant of every run *)
Theorem C01_consist_rollup_step : forall (c c' : ConsistR) req dt,
  consist_sim_solve_step c req dt = Ok c' ->
  cs_pwr_fuel (cn_state c') = sumR loco_fuel (cn_locos c') /\
  cs_pwr_reves (cn_state c') = sumR loco_reves (cn_locos c') /\
  cs_pwr_out (cn_state c') = sumR pout (cn_locos c') /\
  (rollup c -> rollup c').
Proof. exact consist_step_rollup. Qed.

Theorem C01_consist_rollup_run : forall c trace c', rollup c -> run cstep c trace = Ok c' -> rollup c'.
Proof. exact consist_run_rollup. Qed.

(* non-vacuity: a concrete locomotive that is well-formed and starts with a closed ledger *)
Example C01_hypotheses_satisfiable : ledger_state loco0.
Proof. exact loco0_ledger. Qed.
