(* C01 -- locomotive and consist energy ledger closes.  Pinned statements only. *)
From Coq Require Import Reals List Bool.
From AltModel Require Import Num Interp Powertrain Loco Consist Resist Braking TrainStep TrainFull.
From AltProofs Require Import NumR PowertrainP LocoP C08P ConsistP C10P C01P ExampleP WholeSimP.
Import ListNotations.
Open Scope R_scope.

(* One accepted LocomotiveSimulation step of a well-formed conventional or battery-electric
   locomotive: every hand-off and every component balance holds between the published powers
   (engine shaft = generator input, generator output = drivetrain input, battery electrical output =
   propulsion + auxiliary, chemical = electrical + loss, fuel = shaft + loss, ...), the whole ledger
   fuel|chemical = wheel + dynamic braking + auxiliary + all component losses closes, the same
   equations between the cumulative energies are preserved, the SOC moves by exactly the chemical
   energy over capacity, and the wheel power delivered is the power requested. *)
Theorem C01_step : forall (l l' : Loco (F:=R)) pwr dt on,
  loco_ok l -> loco_sim_solve_step l pwr dt on = Ok l' ->
  power_ledger l' /\ (energy_ledger l -> energy_ledger l') /\ soc_rel l l' /\ ls_pwr_out (lc_state l') = pwr.
Proof. exact loco_step_ledger. Qed.

(* ... cumulatively, for every trace and every prefix of it *)
Theorem C01_every_prefix : forall l trace l',
  ledger_state l -> Forall dt_pos trace -> run lstep l trace = Ok l' -> ledger_state l' /\ soc_rel l l'.
Proof. exact run_ledger. Qed.

Theorem C01_every_step_of_every_run : forall l pre i post l',
  ledger_state l -> Forall dt_pos (pre ++ i :: post) -> run lstep l (pre ++ i :: post) = Ok l' ->
  exists m m', run lstep l pre = Ok m /\ lstep m i = Ok m' /\
               ledger_state m /\ power_ledger m' /\ ledger_state m' /\ soc_rel l m' /\
               ls_pwr_out (lc_state m') = fst (fst i).
Proof. exact run_every_step_ledger. Qed.

(* consist-level fuel, battery and wheel powers are the sums over its locomotives in every accepted
   step (any composition, both policies), and the cumulative roll-up is an invariant of every run *)
Theorem C01_consist_rollup_step : forall (c c' : ConsistR) req dt,
  consist_sim_solve_step c req dt = Ok c' ->
  cs_pwr_fuel (cn_state c') = sumR loco_fuel (cn_locos c') /\
  cs_pwr_reves (cn_state c') = sumR loco_reves (cn_locos c') /\
  cs_pwr_out (cn_state c') = sumR pout (cn_locos c') /\
  (rollup c -> rollup c').
Proof. exact consist_step_rollup. Qed.

Theorem C01_consist_rollup_run : forall c trace c', rollup c -> run cstep c trace = Ok c' -> rollup c'.
Proof. exact consist_run_rollup. Qed.

(* non-vacuity: a concrete locomotive that is well-formed and starts with a closed ledger *)
Example C01_hypotheses_satisfiable : ledger_state loco0.
Proof. exact loco0_ledger. Qed.

(* ---- inside the WHOLE train simulation (TrainFull.v) every unit's ledger closes in every step:
   [unit_laws] contains power_ledger l', (energy_ledger l -> energy_ledger l'), soc_rel l l' and
   delivered power = the unit's share ---- *)
Theorem C01_whole_set_speed_step : forall (e : Env (F:=R)) times speeds fmax st cache (c c' : ConsistR) st'' cache',
  ss_full_step e times speeds fmax ((st, cache), c) = Ok ((st'', cache'), c') ->
  (forall i t_i t_p, nth_error times (S i) = Some t_i -> nth_error times i = Some t_p -> t_p < t_i) ->
  Forall loco_ok (cn_locos c) ->
  exists shares, Forall3 unit_laws (cn_locos c) shares (cn_locos c') /\
    Forall loco_ok (cn_locos c') /\ Forall2 cum_le (cn_locos c) (cn_locos c') /\
    cs_pwr_out (cn_state c') = ConsistP.sumR (fun x => x) shares.
Proof. exact ss_full_step_units. Qed.

Theorem C01_whole_speed_limit_step : forall (e : Env (F:=R)) pts fmax (s s'' : SLState (F:=R)) (c c' : ConsistR),
  sl_full_step e pts fmax (s, c) = Ok (s'', c') -> 0 < k_dt (ts_k (sl_st s)) ->
  Forall loco_ok (cn_locos c) ->
  exists shares, Forall3 unit_laws (cn_locos c) shares (cn_locos c') /\
    Forall loco_ok (cn_locos c') /\ Forall2 cum_le (cn_locos c) (cn_locos c') /\
    cs_pwr_out (cn_state c') = ConsistP.sumR (fun x => x) shares /\
    k_dt (ts_k (sl_st s'')) = k_dt (ts_k (sl_st s)).
Proof. exact sl_full_step_units. Qed.

(* (imported here, after the statements above, to keep their name resolution unchanged) *)
From AltModel Require Import SpeedPoints PathGeom Resist Braking TrainStep TrainEnergy TrainFull WholeSim.
From AltProofs Require Import SpeedPointsP PathGeomP TrainFullP WholeSimP WholeSplitP TimedTraceP.

(* ---- the simulation of a DISPATCHED train (SpeedLimitTrainSim::walk_timed_path; proofs/TimedTraceP.v): it consists of
   whole steps and braking-point re-computations only, and at EVERY step every unit of the consist obeys the per-unit laws
   (power ledger, energy ledger kept, SOC relation, delivered power = share), the consist's delivered power is the sum of the shares, and no unit's cumulative loss / fuel / braking energy
   decreases.  Hypotheses: positive step size, well-formed units at the start. ---- *)
Theorem C01_dispatched_train : forall fuel_bp fuel_steps (net : list LinkR) (tp : TPR) tl rp fmax fb st cache (con : ConsistR) x',
  sl_timed_walk fuel_bp fuel_steps net tp tl rp fmax fb st cache con = Ok x' ->
  0 < k_dt (ts_k st) -> Forall loco_ok (cn_locos con) ->
  tw_trace fmax any_pts units_step ({| sl_st := st; sl_cache := cache; sl_fb := fb; sl_idx := 0 |}, con) x' /\
  Forall loco_ok (cn_locos (snd x')).
Proof. exact sl_timed_walk_units. Qed.
