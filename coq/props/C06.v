(* C06 -- the path geometry handed to the train model equals the network's geometry.
   This file holds only the pinned statements; proofs are in proofs/GeomExactP.v.
   Model: coq/model/PathGeom.v (PathTpc::new / extend, ObjState cross-checks, PathResCoeff
   evaluation).  Vocabulary (proofs/PathGeomP.v, GeomExactP.v):
     route_links net path        the links the route designates, in order
     real_points 0 ls ++ [lp_dummy (end_base 0 ls)]
                                 link point k at the sum of the first k lengths with link k's
                                 index and counts, one closing point at the route length
     link_geom_ok l              elevations / headings: none, or >= 2 points ending at the length
     elevs_ok l                  >= 2 elevation points, offsets strictly increasing from 0 to length
     adjacent pts p1 p2          p1, p2 consecutive in pts
     prc_at v x                  PathResCoeff::calc_res_val of the segment of v that contains x *)
From Coq Require Import Reals List Bool ZArith Lra.
From AltModel Require Import Num SpeedPoints PathGeom.
From AltProofs Require Import NumR SpeedPointsP PathGeomP GeomExactP PathClearWitness.
Import ListNotations.
Open Scope R_scope.

(* one call or two successive calls: identical path, accepted iff accepted *)
Theorem C06_extend_app : forall (net : list LinkR) (p r : PathR) a b,
  no_single_elev (route_links net a) ->
  (extend net p (a ++ b) = Ok r <-> exists q, extend net p a = Ok q /\ extend net q b = Ok r).
Proof. exact extend_app. Qed.

(* any partition of the route into successive extend calls *)
Theorem C06_any_partition : forall (net : list LinkR) parts (p r : PathR),
  path_nonempty p -> no_single_elev (route_links net (concat parts)) ->
  (extend_many net p parts = Ok r <-> extend net p (concat parts) = Ok r).
Proof. exact extend_many_concat. Qed.

Theorem C06_partition_independent : forall (net : list LinkR) (tp : TPR) parts1 parts2 (r : PathR),
  concat parts1 = concat parts2 -> no_single_elev (route_links net (concat parts1)) ->
  (extend_many net (new_path tp) parts1 = Ok r <-> extend_many net (new_path tp) parts2 = Ok r).
Proof. exact extend_partition_independent. Qed.

(* segment boundaries at the cumulative segment lengths (exact list of link points) *)
Theorem C06_link_points_exact : forall (net : list LinkR) (tp : TPR) parts (q : PathR),
  extend_many net (new_path tp) parts = Ok q -> no_single_elev (route_links net (concat parts)) ->
  p_link_points q = real_points 0 (route_links net (concat parts))
                    ++ [lp_dummy (end_base 0 (route_links net (concat parts)))].
Proof. exact link_points_exact_many. Qed.

Theorem C06_link_point_offsets : forall (ls : list LinkR) base k, (k <= length ls)%nat ->
  nth k (map lp_offset (real_points base ls ++ [lp_dummy (end_base base ls)])) 0 = end_base base (firstn k ls).
Proof. exact link_point_offset_nth. Qed.

Theorem C06_end_base_is_sum : forall b (ls : list LinkR),
  end_base b ls = b + fold_right (fun l s => lk_length l + s) 0 ls.
Proof. exact end_base_sum. Qed.

(* the ObjState index-count cross-checks hold after any sequence of accepted extensions *)
Theorem C06_counts_inv : forall (net : list LinkR) (tp : TPR) parts (q : PathR),
  extend_many net (new_path tp) parts = Ok q -> Forall link_geom_ok (route_links net (concat parts)) ->
  counts_ok q = true.
Proof. exact counts_inv. Qed.

(* elevation at EVERY position of every link = elevation obtained by walking the route's own
   elevation points; the grade stored for the stretch is the slope between the two points *)
Theorem C06_elev_exact : forall (net : list LinkR) (tp : TPR) parts (q : PathR) pre l post o1 e1 o2 e2 y,
  extend_many net (new_path tp) parts = Ok q ->
  route_links net (concat parts) = pre ++ l :: post -> Forall elevs_ok (route_links net (concat parts)) ->
  adjacent (lk_elevs l) (o1, e1) (o2, e2) -> o1 <= y < o2 ->
  prc_at (p_grades q) (sum_lens pre + y)
  = first_elev (hd l pre) + sum_gain pre + (e1 - first_elev l) + (e2 - e1) / (o2 - o1) * (y - o1)
  /\ exists s, In s (p_grades q) /\ prc_offset s = sum_lens pre + o1 /\ prc_coeff s = (e2 - e1) / (o2 - o1).
Proof. exact elev_exact. Qed.

(* catenary limits shifted by the link's start offset *)
Theorem C06_cat_shift : forall (net : list LinkR) (tp : TPR) parts (q : PathR),
  extend_many net (new_path tp) parts = Ok q -> Forall link_geom_ok (route_links net (concat parts)) ->
  p_cats q = route_cats 0 (route_links net (concat parts)).
Proof. exact cat_shift. Qed.

(* a link that does not name the path's last link as predecessor: error value, in the loop ... *)
Theorem C06_noncontig_step_rejected : forall (net : list LinkR) (tp : TPR) init prevp lastp sps idx l,
  lookup net idx = Some l -> idx <> 0%Z ->
  lk_idx_prev l <> lp_link_idx prevp -> lk_idx_prev_alt l <> lp_link_idx prevp ->
  exists c, link_step net tp ((init ++ [prevp]) ++ [lastp], sps) idx = Err c.
Proof. exact noncontig_rejected. Qed.

(* ... and for the whole call: a route whose first non-contiguous link follows an accepted prefix *)
Theorem C06_noncontig_route_rejected : forall (net : list LinkR) (tp : TPR) a i b (q : PathR) l lprev,
  extend net (new_path tp) a = Ok q ->
  route_links net a <> [] -> last (route_links net a) lprev = lprev ->
  lookup net i = Some l -> i <> 0%Z ->
  lk_idx_prev l <> lk_idx_curr lprev -> lk_idx_prev_alt l <> lk_idx_curr lprev ->
  exists c, extend net (new_path tp) (a ++ i :: b) = Err c.
Proof. exact noncontig_route_rejected. Qed.

Check C06_elev_exact : forall (net : list LinkR) (tp : TPR) parts (q : PathR) pre l post o1 e1 o2 e2 y,
  extend_many net (new_path tp) parts = Ok q ->
  route_links net (concat parts) = pre ++ l :: post -> Forall elevs_ok (route_links net (concat parts)) ->
  adjacent (lk_elevs l) (o1, e1) (o2, e2) -> o1 <= y < o2 ->
  prc_at (p_grades q) (sum_lens pre + y)
  = first_elev (hd l pre) + sum_gain pre + (e1 - first_elev l) + (e2 - e1) / (o2 - o1) * (y - o1)
  /\ exists s, In s (p_grades q) /\ prc_offset s = sum_lens pre + o1 /\ prc_coeff s = (e2 - e1) / (o2 - o1).

(* hypotheses satisfiable on a concrete instance (PathGeomP.Ex: one link of 10000 m with
   elevations (0,100) (10000,150)); there the path elevation half-way is 125 *)
Example C06_hypotheses_satisfiable :
  (exists q, extend_many Ex.ex_net (new_path Ex.ex_tp) [[1%Z]] = Ok q) /\
  Forall elevs_ok (route_links Ex.ex_net (concat [[1%Z]])) /\
  Forall link_geom_ok (route_links Ex.ex_net (concat [[1%Z]])).
Proof. split; [exact (proj1 ex_hyps)|exact ex_geom_ok]. Qed.

Example C06_example : forall q, extend_many Ex.ex_net (new_path Ex.ex_tp) [[1%Z]] = Ok q ->
  prc_at (p_grades q) 5000 = 125 /\ counts_ok q = true.
Proof. exact ex_elev. Qed.

(* PathTpc::clear(offset_back) (drop the links wholly behind the train; coq/model/PathGeom.v clear): the remaining
   link points index the remaining grades, curves and catenary sections exactly as before - the ObjState
   cross-checks survive, for every path, every offset and every float type *)
Theorem C06_clear_keeps_counts : forall (F : Type) (NO : NumOps F) (p p' : Path (F:=F)) x del,
  counts_ok p = true -> clear p x = Ok (p', del) -> counts_ok p' = true.
Proof. intros F NO. exact (@clear_counts_ok F NO). Qed.

(* known finding C06/2 shown of the faithful model: a reachable, index-consistent path and an offset inside it on which
   clear does not return but panics (speed-point scan past the stored points); proofs/PathClearWitness.v, input =
   harness case clear/26 on which the real PathTpc::clear panics with "index out of bounds" *)
Theorem C06_clear_total_refuted :
  exists p, extend_many PathClearWitness.cw_net (new_path PathClearWitness.cw_tp) PathClearWitness.cw_paths = Ok p /\
            counts_ok p = true /\ PathClearWitness.offset_inside p PathClearWitness.cw_x = true /\
            clear p PathClearWitness.cw_x = Panic 1504.
Proof. exact PathClearWitness.clear_panics_witness. Qed.
