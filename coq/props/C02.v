(* C02 -- the enforced speed-limit profile never exceeds any posted limit.
   A corollary of C13's equality (props/C13.v); this file holds only the pinned statements.
   [posted tp 0 sets x v] : "a restriction with speed v of an applicable speed set of some link of
   the route covers position x, tail-end sets extended by the train length" (explicit form:
   C13_posted_explicit in props/C13.v). *)
From Coq Require Import Reals List Bool ZArith Lra.
From AltModel Require Import Num SpeedPoints PathGeom TrainCfg.
From AltProofs Require Import NumR SpeedPointsP PathGeomP TrainCfgP.
Import ListNotations.
Open Scope R_scope.

(* after PathTpc::new(tp) and ANY sequence of accepted extend calls (route supplied at once or in
   any split), at EVERY position x >= 0: the enforced limit is <= the train's maximum speed and
   <= every posted restriction covering x *)
Theorem C02_profile_safe : forall (net : list LinkR) (tp : TPR) parts (q : PathR) x,
  extend_many net (new_path tp) parts = Ok q -> route_ok net tp (concat parts) -> 0 <= x ->
  eval_speed (p_speed_points q) x <= tp_speed_max tp /\
  forall v, posted tp 0 (route_sets net tp (concat parts)) x v -> eval_speed (p_speed_points q) x <= v.
Proof. exact path_profile_safe. Qed.

(* the way the route is cut into successive extend calls does not matter: identical stored list *)
Theorem C02_split_independent : forall (net : list LinkR) (tp : TPR) parts1 parts2 (q1 q2 : PathR),
  concat parts1 = concat parts2 ->
  extend_many net (new_path tp) parts1 = Ok q1 -> extend_many net (new_path tp) parts2 = Ok q2 ->
  p_speed_points q1 = p_speed_points q2.
Proof. exact path_profile_split_independent. Qed.

(* certified comparison: if [profile_le p q] evaluates to true then p <= q at every position at or
   after the common first offset (finite check => statement about all real positions) *)
Theorem C02_profile_le_sound : forall p q : list ptR,
  profile_le p q = true ->
  exists o0 sp tp sq tq, p = (o0, sp) :: tp /\ q = (o0, sq) :: tq /\
    forall x, o0 <= x -> eval_speed p x <= eval_speed q x.
Proof. exact profile_le_sound. Qed.

(* hence any stored profile that passes the comparison against the model's profile -- the
   correspondence check evaluates exactly this on the implementation's speed_points() -- is safe at
   every position, even where it differs from the model (e.g. over-restricts) *)
Theorem C02_checked_profile_safe : forall (net : list LinkR) (tp : TPR) parts (q : PathR) (impl : list ptR) x,
  extend_many net (new_path tp) parts = Ok q -> route_ok net tp (concat parts) ->
  profile_le impl (p_speed_points q) = true -> 0 <= x ->
  eval_speed impl x <= tp_speed_max tp /\
  forall v, posted tp 0 (route_sets net tp (concat parts)) x v -> eval_speed impl x <= v.
Proof. exact path_checked_profile_safe. Qed.

Check C02_profile_safe : forall (net : list LinkR) (tp : TPR) parts (q : PathR) x,
  extend_many net (new_path tp) parts = Ok q -> route_ok net tp (concat parts) -> 0 <= x ->
  eval_speed (p_speed_points q) x <= tp_speed_max tp /\
  forall v, posted tp 0 (route_sets net tp (concat parts)) x v -> eval_speed (p_speed_points q) x <= v.

(* hypotheses satisfiable on a non-trivial instance (PathGeomP.Ex: nested restrictions) *)
Example C02_hypotheses_satisfiable :
  (exists q, extend_many Ex.ex_net (new_path Ex.ex_tp) [[1%Z]] = Ok q) /\ route_ok Ex.ex_net Ex.ex_tp (concat [[1%Z]]).
Proof. exact ex_hyps. Qed.

(* ---- "the train's own maximum speed": a train is described by its configuration (vehicle types and the number
   of cars of each); TrainConfig::make_train_params (coq/model/TrainCfg.v) computes the parameters PathTpc::new
   receives.  [present rv] := the train has at least one car of type rv. ---- *)

(* the train's maximum speed is at most that of every vehicle type present, and is attained by one of them *)
Theorem C02_train_speed_max_is_min_over_present_vehicles : forall (rvs : list (RV (F:=R))) ttype tm tl (tp : TPR),
  make_train_params rvs ttype tm tl = Ok tp ->
  (exists rv, In rv rvs /\ present rv) ->
  (forall rv, In rv rvs -> present rv -> tp_speed_max tp <= rv_speed_max rv) /\
  (exists rv, In rv rvs /\ present rv /\ tp_speed_max tp = rv_speed_max rv).
Proof. exact cfg_speed_max_is_min. Qed.

(* hence the enforced profile never exceeds the maximum speed of ANY vehicle in the train *)
Theorem C02_profile_safe_for_configured_train :
  forall (rvs : list (RV (F:=R))) ttype tm tl (tp : TPR) (net : list LinkR) parts (q : PathR) x rv,
  make_train_params rvs ttype tm tl = Ok tp ->
  extend_many net (new_path tp) parts = Ok q -> route_ok net tp (concat parts) -> 0 <= x ->
  In rv rvs -> present rv ->
  eval_speed (p_speed_points q) x <= rv_speed_max rv.
Proof. exact config_profile_safe. Qed.

(* (imported here, after the statements above, to keep their name resolution unchanged) *)
From AltModel Require Import Interp Powertrain Loco Consist Resist Braking TrainStep TrainEnergy TrainFull WholeSim.
From AltProofs Require Import ConsistP TrainFullP TimedTraceP.

(* ---- a DISPATCHED train (SpeedLimitTrainSim::walk_timed_path, model WholeSim.sl_timed_walk tied to the real function by
   check C11; proofs/TimedTraceP.v): the path its final walk() runs on was built from PathTpc::new by the successive
   extend_path calls and nothing else, hence the enforced limit at every position is at most the train's own maximum and at most every posted restriction
   covering the position ---- *)
Theorem C02_dispatched_train : forall fuel_bp fuel_steps (net : list LinkR) (tp : TPR) tl rp fmax fb st cache (con : ConsistR) x',
  sl_timed_walk fuel_bp fuel_steps net tp tl rp fmax fb st cache con = Ok x' ->
  exists (w : TimedSim (F:=R)) parts,
    extend_many net (new_path tp) parts = Ok (tw_path w) /\
    sl_full_walk fuel_steps (env_of_path (tw_path w) rp) (tw_pts w) (path_offset_end (tw_path w)) fmax (tw_x w) = Ok x' /\
    (route_ok net tp (concat parts) -> forall x, 0 <= x ->
       let P := eval_speed (p_speed_points (tw_path w)) x in
       let sets := route_sets net tp (concat parts) in
       P <= tp_speed_max tp /\ (forall v, posted tp 0 sets x v -> P <= v) /\ (P = tp_speed_max tp \/ posted tp 0 sets x P)).
Proof. exact sl_timed_walk_profile. Qed.
