(* C11 -- power and energy agree across train, consist and locomotive levels. Pinned statements only. *)
From Coq Require Import Reals List Bool.
From AltModel Require Import Num Interp Powertrain Loco Consist TrainEnergy Resist Braking TrainStep TrainFull.
From AltProofs Require Import NumR ConsistP C10P C01P C11P TrainFullP.
Import ListNotations.
Open Scope R_scope.

(* In one train step (limits published, any wheel power p chosen by the train model, consist solved
   with it, limit checking on, published unit limits non-negative): the power the train demands is the
   power the consist was asked for, the power it reports delivering, and the sum over its locomotives;
   and if the cumulative wheel energy, its positive and negative parts, fuel and battery energy agree
   at train level, consist level and as sums over locomotives before the step, they agree after it. *)
Theorem C11_step : forall (tc tc' : TC) p dt,
  cinv (snd tc) -> tstep tc (p, dt) = Ok tc' -> limits_nonneg (snd tc') ->
  te_pwr_whl_out (fst tc') = p /\
  cs_pwr_out_req (cn_state (snd tc')) = p /\ cs_pwr_out (cn_state (snd tc')) = p /\
  sumR pout (cn_locos (snd tc')) = p /\
  cinv (snd tc') /\ (levels_agree tc -> levels_agree tc').
Proof. exact train_step_levels. Qed.

Theorem C11_every_run : forall tc trace tc',
  cinv (snd tc) -> levels_agree tc ->
  (forall pre i post m, trace = pre ++ i :: post -> run tstep tc (pre ++ [i]) = Ok m -> limits_nonneg (snd m)) ->
  run tstep tc trace = Ok tc' -> cinv (snd tc') /\ levels_agree tc'.
Proof. exact train_run_levels. Qed.

(* trip outputs = totals scaled only by the annualisation factor (1, 365.25, or 365.25/days) *)
Theorem C11_trip_outputs : forall (c : ConsistR) annualize days, rollup c ->
  trip_energy_fuel c annualize days = cs_energy_fuel (cn_state c) * scaling_factor annualize days /\
  trip_net_energy_res c annualize days = cs_energy_res (cn_state c) * scaling_factor annualize days /\
  scaling_factor false days = 1 /\
  (forall d, d <> 0 -> scaling_factor true (Some d) * d = 36525 / 100) /\
  scaling_factor true None = 36525 / 100.
Proof. exact trip_outputs. Qed.

(* ---- the WHOLE simulation step (TrainFull.v: train dynamics + consist + locomotives) ---- *)

(* one whole SetSpeedTrainSim step is one step of the bookkeeping above, with the wheel power the train
   model chose under the limits the consist published *)
Theorem C11_whole_set_speed_step : forall (e : Env (F:=R)) times speeds fmax st cache (c c' : ConsistR) st'' cache',
  ss_full_step e times speeds fmax ((st, cache), c) = Ok ((st'', cache'), c') ->
  exists p dt, tstep (te_of st, c) (p, dt) = Ok (te_of st'', c') /\ p = w_pwr_whl_out (ts_w st'').
Proof. exact ss_full_step_is_tstep. Qed.

(* hence along every whole set-speed run (any route, trace, train, consist) the three levels agree *)
Theorem C11_whole_set_speed_run : forall (e : Env (F:=R)) times speeds fmax n x x',
  cinv (snd x) -> levels_agree (te_of (fst (fst x)), snd x) ->
  (forall k y, (1 <= k <= n)%nat -> ss_full_run k e times speeds fmax x = Ok y -> limits_nonneg (snd y)) ->
  ss_full_run n e times speeds fmax x = Ok x' ->
  cinv (snd x') /\ levels_agree (te_of (fst (fst x')), snd x').
Proof. exact ss_full_run_levels. Qed.

Theorem C11_whole_speed_limit_step : forall (e : Env (F:=R)) pts fmax (s s'' : SLState (F:=R)) (c c' : ConsistR),
  sl_full_step e pts fmax (s, c) = Ok (s'', c') ->
  exists p dt, tstep (te_of (sl_st s), c) (p, dt) = Ok (te_of (sl_st s''), c') /\
               p = w_pwr_whl_out (ts_w (sl_st s'')) /\ dt = k_dt (ts_k (sl_st s)).
Proof. exact sl_full_step_is_tstep. Qed.

Theorem C11_whole_speed_limit_run : forall (e : Env (F:=R)) pts fmax n x x',
  cinv (snd x) -> levels_agree (te_of (sl_st (fst x)), snd x) ->
  (forall k y, (1 <= k <= n)%nat -> sl_full_run k e pts fmax x = Ok y -> limits_nonneg (snd y)) ->
  sl_full_run n e pts fmax x = Ok x' ->
  cinv (snd x') /\ levels_agree (te_of (sl_st (fst x')), snd x').
Proof. exact sl_full_run_levels. Qed.

(* ... and along every accepted whole walk() of the speed-limit simulation *)
Theorem C11_whole_walk : forall (e : Env (F:=R)) pts offset_end fmax fuel x x',
  cinv (snd x) -> levels_agree (te_of (sl_st (fst x)), snd x) ->
  (forall k y, sl_full_run k e pts fmax x = Ok y -> (1 <= k)%nat -> limits_nonneg (snd y)) ->
  sl_full_walk fuel e pts offset_end fmax x = Ok x' ->
  cinv (snd x') /\ levels_agree (te_of (sl_st (fst x')), snd x').
Proof. exact sl_full_walk_levels. Qed.
