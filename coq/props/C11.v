(* C11 -- power and energy agree across train, consist and locomotive levels. Pinned statements only. *)
From Coq Require Import Reals List Bool.
From AltModel Require Import Num Interp Powertrain Loco Consist TrainEnergy SpeedPoints PathGeom Resist Braking TrainStep TrainFull WholeSim.
From AltProofs Require Import NumR LocoP C08P ConsistP C10P C01P C11P SpeedPointsP PathGeomP BrakingP TrainFullP WholeSimP EndToEndP WholeSplitP TimedTraceP TimedWalkExample.
Import ListNotations.
Open Scope R_scope.

(* In one train step (limits published, any wheel power p chosen by the train model, consist solved
   with it, limit checking on, published unit limits non-negative): the power the train demands is the
   power the consist was asked for, the power it reports delivering, and the sum over its locomotives;
   and if the cumulative wheel energy, its positive and negative parts, fuel and battery energy agree
   at train level, consist level and as sums over locomotives before the step, they agree after it. *)
Theorem C11_step : forall (tc tc' : TC) p dt,
  cinv (snd tc) -> tstep tc (p, dt) = Ok tc' -> limits_nonneg (snd tc') ->
  te_pwr_whl_out (fst tc') = p /\
  cs_pwr_out_req (cn_state (snd tc')) = p /\ cs_pwr_out (cn_state (snd tc')) = p /\
  sumR pout (cn_locos (snd tc')) = p /\
  cinv (snd tc') /\ (levels_agree tc -> levels_agree tc').
Proof. exact train_step_levels. Qed.

Theorem C11_every_run : forall tc trace tc',
  cinv (snd tc) -> levels_agree tc ->
  (forall pre i post m, trace = pre ++ i :: post -> run tstep tc (pre ++ [i]) = Ok m -> limits_nonneg (snd m)) ->
  run tstep tc trace = Ok tc' -> cinv (snd tc') /\ levels_agree tc'.
Proof. exact train_run_levels. Qed.

(* trip outputs = totals scaled only by the annualisation factor (1, 365.25, or 365.25/days) *)
Theorem C11_trip_outputs : forall (c : ConsistR) annualize days, rollup c ->
  trip_energy_fuel c annualize days = cs_energy_fuel (cn_state c) * scaling_factor annualize days /\
  trip_net_energy_res c annualize days = cs_energy_res (cn_state c) * scaling_factor annualize days /\
  scaling_factor false days = 1 /\
  (forall d, d <> 0 -> scaling_factor true (Some d) * d = 36525 / 100) /\
  scaling_factor true None = 36525 / 100.
Proof. exact trip_outputs. Qed.

(* ---- the WHOLE simulation step (TrainFull.v: train dynamics + consist + locomotives) ---- *)

(* one whole SetSpeedTrainSim step is one step of the bookkeeping above, with the wheel power the train
   model chose under the limits the consist published *)
Theorem C11_whole_set_speed_step : forall (e : Env (F:=R)) times speeds fmax st cache (c c' : ConsistR) st'' cache',
  ss_full_step e times speeds fmax ((st, cache), c) = Ok ((st'', cache'), c') ->
  exists p dt, tstep (te_of st, c) (p, dt) = Ok (te_of st'', c') /\ p = w_pwr_whl_out (ts_w st'').
Proof. exact ss_full_step_is_tstep. Qed.

(* hence along every whole set-speed run (any route, trace, train, consist) the three levels agree *)
Theorem C11_whole_set_speed_run : forall (e : Env (F:=R)) times speeds fmax n x x',
  cinv (snd x) -> levels_agree (te_of (fst (fst x)), snd x) ->
  (forall k y, (1 <= k <= n)%nat -> ss_full_run k e times speeds fmax x = Ok y -> limits_nonneg (snd y)) ->
  ss_full_run n e times speeds fmax x = Ok x' ->
  cinv (snd x') /\ levels_agree (te_of (fst (fst x')), snd x').
Proof. exact ss_full_run_levels. Qed.

Theorem C11_whole_speed_limit_step : forall (e : Env (F:=R)) pts fmax (s s'' : SLState (F:=R)) (c c' : ConsistR),
  sl_full_step e pts fmax (s, c) = Ok (s'', c') ->
  exists p dt, tstep (te_of (sl_st s), c) (p, dt) = Ok (te_of (sl_st s''), c') /\
               p = w_pwr_whl_out (ts_w (sl_st s'')) /\ dt = k_dt (ts_k (sl_st s)).
Proof. exact sl_full_step_is_tstep. Qed.

Theorem C11_whole_speed_limit_run : forall (e : Env (F:=R)) pts fmax n x x',
  cinv (snd x) -> levels_agree (te_of (sl_st (fst x)), snd x) ->
  (forall k y, (1 <= k <= n)%nat -> sl_full_run k e pts fmax x = Ok y -> limits_nonneg (snd y)) ->
  sl_full_run n e pts fmax x = Ok x' ->
  cinv (snd x') /\ levels_agree (te_of (sl_st (fst x')), snd x').
Proof. exact sl_full_run_levels. Qed.

(* ... and along every accepted whole walk() of the speed-limit simulation *)
Theorem C11_whole_walk : forall (e : Env (F:=R)) pts offset_end fmax fuel x x',
  cinv (snd x) -> levels_agree (te_of (sl_st (fst x)), snd x) ->
  (forall k y, sl_full_run k e pts fmax x = Ok y -> (1 <= k)%nat -> limits_nonneg (snd y)) ->
  sl_full_walk fuel e pts offset_end fmax x = Ok x' ->
  cinv (snd x') /\ levels_agree (te_of (sl_st (fst x')), snd x').
Proof. exact sl_full_walk_levels. Qed.

(* ---- END TO END (coq/model/WholeSim.v): from the user's inputs -- network, train parameters, route, resistance
   parameters, friction brake, initial state, consist -- through PathTpc::extend, BrakingPoints::recalc and
   walk() to the final state.  Tied to the real SpeedLimitTrainSim::extend_path + walk() end to end (kind
   sl_whole_sim of this check: same number of steps, bit-equal final train / brake / consist state, or the same
   error).  For EVERY accepted simulation the statement collects what the per-property theorems give. ---- *)
Theorem C11_end_to_end_simulation :
  forall fuel_bp fuel_walk (net : list LinkR) (tp : TPR) route rp fmax fb st cache (con : ConsistR) x',
  sl_whole_sim fuel_bp fuel_walk net tp route rp fmax fb st cache con = Ok x' ->
  0 <= k_dt (ts_k st) -> 0 < mass_compound (ts_p st) ->
  exists p pts idx n,
    let s0 := {| sl_st := st; sl_cache := cache; sl_fb := fb; sl_idx := idx |} in
    let e := env_of_path p rp in
    extend_many net (new_path tp) [route] = Ok p /\
    (route_ok net tp route -> forall x, 0 <= x ->
       let P := eval_speed (p_speed_points p) x in
       P <= tp_speed_max tp /\ (forall v, posted tp 0 (route_sets net tp route) x v -> P <= v) /\
       (P = tp_speed_max tp \/ posted tp 0 (route_sets net tp route) x P)) /\
    recalc fuel_bp (brkenv_of_path p rp (fb_force_max fb)) (path_offset_end p) st cache = Ok (pts, idx) /\
    Forall pt_ok pts /\
    sl_full_run n e pts fmax (s0, con) = Ok x' /\
    (path_offset_end p - ft1000 <= k_offset (ts_k (sl_st (fst x'))) /\
     (path_offset_end p <= k_offset (ts_k (sl_st (fst x'))) \/ k_speed (ts_k (sl_st (fst x'))) = 0)) /\
    (forall k y y', (k < n)%nat -> sl_full_run k e pts fmax (s0, con) = Ok y -> sl_full_step e pts fmax y = Ok y' ->
       0 <= k_speed_target (ts_k (sl_st (fst y'))) <= k_speed_limit (ts_k (sl_st (fst y'))) /\
       k_speed (ts_k (sl_st (fst y))) <= k_speed_limit (ts_k (sl_st (fst y')))) /\
    (0 < k_dt (ts_k st) -> Forall loco_ok (cn_locos con) ->
       Forall loco_ok (cn_locos (snd x')) /\ Forall2 cum_le (cn_locos con) (cn_locos (snd x'))) /\
    (cinv con -> levels_agree (te_of st, con) ->
       (forall k y, sl_full_run k e pts fmax (s0, con) = Ok y -> (1 <= k)%nat -> limits_nonneg (snd y)) ->
       cinv (snd x') /\ levels_agree (te_of (sl_st (fst x')), snd x')).
Proof. exact sl_whole_sim_sound. Qed.

(* ---- the simulation of a DISPATCHED train: SpeedLimitTrainSim::walk_timed_path (coq/model/WholeSim.v
   sl_timed_walk: the timed link path is supplied piecewise - extend_path when a link's time has come, steps until
   the clock reaches the time of the last link supplied - then walk()).  Tied to the real walk_timed_path end to
   end (kind sl_timed_walk of this check).  An accepted run ends in the stopping window of the path supplied; no
   unit loses well-formedness and no unit's cumulative loss / fuel / braking energy decreases on the way. ---- *)
Theorem C11_dispatched_train_simulation :
  forall fuel_bp fuel_steps (net : list LinkR) (tp : TPR) tl rp fmax fb st cache (con : ConsistR) x',
  sl_timed_walk fuel_bp fuel_steps net tp tl rp fmax fb st cache con = Ok x' ->
  exists w : TimedSim (F:=R),
    sl_full_walk fuel_steps (env_of_path (tw_path w) rp) (tw_pts w) (path_offset_end (tw_path w)) fmax (tw_x w) = Ok x' /\
    (path_offset_end (tw_path w) - ft1000 <= k_offset (ts_k (sl_st (fst x'))) /\
     (path_offset_end (tw_path w) <= k_offset (ts_k (sl_st (fst x'))) \/ k_speed (ts_k (sl_st (fst x'))) = 0)) /\
    (0 < k_dt (ts_k st) -> Forall loco_ok (cn_locos con) ->
       Forall loco_ok (cn_locos (snd x')) /\ Forall2 cum_le (cn_locos con) (cn_locos (snd x'))).
Proof. exact sl_timed_walk_sound. Qed.

(* the structural statement behind the dispatched-train corollaries of C09, C10 and C12: walk_timed_path consists of
   whole steps (under the path and braking points in force) and braking-point re-computations that leave the train
   state, its caches, the brake and the consist untouched - nothing else ever modifies the simulation *)
Theorem C11_dispatched_train_is_whole_steps : forall fuel_bp fuel_steps (net : list LinkR) (tp : TPR) tl rp fmax fb st cache (con : ConsistR) x',
  sl_timed_walk fuel_bp fuel_steps net tp tl rp fmax fb st cache con = Ok x' ->
  tw_trace fmax any_pts any_step ({| sl_st := st; sl_cache := cache; sl_fb := fb; sl_idx := 0 |}, con) x'.
Proof. intros fuel_bp fuel_steps net tp tl rp fmax. exact (sl_timed_walk_trace fmax fuel_bp fuel_steps net tp tl rp). Qed.

(* the hypothesis of the dispatched-train statements (here and in C01, C02, C03, C08, C09, C10, C12, C13) is satisfiable on a
   non-trivial input: the same definitions at binary64, evaluated by the kernel, accept a generated route with a timed
   path and take more than 100 steps (proofs/TimedWalkExample.v; the real walk_timed_path returns the bit-identical state) *)
Example C11_dispatched_train_hypothesis_satisfiable :
  TimedWalkExample.accepted
    (sl_timed_walk (N.to_nat TimedWalkExample.tw_fuel_bp) (N.to_nat TimedWalkExample.tw_fuel_steps) TimedWalkExample.tw_net
       TimedWalkExample.tw_tp TimedWalkExample.tw_tl TimedWalkExample.tw_rp TimedWalkExample.tw_fmax TimedWalkExample.tw_fb
       TimedWalkExample.tw_st TimedWalkExample.tw_cache TimedWalkExample.tw_con) = true.
Proof. exact TimedWalkExample.timed_walk_accepts. Qed.
