(* C05 -- dispatch returns a complete, valid, memory-safe plan or an explicit error.
   PARTIAL.  Proved for all inputs: (a) the three `unsafe` sentinel scans of free_path.rs, modelled
   with checked access, never reach the out-of-bounds outcome, fail on their assert! exactly when an
   asserted precondition fails, stop at or before the sentinel, and find_train_intersect leaves the
   buffer as it found it; (b) soundness of the result checker; (c) the dispatch queue order is total.
   Validated per run (bin/check C05): that run_dispatch's output passes the checker, that it
   terminates and does not abort.  Only pinned statements here. *)
From Coq Require Import Reals List Bool Arith ZArith.
From AltModel Require Import Num TrackNet EstNet DispPlan Scans.
From AltProofs Require Import TrackNetP OrdP ScansP DispPlanP DispPlanR.
Import ListNotations.
Open Scope nat_scope.

(* ---- memory safety of the scans: for ALL buffers and indices ---- *)
Theorem C05_calc_idx_sentinels_safe : forall div_idx tsent dn,
  calc_idx_sentinels div_idx tsent dn <> Panic OOB /\
  (~ calc_pre div_idx tsent dn -> calc_idx_sentinels div_idx tsent dn = Panic ASSERTF) /\
  (calc_pre div_idx tsent dn ->
     exists i d, div_idx <= i < length dn /\ nth_error dn i = Some (tsent, d) /\
       (forall k y, div_idx <= k < i -> nth_error dn k = Some y -> fst y <> tsent) /\
       (calc_idx_sentinels div_idx tsent dn = Panic INDEXF \/
        exists j, calc_idx_sentinels div_idx tsent dn = Ok (d, j) /\ i < j <= length dn)).
Proof. exact calc_idx_sentinels_safe. Qed.

Theorem C05_find_train_intersect_safe : forall idx_split idx_sentinel opt path blocked,
  opt_wf opt ->
  find_train_intersect idx_split idx_sentinel opt path blocked <> Panic OOB /\
  (idx_split < idx_sentinel -> ~ idx_sentinel < length path ->
     find_train_intersect idx_split idx_sentinel opt path blocked = Panic ASSERTF) /\
  (forall r p', find_train_intersect idx_split idx_sentinel opt path blocked = Ok (r, p') ->
     p' = path /\ idx_split <= r /\ (idx_split < idx_sentinel -> r <= idx_sentinel)) /\
  ((exists r, find_train_intersect idx_split idx_sentinel opt path blocked = Ok (r, path)) \/
   find_train_intersect idx_split idx_sentinel opt path blocked = Panic ASSERTF \/
   find_train_intersect idx_split idx_sentinel opt path blocked = Panic INDEXF).
Proof. exact find_train_intersect_safe. Qed.

Theorem C05_add_blocking_trains_safe : forall tb base add,
  add_blocking_trains tb base add <> Panic OOB /\
  (~ add_pre tb base -> add_blocking_trains tb base add = Panic ASSERTF) /\
  (add_pre tb base ->
     add_blocking_trains tb base add = Panic INDEXF \/
     exists tb', add_blocking_trains tb base add = Ok (tb', (fst base, length tb')) /\ snd base <= length tb').
Proof. exact add_blocking_trains_safe. Qed.

(* ---- the result checker: for every numeric carrier ---- *)
Theorem C05_result_ok_sound : forall (F : Type) (NO : NumOps F) net ts plans cert,
  result_ok (F:=F) net ts plans cert = true -> ResultOK net ts plans.
Proof. intros F NO. exact (@result_ok_sound F NO). Qed.

Theorem C05_stuck_ok_sound : forall n ids, stuck_ok n ids = true ->
  ids <> [] /\ (forall i, In i ids -> 1 <= i <= n) /\ NoDup ids.
Proof. exact stuck_ok_sound. Qed.

(* over R: a timed walk whose steps pass the checker is nowhere faster than free-running: the time
   spent is at least the sum of the free-running durations minus the summed tolerance; by
   TimedSteps_app this holds between any two positions of the walk *)
Theorem C05_never_faster_than_free_running : forall (est : list (rnode (F:=R))) w i ti,
  TimedSteps est i ti w -> (ti + dursR est i w <= snd (last w (i, ti)) + tolsR est i ti w)%R.
Proof. exact timed_steps_lower_bound. Qed.

Theorem C05_timed_steps_split : forall (F : Type) (NO : NumOps F) (est : list (rnode (F:=F))) w1 w2 i ti,
  TimedSteps est i ti (w1 ++ w2) ->
  TimedSteps est i ti w1 /\ TimedSteps est (fst (last w1 (i, ti))) (snd (last w1 (i, ti))) w2.
Proof. intros F NO. exact (@TimedSteps_app F NO). Qed.

(* the priority queue of run_dispatch is ordered by a total order on real times (no unwrap() panic) *)
Theorem C05_dispatch_queue_order_total : TotalCmp (cmp_disp_next (F:=R)).
Proof. exact cmp_disp_next_total. Qed.

Check C05_result_ok_sound : forall (F : Type) (NO : NumOps F) net ts plans cert,
  result_ok (F:=F) net ts plans cert = true -> ResultOK net ts plans.

(* the preconditions are satisfiable and the scans do real work under them *)
Example C05_example_calc : calc_idx_sentinels 1 3 [(0, 0); (2, 4); (3, 7); (1, 7); (3, 9)] = Ok (7, 4).
Proof. reflexivity. Qed.
Example C05_example_find : find_train_intersect 1 4 (LRange 5 3) [0; 2; 9; 7; 0; 6]%Z [0; 0; 0; 0; 0; 0; 0; 1; 0; 0] = Ok (3, [0; 2; 9; 7; 0; 6]%Z).
Proof. reflexivity. Qed.
