(* C16 -- network validation accepts exactly the consistent networks and never aborts.
   This file holds only the pinned statements; the proofs are in proofs/ValidateP.v, C16P.v.

   The model (model/Validate.v) is generic over the number carrier F, its comparison operations
   (NumOps) and the three number-class facts the code asks about (NumPred: finite, integral, one
   revolution): validation only compares numbers, so the theorems hold for EVERY instance, in
   particular for binary64 (the instance executed in the correspondence) and for the reals
   (C16_atoms_at_R says what the atoms mean there).
   [validate_network NP true] is the repaired code, [validate_network NP false] the code in /repo. *)
From Coq Require Import List Bool ZArith NArith Reals.
From AltModel Require Import Num Validate.
From AltProofs Require Import ValidateP C16P.
Import ListNotations.

(* accepted  <->  the documented structural rules hold (NetworkOK: dummy first entry, indices equal
   positions, flip pairs mutual, next/prev reciprocated, alternates only with primaries, no
   coincident switch points, profiles sorted and spanning the segment, speed and catenary sections
   well-formed, every reference - lockout entries too - inside the network) *)
Theorem C16_validate_iff : forall (F : Type) (NO : NumOps F) (NP : NumPred F) (n : list (Link (F:=F))),
  validate_network NP true n = Ok tt <-> NetworkOK NP n.
Proof. intros. apply validate_iff. Qed.

(* any violation is an error value, never a crash: no index out of bounds, no unwrap on empty *)
Theorem C16_validate_total : forall (F : Type) (NO : NumOps F) (NP : NumPred F) (n : list (Link (F:=F))) c,
  validate_network NP true n <> Panic c.
Proof. intros. apply validate_total. Qed.
Theorem C16_rejection_is_err : forall (F : Type) (NO : NumOps F) (NP : NumPred F) (n : list (Link (F:=F))),
  ~ NetworkOK NP n -> validate_network NP true n = Err ERR_VALIDATION.
Proof. intros. apply validate_rejects_with_err; auto. Qed.

(* loading the legacy file layout yields the same network as the current layout, for every network
   the legacy layout can express (no train-type-neutral speed_set; one speed set per train type) *)
Theorem C16_legacy_same : forall (F : Type) (NO : NumOps F) (n : list (Link (F:=F))),
  Forall Expressible n -> convert (legacy_of n) = n.
Proof. intros. apply legacy_same; auto. Qed.

Theorem C16_atoms_at_R : forall a b : R,
  (le (NO:=R_ops) a b <-> (a <= b)%R) /\ (lt (NO:=R_ops) a b <-> (a < b)%R) /\ (eq (NO:=R_ops) a b <-> a = b).
Proof. exact atoms_R. Qed.

(* ---- the code as it stands in /repo violates the property (witnesses at the integer instance
   of the generic model: kernel-evaluated, axiom-free; replayed on the real code by the check) *)
Theorem C16_current_code_panics_refuted :
  validate_network zNP false w_out_of_range = Panic 1601 /\
  validate_network zNP true w_out_of_range = Err ERR_VALIDATION.
Proof. exact current_code_panics_on_out_of_range. Qed.
Theorem C16_current_code_rejects_disjoint_catenary_refuted :
  validate_network zNP false w_cat_disjoint = Err ERR_VALIDATION /\ validate_network zNP true w_cat_disjoint = Ok tt.
Proof. exact current_code_rejects_disjoint_catenary. Qed.
Theorem C16_current_code_accepts_overlapping_catenary_refuted :
  validate_network zNP false w_cat_overlap = Ok tt /\ validate_network zNP true w_cat_overlap = Err ERR_VALIDATION.
Proof. exact current_code_accepts_overlapping_catenary. Qed.
Theorem C16_current_code_ignores_lockout_refuted :
  validate_network zNP false w_bad_lockout = Ok tt /\ validate_network zNP true w_bad_lockout = Err ERR_VALIDATION.
Proof. exact current_code_accepts_lockout_outside_network. Qed.

(* ---- the rules are satisfiable: a 4-segment network with reverse twins, catenary and lockout *)
Example C16_NetworkOK_satisfiable : NetworkOK zNP w_valid.
Proof. exact NetworkOK_satisfiable. Qed.

Check C16_validate_iff : forall (F : Type) (NO : NumOps F) (NP : NumPred F) (n : list (Link (F:=F))),
  validate_network NP true n = Ok tt <-> NetworkOK NP n.
