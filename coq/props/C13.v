(* C13 -- the enforced speed-limit profile is exactly the tightest posted restriction, and the
   stored list is canonical.  This file holds only the pinned statements; proofs are in proofs/.
   Model: coq/model/SpeedPoints.v (insertion, add_speeds) and coq/model/PathGeom.v (extend).
   [posted tp 0 sets x v] : "a restriction with speed v of an applicable speed set of some link of
   the route covers position x, tail-end sets extended by the train length" (SpeedPointsP.v,
   explicit form: C13_posted_explicit). *)
From Coq Require Import Reals List Bool ZArith Lra.
From AltModel Require Import Num SpeedPoints PathGeom.
From AltProofs Require Import NumR SpeedPointsP PathGeomP.
Import ListNotations.
Open Scope R_scope.

(* one insertion: inside [a,b) the profile is lowered to the minimum, elsewhere unchanged --
   at every real position x at or after the first point *)
Theorem C13_insert_speed_sem : forall (o0 s0 : R) (t : list ptR) (a b v x : R),
  sorted_from o0 t -> o0 <= a -> a <= b -> o0 <= x ->
  eval_speed (insert_speed ((o0, s0) :: t) a b v) x =
  if inwin a b x then min_speed (eval_speed ((o0, s0) :: t) x) v else eval_speed ((o0, s0) :: t) x.
Proof. exact insert_speed_sem_gen. Qed.

(* min_speed is the minimum on non-negative speeds *)
Theorem C13_min_speed_is_min : forall s v : R, 0 <= s -> 0 <= v -> min_speed s v = Rmin s v.
Proof. exact min_speed_nonneg. Qed.

(* one insertion keeps the first point, yields no equal-valued neighbours, keeps offsets strictly
   increasing, adds at most the two bounds as new offsets, keeps speeds non-negative *)
Theorem C13_insert_speed_canonical : forall (o0 s0 : R) (t : list ptR) (a b v : R),
  o0 <= a -> a <= b ->
  exists s0' t', insert_speed ((o0, s0) :: t) a b v = (o0, s0') :: t'
    /\ no_eq_adj s0' t'
    /\ (ssorted_from o0 t -> ssorted_from o0 t')
    /\ (forall e, In e (map fst t') -> e = a \/ e = b \/ In e (map fst t))
    /\ (0 <= v -> speeds_nonneg ((o0, s0) :: t) -> speeds_nonneg ((o0, s0') :: t')).
Proof. exact insert_speed_shape. Qed.

(* THE property, fold form: after PathTpc::new(tp) and any sequence of accepted extend calls the
   enforced limit at EVERY position x >= 0 is the running minimum of speed_max and every applicable
   restriction (speed < speed_max) covering x *)
Theorem C13_profile_exact : forall (net : list LinkR) (tp : TPR) parts (q : PathR) x,
  extend_many net (new_path tp) parts = Ok q -> route_ok net tp (concat parts) -> 0 <= x ->
  eval_speed (p_speed_points q) x
  = min_over (tp_speed_max tp) (route_restr tp 0 (route_sets net tp (concat parts))) x.
Proof. exact path_profile_exact. Qed.

(* THE property, declarative form: the enforced limit is <= speed_max, <= every posted
   restriction covering x, and equal to one of them (never lower than necessary) *)
Theorem C13_profile_is_min : forall (net : list LinkR) (tp : TPR) parts (q : PathR) x,
  extend_many net (new_path tp) parts = Ok q -> route_ok net tp (concat parts) -> 0 <= x ->
  let P := eval_speed (p_speed_points q) x in
  let sets := route_sets net tp (concat parts) in
  P <= tp_speed_max tp /\ (forall v, posted tp 0 sets x v -> P <= v) /\
  (P = tp_speed_max tp \/ posted tp 0 sets x P).
Proof. exact path_profile_is_min. Qed.

(* the stored list: first point at 0, offsets strictly increasing, no equal-valued neighbours *)
Theorem C13_profile_canonical : forall (net : list LinkR) (tp : TPR) parts (q : PathR),
  extend_many net (new_path tp) parts = Ok q -> route_ok net tp (concat parts) ->
  exists s0 t, p_speed_points q = (0, s0) :: t
    /\ ssorted ((0, s0) :: t) /\ no_eq_neighbours ((0, s0) :: t) /\ speeds_nonneg ((0, s0) :: t).
Proof. exact path_profile_canonical. Qed.

(* what [posted] means, spelled out: link number |pre| of the route, at base = total length of
   the links before it *)
Theorem C13_posted_explicit : forall (tp : TPR) sets base x v,
  posted tp base sets x v <->
  exists pre ss len post sl, sets = pre ++ (ss, len) :: post /\ speed_set_applies tp ss = true /\
    In sl (ss_limits ss) /\ v = sl_speed sl /\
    sl_start sl + (base + sum_len pre) <= x < sl_end sl + (base + sum_len pre) + length_add tp ss.
Proof. exact posted_iff. Qed.

Check C13_profile_is_min : forall (net : list LinkR) (tp : TPR) parts (q : PathR) x,
  extend_many net (new_path tp) parts = Ok q -> route_ok net tp (concat parts) -> 0 <= x ->
  let P := eval_speed (p_speed_points q) x in
  let sets := route_sets net tp (concat parts) in
  P <= tp_speed_max tp /\ (forall v, posted tp 0 sets x v -> P <= v) /\
  (P = tp_speed_max tp \/ posted tp 0 sets x P).

(* The hypotheses are satisfiable on a non-trivial case -- the shape on which the unchanged code
   fails: [2000,3000)@10 strictly inside [1000,5000)@20, speed_max 30.  The model's profile is 10
   inside the inner restriction and back to 20 after it. *)
(* the instance: PathGeomP.Ex (one link of 10000 m, head-end set with the two restrictions, train 500 m) *)
Example C13_hypotheses_satisfiable :
  (exists q, extend_many Ex.ex_net (new_path Ex.ex_tp) [[1%Z]] = Ok q) /\ route_ok Ex.ex_net Ex.ex_tp (concat [[1%Z]]).
Proof. exact ex_hyps. Qed.

Example C13_nested_example : forall q, extend_many Ex.ex_net (new_path Ex.ex_tp) [[1%Z]] = Ok q ->
  eval_speed (p_speed_points q) 2500 = 10 /\ eval_speed (p_speed_points q) 3500 = 20 /\
  eval_speed (p_speed_points q) 6000 = 30.
Proof. exact ex_nested. Qed.

(* (imported here, after the statements above, to keep their name resolution unchanged) *)
From AltModel Require Import Interp Powertrain Loco Consist Resist Braking TrainStep TrainEnergy TrainFull WholeSim.
From AltProofs Require Import ConsistP TrainFullP TimedTraceP.

(* ---- a DISPATCHED train (SpeedLimitTrainSim::walk_timed_path, model WholeSim.sl_timed_walk tied to the real function by
   check C11; proofs/TimedTraceP.v): the path its final walk() runs on was built from PathTpc::new by the successive
   extend_path calls and nothing else, hence the enforced limit at every position is EXACTLY the tightest of the train's own maximum and the posted
   restrictions covering the position (at most each of them, and equal to one of them) ---- *)
Theorem C13_dispatched_train : forall fuel_bp fuel_steps (net : list LinkR) (tp : TPR) tl rp fmax fb st cache (con : ConsistR) x',
  sl_timed_walk fuel_bp fuel_steps net tp tl rp fmax fb st cache con = Ok x' ->
  exists (w : TimedSim (F:=R)) parts,
    extend_many net (new_path tp) parts = Ok (tw_path w) /\
    sl_full_walk fuel_steps (env_of_path (tw_path w) rp) (tw_pts w) (path_offset_end (tw_path w)) fmax (tw_x w) = Ok x' /\
    (route_ok net tp (concat parts) -> forall x, 0 <= x ->
       let P := eval_speed (p_speed_points (tw_path w)) x in
       let sets := route_sets net tp (concat parts) in
       P <= tp_speed_max tp /\ (forall v, posted tp 0 sets x v -> P <= v) /\ (P = tp_speed_max tp \/ posted tp 0 sets x P)).
Proof. exact sl_timed_walk_profile. Qed.
