(* C04 -- dispatch never authorises conflicting occupancy.
   PARTIAL.  Proved for all inputs: (a) the occupancy checker decides NoConflict exactly (sound and
   complete, every pair of holdings of every two trains); (b) in the abstract authority ledger every
   guarded operation (enter / front exit / tail enter / tail exit) and every pop (rewind) preserves
   the ledger invariant, hence every ledger reachable from the empty one by ANY list of such
   operations satisfies it.  Validated per run (bin/check C04): that the states the real
   run_dispatch goes through pass the checker.  Only pinned statements here. *)
From Coq Require Import Reals List Bool Arith ZArith Floats Uint63.
From AltModel Require Import Num TrackNet DispPlan.
From AltProofs Require Import TrackNetP DispPlanP DispPlanR.
Import ListNotations.
Open Scope nat_scope.

(* plan_ok net headway occs = true  <->  for every two different trains and every pair of their holdings:
   on opposite directions of a segment or on segments declared mutually exclusive the holding intervals
   (front enters .. tail clears) do not overlap; on the same link the follower keeps the headway at
   BOTH ends -- it enters no sooner than the headway after the leader's tail entered, and its front
   leaves no sooner than the headway after the leader's tail left (unless an opposing movement passed
   in between) -- and the order at exit / tail entry / release *)
Theorem C04_plan_ok_iff_NoConflict : forall (F : Type) (NO : NumOps F) net h (occs : list (list (occ (F:=F)))),
  plan_ok net h occs = true <-> NoConflict net h occs.
Proof. intros F NO. exact (@plan_ok_iff F NO). Qed.

(* the per-state check derives every train's occupancy from its own event list inside the checker *)
Theorem C04_state_ok_sound : forall (F : Type) (NO : NumOps F) net h (trains : list (list (ev (F:=F)) * option F)),
  state_ok net h trains = true -> exists occs, occs_of trains = Some occs /\ NoConflict net h occs.
Proof. intros F NO. exact (@state_ok_sound F NO). Qed.

(* over R the disjointness reads: one holding is released no later than the other begins *)
Theorem C04_disjoint_reads : forall x y : occ (F:=R),
  Disjoint x y <-> (exists u, o_out x = Some u /\ (u <= o_in y)%R) \/ (exists u, o_out y = Some u /\ (u <= o_in x)%R).
Proof. exact Disjoint_R. Qed.

Theorem C04_headways_read : forall (h : R) (x y : occ (F:=R)),
  (Headway h x y <-> exists c, o_ce x = Some c /\ (c + h <= o_in y)%R) /\
  (ExitHeadway h x y <-> forall ya, o_ax y = Some ya -> (forall yo, o_out y = Some yo -> (ya < yo)%R) ->
                           exists u, o_out x = Some u /\ (u + h <= ya)%R).
Proof. intros h x y. split; [exact (Headway_R h x y)|exact (ExitHeadway_R h x y)]. Qed.

(* the abstract ledger: one guarded step, and every reachable ledger *)
Theorem C04_ledger_step_preserves : forall (F : Type) (NO : NumOps F) net h (led led' : ledger (F:=F)) op,
  LInv net h led -> lop_apply net h led op = Ok led' -> LInv net h led'.
Proof. intros F NO. exact (@ledger_step_preserves F NO). Qed.

Theorem C04_ledger_reachable_ok : forall (F : Type) (NO : NumOps F) net h n ops (led : ledger (F:=F)),
  lrun net h (repeat [] n) ops = Ok led -> LInv net h led.
Proof. intros F NO. exact (@ledger_reachable_ok F NO). Qed.

Check @li_excl : forall F NO net h (led : ledger (F:=F)), LInv net h led ->
  forall l m a b, l <> m -> Excl net l m -> In a (stack led l) -> In b (stack led m) -> Disjoint (snd a) (snd b).

(* the guards are satisfiable: two opposing trains over the segment 1/2, one after the other *)
Example C04_example_ledger :
  let f := fun k : nat => PrimFloat.of_uint63 (Uint63.of_Z (Z.of_nat k)) in
  let net := [mkL 0 0 0 0 0 []; mkL 0 0 0 0 2 []; mkL 0 0 0 0 1 []] in
  match lrun (F:=float) net (f 480) (repeat [] 3)
          [Enter 1 1 (f 0); TailEnter 1 0 (f 0); FrontExit 1 0 (f 600); TailExit 1 0 (f 700); Enter 2 2 (f 700)] with
  | Ok _ => True | _ => False end
  /\ match lrun (F:=float) net (f 480) (repeat [] 3) [Enter 1 1 (f 0); Enter 2 2 (f 100)] with
     | Err 2 => True | _ => False end.
Proof. vm_compute. split; exact I. Qed.
