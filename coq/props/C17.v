(* C17 -- every model object survives save/load in every advertised format, mid-run too.
   PARTIAL: the byte formats (serde_yaml, serde_json, bincode, ryu) are third-party code and are
   validated per run by the harness, not proved.  Proved here, for ALL schemas / objects / traces, is
   what altrios-core's own source decides: which fields are written, skipped, defaulted, rebuilt.
   This file holds only the pinned statements; the proofs are in proofs/CodecP.v, CodecSchemaP.v. *)
From Coq Require Import Reals List Bool ZArith String.
From AltModel Require Import Num Interp Powertrain Loco Codec CodecSchema Consist.
From AltProofs Require Import NumR InterpP PowertrainP LocoP C08P CodecP CodecSchemaP ConsistCodecP.
Import ListNotations.
Open Scope R_scope.

(* --- self-describing formats (YAML, JSON): for every well-formed schema and every well-typed
   object, reading back what was written returns the object with its #[serde(skip)] caches cleared *)
Theorem C17_roundtrip_selfdesc : forall (t : ty R) (v : val R),
  wf_ty t -> has_tyb t v = true -> dec t (enc t v) = Ok (clear t v).
Proof. exact dec_enc. Qed.

(* normalisation is idempotent, and a second round trip returns exactly the first reload: no drift *)
Theorem C17_normalize_idem : forall (t : ty R) (v : val R),
  wf_ty t -> has_tyb t v = true -> clear t (clear t v) = clear t v.
Proof. exact clear_idem. Qed.
Theorem C17_second_roundtrip_equals_first : forall (t : ty R) (v : val R),
  wf_ty t -> has_tyb t v = true -> dec t (enc t (clear t v)) = Ok (clear t v).
Proof. exact dec_enc_clear. Qed.

(* JSON = the same, provided every written number is finite *)
Theorem C17_json_roundtrip : forall (t : ty R) (v : val R),
  wf_ty t -> has_tyb t v = true -> all_finite (enc t v) = true ->
  dec t (jsonify (enc t v)) = Ok (clear t v).
Proof. exact json_roundtrip. Qed.
(* ... and NOT otherwise: a finished path profile (PathTpc::finish stores +infinity) is written,
   reads back in a self-describing format, but not in JSON (null where f64 is expected) *)
Theorem C17_json_refuted :
  exists v : val R, has_tyb sch_pathtpc v = true /\ dec sch_pathtpc (enc sch_pathtpc v) = Ok v /\
                    dec sch_pathtpc (jsonify (enc sch_pathtpc v)) <> Ok v.
Proof. exact json_refuted. Qed.

(* --- positional format (bincode): the round trip works when NO field was skipped by
   skip_serializing_if ... *)
Theorem C17_positional_roundtrip : forall (t : ty R) (v : val R) (rest : list (atom R)),
  wf_ty t -> has_tyb t v = true -> no_skip t v = true ->
  decp t (encp t v ++ rest) = Ok (clear t v, rest).
Proof. exact decp_encp. Qed.
(* ... and fails for a component whose state equals Default::default() (for every rating, lag, idle
   fuel and efficiency map): the reader finds the Option tag of `mass` where `state.i` should be *)
Theorem C17_positional_refuted_default_state : forall p lag idle frac eta,
  decp sch_fc (encp sch_fc (fc_to_val (fc_default_state p lag idle frac eta))) = Err 1711.
Proof. exact positional_refuted_fc. Qed.
Theorem C17_positional_refuted :
  exists c : FC (F:=R), has_tyb sch_fc (fc_to_val c) = true /\
    dec sch_fc (enc sch_fc (fc_to_val c)) = Ok (fc_to_val c) /\
    decp sch_fc (encp sch_fc (fc_to_val c)) <> Ok (fc_to_val c, []).
Proof. exact positional_refuted. Qed.

(* --- the concrete schemas satisfy the hypotheses *)
Theorem C17_schemas_well_formed :
  wf_ty (sch_fc (F:=R)) /\ wf_ty (sch_gen (F:=R)) /\ wf_ty (sch_edrv (F:=R)) /\ wf_ty (sch_res (F:=R)) /\
  wf_ty (sch_loco (F:=R)) /\ wf_ty (sch_consist (F:=R)) /\ wf_ty (sch_locosim (F:=R)) /\
  wf_ty (sch_consistsim (F:=R)) /\ wf_ty (sch_pathtpc (F:=R)).
Proof. exact schemas_well_formed. Qed.

(* --- typed: a locomotive of the numeric model (Loco.v) reloads as itself with the lazily rebuilt
   input-fraction maps cleared; doing it again changes nothing *)
Theorem C17_loco_roundtrip : forall l : Loco (F:=R), loco_decode (loco_encode l) = Ok (loco_normalize l).
Proof. exact loco_roundtrip. Qed.
Theorem C17_loco_second_roundtrip : forall l l1 : Loco (F:=R),
  loco_decode (loco_encode l) = Ok l1 -> loco_decode (loco_encode l1) = Ok l1.
Proof. exact loco_roundtrip_twice. Qed.
Theorem C17_loco_positional_roundtrip : forall l : Loco (F:=R),
  no_skip sch_loco (loco_to_val l) = true -> loco_decode_pos (loco_encode_pos l) = Ok (loco_normalize l).
Proof. exact loco_positional_roundtrip. Qed.

(* --- "the reloaded object behaves identically": clearing the caches does not change a simulation
   step, provided the stored map is absent or is what the code would rebuild (CacheInv); the
   invariant holds for every loaded object and is kept by every accepted step *)
Theorem C17_cache_insensitive : forall (l : Loco (F:=R)) pwr dt on,
  CacheInv l -> loco_sim_solve_step (loco_normalize l) pwr dt on = loco_sim_solve_step l pwr dt on.
Proof. exact step_cache_insensitive. Qed.
Theorem C17_cache_invariant_after_load : forall l : Loco (F:=R), CacheInv (loco_normalize l).
Proof. exact CacheInv_normalize. Qed.
Theorem C17_cache_invariant_kept : forall (l : Loco (F:=R)) pwr dt on (l' : Loco (F:=R)),
  loco_sim_solve_step l pwr dt on = Ok l' -> CacheInv l -> CacheInv l'.
Proof. exact step_keeps_CacheInv. Qed.

(* the hypothesis cannot be dropped: a generator whose stored map is not what the code would rebuild
   behaves differently once reloaded (the reloaded copy stops with the monotonicity error 301) *)
Theorem C17_cache_hypothesis_needed :
  ~ gen_cache_ok gen_bad_cache /\
  forall p a, gen_set_cur_pwr_max_out (gen_clear gen_bad_cache) p a = Err 301 /\
              gen_set_cur_pwr_max_out gen_bad_cache p a <> Err 301.
Proof. exact cache_hypothesis_needed. Qed.

(* --- resume equivalence: save after any prefix of any trace, load, continue.  With at least one
   further step the outcome (state or error) is IDENTICAL to the uninterrupted run; with none it is
   the uninterrupted run's state with the caches cleared *)
Theorem C17_resume_equiv_exact : forall (l : Loco (F:=R)) pre i post,
  CacheInv l -> resume l pre (i :: post) = run lstep l (pre ++ i :: post).
Proof. exact resume_equiv_exact. Qed.
Theorem C17_resume_equiv : forall (l : Loco (F:=R)) pre post,
  CacheInv l -> res_map loco_normalize (resume l pre post) = res_map loco_normalize (run lstep l (pre ++ post)).
Proof. exact resume_equiv. Qed.

Check C17_roundtrip_selfdesc : forall (t : ty R) (v : val R),
  wf_ty t -> has_tyb t v = true -> dec t (enc t v) = Ok (clear t v).
Check C17_resume_equiv_exact : forall (l : Loco (F:=R)) pre i post,
  CacheInv l -> resume l pre (i :: post) = run lstep l (pre ++ i :: post).

(* the hypotheses are satisfiable on a non-trivial object: a default-state fuel converter is
   well-typed for its schema *)
Example C17_fc_typed : has_tyb sch_fc (fc_to_val (fc_default_state 3000000 25 20000 [0; 1] [0.3; 0.4])) = true.
Proof. apply fc_ty. Qed.

(* --- typed: a CONSIST of the numeric model (Consist.v; proofs/ConsistCodecP.v) reloads as itself with every unit's lazily
   rebuilt maps cleared; doing it again changes nothing; the positional format too when no field was skipped; and the
   reloaded consist is unit by unit what reloading each locomotive on its own returns, with policy, limit flag and state
   untouched.  The embedding [consist_to_val] is tied to the real serializer by kind typed_embed of this check (the
   projection of the real tree equals the record printed from the object's fields). *)
Theorem C17_consist_roundtrip : forall c : Consist (F:=R), consist_decode (consist_encode c) = Ok (consist_normalize c).
Proof. exact consist_roundtrip. Qed.
Theorem C17_consist_second_roundtrip : forall c c1 : Consist (F:=R),
  consist_decode (consist_encode c) = Ok c1 -> consist_decode (consist_encode c1) = Ok c1.
Proof. exact consist_roundtrip_twice. Qed.
Theorem C17_consist_positional_roundtrip : forall c : Consist (F:=R),
  no_skip sch_consist (consist_to_val c) = true -> consist_decode_pos (consist_encode_pos c) = Ok (consist_normalize c).
Proof. exact consist_positional_roundtrip. Qed.
Theorem C17_consist_reload_is_unitwise : forall c c1 : Consist (F:=R),
  consist_decode (consist_encode c) = Ok c1 ->
  Forall2 (fun l l1 => loco_decode (loco_encode l) = Ok l1) (cn_locos c) (cn_locos c1) /\
  cn_pdct c1 = cn_pdct c /\ cn_assert_limits c1 = cn_assert_limits c /\ cn_state c1 = cn_state c.
Proof. exact consist_reload_is_unitwise. Qed.

(* --- "the reloaded CONSIST behaves identically" (CInv = every unit's stored maps are absent or what the code would
   rebuild): one ConsistSimulation step of the reloaded consist IS the step of the original; CInv holds after every
   load and is kept by every accepted step; hence saving after any prefix of any trace, loading and continuing gives
   the uninterrupted run (identical with at least one further step, equal up to the caches with none) *)
Theorem C17_consist_cache_insensitive : forall (c : Consist (F:=R)) pwr dt,
  CInv c -> consist_sim_solve_step (consist_normalize c) pwr dt = consist_sim_solve_step c pwr dt.
Proof. exact consist_step_cache_insensitive. Qed.
Theorem C17_consist_cache_invariant_after_load : forall c : Consist (F:=R), CInv (consist_normalize c).
Proof. exact CInv_normalize. Qed.
Theorem C17_consist_cache_invariant_kept : forall (c c' : Consist (F:=R)) pwr dt,
  consist_sim_solve_step c pwr dt = Ok c' -> CInv c -> CInv c'.
Proof. exact consist_step_keeps_CInv. Qed.
Theorem C17_consist_resume_equiv_exact : forall (c : Consist (F:=R)) pre i post,
  CInv c -> cresume c pre (i :: post) = run C10P.cstep c (pre ++ i :: post).
Proof. exact consist_resume_equiv_exact. Qed.
Theorem C17_consist_resume_equiv : forall (c : Consist (F:=R)) pre post,
  CInv c -> res_map consist_normalize (cresume c pre post) = res_map consist_normalize (run C10P.cstep c (pre ++ post)).
Proof. exact consist_resume_equiv. Qed.
