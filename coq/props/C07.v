(* C07 -- train resistance forces equal their physical definitions at every position.
   This file holds only the pinned statements; the proofs are in proofs/ResistP.v.
   The statements are about the model of the FIXED code (grade_back reports the table value at the
   REAR index, repo_patches/C07-grade-back.diff); on the unchanged tree the check reports the
   rear grade as a violation. *)
From Coq Require Import Reals List Bool ZArith Lra Lia.
From AltModel Require Import Num Resist.
From AltProofs Require Import NumR ResistP.
Import ListNotations.
Open Scope R_scope.

(* ---- LinSearchHint::calc_idx ---- *)
(* forward (Dir::Fwd and Dir::Unk -- Unk searches forward only): strictly sorted table, x beyond the
   first offset, hint not beyond x's segment  ==>  the result is THE i with off_i < x <= off_{i+1} *)
Theorem C07_calc_idx_fwd_correct : forall (tbl : list (PRC (F:=R))) x h dir r,
  dir <> DBwd -> sorted tbl -> off tbl 0 < x ->
  calc_idx tbl x h dir = Ok r -> hint_fwd tbl x h ->
  seg_fwd tbl x r /\ (forall j, seg_fwd tbl x j -> j = r).
Proof. exact calc_idx_fwd_correct. Qed.

(* backward: hint not before x's segment  ==>  THE i with off_i <= x < off_{i+1} *)
Theorem C07_calc_idx_bwd_correct : forall (tbl : list (PRC (F:=R))) x h r,
  sorted tbl -> x < off tbl (S h) -> (S h < length tbl)%nat ->
  calc_idx tbl x h DBwd = Ok r ->
  seg_bwd tbl x r /\ (forall j, seg_bwd tbl x j -> j = r).
Proof. exact calc_idx_bwd_correct. Qed.

(* it answers (no index panic, no error) whenever x is not beyond the table and the hint is in range;
   the forward loop's fuel is never exhausted *)
Theorem C07_calc_idx_fwd_total : forall (tbl : list (PRC (F:=R))) x h dir, dir <> DBwd ->
  (S h < length tbl)%nat -> x <= off tbl (length tbl - 1) -> exists r, calc_idx tbl x h dir = Ok r.
Proof. exact calc_idx_fwd_total. Qed.
Theorem C07_fwd_scan_fuel : forall (tbl : list (PRC (F:=R))) (x : R) fuel h,
  (0 < fuel)%nat -> (length tbl <= fuel + h)%nat -> fwd_scan fuel tbl x h <> Err 1190.
Proof. exact fwd_scan_fuel. Qed.

(* ---- the cumulative function ---- *)
(* evaluating the table at ANY index whose closed segment holds x gives the piecewise-linear
   cumulative function [cum] (defined by position only) *)
Theorem C07_cum_in_seg : forall (tbl : list (PRC (F:=R))) x i p, sorted tbl -> consistent tbl ->
  in_seg tbl x i -> nth_error tbl i = Some p -> prc_val p x = cum tbl x.
Proof. exact cum_in_seg. Qed.

(* ---- path_res::Strap::calc_res: strap_exact + cache invariant, per direction ---- *)
Theorem C07_strap_fwd_exact : forall (tbl : list (PRC (F:=R))) c front len weight c' v,
  sorted tbl -> consistent tbl -> 0 < len ->
  cache_fwd tbl c front (front - len) ->
  strap_calc_res tbl c front (front - len) len weight DFwd = Ok (c', v) ->
  v = (cum tbl front - cum tbl (front - len)) / len * weight /\
  in_seg tbl front (si_front c') /\ in_seg tbl (front - len) (si_back c') /\
  (forall front', front <= front' -> cache_fwd tbl c' front' (front' - len)).
Proof. exact strap_fwd_exact. Qed.

Theorem C07_strap_bwd_exact : forall (tbl : list (PRC (F:=R))) c front len weight c' v,
  sorted tbl -> consistent tbl -> 0 < len ->
  cache_bwd tbl c front (front - len) ->
  strap_calc_res tbl c front (front - len) len weight DBwd = Ok (c', v) ->
  v = (cum tbl front - cum tbl (front - len)) / len * weight /\
  in_seg tbl front (si_front c') /\ in_seg tbl (front - len) (si_back c') /\
  (forall front', front' <= front -> cache_bwd tbl c' front' (front' - len)).
Proof. exact strap_bwd_exact. Qed.

Theorem C07_strap_unk_exact : forall (tbl : list (PRC (F:=R))) c front len weight c' v,
  sorted tbl -> consistent tbl -> 0 < len ->
  cache_fwd tbl c front (front - len) ->
  strap_calc_res tbl c front (front - len) len weight DUnk = Ok (c', v) ->
  v = (cum tbl front - cum tbl (front - len)) / len * weight /\
  in_seg tbl front (si_front c') /\ in_seg tbl (front - len) (si_back c') /\
  (forall front', front' <= front -> cache_bwd tbl c' front' (front' - len)).
Proof. exact strap_unk_exact. Qed.

(* a path extension keeps every cached index valid; the initial cache (0,0) is valid *)
Theorem C07_cache_extends : forall (tbl tbl' : list (PRC (F:=R))) c f b,
  extends tbl tbl' -> cache_fwd tbl c f b -> cache_fwd tbl' c f b.
Proof. exact cache_fwd_extends. Qed.
Theorem C07_cache_zero : forall (tbl : list (PRC (F:=R))) f b,
  (2 <= length tbl)%nat -> cache_fwd tbl {| si_front := O; si_back := O |} f b.
Proof. exact cache_fwd_zero. Qed.

(* ---- method::Strap::update_res: every reported force is its definition ---- *)
(* res_defs: weight = mass_static * g; bearing = per-axle total; rolling = ratio * weight;
   davis_b = coefficient * speed * weight; aero = cd_area * rho * speed^2;
   grade = weight * (cum_grades(front) - cum_grades(rear)) / length  (cum_grades = elevation);
   curve = weight * (cum_curves(front) - cum_curves(rear)) / length;
   elev_front = cum_grades(front); offset_back = front - length *)
Theorem C07_update_res_fwd_exact : forall grades curves rp (st : TState (F:=R)) c st1 c1,
  tables_ok grades curves -> 0 < p_length (ts_p st) ->
  caches_fwd grades curves c (k_offset (ts_k st)) (k_offset (ts_k st) - p_length (ts_p st)) ->
  strap_update_res grades curves rp st c DFwd = Ok (st1, c1) ->
  res_defs grades curves rp st st1 /\
  (exists i p, in_seg grades (k_offset (ts_k st)) i /\ nth_error grades i = Some p /\
               r_grade_front (ts_r st1) = prc_coeff p) /\
  (exists j q, in_seg grades (k_offset (ts_k st) - p_length (ts_p st)) j /\
               nth_error grades j = Some q /\ r_grade_back (ts_r st1) = prc_coeff q) /\
  (forall front', k_offset (ts_k st) <= front' ->
     caches_fwd grades curves c1 front' (front' - p_length (ts_p st))).
Proof. exact update_res_fwd_exact. Qed.

Theorem C07_update_res_bwd_exact : forall grades curves rp (st : TState (F:=R)) c st1 c1,
  tables_ok grades curves -> 0 < p_length (ts_p st) ->
  caches_bwd grades curves c (k_offset (ts_k st)) (k_offset (ts_k st) - p_length (ts_p st)) ->
  strap_update_res grades curves rp st c DBwd = Ok (st1, c1) ->
  res_defs grades curves rp st st1 /\
  (forall front', front' <= k_offset (ts_k st) ->
     caches_bwd grades curves c1 front' (front' - p_length (ts_p st))).
Proof. exact update_res_bwd_exact. Qed.

Theorem C07_update_res_unk_exact : forall grades curves rp (st : TState (F:=R)) c st1 c1,
  tables_ok grades curves -> 0 < p_length (ts_p st) ->
  caches_fwd grades curves c (k_offset (ts_k st)) (k_offset (ts_k st) - p_length (ts_p st)) ->
  strap_update_res grades curves rp st c DUnk = Ok (st1, c1) ->
  res_defs grades curves rp st st1 /\
  (forall front', front' <= k_offset (ts_k st) ->
     caches_bwd grades curves c1 front' (front' - p_length (ts_p st))).
Proof. exact update_res_unk_exact. Qed.

(* ---- cache invariant along runs ---- *)
(* forward: any non-decreasing sequence of front positions, tables only ever extended between
   evaluations: every accepted evaluation reports the definitions and leaves a valid cache *)
Theorem C07_cache_inv_fwd_run : forall rp ins g0 c0 x0 (sc sc' : TState (F:=R) * ResCache),
  0 < p_length (ts_p (fst sc)) ->
  caches_fwd g0 c0 (snd sc) x0 (x0 - p_length (ts_p (fst sc))) ->
  admissible g0 c0 x0 ins ->
  run (rstep rp) sc ins = Ok sc' ->
  forall pre inp post, ins = pre ++ inp :: post ->
    exists m m', run (rstep rp) sc pre = Ok m /\ rstep rp m inp = Ok m' /\
      let '(g, cv, front, speed) := inp in
      res_defs g cv rp (place (fst m) front speed) (fst m') /\
      caches_fwd g cv (snd m') front (front - p_length (ts_p (fst sc))).
Proof. exact cache_inv_fwd_run. Qed.

(* backward (braking-curve construction): any non-increasing sequence *)
Theorem C07_cache_inv_bwd_run : forall rp g cv ins x0 (sc sc' : TState (F:=R) * ResCache),
  tables_ok g cv -> 0 < p_length (ts_p (fst sc)) ->
  caches_bwd g cv (snd sc) x0 (x0 - p_length (ts_p (fst sc))) ->
  nonincreasing x0 ins ->
  run (bstep rp g cv) sc ins = Ok sc' ->
  forall pre inp post, ins = pre ++ inp :: post ->
    exists m m', run (bstep rp g cv) sc pre = Ok m /\ bstep rp g cv m inp = Ok m' /\
      res_defs g cv rp (place (fst m) (fst inp) (snd inp)) (fst m') /\
      caches_bwd g cv (snd m') (fst inp) (fst inp - p_length (ts_p (fst sc))).
Proof. exact cache_inv_bwd_run. Qed.

(* ---- constants and aggregation ---- *)
Theorem C07_acc_grav : acc_grav (F:=R) = 980154849496314 / 100000000000000.
Proof. exact acc_grav_val. Qed.
Theorem C07_rho_air : rho_air (F:=R) = 1225 / 1000.
Proof. exact rho_air_val. Qed.

(* make_train_sim_parts: static mass = cars + locomotives, per-car sums, mass-weighted means *)
Theorem C07_aggregate_defs : forall (cars : list (Car (F:=R))) total loco_mass,
  let t := aggregate cars total loco_mass in
  let towed := sumR (map (fun c => (car_mass_base c + car_mass_freight c) * car_n c) cars) in
  tp_mass_static t = towed + loco_mass /\
  tp_length t = sumR (map (fun c => car_length c * car_n c) cars) /\
  tp_mass_rot t = sumR (map (fun c => car_mass_rot_per_axle c * car_n c * car_axles c) cars) /\
  tp_mass_freight t = sumR (map (fun c => car_mass_freight c * car_n c) cars) /\
  rp_bearing (tp_rp t) = sumR (map (fun c => car_bearing_per_axle c * car_axles c * car_n c) cars) /\
  rp_cd_area (tp_rp t) = sumR (map (fun c => car_cd_area c * car_n c) cars) /\
  (towed <> 0 ->
   rp_rolling (tp_rp t) * towed =
     sumR (map (fun c => car_rolling_ratio c * ((car_mass_base c + car_mass_freight c) * car_n c)) cars) /\
   rp_davis_b (tp_rp t) * towed =
     sumR (map (fun c => car_davis_b c * ((car_mass_base c + car_mass_freight c) * car_n c)) cars)).
Proof. exact aggregate_defs. Qed.

(* the same with TrainConfig.train_mass given (the override REPLACES the summed mass of the cars; the locomotives' mass is
   still added: weight = g * (override + locomotives); the weighted means are taken over the override) *)
Theorem C07_aggregate_override_defs : forall ov (cars : list (Car (F:=R))) total loco_mass,
  let t := aggregate_ov ov cars total loco_mass in
  let towed := match ov with Some m => m | None => sumR (map (fun c => (car_mass_base c + car_mass_freight c) * car_n c) cars) end in
  tp_mass_static t = towed + loco_mass /\
  tp_length t = sumR (map (fun c => car_length c * car_n c) cars) /\
  tp_mass_rot t = sumR (map (fun c => car_mass_rot_per_axle c * car_n c * car_axles c) cars) /\
  tp_mass_freight t = sumR (map (fun c => car_mass_freight c * car_n c) cars) /\
  rp_bearing (tp_rp t) = sumR (map (fun c => car_bearing_per_axle c * car_axles c * car_n c) cars) /\
  rp_cd_area (tp_rp t) = sumR (map (fun c => car_cd_area c * car_n c) cars) /\
  (towed <> 0 ->
   rp_rolling (tp_rp t) * towed =
     sumR (map (fun c => car_rolling_ratio c * ((car_mass_base c + car_mass_freight c) * car_n c)) cars) /\
   rp_davis_b (tp_rp t) * towed =
     sumR (map (fun c => car_davis_b c * ((car_mass_base c + car_mass_freight c) * car_n c)) cars)).
Proof. exact aggregate_ov_defs. Qed.

(* the hypotheses are satisfiable: a sorted, consistent three-entry table *)
Example C07_tables_ok_example :
  let t := [ {| prc_offset := 0; prc_coeff := 1/100; prc_net := 10 |};
             {| prc_offset := 100; prc_coeff := -1/50; prc_net := 11 |};
             {| prc_offset := 300; prc_coeff := 0; prc_net := 7 |} ] in
  sorted t /\ consistent t.
Proof.
  cbv zeta. split.
  - intros i j Hij Hj. cbn in Hj.
    assert (Hc : ((i = 0 /\ j = 1) \/ (i = 0 /\ j = 2) \/ (i = 1 /\ j = 2))%nat) by lia.
    destruct Hc as [[-> ->]|[[-> ->]|[-> ->]]]; unfold off, offs; cbn; lra.
  - intros i p q Hp Hq. destruct i as [|[|[|i]]]; cbn in Hp, Hq; try discriminate;
      inversion Hp; inversion Hq; subst; cbn; lra.
Qed.
