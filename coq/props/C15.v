(* C15 -- estimated-time network well-formed, route-faithful, time-consistent.
   PARTIAL: what is proved for all inputs is the soundness of the checker [est_ok] (for every
   network, every node list, every certificate, every walk of any length) and the order algebra of
   the two BinaryHeap keys.  That the network built by make_est_times passes the checker is
   validated per run (bin/check C15 evaluates est_ok inside Coq on every network the real code
   returns).  Only pinned statements here; proofs in proofs/{TrackNetP,EstNetP,EstTimeP,OrdP}.v. *)
From Coq Require Import Reals List Bool Arith ZArith Floats Uint63.
From AltModel Require Import Num TrackNet EstNet EstUpdate.
From AltProofs Require Import TrackNetP EstNetP EstTimeP OrdP EstUpdateP EstUpdateWitness EstQueueP.
Import ListNotations.
Open Scope nat_scope.

(* Soundness of the checker, for every numeric carrier F (hence for the binary64 instance that is
   executed): if all conjuncts pass, then for EVERY walk from node 0 along idx_next/idx_next_alt:
   the walk is shorter than the node count, can be continued unless it stands at the end node,
   the links entered form a contiguous route in the network starting on an origin, the tail clears
   exactly the entered links in order, and at the end node the last entered link is a destination;
   and every node's prev/next links are mutually consistent. *)
Theorem C15_checker_sound_every_walk :
  forall (F : Type) (NO : NumOps F) net origs dests (nodes : list (enode (F:=F))) cert,
  est_ok net origs dests nodes cert = true -> EstStructSpec net origs dests nodes.
Proof. intros F NO. exact (@est_ok_sound F NO). Qed.

(* every walk from the start node reaches the end node *)
Theorem C15_every_walk_reaches_end :
  forall (F : Type) net origs dests (nodes : list (enode (F:=F))),
  EstStructSpec net origs dests nodes ->
  forall w, walk nodes 0 w -> exists w', walk nodes 0 (w ++ w') /\ last (w ++ w') 0 = last_node nodes.
Proof. intros F. exact (@spec_reaches_end F). Qed.

(* time rules, read at the real numbers *)
Theorem C15_times_sound : forall net origs dests (nodes : list (enode (F:=R))) cert,
  est_ok net origs dests nodes cert = true -> EstTimeSpec nodes.
Proof. exact est_ok_time_sound. Qed.

(* last - first scheduled time = sum of the durations along the primary chain (up to the summed tolerance) *)
Theorem C15_trip_time_telescopes : forall (nodes : list (enode (F:=R))),
  EstTimeSpec nodes -> forall w p, pchain nodes p w ->
  (Rabs (tsn nodes (last w p) - (tsn nodes p + durs nodes p w)) <= tols nodes p w)%R.
Proof. exact primary_chain_time. Qed.

(* the two Ord instances of update_times.rs are total orders on real times and never panic *)
Theorem C15_heap_order_next_total : TotalCmp (cmp_est_next (F:=R)).
Proof. exact cmp_est_next_total. Qed.
Theorem C15_heap_order_prev_total : TotalCmp (cmp_est_prev (F:=R)).
Proof. exact cmp_est_prev_total. Qed.

Check C15_checker_sound_every_walk :
  forall (F : Type) (NO : NumOps F) net origs dests (nodes : list (enode (F:=F))) cert,
  est_ok net origs dests nodes cert = true -> EstStructSpec net origs dests nodes.
Check @es_route : forall F net origs dests (nodes : list (enode (F:=F))),
  EstStructSpec net origs dests nodes -> forall w, walk nodes 0 w -> RouteOK net origs dests nodes w.

(* the hypothesis is satisfiable: a two-link route (binary64 instance, evaluated by the kernel) *)
Example C15_example_passes :
  let f := fun k : nat => PrimFloat.of_uint63 (Uint63.of_Z (Z.of_nat k)) in
  est_ok (F:=float)
    [mkL 0 0 0 0 0 []; mkL 2 0 0 0 4 []; mkL 0 0 1 0 3 []; mkL 4 0 0 0 2 []; mkL 0 0 3 0 1 []] [1] [2]
    [mkN (f 0) (f 0) (f 0) 1 0 0 0 0 2; mkN (f 0) (f 0) (f 0) 2 0 0 0 0 2; mkN (f 0) (f 0) (f 100) 3 0 1 0 1 0;
     mkN (f 0) (f 50) (f 900) 4 0 2 0 1 1; mkN (f 50) (f 10) (f 100) 5 0 3 0 2 0; mkN (f 60) (f 0) (f 0) 6 0 4 0 2 1;
     mkN (f 60) (f 0) (f 0) 7 0 5 0 0 2; mkN (f 60) (f 0) (f 0) 0 0 6 0 0 2]
    [mkC 0 false 0 []; mkC 1 false 0 []; mkC 2 false 1 [1]; mkC 3 false 1 []; mkC 4 false 2 [2];
     mkC 5 false 2 []; mkC 6 true 0 []; mkC 7 true 0 []] = true.
Proof. vm_compute. reflexivity. Qed.

(* ---- the two shortest-path passes of make_est_times (update_times_forward / update_times_backward), modelled as
   executable functions (coq/model/EstUpdate.v: priority queues, re-linking of join and split nodes, time shifts)
   and tied to the code bit-exactly on the node array make_est_times hands them (hook H3, kind update_times).
   Whatever they re-link and re-time - for every input array, every departure time, every float type - the number of
   nodes is unchanged and every node still stands for the same track event (link, event type) with the same
   alternate links: the passes only choose which of the existing edges is the primary one and when. ---- *)
Theorem C15_update_passes_keep_events :
  forall (F : Type) (NO : NumOps F) fuel (ns : list (enode (F:=F))) set t0 ns',
  update_times fuel ns set t0 = Ok ns' ->
  length ns' = length ns /\
  forall i a a', nth_error ns i = Some a -> nth_error ns' i = Some a' ->
    n_link a' = n_link a /\ n_ty a' = n_ty a /\ n_nexta a' = n_nexta a /\ n_preva a' = n_preva a.
Proof. intros F NO. exact (@update_times_frame F NO). Qed.

(* known finding C15/1 at the level of the model of the passes: innocent inputs (departure time 0, non-negative
   durations; the 14-node array of a line with one siding exactly as make_est_times hands it over), accepted by both
   passes, and a negative scheduled time in the result - the clause "all scheduled times non-negative" is FALSE of the
   faithful model, as it is of the code (the real passes give bit-identical output on this array) *)
Theorem C15_sched_nonneg_refuted :
  EstUpdateWitness.all_input_times_nonneg = true /\
  exists ns', update_times 66 EstUpdateWitness.w_nodes EstUpdateWitness.w_set EstUpdateWitness.w_t0 = Ok ns' /\
              EstUpdateWitness.some_negative ns' = true.
Proof. split; [exact EstUpdateWitness.witness_input_ok|exact EstUpdateWitness.update_times_negative_sched_witness]. Qed.

(* known finding C15/2 at the level of the model of the passes: innocent inputs (a start node with two origin branches, the
   alternate one faster; departure at 600 s), accepted by both passes, and the alternate node stays scheduled later than
   its split node by far more than rounding - the clause "no node is scheduled later than any predecessor allows" is
   FALSE of the faithful model, as it is of the code (bit-identical output of the real passes on this array) *)
Theorem C15_no_later_than_predecessor_refuted :
  EstUpdateWitness.w2_inputs_innocent = true /\
  exists ns', update_times 78 EstUpdateWitness.w2_nodes EstUpdateWitness.w2_set EstUpdateWitness.w2_t0 = Ok ns' /\
              EstUpdateWitness.alt_later_than_split ns' = true.
Proof. split; [exact EstUpdateWitness.witness2_input_ok|exact EstUpdateWitness.update_times_alt_later_witness]. Qed.

(* the priority queues of the model are max-heap pops under the code's own orderings (total orders over R, OrdP.v):
   the element removed is a maximum and nothing else is lost *)
Theorem C15_queues_are_heap_pops :
  (forall (x0 : R * nat) rest x q, pop_max cmp_est_next x0 rest [] = Ok (x, q) ->
     Permutation.Permutation (x :: q) (x0 :: rest) /\ forall y, In y (x0 :: rest) -> EstQueueP.le_c cmp_est_next y x) /\
  (forall (x0 : R * R * nat) rest x q, pop_max cmp_est_prev x0 rest [] = Ok (x, q) ->
     Permutation.Permutation (x :: q) (x0 :: rest) /\ forall y, In y (x0 :: rest) -> EstQueueP.le_c cmp_est_prev y x).
Proof. split; [exact EstQueueP.est_next_queue_pop|exact EstQueueP.est_prev_queue_pop]. Qed.
