(* C20 -- mass and traction-limit parameters stay mutually consistent under every update.
   This file holds only the pinned statements; the proofs are in proofs/MassP.v.

   Model: model/MassParams.v.  A setter returns the object AS THE CALL LEAVES IT and Ok/Err
   ([setter A = A * res unit]), so partially updated objects after an Err are visible.
   Statements about the SHAPE of the code hold for every number carrier F (binary64 included);
   statements that the value resolved by a side effect reproduces the request exactly are over R. *)
From Coq Require Import Reals List Bool ZArith.
From AltModel Require Import Num MassParams.
From AltProofs Require Import NumR MassP.
Import ListNotations.

(* ---- components (FuelConverter, Generator, ReversibleEnergyStorage) ---- *)
(* reported mass = derived mass (within almost_eq) whenever both are known *)
Theorem C20_component_getter_consistent : forall (F : Type) (NO : NumOps F) (c : Comp (F:=F)) m d,
  comp_mass c = Ok (Some m) -> comp_derived c = Some d -> almost_eq m d = true.
Proof. intros. eapply comp_getter_consistent; eauto. Qed.

(* set_mass never fails on a component and installs the requested mass; each option does
   exactly what it says *)
Theorem C20_component_set_mass_accepts : forall (F : Type) (NO : NumOps F) (c : Comp (F:=F)) new se,
  snd (comp_set_mass c new se) = Ok tt /\ cm_mass (fst (comp_set_mass c new se)) = new.
Proof. intros. apply comp_set_mass_accepts. Qed.
Theorem C20_component_side_effects : forall (F : Type) (NO : NumOps F) (c : Comp (F:=F)) m d sp,
  comp_derived c = Some d -> neqb d m = false -> cm_spec c = Some sp ->
  comp_set_mass c (Some m) MS_Extensive = ({| cm_mass := Some m; cm_spec := Some sp; cm_ext := nmul sp m |}, Ok tt) /\
  comp_set_mass c (Some m) MS_Intensive = ({| cm_mass := Some m; cm_spec := Some (ndiv (cm_ext c) m); cm_ext := cm_ext c |}, Ok tt) /\
  comp_set_mass c (Some m) MS_None = ({| cm_mass := Some m; cm_spec := None; cm_ext := cm_ext c |}, Ok tt).
Proof. intros F NO c m d sp H1 H2 H3. split; [|split].
  - eapply comp_set_mass_extensive; eauto.
  - eapply comp_set_mass_intensive; eauto.
  - eapply comp_set_mass_none; eauto. Qed.
Theorem C20_component_no_side_effect_needed : forall (F : Type) (NO : NumOps F) (c : Comp (F:=F)) m se,
  (comp_derived c = None \/ exists d, comp_derived c = Some d /\ neqb d m = true) ->
  comp_set_mass c (Some m) se = ({| cm_mass := Some m; cm_spec := cm_spec c; cm_ext := cm_ext c |}, Ok tt).
Proof. intros F NO c m se [H|(d & H & E)]; [apply comp_set_mass_underived|eapply comp_set_mass_same]; eauto. Qed.
Theorem C20_component_unset : forall (F : Type) (NO : NumOps F) (c : Comp (F:=F)) se,
  comp_set_mass c None se = ({| cm_mass := None; cm_spec := None; cm_ext := cm_ext c |}, Ok tt).
Proof. intros. apply comp_set_mass_to_none. Qed.

(* over R: after an accepted set_mass the getter returns exactly the requested mass (the resolved
   power / energy / specific value reproduces it), for every side-effect option *)
Theorem C20_component_mass_after_set : forall (c : Comp (F:=R)) m se,
  m <> 0%R -> cm_ext c <> 0%R -> (forall sp, cm_spec c = Some sp -> sp <> 0%R) ->
  comp_mass (fst (comp_set_mass c (Some m) se)) = Ok (Some m).
Proof. exact comp_mass_after_set. Qed.

(* ---- locomotive getters ---- *)
Theorem C20_loco_mass_consistent : forall (F : Type) (NO : NumOps F) (l : LocoM (F:=F)) m d,
  loco_mass l = Ok (Some m) -> loco_derived l = Ok (Some d) -> forall m', lm_mass l = Some m' ->
  m = m' /\ almost_eq m' d = true.
Proof. intros. eapply loco_mass_consistent; eauto. Qed.
Theorem C20_loco_force_consistent : forall (F : Type) (NO : NumOps F) (l : LocoM (F:=F)) f,
  loco_force_max l = Ok f -> f = lm_force l /\
  forall mu m, lm_mu l = Some mu -> lm_mass l = Some m -> almost_eq f (nmul (nmul mu m) grav) = true.
Proof. intros. apply loco_force_consistent; auto. Qed.

(* ---- locomotive setters: what each option does ---- *)
Theorem C20_set_force_max_options : forall (F : Type) (NO : NumOps F) (l : LocoM (F:=F)) f,
  loco_set_force_max l f FS_SetMuToNone = (with_mu (with_force l f) None, Ok tt) /\
  loco_set_force_max l f FS_SetMassToNone = (with_mass (with_force l f) None, Ok tt) /\
  loco_set_force_max l f FS_SetMassAndMuToNone = (with_mass (with_mu (with_force l f) None) None, Ok tt) /\
  loco_set_force_max l f FS_UpdateMu =
    (with_mu (with_force l f) (match lm_mass l with Some m => Some (ndiv f (nmul m grav)) | None => None end), Ok tt).
Proof. intros. repeat split. Qed.
Theorem C20_set_mu_options : forall (F : Type) (NO : NumOps F) (l : LocoM (F:=F)) u,
  loco_set_mu l u US_SetMassToNone = (with_mass (with_mu l (Some u)) None, Ok tt) /\
  (forall l', loco_set_mu l u US_ForceMax = (l', Ok tt) ->
     exists m, loco_mass (with_mu l (Some u)) = Ok (Some m) /\ l' = with_force (with_mu l (Some u)) (nmul (nmul u grav) m)).
Proof. intros. split; [reflexivity|]. intros; eapply set_mu_force_max; eauto. Qed.
Theorem C20_set_mass_accepted : forall (F : Type) (NO : NumOps F) (l : LocoM (F:=F)) new se l',
  loco_set_mass l new se = (l', Ok tt) ->
  se = MS_None /\
  exists l2 mu m, loco_mu l2 = Ok (Some mu) /\ loco_mass l2 = Ok (Some m) /\
    l' = with_force l2 (nmul (nmul mu m) grav) /\
    (forall nm, new = Some nm -> lm_mass l2 = Some nm) /\ lm_mu l2 = lm_mu l.
Proof. intros. eapply loco_set_mass_accepted; eauto. Qed.
Theorem C20_set_mass_other_side_effect_rejected : forall (F : Type) (NO : NumOps F) (l : LocoM (F:=F)) new se,
  se <> MS_None -> loco_set_mass l new se = (l, Err 2030%Z).
Proof. intros. apply loco_set_mass_other_side_effect_rejected; auto. Qed.

(* over R: after ANY sequence of setter calls (accepted or rejected), an accepted call leaves
   force_max = mu * mass * g whenever both are known, and force_max() succeeds.  Side condition
   only for UpdateMu, which divides by the mass. *)
Theorem C20_force_consistent_after_any_sequence : forall (l : LocoM (F:=R)) cs c l',
  let s := loco_calls l cs in
  call_ok s c -> loco_call s c = (l', Ok tt) ->
  loco_check_force l' = Ok tt /\ (forall f, loco_force_max l' = Ok f -> f = lm_force l') /\
  exists f, loco_force_max l' = Ok f.
Proof. exact force_consistent_after_any_sequence. Qed.
Theorem C20_update_mu_exact : forall (l : LocoM (F:=R)) f m,
  lm_mass l = Some m -> m <> 0%R ->
  let l' := fst (loco_set_force_max l f FS_UpdateMu) in
  exists mu, lm_mu l' = Some mu /\ (mu * m * grav)%R = f /\ lm_force l' = f /\ lm_mass l' = Some m.
Proof. exact set_force_update_mu_exact. Qed.
Theorem C20_set_mu_mass_exact : forall (l : LocoM (F:=R)) u l',
  u <> 0%R -> loco_set_mu l u US_Mass = (l', Ok tt) ->
  lm_mu l' = Some u /\ lm_mass l' = Some (lm_force l / (u * grav))%R /\ lm_force l' = lm_force l.
Proof. exact set_mu_mass_exact. Qed.

(* ---- recorded: rejected calls that leave a partially updated object behind ---- *)
Theorem C20_set_mass_partial_update :
  exists e, loco_set_mass bel_blank (Some 7%R) MS_None = (with_mass bel_blank (Some 7%R), Err e) /\
            with_mass bel_blank (Some 7%R) <> bel_blank.
Proof. exact set_mass_partial_update. Qed.
Theorem C20_set_force_max_partial_update :
  exists e, loco_set_force_max bel_blank 9%R FS_Mass = (with_force bel_blank 9%R, Err e) /\
            with_force bel_blank 9%R <> bel_blank.
Proof. exact set_force_max_partial_update. Qed.
Theorem C20_set_mu_partial_update :
  exists e, loco_set_mu bel_blank 3%R US_ForceMax = (with_mu bel_blank (Some 3%R), Err e) /\
            with_mu bel_blank (Some 3%R) <> bel_blank.
Proof. exact set_mu_partial_update. Qed.
(* recorded: with mu and mass known, set_mass to a mass that does not already match the stored
   force is never accepted (the checking getter mu() is consulted before force_max is updated) *)
Theorem C20_set_mass_rejects_every_real_change : forall (mu m f nm : R),
  almost_eq f (mu * nm * grav)%R = false ->
  let l := {| lm_pt := PTBel {| cm_mass := None; cm_spec := None; cm_ext := 1%R |};
              lm_mass := Some m; lm_mu := Some mu; lm_ballast := None; lm_baseline := None; lm_force := f |} in
  loco_set_mass l (Some nm) MS_None = (with_mass l (Some nm), Err 2021%Z).
Proof. exact set_mass_rejects_every_real_change. Qed.

(* ---- consist and train ---- *)
Theorem C20_consist_mass_sum : forall (F : Type) (NO : NumOps F) (ls : list (LocoM (F:=F))) ms,
  ls <> [] -> Forall2 (fun l m => loco_mass l = Ok (Some m)) ls ms ->
  consist_mass ls = Ok (Some (fold_left (fun acc m => nadd m acc) ms n0)).
Proof. intros. apply consist_mass_sum; auto. Qed.
Theorem C20_consist_mass_none : forall (F : Type) (NO : NumOps F) (ls : list (LocoM (F:=F))),
  ls <> [] -> Forall (fun l => loco_mass l = Ok None) ls -> consist_mass ls = Ok None.
Proof. intros. apply consist_mass_none; auto. Qed.
Theorem C20_consist_force_sum : forall (F : Type) (NO : NumOps F) (ls : list (LocoM (F:=F))) fs,
  Forall2 (fun l f => loco_force_max l = Ok f) ls fs ->
  consist_force_max ls = Ok (fold_left (fun acc f => nadd f acc) fs n0).
Proof. intros. apply consist_force_sum; auto. Qed.
Theorem C20_sums_are_sums : forall l : list R, fold_left (fun acc x => nadd x acc) l 0%R = fold_right Rplus 0%R l.
Proof. exact fold_sum. Qed.
Theorem C20_train_mass_static : forall (F : Type) (NO : NumOps F) override cars consist,
  train_mass_static (F:=F) override cars consist =
  nadd (match override with Some m => m | None => cars_mass cars end)
       (match consist with Some m => m | None => n0 end).
Proof. intros. reflexivity. Qed.

(* ---- the hypotheses are satisfiable ---- *)
Example C20_example_component :
  let c := {| cm_mass := Some 10%R; cm_spec := Some 4%R; cm_ext := 40%R |} in
  comp_mass c = Ok (Some 10%R) /\
  fst (comp_set_mass c (Some 20%R) MS_Extensive) = {| cm_mass := Some 20%R; cm_spec := Some 4%R; cm_ext := (4 * 20)%R |}.
Proof. exact example_component. Qed.

Check C20_force_consistent_after_any_sequence : forall (l : LocoM (F:=R)) cs c l',
  let s := loco_calls l cs in
  call_ok s c -> loco_call s c = (l', Ok tt) ->
  loco_check_force l' = Ok tt /\ (forall f, loco_force_max l' = Ok f -> f = lm_force l') /\
  exists f, loco_force_max l' = Ok f.
