(* C19 -- histories and step counters stay aligned through the whole object tree.
   This file holds only the pinned statements; the proofs are in proofs/HistP.v.

   Vocabulary (model/Hist.v, proofs/HistP.v):
     node              (counter i, save interval, list of the counter values at which a state was pushed)
     *_nodes s         every node of the object tree of s (train, friction brake, consist, each
                       locomotive, each powertrain component)
     all_are x l       every element of l equals x
     cmd               CSave (the initial save of walk) | CStep ok (step(), ok = solve_step accepted)
                       | CSetSI si (set_save_interval)
     calls f s cs      the object and the return value after the calls cs (stops at the first Err/panic)
     abs_cmd           the same calls on ONE (counter, interval, history) triple
     okint si          si <> Some 0;   cmd_ok c: c does not install the interval 0 *)
From Coq Require Import List Bool Arith ZArith.
From AltModel Require Import Num Hist.
From AltProofs Require Import HistP.
Import ListNotations.

(* ---- the invariant: for every tree shape (any consist composition), every interval, every
   sequence of calls (including rejected steps and interval changes), an aligned object stays
   aligned and its counters/histories are those of the one-node abstraction. *)
Theorem C19_locomotive_sim_aligned : forall a s cs,
  okint (abs_si a) -> Forall cmd_ok cs -> lsim_aligned a s ->
  let r := calls abs_cmd a cs in let r' := calls lsim_cmd s cs in
  lsim_aligned (fst r) (fst r') /\ lsim_shape (fst r') = lsim_shape s /\ snd r' = snd r.
Proof. exact lsim_calls_aligned. Qed.

Theorem C19_consist_sim_aligned : forall a s cs,
  okint (abs_si a) -> Forall cmd_ok cs -> csim_aligned a s ->
  let r := calls abs_cmd a cs in let r' := calls csim_cmd s cs in
  csim_aligned (fst r) (fst r') /\ csim_shape (fst r') = csim_shape s /\ snd r' = snd r.
Proof. exact csim_calls_aligned. Qed.

Theorem C19_set_speed_sim_aligned : forall a s cs,
  okint (abs_si a) -> Forall cmd_ok cs -> ssim_aligned a s ->
  let r := calls abs_cmd a cs in let r' := calls ssim_cmd s cs in
  ssim_aligned (fst r) (fst r') /\ ssim_shape (fst r') = ssim_shape s /\ snd r' = snd r.
Proof. exact ssim_calls_aligned. Qed.

Theorem C19_speed_limit_sim_aligned : forall a s cs,
  okint (abs_si a) -> Forall cmd_ok cs -> tsim_aligned a s ->
  let r := calls abs_cmd a cs in let r' := calls tsim_cmd s cs in
  tsim_aligned (fst r) (fst r') /\ tsim_shape (fst r') = tsim_shape s /\ snd r' = snd r.
Proof. exact tsim_calls_aligned. Qed.

(* ---- what the one node does: k accepted steps from counter i record exactly the multiples of
   the interval among i .. i+k-1, in order; a rejected step stops the run with Err *)
Theorem C19_one_node_steps : forall i si h oks,
  calls abs_cmd (i, si, h) (map CStep oks) =
  ((i + nlead oks, si, h ++ filter (fires si) (seq i (nlead oks))),
   if all_ok oks then None else Some (Err 1901)).
Proof. exact abs_steps. Qed.

(* ---- walk()/walk_timed_path() of a freshly built simulation (all counters 1, histories empty),
   any interval >= 1 or None, any composition, any run length, runs cut short by an error
   included: every node ends as [walked si k] where k = number of executed steps, i.e. counter
   1 + k and history = the members of [1; 1; 2; ..; k] divisible by the interval; every history
   has expected_len si k entries. *)
Theorem C19_locomotive_walk : forall si k oks, okint si ->
  let r := calls lsim_cmd (fresh_lsim si k) (walk_cmds oks) in
  ls_i (fst r) = 1 + nlead oks /\ all_are (walked si (nlead oks)) (lsim_nodes (fst r)) /\
  Forall (fun x => length (nd_hist x) = expected_len si (nlead oks)) (lsim_nodes (fst r)) /\
  snd r = walk_ret oks.
Proof. exact lsim_walk_fresh. Qed.

Theorem C19_consist_walk : forall si shape oks, okint si ->
  let r := calls csim_cmd (fresh_csim si shape) (walk_cmds oks) in
  cs_i (fst r) = 1 + nlead oks /\ all_are (walked si (nlead oks)) (csim_nodes (fst r)) /\
  Forall (fun x => length (nd_hist x) = expected_len si (nlead oks)) (csim_nodes (fst r)) /\
  snd r = walk_ret oks /\ csim_shape (fst r) = shape.
Proof. exact csim_walk_fresh. Qed.

Theorem C19_set_speed_walk : forall si shape oks, okint si ->
  let r := calls ssim_cmd (fresh_ssim si shape) (walk_cmds oks) in
  all_are (walked si (nlead oks)) (ssim_nodes (fst r)) /\
  Forall (fun x => length (nd_hist x) = expected_len si (nlead oks)) (ssim_nodes (fst r)) /\
  snd r = walk_ret oks /\ ssim_shape (fst r) = shape.
Proof. exact ssim_walk_fresh. Qed.

Theorem C19_speed_limit_walk : forall si shape oks, okint si ->
  let r := calls tsim_cmd (fresh_tsim si shape) (walk_cmds oks) in
  all_are (walked si (nlead oks)) (tsim_nodes (fst r)) /\
  Forall (fun x => length (nd_hist x) = expected_len si (nlead oks)) (tsim_nodes (fst r)) /\
  snd r = walk_ret oks /\ tsim_shape (fst r) = shape.
Proof. exact tsim_walk_fresh. Qed.

(* ---- the count: (initial state iff the interval is 1) + floor(k / n); nothing when disabled *)
Theorem C19_history_count : forall si k, okint si ->
  length (filter (fires si) (1 :: seq 1 k)) = expected_len si k.
Proof. exact walk_len. Qed.
Theorem C19_count_multiples : forall n k, n <> 0 ->
  length (filter (fun j => Nat.eqb (j mod n) 0) (seq 1 k)) = k / n.
Proof. exact count_multiples. Qed.
Theorem C19_none_empty : forall k, nd_hist (walked None k) = [].
Proof. exact none_walk_empty. Qed.

(* ---- set_save_interval reaches every node of ANY tree and changes nothing else *)
Theorem C19_interval_propagates_locomotive_sim : forall si s,
  let s' := fst (lsim_cmd s (CSetSI si)) in
  si_all si (lsim_nodes s') /\ same_counts (lsim_nodes s) (lsim_nodes s') /\ ls_i s' = ls_i s.
Proof. exact lsim_interval_propagates. Qed.
Theorem C19_interval_propagates_consist_sim : forall si s,
  let s' := fst (csim_cmd s (CSetSI si)) in
  si_all si (csim_nodes s') /\ same_counts (csim_nodes s) (csim_nodes s') /\ cs_i s' = cs_i s.
Proof. exact csim_interval_propagates. Qed.
Theorem C19_interval_propagates_set_speed : forall si s,
  let s' := fst (ssim_cmd s (CSetSI si)) in
  si_all si (ssim_nodes s') /\ same_counts (ssim_nodes s) (ssim_nodes s').
Proof. exact ssim_interval_propagates. Qed.
Theorem C19_interval_propagates_speed_limit : forall si s,
  let s' := fst (tsim_cmd s (CSetSI si)) in
  si_all si (tsim_nodes s') /\ same_counts (tsim_nodes s) (tsim_nodes s').
Proof. exact tsim_interval_propagates. Qed.

(* ---- a rejected step returns Err and leaves counters, intervals and histories untouched *)
Theorem C19_rejected_step_untouched :
  (forall s, lsim_cmd s (CStep false) = (s, Some (Err 1901))) /\
  (forall s, csim_cmd s (CStep false) = (s, Some (Err 1901))) /\
  (forall s, ssim_cmd s (CStep false) = (s, Some (Err 1901))) /\
  (forall s, tsim_cmd s (CStep false) = (s, Some (Err 1901))).
Proof. exact rejected_step_untouched. Qed.

(* ---- recorded: an interval of 0 is a remainder by zero (Rust panic) at the first save *)
Theorem C19_interval_zero_panics :
  (forall i h k b, b = CSave \/ b = CStep true -> snd (lsim_cmd (al_lsim i (Some 0) h k) b) = Some (Panic 1900)) /\
  (forall i h sh b, b = CSave \/ b = CStep true -> snd (csim_cmd (al_csim i (Some 0) h sh) b) = Some (Panic 1900)) /\
  (forall i h sh b, b = CSave \/ b = CStep true -> snd (ssim_cmd (al_ssim i (Some 0) h sh) b) = Some (Panic 1900)) /\
  (forall i h sh b, b = CSave \/ b = CStep true -> snd (tsim_cmd (al_tsim i (Some 0) h sh) b) = Some (Panic 1900)).
Proof. repeat split; [apply lsim_zero_panics|apply csim_zero_panics|apply ssim_zero_panics|apply tsim_zero_panics]. Qed.

(* ---- recorded: alignment needs an aligned start (constructors do not reset the counters of
   the parts they are given): 5 nodes record step 2, the pre-stepped unit records nothing *)
Theorem C19_unaligned_start_diverges :
  let s := fst (calls csim_cmd misaligned_csim (walk_cmds [true; true; true])) in
  map nd_hist (csim_nodes s) = [[2]; [2]; [2]; [2]; [2]; []; []; []].
Proof. exact unaligned_start_diverges. Qed.

(* ---- the hypotheses are satisfiable / the statements are not vacuous *)
Example C19_example_walk :
  (* a speed-limited train with a conventional and a battery-electric unit, interval 3,
     7 accepted steps then a rejected one: 10 nodes, each with counter 8 and history [3; 6] *)
  let r := calls tsim_cmd (fresh_tsim (Some 3) [3; 2]) (walk_cmds [true;true;true;true;true;true;true;false;true]) in
  length (tsim_nodes (fst r)) = 10 /\ walked (Some 3) 7 = mk 8 (Some 3) [3; 6] /\
  all_are (mk 8 (Some 3) [3; 6]) (tsim_nodes (fst r)) /\ snd r = Some (Err 1901).
Proof. vm_compute. repeat split; repeat constructor. Qed.
Example C19_example_interval_one :
  map nd_hist (lsim_nodes (fst (calls lsim_cmd (fresh_lsim (Some 1) 3) (walk_cmds [true; true])))) =
  [[1; 1; 2]; [1; 1; 2]; [1; 1; 2]; [1; 1; 2]].
Proof. reflexivity. Qed.

Check C19_speed_limit_walk : forall si shape oks, okint si ->
  let r := calls tsim_cmd (fresh_tsim si shape) (walk_cmds oks) in
  all_are (walked si (nlead oks)) (tsim_nodes (fst r)) /\
  Forall (fun x => length (nd_hist x) = expected_len si (nlead oks)) (tsim_nodes (fst r)) /\
  snd r = walk_ret oks /\ tsim_shape (fst r) = shape.
